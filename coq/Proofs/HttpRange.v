(* Proofs about Model/HttpRange.v (C31). *)
From Coq Require Import List NArith Bool Lia Arith PeanoNat.
From Verif Require Import Lib.Hex Gen.Routes Model.HttpAuth Model.HttpRange.
Import ListNotations.
Local Open Scope N_scope.
Local Open Scope bool_scope.

(* =========================================================================
   C. read-test-write marshalling *)

Lemma mapM_map {A B C} (f : B -> option C) (g : A -> B) (h : A -> C) (l : list A) :
  (forall x, f (g x) = Some (h x)) -> mapM f (map g l) = Some (map h l).
Proof.
  intro H. induction l as [|x l IH]; simpl.
  - reflexivity.
  - rewrite H, IH. reflexivity.
Qed.

Lemma dec_enc_test x : dec_test (enc_test x) = Some (fst (fst x), snd (fst x), op_eq, snd x).
Proof. destruct x as [[o s] sp]. reflexivity. Qed.

Lemma dec_enc_write x : dec_write (enc_write x) = Some x.
Proof. destruct x as [o d]. reflexivity. Qed.

Lemma dec_enc_read x : dec_read (enc_read x) = Some x.
Proof. destruct x as [o s]. reflexivity. Qed.

Lemma dec_enc_twv e : dec_twv (CUInt (fst e), enc_twv (snd e)) = Some (fst e, wire_of_twv (snd e)).
Proof.
  destruct e as [sh [ts ws nl]]. unfold dec_twv, enc_twv, get_array. simpl.
  rewrite (mapM_map dec_test enc_test (fun x => (fst (fst x), snd (fst x), op_eq, snd x)) ts dec_enc_test).
  rewrite (mapM_map dec_write enc_write (fun x => x) ws dec_enc_write).
  rewrite map_id. destruct nl; reflexivity.
Qed.

Lemma rtw_roundtrip_ok : forall r, decode_rtw (encode_rtw r) = Some (wire_form r).
Proof.
  intros [tw rv]. unfold decode_rtw, encode_rtw, get_array. simpl.
  rewrite (mapM_map dec_twv (fun e => (CUInt (fst e), enc_twv (snd e))) (fun e => (fst e, wire_of_twv (snd e))) tw dec_enc_twv).
  rewrite (mapM_map dec_read enc_read (fun x => x) rv dec_enc_read).
  rewrite map_id. reflexivity.
Qed.

Lemma dec_enc_reads e : dec_reads (CUInt (fst e), CArray (map CBytes (snd e))) = Some e.
Proof.
  destruct e as [sh bs]. unfold dec_reads. simpl.
  rewrite (mapM_map dec_bytes CBytes (fun x => x) bs (fun x => eq_refl)). rewrite map_id. reflexivity.
Qed.

Lemma answer_roundtrip_ok : forall a, decode_answer (encode_answer a) = Some a.
Proof.
  intros [s d]. unfold decode_answer, encode_answer. simpl.
  rewrite (mapM_map dec_reads (fun e => (CUInt (fst e), CArray (map CBytes (snd e)))) (fun e => e) d dec_enc_reads).
  rewrite map_id. reflexivity.
Qed.

(* the wire form only adds the operator *)
Lemma wire_form_tests : forall r sh t,
  In (sh, t) (rq_tw r) -> In (sh, wire_of_twv t) (wr_tw (wire_form r)).
Proof.
  intros r sh t H. unfold wire_form. simpl. apply in_map_iff. exists (sh, t). split; [reflexivity | exact H].
Qed.

(* =========================================================================
   A. ranged reads *)

Lemma firstn_add {A} (a b : nat) (l : list A) :
  firstn (a + b) l = firstn a l ++ firstn b (skipn a l).
Proof.
  revert l. induction a as [|a IH]; intro l; simpl.
  - reflexivity.
  - destruct l as [|x l]; simpl.
    + rewrite firstn_nil. reflexivity.
    + rewrite IH. reflexivity.
Qed.

Lemma skipn_add {A} (a b : nat) (l : list A) : skipn (a + b) l = skipn b (skipn a l).
Proof.
  revert l. induction a as [|a IH]; intro l; simpl.
  - reflexivity.
  - destruct l as [|x l]; simpl.
    + rewrite skipn_nil. reflexivity.
    + apply IH.
Qed.

Lemma direct_read_app data s a b :
  direct_read data s a ++ direct_read data (s + a) b = direct_read data s (a + b).
Proof.
  unfold direct_read. rewrite !Nnat.N2Nat.inj_add. rewrite firstn_add. rewrite skipn_add. reflexivity.
Qed.

Lemma blen_direct_read data s a :
  s + a <= blen data -> blen (direct_read data s a) = a.
Proof.
  unfold blen, direct_read. intro H. rewrite firstn_length, skipn_length. lia.
Qed.

Lemma direct_read_clip data s a :
  blen data <= s + a -> direct_read data s a = direct_read data s (blen data - s).
Proof.
  unfold blen, direct_read. intro H.
  rewrite (firstn_all2 (n := N.to_nat a)); [|rewrite skipn_length; lia].
  rewrite (firstn_all2 (n := N.to_nat (N.of_nat (List.length data) - s))); [reflexivity|rewrite skipn_length; lia].
Qed.

Lemma direct_read_past data s a : blen data <= s -> direct_read data s a = [].
Proof.
  unfold blen, direct_read. intro H. rewrite skipn_all2; [apply firstn_nil | lia].
Qed.

Lemma produce_ok data chunk : 0 < chunk ->
  forall fuel start rem,
    0 < rem -> start + rem <= blen data -> (N.to_nat rem < fuel)%nat ->
    produce (direct_read data) chunk start rem fuel = Some (direct_read data start rem).
Proof.
  intro Hc. induction fuel as [|fuel IH]; intros start rem Hr Hb Hf; [lia|].
  cbn [produce].
  set (t := N.min rem chunk).
  assert (Ht : 0 < t /\ t <= rem) by (unfold t; lia).
  assert (Hl : blen (direct_read data start t) = t) by (apply blen_direct_read; lia).
  destruct (direct_read data start t) as [|x xs] eqn:E.
  - unfold blen in Hl. simpl in Hl. lia.
  - rewrite Hl.
    destruct (rem <? t) eqn:E1; [apply N.ltb_lt in E1; lia|].
    destruct (rem - t =? 0) eqn:E2.
    + apply N.eqb_eq in E2. assert (t = rem) by lia. subst t. rewrite <- E. f_equal. f_equal. lia.
    + apply N.eqb_neq in E2.
      rewrite IH; [|lia|lia|lia].
      rewrite <- E. rewrite direct_read_app. f_equal. f_equal. lia.
Qed.

Lemma range_read_ok : forall data chunk offset length,
  0 < chunk -> 0 < length ->
  http_read data chunk offset length = RData (direct_read data offset length).
Proof.
  intros data chunk offset length Hc Hl. unfold http_read, range_header.
  destruct (length =? 0) eqn:E0; [apply N.eqb_eq in E0; lia|].
  unfold read_range, parse_range.
  replace (offset + length - 1 + 1) with (offset + length) by lia.
  set (e := N.min (offset + length) (blen data)).
  destruct (e <=? offset) eqn:E1.
  - apply N.leb_le in E1. rewrite direct_read_past; [reflexivity | unfold e in E1; lia].
  - apply N.leb_gt in E1.
    rewrite produce_ok; [|exact Hc|lia|unfold e; lia|lia].
    assert (Hb : blen (direct_read data offset (e - offset)) = e - offset)
      by (apply blen_direct_read; unfold e; lia).
    destruct (length <? e - offset) eqn:E2; [apply N.ltb_lt in E2; unfold e in E2; lia|].
    rewrite Hb. rewrite N.eqb_refl. simpl. f_equal.
    destruct (N.le_gt_cases (offset + length) (blen data)) as [H|H].
    + f_equal. unfold e. lia.
    + rewrite (direct_read_clip data offset length); [|lia]. f_equal. unfold e. lia.
Qed.

(* zero-length reads do not get through: the client refuses to build the Range header *)
Lemma zero_length_read_refuted_ok :
  exists data chunk offset,
    http_read data chunk offset 0 <> RData (direct_read data offset 0).
Proof. exists [1; 2; 3], 65536, 1. vm_compute. discriminate. Qed.

(* =========================================================================
   B. chunked immutable upload *)
Local Open Scope nat_scope.

Definition nslice (data : list N) (o l : nat) : list N := firstn l (skipn o data).

Lemma slice_nslice data c : slice data c = nslice data (N.to_nat (fst c)) (N.to_nat (snd c)).
Proof. reflexivity. Qed.

Lemma nth_firstn_lt {A} (l : list A) n p x : p < n -> nth p (firstn n l) x = nth p l x.
Proof.
  revert l p. induction n as [|n IH]; intros l p H; [lia|].
  destruct l as [|y l]; simpl; [destruct p; reflexivity|].
  destruct p as [|p]; [reflexivity|]. apply IH. lia.
Qed.

Lemma nth_skipn_add {A} (l : list A) n i x : nth i (skipn n l) x = nth (n + i) l x.
Proof.
  revert l. induction n as [|n IH]; intro l; simpl; [reflexivity|].
  destruct l as [|y l]; simpl; [destruct i; reflexivity|]. apply IH.
Qed.

Lemma nth_repeat_lt {A} (a d : A) n i : i < n -> nth i (repeat a n) d = a.
Proof.
  revert i. induction n as [|n IH]; intros i H; [lia|].
  destruct i as [|i]; simpl; [reflexivity|]. apply IH. lia.
Qed.

Lemma length_nslice data o l : o + l <= length data -> length (nslice data o l) = l.
Proof. intro H. unfold nslice. rewrite firstn_length, skipn_length. lia. Qed.

Lemma nth_nslice data o l i : i < l -> nth i (nslice data o l) 0%N = nth (o + i) data 0%N.
Proof. intro H. unfold nslice. rewrite nth_firstn_lt by exact H. apply nth_skipn_add. Qed.

Lemma length_splice {A} (l d : list A) off :
  off + length d <= length l -> length (splice l off d) = length l.
Proof.
  intro H. unfold splice. rewrite !app_length, firstn_length, skipn_length. lia.
Qed.

Lemma nth_splice {A} (l d : list A) off p x :
  off + length d <= length l ->
  nth p (splice l off d) x =
    if (off <=? p) && (p <? off + length d) then nth (p - off) d x else nth p l x.
Proof.
  intro H. unfold splice.
  assert (Hf : length (firstn off l) = off) by (rewrite firstn_length; lia).
  destruct (off <=? p) eqn:E1; simpl.
  - apply Nat.leb_le in E1. rewrite app_nth2 by lia. rewrite Hf.
    destruct (p <? off + length d) eqn:E2.
    + apply Nat.ltb_lt in E2. rewrite app_nth1 by lia. reflexivity.
    + apply Nat.ltb_ge in E2. rewrite app_nth2 by lia. rewrite nth_skipn_add. f_equal. lia.
  - apply Nat.leb_gt in E1. rewrite app_nth1 by lia. apply nth_firstn_lt. exact E1.
Qed.

Lemma conflicts_false ms xs ys :
  (forall i, i < length ys -> nth i ms false = true -> nth i xs 0%N = nth i ys 0%N) ->
  conflicts ms xs ys = false.
Proof.
  revert xs ys. induction ms as [|m ms IH]; intros xs ys H; simpl; [reflexivity|].
  destruct xs as [|x xs]; [reflexivity|]. destruct ys as [|y ys]; [reflexivity|].
  apply orb_false_intro.
  - destruct m; simpl; [|reflexivity].
    specialize (H 0 ltac:(simpl; lia) eq_refl). simpl in H. subst. rewrite N.eqb_refl. reflexivity.
  - apply IH. intros i Hi Hm. apply (H (S i)); simpl; [lia | exact Hm].
Qed.

Lemma forallb_id_nth (l : list bool) :
  forallb (fun b => b) l = true <-> forall p, p < length l -> nth p l false = true.
Proof.
  induction l as [|b l IH]; simpl.
  - split; [intros _ p H; lia | reflexivity].
  - rewrite andb_true_iff, IH. split.
    + intros [Hb H] p Hp. destruct p; [exact Hb | apply H; lia].
    + intro H. split; [apply (H 0); lia | intros p Hp; apply (H (S p)); lia].
Qed.

(* the state of a writer that received, in some order, the slices of `data` given by `cov` *)
Record Inv (data : list N) (cov : nat -> Prop) (w : bw) : Prop := mk_inv {
  inv_len_d : length (bw_data w) = length data;
  inv_len_m : length (bw_mask w) = length data;
  inv_mask : forall p, p < length data -> (nth p (bw_mask w) false = true <-> cov p);
  inv_data : forall p, p < length data ->
             nth p (bw_data w) 0%N = if nth p (bw_mask w) false then nth p data 0%N else 0%N }.

Lemma Inv_ext data cov cov' w :
  Inv data cov w -> (forall p, p < length data -> (cov p <-> cov' p)) -> Inv data cov' w.
Proof.
  intros [A B C D] H. constructor; try assumption.
  intros p Hp. rewrite (C p Hp). apply H. exact Hp.
Qed.

Lemma Inv_unique data cov w1 w2 : Inv data cov w1 -> Inv data cov w2 -> w1 = w2.
Proof.
  intros [A1 B1 C1 D1] [A2 B2 C2 D2]. destruct w1 as [d1 m1], w2 as [d2 m2]. simpl in *.
  assert (Hm : m1 = m2).
  { apply (nth_ext m1 m2 false false); [congruence|].
    intros p Hp. rewrite B1 in Hp.
    destruct (nth p m1 false) eqn:E1; destruct (nth p m2 false) eqn:E2; try reflexivity.
    - apply (C1 p Hp) in E1. apply (C2 p Hp) in E1. congruence.
    - apply (C2 p Hp) in E2. apply (C1 p Hp) in E2. congruence. }
  subst m2. f_equal.
  apply (nth_ext d1 d2 0%N 0%N); [congruence|].
  intros p Hp. rewrite A1 in Hp. rewrite (D1 p Hp), (D2 p Hp). reflexivity.
Qed.

Lemma Inv_new data : Inv data (fun _ => False) (bw_new (blen data)).
Proof.
  unfold bw_new, blen. rewrite Nnat.Nat2N.id. constructor; simpl.
  - apply repeat_length.
  - apply repeat_length.
  - intros p Hp. rewrite nth_repeat_lt by exact Hp. split; [discriminate | contradiction].
  - intros p Hp. rewrite !nth_repeat_lt by exact Hp. reflexivity.
Qed.

Lemma write_step data cov w o l :
  Inv data cov w -> o + l <= length data ->
  exists w', bw_write_at w o (nslice data o l) = WOk w' (bw_finished w')
          /\ Inv data (fun p => cov p \/ (o <= p < o + l)) w'.
Proof.
  intros [A B C D] H.
  assert (Hl : length (nslice data o l) = l) by (apply length_nslice; exact H).
  unfold bw_write_at.
  rewrite conflicts_false.
  2:{ intros i Hi Hm. rewrite Hl in Hi. rewrite nth_skipn_add in Hm. rewrite nth_skipn_add.
      rewrite nth_nslice by exact Hi. rewrite D by lia. rewrite Hm. reflexivity. }
  unfold bw_size. rewrite B, Hl.
  destruct (length data <? o + l) eqn:E; [apply Nat.ltb_lt in E; lia|].
  eexists. split; [reflexivity|].
  constructor; simpl.
  - rewrite length_splice; [exact A | rewrite Hl, A; exact H].
  - rewrite length_splice; [exact B | rewrite repeat_length, B; exact H].
  - intros p Hp. rewrite nth_splice by (rewrite repeat_length, B; exact H). rewrite repeat_length.
    destruct ((o <=? p) && (p <? o + l)) eqn:E2.
    + apply andb_prop in E2. destruct E2 as [E3 E4]. apply Nat.leb_le in E3. apply Nat.ltb_lt in E4.
      rewrite nth_repeat_lt by lia. split; [intros _; right; lia | reflexivity].
    + rewrite (C p Hp). split; [intro; left; assumption|].
      intros [Hc|Hr]; [exact Hc|].
      apply andb_false_iff in E2. destruct E2 as [E2|E2];
        [apply Nat.leb_gt in E2 | apply Nat.ltb_ge in E2]; lia.
  - intros p Hp.
    rewrite nth_splice by (rewrite Hl, A; exact H).
    rewrite nth_splice by (rewrite repeat_length, B; exact H).
    rewrite Hl, repeat_length.
    destruct ((o <=? p) && (p <? o + l)) eqn:E2.
    + apply andb_prop in E2. destruct E2 as [E3 E4]. apply Nat.leb_le in E3. apply Nat.ltb_lt in E4.
      rewrite nth_repeat_lt by lia. rewrite nth_nslice by lia. f_equal. lia.
    + apply D. exact Hp.
Qed.

Definition covn (chunks : list (N * N)) (p : nat) : Prop :=
  exists c, In c chunks /\ N.to_nat (fst c) <= p < N.to_nat (fst c) + N.to_nat (snd c).

Lemma chunk_ok_nat data c :
  chunk_ok (blen data) c -> N.to_nat (fst c) + N.to_nat (snd c) <= length data /\ 0 < N.to_nat (snd c).
Proof. unfold chunk_ok, blen. intros [H1 H2]. lia. Qed.

Lemma direct_upload_inv data : forall chunks cov w,
  Inv data cov w -> Forall (chunk_ok (blen data)) chunks ->
  exists w', direct_upload data chunks w = Some w' /\ Inv data (fun p => cov p \/ covn chunks p) w'.
Proof.
  induction chunks as [|c r IH]; intros cov w HI HF; simpl.
  - exists w. split; [reflexivity|]. eapply Inv_ext; [exact HI|].
    intros p _. split; [intro; left; assumption | intros [H|[c [[] _]]]; exact H].
  - inversion HF as [|c' r' Hc Hr]; subst.
    destruct (chunk_ok_nat _ _ Hc) as [Hb _].
    unfold bw_write. rewrite slice_nslice.
    destruct (write_step data cov w _ _ HI Hb) as [w1 [E I1]]. rewrite E.
    destruct (IH _ w1 I1 Hr) as [w' [E' I']]. exists w'. split; [exact E'|].
    eapply Inv_ext; [exact I'|]. intros p _. unfold covn. split.
    + intros [[H|H]|[c0 [Hin Hp]]].
      * left; exact H.
      * right. exists c. split; [left; reflexivity | exact H].
      * right. exists c0. split; [right; exact Hin | exact Hp].
    + intros [H|[c0 [[->|Hin] Hp]]].
      * left; left; exact H.
      * left; right; exact Hp.
      * right. exists c0. split; assumption.
Qed.

Lemma nslice_nil_iff data o l : o + l <= length data -> (nslice data o l = [] <-> l = 0).
Proof.
  intro H. split.
  - intro E. apply (f_equal (@length N)) in E. rewrite length_nslice in E by exact H. exact E.
  - intros ->. reflexivity.
Qed.

Lemma firstn_nslice data o l c : firstn c (nslice data o l) = nslice data o (Nat.min c l).
Proof. unfold nslice. apply firstn_firstn. Qed.

Lemma skipn_nslice data o l c :
  o + l <= length data ->
  skipn c (nslice data o l) = nslice data (o + Nat.min c l) (l - Nat.min c l).
Proof.
  intro H. unfold nslice. rewrite skipn_firstn_comm.
  destruct (Nat.le_gt_cases c l) as [Hc|Hc].
  - rewrite Nat.min_l by exact Hc. rewrite skipn_add. reflexivity.
  - rewrite Nat.min_r by lia. replace (l - c) with 0 by lia. replace (l - l) with 0 by lia. reflexivity.
Qed.

Lemma patch_loop_inv data chunk : 0 < chunk ->
  forall fuel l o w cov fin,
    Inv data cov w -> o + l <= length data -> l < fuel ->
    (l = 0 -> fin = bw_finished w) ->
    exists w', patch_loop w chunk o (nslice data o l) fin fuel
               = PDone (if bw_finished w' then 201%N else 200%N) w' (required_ranges w')
            /\ Inv data (fun p => cov p \/ (o <= p < o + l)) w'.
Proof.
  intro Hc. induction fuel as [|fuel IH]; intros l o w cov fin HI Hb Hf Hfin; [lia|].
  cbn [patch_loop].
  destruct (Nat.eq_dec l 0) as [->|Hl].
  - simpl. exists w. split; [rewrite (Hfin eq_refl); reflexivity|].
    eapply Inv_ext; [exact HI|]. intros p _. split; [intro; left; assumption | intros [H|H]; [exact H | lia]].
  - destruct (nslice data o l) as [|x xs] eqn:E.
    { apply nslice_nil_iff in E; [contradiction | exact Hb]. }
    rewrite <- E. rewrite firstn_nslice.
    set (l1 := Nat.min chunk l).
    assert (H1 : 0 < l1 /\ l1 <= l) by (unfold l1; lia).
    destruct (write_step data cov w o l1 HI ltac:(lia)) as [w1 [Ew I1]]. rewrite Ew.
    rewrite length_nslice by lia. rewrite skipn_nslice by exact Hb. fold l1.
    destruct (IH (l - l1) (o + l1) w1 _ (bw_finished w1) I1 ltac:(lia) ltac:(lia) (fun _ => eq_refl)) as [w' [E' I']].
    exists w'. split; [exact E'|].
    eapply Inv_ext; [exact I'|]. intros p _. split.
    + intros [[H|H]|H]; [left; exact H | right; lia | right; lia].
    + intros [H|H]; [left; left; exact H|].
      destruct (Nat.lt_ge_cases p (o + l1)); [left; right; lia | right; lia].
Qed.

Lemma patch_inv data chunk cov w c :
  (0 < chunk)%N -> Inv data cov w -> chunk_ok (blen data) c ->
  exists w', patch w chunk (fst c) (slice data c)
             = PDone (if bw_finished w' then 201%N else 200%N) w' (required_ranges w')
          /\ Inv data (fun p => cov p \/ (N.to_nat (fst c) <= p < N.to_nat (fst c) + N.to_nat (snd c))) w'.
Proof.
  intros Hc HI Hok. destruct (chunk_ok_nat _ _ Hok) as [Hb Hpos].
  unfold patch. rewrite slice_nslice.
  destruct (nslice data (N.to_nat (fst c)) (N.to_nat (snd c))) as [|x xs] eqn:E.
  { apply nslice_nil_iff in E; [lia | exact Hb]. }
  rewrite <- E. rewrite length_nslice by exact Hb.
  apply patch_loop_inv; try assumption; lia.
Qed.

Lemma http_upload_inv data chunk : (0 < chunk)%N -> forall chunks cov w last,
  Inv data cov w -> Forall (chunk_ok (blen data)) chunks ->
  exists w' code, http_upload data chunk chunks w last = Some (w', code)
    /\ Inv data (fun p => cov p \/ covn chunks p) w'
    /\ (chunks = [] -> code = last)
    /\ (chunks <> [] -> code = if bw_finished w' then 201%N else 200%N).
Proof.
  intro Hc. induction chunks as [|c r IH]; intros cov w last HI HF; simpl.
  - exists w, last. split; [reflexivity|]. split; [|split; [reflexivity | congruence]].
    eapply Inv_ext; [exact HI|].
    intros p _. split; [intro; left; assumption | intros [H|[c [[] _]]]; exact H].
  - inversion HF as [|c' r' Hok Hr]; subst.
    destruct (patch_inv data chunk cov w c Hc HI Hok) as [w1 [E I1]]. rewrite E.
    destruct (IH _ w1 (if bw_finished w1 then 201%N else 200%N) I1 Hr) as [w' [code [E' [I' [Hnil Hcons]]]]].
    exists w', code. split; [exact E'|]. split; [|split; [discriminate|]].
    + eapply Inv_ext; [exact I'|]. intros p _. unfold covn. split.
      * intros [[H|H]|[c0 [Hin Hp]]].
        -- left; exact H.
        -- right. exists c. split; [left; reflexivity | exact H].
        -- right. exists c0. split; [right; exact Hin | exact Hp].
      * intros [H|[c0 [[->|Hin] Hp]]].
        -- left; left; exact H.
        -- left; right; exact Hp.
        -- right. exists c0. split; assumption.
    + intros _. destruct r as [|c2 r2].
      * specialize (Hnil eq_refl). simpl in E'. inversion E'; subst. reflexivity.
      * apply Hcons. discriminate.
Qed.

Lemma finished_iff_covered data chunks w :
  Inv data (fun p => False \/ covn chunks p) w ->
  (bw_finished w = true <-> forall p : N, (p < blen data)%N -> covered chunks p).
Proof.
  intros [A B C D]. unfold bw_finished. rewrite forallb_id_nth. rewrite B. split.
  - intros H p Hp. unfold blen in Hp.
    specialize (H (N.to_nat p) ltac:(lia)). apply C in H; [|lia].
    destruct H as [[]|[c [Hin Hr]]]. exists c. split; [exact Hin|]. lia.
  - intros H p Hp. apply C; [exact Hp|]. right.
    destruct (H (N.of_nat p) ltac:(unfold blen; lia)) as [c [Hin Hr]].
    exists c. split; [exact Hin|]. lia.
Qed.

Lemma finished_data data cov w : Inv data cov w -> bw_finished w = true -> bw_data w = data.
Proof.
  intros [A B C D] H. unfold bw_finished in H. rewrite forallb_id_nth in H. rewrite B in H.
  apply (nth_ext _ _ 0%N 0%N); [exact A|].
  intros p Hp. rewrite A in Hp. rewrite (D p Hp). rewrite (H p Hp). reflexivity.
Qed.

Lemma chunked_upload_ok : forall data chunk chunks,
  (0 < chunk)%N -> Forall (chunk_ok (blen data)) chunks ->
  exists w code,
    http_upload data chunk chunks (bw_new (blen data)) 0%N = Some (w, code)
    /\ direct_upload data chunks (bw_new (blen data)) = Some w
    /\ (bw_finished w = true <-> forall p : N, (p < blen data)%N -> covered chunks p)
    /\ (chunks <> [] -> (code = 201%N <-> bw_finished w = true) /\ (code = 200%N <-> bw_finished w = false))
    /\ (bw_finished w = true -> bw_data w = data /\ bw_write (bw_new (blen data)) 0%N data = WOk w true).
Proof.
  intros data chunk chunks Hc HF.
  destruct (http_upload_inv data chunk Hc chunks _ _ 0%N (Inv_new data) HF) as [w [code [E [I [_ Hcode]]]]].
  destruct (direct_upload_inv data chunks _ _ (Inv_new data) HF) as [w2 [E2 I2]].
  assert (w2 = w) by (eapply Inv_unique; eassumption). subst w2.
  exists w, code. split; [exact E|]. split; [exact E2|]. split; [apply finished_iff_covered; exact I|].
  split.
  - intro Hne. rewrite (Hcode Hne). destruct (bw_finished w); split; split; intro; try reflexivity; discriminate.
  - intro Hfin. split; [eapply finished_data; eassumption|].
    destruct (write_step data _ _ 0 (length data) (Inv_new data) ltac:(lia)) as [w1 [E1 I1]].
    assert (Hs : nslice data 0 (length data) = data) by (unfold nslice; simpl; apply firstn_all).
    rewrite Hs in E1. unfold bw_write. simpl.
    assert (w1 = w).
    { eapply Inv_unique; [exact I1|]. eapply Inv_ext; [exact I|].
      intros p Hp. split; [intros _; right; lia|]. intros _.
      destruct I as [A B C D]. apply C; [exact Hp|].
      unfold bw_finished in Hfin. rewrite forallb_id_nth in Hfin. apply Hfin. rewrite B. exact Hp. }
    subst w1. rewrite E1. rewrite Hfin. reflexivity.
Qed.

(* a refused later piece leaves the earlier pieces written: pieces of 2 bytes, "abcd" at 0
   onto a writer that holds "x" at position 3 *)
Lemma multi_piece_write_not_atomic_ok :
  bw_write ex_partial_writer 0%N [97; 98; 99; 100]%N = WConflict
  /\ patch ex_partial_writer 2%N 0%N [97; 98; 99; 100]%N
     = PStatus 409%N (mk_bw [97; 98; 0; 120]%N [true; true; false; true]).
Proof. split; vm_compute; reflexivity. Qed.

(* an empty chunk: fine directly, never accepted over HTTP *)
Lemma zero_length_write_refuted_ok :
  exists w offset,
    bw_write w offset [] = WOk w false /\ patch w 65536%N offset [] = PStatus 416%N w.
Proof. exists (bw_new 4), 2%N. split; vm_compute; reflexivity. Qed.

From Coq Require Import String.
Local Open Scope string_scope.

Lemma c31_pins_ok :
  (pin_read_range, pin_ReadRangeProducer, pin_client_read_share_chunk,
   pin_client_StorageClientImmutables_write_share_chunk, pin_client_StorageClientMutables_read_test_write_chunks,
   pin_client_TestWriteVectors, pin_client_TestVector, pin_client_WriteVector, pin_client_ReadVector,
   pin_adapter_HTTPStorageServer_slot_testv_and_readv_and_writev)
  = ("cf46a10d19dc827d", "9b962d13cea9bff2", "125c1a01adb0073a",
     "39e1e83d939d600b", "f1f7dc99fffdc23e",
     "3c4ee4bcf219819d", "3479fb1930b5f4d8", "8cd930af4d45c2a1", "200e4ff3038aaeef",
     "b05494584e250e54").
Proof. reflexivity. Qed.

Lemma c31_handler_pins_ok :
  (handler_pin "write_share_data", handler_pin "mutable_read_test_write", handler_pin "read_share_chunk",
   handler_pin "read_mutable_chunk")
  = ("360860dc48965e6f", "4cc5d1b98b169ffd", "876381b2aa58299d", "b54b07f5d73477d2").
Proof. vm_compute. reflexivity. Qed.
