(* C42  Proofs about Model/BackupDB.v: association lists, the invariant that
   ties the tables to the history, the file-reuse lemma. *)
From Coq Require Import List NArith ZArith Bool Lia.
From Verif Require Import Lib.Hex Lib.Netstring Lib.NetstringFacts Model.BackupDB.
Import ListNotations.
Local Open Scope N_scope.
Local Open Scope bool_scope.

(* ---- association lists --------------------------------------------------- *)
Section AssocFacts.
  Context {K V : Type}.
  Variable keqb : K -> K -> bool.
  Hypothesis keqb_eq : forall a b, keqb a b = true <-> a = b.

  Lemma keqb_refl a : keqb a a = true.
  Proof. apply keqb_eq. reflexivity. Qed.

  Lemma keqb_neq a b : a <> b -> keqb a b = false.
  Proof. intro H. destruct (keqb a b) eqn:E; [|reflexivity]. apply keqb_eq in E. contradiction. Qed.

  Lemma alookup_aset_same k (v : V) l : alookup keqb k (aset keqb k v l) = Some v.
  Proof.
    induction l as [|[k' v'] l IH]; simpl.
    - rewrite keqb_refl. reflexivity.
    - destruct (keqb k k') eqn:E; simpl; rewrite E; [reflexivity|exact IH].
  Qed.

  Lemma alookup_aset_other k k' (v : V) l : k <> k' -> alookup keqb k (aset keqb k' v l) = alookup keqb k l.
  Proof.
    intro Hne. induction l as [|[k2 v2] l IH]; simpl.
    - rewrite (keqb_neq _ _ Hne). reflexivity.
    - destruct (keqb k' k2) eqn:E; simpl.
      + apply keqb_eq in E. subst k2. rewrite (keqb_neq _ _ Hne). reflexivity.
      + destruct (keqb k k2); [reflexivity|exact IH].
  Qed.

  Lemma alookup_adel k k' (x : V) l : alookup keqb k (adel keqb k' l) = Some x -> alookup keqb k l = Some x.
  Proof.
    induction l as [|[k2 v2] l IH]; simpl; [discriminate|].
    destruct (keqb k' k2) eqn:E.
    - intro H. specialize (IH H). destruct (keqb k k2) eqn:E2; [|exact IH].
      (* k = k2 = k': the row was deleted, so the lookup after deletion cannot see it... *)
      apply keqb_eq in E. apply keqb_eq in E2. subst.
      exfalso. clear IH. revert H. clear. induction l as [|[k3 v3] l IH]; simpl; [discriminate|].
      destruct (keqb k2 k3) eqn:E; [exact IH|]. simpl. rewrite E. exact IH.
    - simpl. destruct (keqb k k2); [auto|exact IH].
  Qed.

  Lemma alookup_app_some k (v : V) l r : alookup keqb k l = Some v -> alookup keqb k (l ++ r) = Some v.
  Proof.
    induction l as [|[k2 v2] l IH]; simpl; [discriminate|].
    destruct (keqb k k2); auto.
  Qed.

  Lemma alookup_app_none k l (r : list (K * V)) : alookup keqb k l = None -> alookup keqb k (l ++ r) = alookup keqb k r.
  Proof.
    induction l as [|[k2 v2] l IH]; simpl; [reflexivity|].
    destruct (keqb k k2); [discriminate|auto].
  Qed.
End AssocFacts.

Lemma N_eqb_iff a b : N.eqb a b = true <-> a = b.
Proof. apply N.eqb_eq. Qed.

Lemma bytes_eqb_iff (a b : bytes) : list_N_eqb a b = true <-> a = b.
Proof. apply list_N_eqb_eq. Qed.

Lemma bytes_eqb_sym (a b : bytes) : list_N_eqb a b = list_N_eqb b a.
Proof.
  destruct (list_N_eqb a b) eqn:E1, (list_N_eqb b a) eqn:E2; try reflexivity.
  - apply list_N_eqb_eq in E1. subst. rewrite (proj2 (list_N_eqb_eq b b) eq_refl) in E2. discriminate.
  - apply list_N_eqb_eq in E2. subst. rewrite (proj2 (list_N_eqb_eq a a) eq_refl) in E1. discriminate.
Qed.

(* ---- caps: fileid <-> filecap -------------------------------------------- *)
Lemma find_fileid_app c l n c0 :
  find_fileid c (l ++ [(n, c0)]) =
  match find_fileid c l with
  | Some i => Some i
  | None => if list_N_eqb c c0 then Some n else None
  end.
Proof.
  induction l as [|[i ci] l IH]; simpl; [reflexivity|].
  destruct (list_N_eqb c ci); [reflexivity|exact IH].
Qed.

Definition caps_ok (d : db) : Prop :=
  (forall c i, find_fileid c (caps d) = Some i -> alookup N.eqb i (caps d) = Some c) /\
  (forall i c, alookup N.eqb i (caps d) = Some c -> i < next_fileid d).

Lemma get_or_allocate_spec d filecap :
  caps_ok d ->
  let d1 := fst (get_or_allocate_fileid_for_cap d filecap) in
  let fid := snd (get_or_allocate_fileid_for_cap d filecap) in
  caps_ok d1 /\ local_files d1 = local_files d /\ last_upload d1 = last_upload d /\ directories d1 = directories d /\
  alookup N.eqb fid (caps d1) = Some filecap /\
  (forall i c, alookup N.eqb i (caps d) = Some c -> alookup N.eqb i (caps d1) = Some c).
Proof.
  intros [C1 C2]. unfold get_or_allocate_fileid_for_cap.
  destruct (find_fileid filecap (caps d)) as [i|] eqn:Ef; unfold caps_ok; simpl.
  - repeat split; auto.
  - assert (Hnone : alookup N.eqb (next_fileid d) (caps d) = None).
    { destruct (alookup N.eqb (next_fileid d) (caps d)) as [c|] eqn:E; [|reflexivity].
      apply C2 in E. lia. }
    repeat split; auto.
    + intros c i H. rewrite find_fileid_app in H.
      destruct (find_fileid c (caps d)) as [i'|] eqn:E.
      * inversion H; subst. apply alookup_app_some. apply C1. exact E.
      * destruct (list_N_eqb c filecap) eqn:Ec; [|discriminate]. inversion H; subst.
        apply list_N_eqb_eq in Ec. subst.
        rewrite (alookup_app_none N.eqb _ _ _ Hnone). simpl. rewrite N.eqb_refl. reflexivity.
    + intros i c H.
      destruct (alookup N.eqb i (caps d)) as [c'|] eqn:E.
      * apply C2 in E. lia.
      * rewrite (alookup_app_none N.eqb _ _ _ E) in H. simpl in H.
        destruct (i =? next_fileid d) eqn:E2; [|discriminate]. apply N.eqb_eq in E2. lia.
    + rewrite (alookup_app_none N.eqb _ _ _ Hnone). simpl. rewrite N.eqb_refl. reflexivity.
    + intros i c H. apply alookup_app_some. exact H.
Qed.

(* ---- the history-level specification functions --------------------------- *)
Section History.
  Variable dirkey : bytes -> bytes.

  (* the dircap most recently recorded under a given directories key *)
  Definition upd_dir_create (key : bytes) (acc : option bytes) (o : op) : option bytes :=
    match o with
    | ODidCreateDir dircap c' _ => if list_N_eqb (dirkey (dir_data c')) key then Some dircap else acc
    | ODidCreateDirRaw dircap dh _ => if list_N_eqb dh key then Some dircap else acc
    | _ => acc
    end.
  Definition last_dir_create (h : list op) (key : bytes) : option bytes :=
    fold_left (upd_dir_create key) h None.

  Lemma last_upload_of_snoc h o path :
    last_upload_of (h ++ [o]) path = upd_last_upload path (last_upload_of h path) o.
  Proof. unfold last_upload_of. rewrite fold_left_app. reflexivity. Qed.

  Lemma last_dir_create_snoc h o key :
    last_dir_create (h ++ [o]) key = upd_dir_create key (last_dir_create h key) o.
  Proof. unfold last_dir_create. rewrite fold_left_app. reflexivity. Qed.

  Lemma run_snoc : forall h d o, run dirkey d (h ++ [o]) = fst (step dirkey (run dirkey d h) o).
  Proof.
    induction h as [|x h IH]; intros d o; simpl; [reflexivity|]. apply IH.
  Qed.

  Definition dircap_of (r : option dir_row) : option bytes := option_map (fun x : dir_row => fst (fst x)) r.

  Record inv (h : list op) (d : db) : Prop := mkInv {
    inv_caps : caps_ok d;
    inv_files : forall path sz mt ct fid,
        alookup list_N_eqb path (local_files d) = Some (sz, mt, ct, fid) ->
        exists cap, last_upload_of h path = Some (cap, sz, mt, ct) /\ alookup N.eqb fid (caps d) = Some cap;
    inv_dirs : forall key, dircap_of (alookup list_N_eqb key (directories d)) = last_dir_create h key
  }.

  Lemma inv_empty : inv [] empty_db.
  Proof.
    constructor.
    - split; simpl; intros; discriminate.
    - simpl. intros; discriminate.
    - intro key. reflexivity.
  Qed.

  (* an operation that records no upload and no directory, may delete local_files
     rows and may extend caps *)
  Lemma inv_weaken h d o d' :
    inv h d ->
    (forall path, upd_last_upload path (last_upload_of h path) o = last_upload_of h path) ->
    (forall key, upd_dir_create key (last_dir_create h key) o = last_dir_create h key) ->
    caps_ok d' ->
    (forall i c, alookup N.eqb i (caps d) = Some c -> alookup N.eqb i (caps d') = Some c) ->
    (forall path x, alookup list_N_eqb path (local_files d') = Some x -> alookup list_N_eqb path (local_files d) = Some x) ->
    (forall key, dircap_of (alookup list_N_eqb key (directories d')) = dircap_of (alookup list_N_eqb key (directories d))) ->
    inv (h ++ [o]) d'.
  Proof.
    intros I Hu Hd Hc Hcaps Hf Hdirs. constructor.
    - exact Hc.
    - intros path sz mt ct fid H. apply Hf in H.
      destruct (inv_files h d I path sz mt ct fid H) as (cap & H1 & H2).
      exists cap. rewrite last_upload_of_snoc, Hu. split; [exact H1|]. apply Hcaps. exact H2.
    - intro key. rewrite last_dir_create_snoc, Hd, Hdirs. apply (inv_dirs h d I).
  Qed.

  Lemma check_file_db d path ts sz mt ct now rnd :
    fst (check_file d path ts sz mt ct now rnd) = d \/
    fst (check_file d path ts sz mt ct now rnd) = set_local_files d (adel list_N_eqb path (local_files d)).
  Proof.
    unfold check_file.
    destruct (alookup list_N_eqb path (local_files d)) as [[[[ls lm] lc] lf]|]; [|left; reflexivity].
    destruct (alookup N.eqb lf (caps d)) as [fc|]; [|right; reflexivity].
    destruct (alookup N.eqb lf (last_upload d)) as [[lu lch]|]; [|right; reflexivity].
    destruct (negb (ls =? sz) || negb ts || negb (lm =? mt) || negb (lc =? ct)); [right|left]; reflexivity.
  Qed.

  Lemma alookup_dirs_healthy key dircap now l :
    dircap_of (alookup list_N_eqb key
      (map (fun '(h, (c, lu, lc)) => if list_N_eqb c dircap then (h, (c, lu, now)) else (h, (c, lu, lc))) l))
    = dircap_of (alookup list_N_eqb key l).
  Proof.
    induction l as [|[k [[c lu] lc]] l IH]; simpl; [reflexivity|].
    destruct (list_N_eqb c dircap); simpl; destruct (list_N_eqb key k); simpl; auto.
  Qed.

  Lemma inv_step h d o : inv h d -> inv (h ++ [o]) (fst (step dirkey d o)).
  Proof.
    intro I. destruct o as [path ts sz mt ct now rnd | filecap path mt ct sz now | filecap now
                            | contents now rnd | dircap contents now | dircap dh now | dircap now ]; simpl.
    - (* check_file *)
      assert (E : fst (let '(d', r) := check_file d path ts sz mt ct now rnd in
                       (d', ObsFile (was_uploaded r) (fr_should_check r) (fr_path r) (fr_mtime r) (fr_ctime r) (fr_size r)))
                  = fst (check_file d path ts sz mt ct now rnd)).
      { destruct (check_file d path ts sz mt ct now rnd). reflexivity. }
      rewrite E. clear E.
      destruct (check_file_db d path ts sz mt ct now rnd) as [E|E]; rewrite E.
      + apply (inv_weaken h d _ d I); auto. apply (inv_caps h d I).
      + apply (inv_weaken h d _ _ I); auto.
        * apply (inv_caps h d I).
        * simpl. intros p x H. eapply alookup_adel; [apply bytes_eqb_iff|exact H].
    - (* did_upload_file *)
      unfold did_upload_file.
      pose proof (get_or_allocate_spec d filecap (inv_caps h d I)) as G. simpl in G.
      destruct (get_or_allocate_fileid_for_cap d filecap) as [d1 fid]. simpl in G.
      destruct G as (G1 & G2 & G3 & G4 & G5 & G6).
      constructor.
      + exact G1.
      + simpl. intros p sz' mt' ct' fid' H. rewrite last_upload_of_snoc. simpl.
        destruct (list_N_eqb path p) eqn:Ep.
        * apply list_N_eqb_eq in Ep. subst p.
          rewrite (alookup_aset_same list_N_eqb bytes_eqb_iff) in H. inversion H; subst.
          exists filecap. split; [reflexivity|exact G5].
        * assert (p <> path) by (intro; subst; rewrite (proj2 (list_N_eqb_eq path path) eq_refl) in Ep; discriminate).
          rewrite (alookup_aset_other list_N_eqb bytes_eqb_iff) in H by assumption.
          rewrite G2 in H.
          destruct (inv_files h d I p sz' mt' ct' fid' H) as (cap & H1 & H2).
          exists cap. split; [exact H1|]. apply G6. exact H2.
      + simpl. intro key. rewrite last_dir_create_snoc. simpl. rewrite G4. apply (inv_dirs h d I).
    - (* did_check_file_healthy *)
      unfold did_check_file_healthy.
      pose proof (get_or_allocate_spec d filecap (inv_caps h d I)) as G. simpl in G.
      destruct (get_or_allocate_fileid_for_cap d filecap) as [d1 fid]. simpl in G.
      destruct G as (G1 & G2 & G3 & G4 & G5 & G6).
      destruct (alookup N.eqb fid (last_upload d1)) as [[lu lc]|].
      + apply (inv_weaken h d _ _ I); auto; simpl.
        * intros p x H. rewrite G2 in H. exact H.
        * intro key. rewrite G4. reflexivity.
      + apply (inv_weaken h d _ _ I); auto.
        * intros p x H. rewrite G2 in H. exact H.
        * intro key. rewrite G4. reflexivity.
    - (* check_directory: no change *)
      apply (inv_weaken h d _ d I); auto. apply (inv_caps h d I).
    - (* r.did_create(dircap) for r = check_directory(contents) *)
      constructor.
      + apply (inv_caps h d I).
      + simpl. intros p sz' mt' ct' fid' H.
        destruct (inv_files h d I p sz' mt' ct' fid' H) as (cap & H1 & H2).
        exists cap. rewrite last_upload_of_snoc. simpl. auto.
      + simpl. intro key. rewrite last_dir_create_snoc. simpl.
        rewrite bytes_eqb_sym.
        destruct (list_N_eqb key (dirkey (dir_data contents))) eqn:Ek.
        * apply list_N_eqb_eq in Ek. subst key.
          rewrite (alookup_aset_same list_N_eqb bytes_eqb_iff). reflexivity.
        * assert (key <> dirkey (dir_data contents))
            by (intro; subst; rewrite (proj2 (list_N_eqb_eq _ _) eq_refl) in Ek; discriminate).
          rewrite (alookup_aset_other list_N_eqb bytes_eqb_iff) by assumption. apply (inv_dirs h d I).
    - (* did_create_directory called directly *)
      constructor.
      + apply (inv_caps h d I).
      + simpl. intros p sz' mt' ct' fid' H.
        destruct (inv_files h d I p sz' mt' ct' fid' H) as (cap & H1 & H2).
        exists cap. rewrite last_upload_of_snoc. simpl. auto.
      + simpl. intro key. rewrite last_dir_create_snoc. simpl.
        rewrite bytes_eqb_sym.
        destruct (list_N_eqb key dh) eqn:Ek.
        * apply list_N_eqb_eq in Ek. subst key.
          rewrite (alookup_aset_same list_N_eqb bytes_eqb_iff). reflexivity.
        * assert (key <> dh) by (intro; subst; rewrite (proj2 (list_N_eqb_eq _ _) eq_refl) in Ek; discriminate).
          rewrite (alookup_aset_other list_N_eqb bytes_eqb_iff) by assumption. apply (inv_dirs h d I).
    - (* did_check_directory_healthy *)
      apply (inv_weaken h d _ _ I); auto.
      + apply (inv_caps h d I).
      + simpl. intro key. apply alookup_dirs_healthy.
  Qed.

  Lemma inv_run : forall h, inv h (run dirkey empty_db h).
  Proof.
    intro h. induction h as [|o h IH] using rev_ind.
    - apply inv_empty.
    - rewrite run_snoc. apply inv_step. exact IH.
  Qed.

  (* ---- files -------------------------------------------------------------- *)
  Lemma truthy_cap_some c cap : truthy_cap c = Some cap -> c = Some cap.
  Proof. destruct c as [[|x l]|]; simpl; intro H; try discriminate; exact H. Qed.

  Lemma reuse_only_if_unchanged_lem :
    forall (h : list op) path use_timestamps size mtime ctime now rnd cap,
      was_uploaded (snd (check_file (run dirkey empty_db h) path use_timestamps size mtime ctime now rnd)) = Some cap ->
      use_timestamps = true /\ last_upload_of h path = Some (cap, size, mtime, ctime).
  Proof.
    intros h path ts sz mt ct now rnd cap H.
    pose proof (inv_run h) as I. set (d := run dirkey empty_db h) in *.
    unfold check_file in H.
    destruct (alookup list_N_eqb path (local_files d)) as [[[[ls lm] lc] lf]|] eqn:El; [|discriminate].
    destruct (inv_files h d I path ls lm lc lf El) as (cap' & H1 & H2).
    rewrite H2 in H.
    destruct (alookup N.eqb lf (last_upload d)) as [[lu lch]|]; [|discriminate].
    destruct (negb (ls =? sz) || negb ts || negb (lm =? mt) || negb (lc =? ct)) eqn:Ec; [discriminate|].
    assert (Hc : Some cap' = Some cap).
    { unfold was_uploaded in H. cbn [snd fr_filecap] in H. apply truthy_cap_some. exact H. }
    inversion Hc; subst cap'.
    apply orb_false_iff in Ec. destruct Ec as [Ec E4]. apply orb_false_iff in Ec. destruct Ec as [Ec E3].
    apply orb_false_iff in Ec. destruct Ec as [E1 E2].
    apply negb_false_iff in E1, E2, E3, E4.
    apply N.eqb_eq in E1, E3, E4. subst ls lm lc. split; [exact E2|exact H1].
  Qed.

  (* now and random() only feed should_check: neither the reuse decision nor the
     database depends on them *)
  Lemma reuse_independent_of_clock_lem d path ts sz mt ct now rnd now' rnd' :
    was_uploaded (snd (check_file d path ts sz mt ct now rnd)) = was_uploaded (snd (check_file d path ts sz mt ct now' rnd'))
    /\ fst (check_file d path ts sz mt ct now rnd) = fst (check_file d path ts sz mt ct now' rnd').
  Proof.
    unfold check_file.
    destruct (alookup list_N_eqb path (local_files d)) as [[[[ls lm] lc] lf]|]; [|split; reflexivity].
    destruct (alookup N.eqb lf (caps d)) as [fc|]; [|split; reflexivity].
    destruct (alookup N.eqb lf (last_upload d)) as [[lu lch]|]; [|split; reflexivity].
    destruct (negb (ls =? sz) || negb ts || negb (lm =? mt) || negb (lc =? ct)); split; reflexivity.
  Qed.

  (* should_check is only ever true together with a cap to check *)
  Lemma should_check_only_with_cap_lem d path ts sz mt ct now rnd :
    fr_should_check (snd (check_file d path ts sz mt ct now rnd)) = true ->
    fr_filecap (snd (check_file d path ts sz mt ct now rnd)) <> None.
  Proof.
    unfold check_file.
    destruct (alookup list_N_eqb path (local_files d)) as [[[[ls lm] lc] lf]|]; [|simpl; discriminate].
    destruct (alookup N.eqb lf (caps d)) as [fc|]; [|simpl; discriminate].
    destruct (alookup N.eqb lf (last_upload d)) as [[lu lch]|]; [|simpl; discriminate].
    destruct (negb (ls =? sz) || negb ts || negb (lm =? mt) || negb (lc =? ct)); simpl; intros; discriminate.
  Qed.

  (* ---- directories --------------------------------------------------------- *)
  Lemma dir_reuse_key_lem :
    forall (h : list op) contents now rnd cap,
      was_created (check_directory dirkey (run dirkey empty_db h) contents now rnd) = Some cap ->
      last_dir_create h (dirkey (dir_data contents)) = Some cap.
  Proof.
    intros h contents now rnd cap H.
    pose proof (inv_run h) as I. set (d := run dirkey empty_db h) in *.
    rewrite <- (inv_dirs h d I).
    unfold check_directory in H.
    destruct (alookup list_N_eqb (dirkey (dir_data contents)) (directories d)) as [[[dc lu] lc]|]; [|discriminate].
    unfold was_created in H. cbn [dr_dircap] in H. apply truthy_cap_some in H. inversion H. reflexivity.
  Qed.
End History.
