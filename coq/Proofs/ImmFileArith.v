(* Size arithmetic of immutable files: uploader and downloader derive the same
   numbers; share layout facts.  (Model/ImmFile.v) *)
From Coq Require Import List NArith ZArith Bool Lia.
Require Import ZifyBool ZifyNat ZifyN.
From Verif Require Import Gen.ImmConsts Model.ImmFile.
Import ListNotations.
Local Open Scope N_scope.

Ltac Zify.zify_post_hook ::= Z.to_euclidean_division_equations.

(* ---- div_ceil / next_multiple ------------------------------------------- *)
Lemma div_ceil_bounds n d : 1 <= d -> n <= div_ceil n d * d /\ div_ceil n d * d < n + d.
Proof.
  intros Hd. unfold div_ceil.
  pose proof (N.div_mod n d ltac:(lia)) as E.
  pose proof (N.mod_lt n d ltac:(lia)) as L.
  destruct (n mod d =? 0) eqn:Z0; nia.
Qed.

Lemma div_ceil_unique n d q : 1 <= d -> n <= q * d -> q * d < n + d -> div_ceil n d = q.
Proof.
  intros Hd H1 H2. pose proof (div_ceil_bounds n d Hd) as [B1 B2]. nia.
Qed.

Lemma div_ceil_mul a d : 1 <= d -> div_ceil (a * d) d = a.
Proof. intros. apply div_ceil_unique; nia. Qed.

Lemma div_ceil_add_mul a r d : 1 <= d -> div_ceil (a * d + r) d = a + div_ceil r d.
Proof.
  intros Hd. pose proof (div_ceil_bounds r d Hd) as [B1 B2].
  apply div_ceil_unique; nia.
Qed.

Lemma div_ceil_pos n d : 1 <= d -> 1 <= n -> 1 <= div_ceil n d.
Proof. intros Hd Hn. pose proof (div_ceil_bounds n d Hd). nia. Qed.

Lemma next_multiple_bounds n k : 1 <= k -> n <= next_multiple n k /\ next_multiple n k < n + k /\ next_multiple n k mod k = 0.
Proof.
  intros Hk. unfold next_multiple. pose proof (div_ceil_bounds n k Hk) as [B1 B2].
  repeat split; try assumption. apply N.mod_mul. lia.
Qed.

Lemma next_multiple_div n k : 1 <= k -> next_multiple n k / k = div_ceil n k.
Proof. intros. unfold next_multiple. apply N.div_mul. lia. Qed.

Lemma next_multiple_of_multiple n k : 1 <= k -> n mod k = 0 -> next_multiple n k = n.
Proof.
  intros Hk Hm. unfold next_multiple, div_ceil. rewrite Hm. cbn [N.eqb].
  pose proof (N.div_mod n k ltac:(lia)). lia.
Qed.

Lemma div_ceil_exact n k : 1 <= k -> n mod k = 0 -> div_ceil n k = n / k.
Proof. intros Hk Hm. unfold div_ceil. rewrite Hm. cbn. lia. Qed.

(* ---- uploader vs downloader --------------------------------------------- *)
Definition tail_of (size segsize : N) : N := if size mod segsize =? 0 then segsize else size mod segsize.

Lemma tail_of_spec size segsize : 1 <= size -> 1 <= segsize ->
  1 <= tail_of size segsize <= segsize /\ size = segsize * (div_ceil size segsize - 1) + tail_of size segsize
  /\ 1 <= div_ceil size segsize.
Proof.
  intros Hs Hg. unfold tail_of, div_ceil.
  pose proof (N.div_mod size segsize ltac:(lia)) as E.
  pose proof (N.mod_lt size segsize ltac:(lia)) as L.
  set (q := size / segsize) in *. set (r := size mod segsize) in *.
  destruct (r =? 0) eqn:Z0.
  - assert (1 <= q) by nia.
    replace (q + 0 - 1) with (q - 1) by lia.
    assert (segsize * (q - 1) + segsize = segsize * q) by nia. lia.
  - replace (q + 1 - 1) with q by lia. lia.
Qed.

Lemma sizes_agree_ok : forall size k segsize,
  1 <= size -> 1 <= k -> 1 <= segsize -> segsize mod k = 0 ->
  let e := encoder_params size k segsize in
  let d := calculate_sizes size k segsize in
  d_num_segments d = e_num_segments e /\
  d_tail_segment_size d = e_tail_size e /\
  d_tail_segment_padded d = e_padded_tail e /\
  d_block_size d = e_block_size e /\
  d_tail_block_size d = e_tail_block_size e /\
  crs_dec_share_size segsize k = e_block_size e /\
  crs_dec_share_size (d_tail_segment_padded d) k = e_tail_block_size e /\
  (* the share's data section is exactly the blocks put_block accepts *)
  e_share_size e = e_block_size e * (e_num_segments e - 1) + e_tail_block_size e /\
  (forall i, i < e_num_segments e ->
     put_block_len (e_share_size e) (e_block_size e) (e_num_segments e) i
     = if i =? e_num_segments e - 1 then e_tail_block_size e else e_block_size e) /\
  (* shape of the segmentation *)
  1 <= e_num_segments e /\ 1 <= e_tail_size e <= segsize /\
  size = segsize * (e_num_segments e - 1) + e_tail_size e /\
  e_tail_size e <= e_padded_tail e < e_tail_size e + k /\ e_padded_tail e mod k = 0 /\
  e_block_size e * k = segsize /\ e_tail_block_size e * k = e_padded_tail e.
Proof.
  intros size k segsize Hs Hk Hg Hm.
  cbv zeta. unfold encoder_params, calculate_sizes, crs_enc_share_size, crs_dec_share_size.
  cbn [d_num_segments d_tail_segment_size d_tail_segment_padded d_block_size d_tail_block_size
       e_num_segments e_share_size e_tail_size e_padded_tail e_block_size e_tail_block_size].
  fold (tail_of size segsize).
  pose proof (tail_of_spec size segsize Hs Hg) as (T1 & T2 & T3).
  set (t := tail_of size segsize) in *.
  set (ns := div_ceil size segsize) in *.
  pose proof (next_multiple_bounds t k Hk) as (P1 & P2 & P3).
  set (p := next_multiple t k) in *.
  assert (Eb : div_ceil segsize k = segsize / k) by (apply div_ceil_exact; assumption).
  assert (Etb : div_ceil p k = p / k) by (apply div_ceil_exact; assumption).
  assert (Ebk : segsize / k * k = segsize).
  { pose proof (N.div_mod segsize k ltac:(lia)). lia. }
  assert (Etk : p / k * k = p).
  { pose proof (N.div_mod p k ltac:(lia)). lia. }
  assert (Ept : p / k = div_ceil t k).
  { unfold p. apply next_multiple_div. assumption. }
  assert (Eshare : div_ceil size k = segsize / k * (ns - 1) + p / k).
  { rewrite Ept. rewrite T2 at 1.
    replace (segsize * (ns - 1)) with ((segsize / k * (ns - 1)) * k) by nia.
    apply div_ceil_add_mul. assumption. }
  rewrite Eb, Etb.
  assert (Hpb : forall i, i < ns ->
     put_block_len (div_ceil size k) (segsize / k) ns i = if i =? ns - 1 then p / k else segsize / k).
  { intros i Hi. unfold put_block_len. rewrite Eshare.
    destruct (i <? ns - 1) eqn:A; destruct (i =? ns - 1) eqn:B; try lia. }
  repeat split; solve [reflexivity | assumption | lia | exact Hpb].
Qed.

(* the downloader's guess is right when the uploader used the same maximum *)
Lemma guess_right size k max_seg : guessed_segment_size size k max_seg = upload_segsize max_seg size k.
Proof. unfold guessed_segment_size, upload_segsize. rewrite N.min_comm. reflexivity. Qed.

Lemma upload_segsize_ok max_seg size k : 1 <= size -> 1 <= k -> 1 <= max_seg ->
  1 <= upload_segsize max_seg size k /\ upload_segsize max_seg size k mod k = 0.
Proof.
  intros. unfold upload_segsize. pose proof (next_multiple_bounds (N.min max_seg size) k ltac:(lia)). lia.
Qed.

(* ---- next_power_of_2 ------------------------------------------------------ *)
Lemma npk_loop_spec fuel : forall p n, 1 <= p -> n <= p * 2 ^ N.of_nat fuel ->
  n <= npk_loop fuel p n /\ (npk_loop fuel p n = p \/ npk_loop fuel p n < 2 * n).
Proof.
  induction fuel as [|f IH]; intros p n Hp Hn.
  - cbn [npk_loop]. change (N.of_nat 0) with 0 in Hn. rewrite N.pow_0_r in Hn. lia.
  - cbn [npk_loop]. destruct (p <? n) eqn:C.
    + assert (Hn' : n <= p * 2 * 2 ^ N.of_nat f).
      { rewrite Nat2N.inj_succ, N.pow_succ_r' in Hn. lia. }
      destruct (IH (p * 2) n ltac:(lia) Hn') as [A [B|B]]; split; try assumption; right; lia.
    + split; [lia | left; reflexivity].
Qed.

Lemma next_power_of_2_ge n : n <= next_power_of_2 n /\ 1 <= next_power_of_2 n.
Proof.
  unfold next_power_of_2.
  assert (H : n <= 1 * 2 ^ N.of_nat (S (N.to_nat (N.size n)))).
  { rewrite Nat2N.inj_succ, N2Nat.id, N.mul_1_l.
    destruct n as [|p]; [cbn; lia|].
    pose proof (N.size_gt (N.pos p)). rewrite N.pow_succ_r'. lia. }
  destruct (npk_loop_spec _ 1 n ltac:(lia) H) as [A [B|B]]; split; try assumption; try lia.
Qed.

(* ---- share layout ------------------------------------------------------------ *)
Lemma offsets_layout_ok : forall ver bs ds nseg nsh o,
  create_offsets ver bs ds nseg nsh = Some o ->
  let shs := segment_hash_size nseg in
  o_data o = header_size ver /\
  o_plaintext_hash_tree o = o_data o + ds /\
  o_crypttext_hash_tree o = o_plaintext_hash_tree o + shs /\
  o_block_hashes o = o_crypttext_hash_tree o + shs /\
  o_share_hashes o = o_block_hashes o + shs /\
  o_uri_extension o = o_share_hashes o + share_hashtree_size nsh /\
  (* every header field fits its struct field *)
  Forall (fun x => x < field_limit ver) (header_fields 0 bs ds o) /\
  (* the crypttext/block hash sections hold a full tree over 2^ceil(log2 nseg) leaves *)
  HASH_SIZE <= shs.
Proof.
  intros ver bs ds nseg nsh o H shs.
  unfold create_offsets in H.
  destruct ((field_limit ver <=? bs) || (field_limit ver <=? ds)) eqn:A; [discriminate|].
  match type of H with (if ?c then _ else _) = _ => destruct c eqn:B; [discriminate|] end.
  injection H as <-.
  cbn [o_data o_plaintext_hash_tree o_crypttext_hash_tree o_block_hashes o_share_hashes o_uri_extension].
  fold shs in B |- *.
  assert (HS : HASH_SIZE <= shs).
  { unfold shs, segment_hash_size. pose proof (next_power_of_2_ge nseg). nia. }
  repeat split; try reflexivity; try assumption.
  unfold header_fields.
  cbn [o_data o_plaintext_hash_tree o_crypttext_hash_tree o_block_hashes o_share_hashes o_uri_extension].
  assert (0 < field_limit ver) by (unfold field_limit, V1_LIMIT, V2_LIMIT; destruct (ver =? 1); lia).
  repeat constructor; lia.
Qed.

Lemma v1_refused_iff bs ds nseg nsh :
  create_offsets 1 bs ds nseg nsh = None <->
  (V1_LIMIT <= bs \/ V1_LIMIT <= ds \/
   V1_LIMIT <= V1_HEADER_SIZE + ds + 3 * segment_hash_size nseg + share_hashtree_size nsh).
Proof.
  unfold create_offsets, field_limit, header_size. change (1 =? 1) with true. cbv iota.
  destruct ((V1_LIMIT <=? bs) || (V1_LIMIT <=? ds)) eqn:A.
  - split; [intros _|reflexivity]. lia.
  - match goal with |- (if ?c then _ else _) = _ <-> _ => destruct c eqn:B end.
    + split; [intros _|reflexivity]. lia.
    + split; [discriminate|]. lia.
Qed.

(* blocks inside the data section: adjacent, in order, inside [data, plaintext_hash_tree) *)
Lemma blocks_layout_ok : forall size k segsize ver nsh o,
  1 <= size -> 1 <= k -> 1 <= segsize -> segsize mod k = 0 ->
  let e := encoder_params size k segsize in
  create_offsets ver (e_block_size e) (e_share_size e) (e_num_segments e) nsh = Some o ->
  forall i, i < e_num_segments e ->
    let len := put_block_len (e_share_size e) (e_block_size e) (e_num_segments e) i in
    o_data o <= block_offset o (e_block_size e) i /\
    block_offset o (e_block_size e) i + len <= o_plaintext_hash_tree o /\
    (i + 1 < e_num_segments e -> block_offset o (e_block_size e) (i + 1) = block_offset o (e_block_size e) i + len) /\
    (i + 1 = e_num_segments e -> block_offset o (e_block_size e) i + len = o_plaintext_hash_tree o).
Proof.
  intros size k segsize ver nsh o Hs Hk Hg Hm e Ho i Hi len.
  pose proof (sizes_agree_ok size k segsize Hs Hk Hg Hm) as S. cbv zeta in S. fold e in S.
  destruct S as (_ & _ & _ & _ & _ & _ & _ & Esh & Epb & Hns & _).
  pose proof (offsets_layout_ok _ _ _ _ _ _ Ho) as (O1 & O2 & _).
  unfold block_offset. subst len. rewrite (Epb i Hi).
  destruct (i =? e_num_segments e - 1) eqn:T; nia.
Qed.
