(* Python's int() on the numerals b"%d" prints, and the strict readers. *)
From Coq Require Import List NArith ZArith Bool Lia.
From Verif Require Import Lib.Decimal Lib.DecimalFacts Lib.Hex Model.PyInt.
Import ListNotations.
Local Open Scope N_scope.

Lemma is_digit_not_ws b : is_digit b = true -> is_ws b = false.
Proof.
  intro H. apply is_digit_spec in H. unfold is_ws.
  destruct (9 <=? b) eqn:E1, (b <=? 13) eqn:E2, (b =? 32) eqn:E3; cbn; try reflexivity;
    try (apply N.leb_le in E2); try (apply N.eqb_eq in E3); lia.
Qed.

Lemma is_digit_not_sign b : is_digit b = true -> (b =? 43) = false /\ (b =? 45) = false /\ (b =? 95) = false.
Proof.
  intro H. apply is_digit_spec in H. repeat split; apply N.eqb_neq; lia.
Qed.

Lemma py_digits_all_digits : forall l acc s,
  forallb is_digit l = true -> (l <> [] \/ s = PDigit) ->
  py_digits l acc s = undec_acc l acc.
Proof.
  induction l as [|b r IH]; intros acc s Hd Hs.
  - destruct Hs as [Hs | ->]; [congruence|reflexivity].
  - cbn [forallb] in Hd. apply andb_true_iff in Hd. destruct Hd as [Hb Hr].
    cbn [py_digits undec_acc]. rewrite Hb. apply IH; [assumption|right; reflexivity].
Qed.

Lemma drop_ws_digit b r : is_digit b = true -> drop_ws (b :: r) = b :: r.
Proof. intro H. cbn [drop_ws]. rewrite (is_digit_not_ws b H). reflexivity. Qed.

Lemma py_int_all_digits l :
  forallb is_digit l = true -> l <> [] -> py_int l = option_map Z.of_N (undec l).
Proof.
  intros Hd Hn. destruct l as [|b r]; [congruence|].
  pose proof Hd as Hd'. cbn [forallb] in Hd'. apply andb_true_iff in Hd'. destruct Hd' as [Hb _].
  unfold py_int. rewrite (drop_ws_digit b r Hb).
  destruct (is_digit_not_sign b Hb) as (E1 & E2 & _). rewrite E1, E2.
  rewrite py_digits_all_digits by (try assumption; left; discriminate).
  reflexivity.
Qed.

Theorem py_int_dec n : py_int (dec n) = Some (Z.of_N n).
Proof.
  rewrite py_int_all_digits by (apply dec_all_digits || apply dec_nonempty).
  rewrite undec_dec. reflexivity.
Qed.

Theorem py_int_dec_Z z : py_int (dec_Z z) = Some z.
Proof.
  destruct z as [|p|p]; cbn [dec_Z].
  - apply py_int_dec.
  - rewrite py_int_dec. reflexivity.
  - unfold py_int. cbn [drop_ws]. change (is_ws 45) with false. cbv iota.
    change (45 =? 43) with false. change (45 =? 45) with true. cbv iota.
    rewrite py_digits_all_digits by (try apply dec_all_digits; left; apply dec_nonempty).
    rewrite <- undec_nonempty by apply dec_nonempty. rewrite undec_dec. reflexivity.
Qed.

(* ---- strict readers ---- *)

Lemma canonical_all_digits l : canonical_dec l = true -> forallb is_digit l = true /\ l <> [].
Proof. intro H. apply canonical_dec_spec in H. tauto. Qed.

Theorem strict_nat_sound l z : strict_nat l = Some z -> py_int l = Some z.
Proof.
  unfold strict_nat. destruct (canonical_dec l) eqn:C; [|discriminate].
  destruct (canonical_all_digits l C) as [Hd Hn]. intro H.
  rewrite py_int_all_digits by assumption. assumption.
Qed.

Theorem strict_nat_canonical l z :
  strict_nat l = Some z -> (0 <= z)%Z /\ l = dec (Z.to_N z).
Proof.
  unfold strict_nat. destruct (canonical_dec l) eqn:C; [|discriminate].
  destruct (undec l) as [n|] eqn:U; [|discriminate]. cbn. intro H. injection H as <-.
  split; [lia|]. rewrite N2Z.id. symmetry. apply dec_undec_canonical; assumption.
Qed.

Theorem strict_nat_dec n : strict_nat (dec n) = Some (Z.of_N n).
Proof. unfold strict_nat. rewrite canonical_dec_dec, undec_dec. reflexivity. Qed.

Theorem strict_int_sound l z : strict_int l = Some z -> py_int l = Some z.
Proof.
  destruct l as [|b r]; [discriminate|]. cbn [strict_int].
  destruct (b =? 45) eqn:E.
  - apply N.eqb_eq in E. subst b.
    destruct (canonical_dec r && negb (list_N_eqb r [48])) eqn:C; [|discriminate].
    apply andb_true_iff in C. destruct C as [C _].
    destruct (canonical_all_digits r C) as [Hd Hn]. intro H.
    unfold py_int. cbn [drop_ws]. change (is_ws 45) with false. cbv iota.
    change (45 =? 43) with false. change (45 =? 45) with true. cbv iota.
    rewrite py_digits_all_digits by (try assumption; left; assumption).
    rewrite <- undec_nonempty by assumption. assumption.
  - apply strict_nat_sound.
Qed.

Theorem strict_int_canonical l z : strict_int l = Some z -> l = dec_Z z.
Proof.
  destruct l as [|b r]; [discriminate|]. cbn [strict_int].
  destruct (b =? 45) eqn:E.
  - apply N.eqb_eq in E. subst b.
    destruct (canonical_dec r && negb (list_N_eqb r [48])) eqn:C; [|discriminate].
    apply andb_true_iff in C. destruct C as [C Hnz].
    destruct (undec r) as [n|] eqn:U; [|discriminate]. cbn. intro H. injection H as <-.
    pose proof (dec_undec_canonical r n C U) as Hr.
    destruct n as [|p].
    + rewrite dec_0 in Hr. subst r. cbn in Hnz. discriminate.
    + cbn [Z.of_N Z.opp dec_Z]. rewrite Hr. reflexivity.
  - intro H. apply strict_nat_canonical in H. destruct H as [Hz Hl].
    rewrite Hl. destruct z as [|p|p]; try reflexivity. lia.
Qed.

Theorem strict_int_dec_Z z : strict_int (dec_Z z) = Some z.
Proof.
  destruct z as [|p|p]; cbn [dec_Z].
  - reflexivity.
  - change (dec (Z.to_N (Z.pos p))) with (dec (N.pos p)).
    destruct (dec_head (N.pos p)) as (d & r & E & Hd & _ & _).
    rewrite E. cbn [strict_int].
    destruct (is_digit_not_sign d Hd) as (_ & E2 & _). rewrite E2, <- E.
    apply (strict_nat_dec (N.pos p)).
  - cbn [strict_int]. change (45 =? 45) with true. cbv iota.
    rewrite canonical_dec_dec.
    assert (Hne : list_N_eqb (dec (N.pos p)) [48] = false).
    { destruct (list_N_eqb (dec (N.pos p)) [48]) eqn:E; [|reflexivity].
      apply list_N_eqb_eq in E. rewrite <- dec_0 in E. apply dec_inj in E. discriminate. }
    rewrite Hne. cbn [negb andb]. rewrite undec_dec. reflexivity.
Qed.

Lemma dec_Z_nonneg n : dec_Z (Z.of_N n) = dec n.
Proof. destruct n; reflexivity. Qed.
