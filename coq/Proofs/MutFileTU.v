(* C09: TransformingUploadable.read returns consecutive pieces of the "region"
     R = start[:fso] ++ newdata ++ end[eoff:][:m]
   when it is read the way Publish reads it (segment-aligned reads that stay inside R), and the
   push_segment loop therefore stores the segments of R. *)
From Coq Require Import List Arith NArith Bool Lia.
From Verif Require Import Lib.Hex Model.MutFile Proofs.MutFileLists.
Import ListNotations.

Lemma mod_sub_mul a j d : d <> 0 -> j * d <= a -> (a - j * d) mod d = a mod d.
Proof.
  intros Hd H. replace a with ((a - j * d) + j * d) at 2 by lia.
  rewrite Nat.mod_add by exact Hd. reflexivity.
Qed.

Lemma mod_add_mul a j d : d <> 0 -> (d * j + a) mod d = a mod d.
Proof.
  intros Hd. replace (d * j + a) with (a + j * d) by lia. apply Nat.mod_add. exact Hd.
Qed.

Definition tu_parts (t : tu) (len : nat) : bytes * bytes * bytes :=
  let fso := tu_fso t in
  let odl := if tu_rm t <? fso then Nat.min len (fso - tu_rm t) else 0 in
  let len1 := len - odl in
  let remaining := length (tu_new t) - tu_pos t in
  let oel := len1 - remaining in
  let odo := (Nat.min len1 remaining + odl) mod tu_segsz t in
  (slice (tu_rm t) (odl + tu_rm t) (tu_start t),
   slice (tu_pos t) (tu_pos t + Nat.min len1 remaining) (tu_new t),
   if remaining <? len1 then slice odo (odo + oel) (tu_end t) else []).

Ltac min_norm :=
  repeat match goal with
  | |- context[Nat.min ?a ?b] => first [rewrite (Nat.min_l a b) by lia | rewrite (Nat.min_r a b) by lia]
  end.

Lemma tu_read_parts t len :
  tu_read t len =
  (fst (fst (tu_parts t len)) ++ snd (fst (tu_parts t len)) ++ snd (tu_parts t len),
   mk_tu (tu_new t) (tu_off t) (tu_segsz t) (tu_start t) (tu_end t)
         (tu_rm t + length (fst (fst (tu_parts t len)) ++ snd (fst (tu_parts t len)) ++ snd (tu_parts t len)))
         (tu_pos t + length (snd (fst (tu_parts t len))))).
Proof.
  unfold tu_read, tu_parts, md_read. cbn [fst snd].
  destruct (tu_rm t <? tu_fso t) eqn:E1.
  - destruct (len <? tu_fso t - tu_rm t) eqn:E0.
    + apply Nat.ltb_lt in E0. rewrite (Nat.min_l len) by lia.
      destruct (length (tu_new t) - tu_pos t <? len - len) eqn:E2.
      * apply Nat.ltb_lt in E2. lia.
      * min_norm. reflexivity.
    + apply Nat.ltb_ge in E0. rewrite (Nat.min_r len) by lia.
      destruct (length (tu_new t) - tu_pos t <? len - (tu_fso t - tu_rm t)) eqn:E2.
      * apply Nat.ltb_lt in E2. min_norm.
        replace (len - (tu_fso t - tu_rm t) - (len - (tu_fso t - tu_rm t) - (length (tu_new t) - tu_pos t)))
          with (length (tu_new t) - tu_pos t) by lia.
        reflexivity.
      * apply Nat.ltb_ge in E2. min_norm. reflexivity.
  - rewrite (slice_nil (tu_rm t) (0 + tu_rm t)) by lia. rewrite Nat.sub_0_r.
    destruct (length (tu_new t) - tu_pos t <? len) eqn:E2.
    + apply Nat.ltb_lt in E2. min_norm.
      replace (len - (len - (length (tu_new t) - tu_pos t))) with (length (tu_new t) - tu_pos t) by lia.
      reflexivity.
    + apply Nat.ltb_ge in E2. min_norm. reflexivity.
Qed.

Section Region.
  Variables (data s e : bytes) (off seg m : nat).
  Hypothesis Hseg : seg <> 0.
  Let fso := off mod seg.
  Let L := length data.
  Let eoff := (fso + L) mod seg.
  Hypothesis Hs : fso <= length s.
  Definition region : bytes := firstn fso s ++ data ++ firstn m (skipn eoff e).

  Definition tu_at (rm : nat) : tu := mk_tu data off seg s e rm (rm - fso).

  Lemma fso_lt : fso < seg.
  Proof. unfold fso. apply Nat.mod_upper_bound. exact Hseg. Qed.

  Lemma region_length : length region = fso + L + Nat.min m (length e - eoff).
  Proof.
    unfold region. rewrite !app_length, !firstn_length, skipn_length. fold L. lia.
  Qed.

  (* one aligned read that stays inside the region and starts no later than the end of the new data *)
  Lemma tu_read_region j len :
    let rm := j * seg in
    rm <= fso + L -> rm + len <= length region ->
    fst (tu_read (tu_at rm) len) = slice rm (rm + len) region /\
    (rm + len <= fso + L -> snd (tu_read (tu_at rm) len) = tu_at (rm + len)).
  Proof.
    intros rm Hrm Hlen. pose proof fso_lt as Hf. pose proof region_length as RL.
    (* the region slice, piece by piece *)
    assert (Hreg : slice rm (rm + len) region =
                   slice rm (Nat.min (rm + len) fso) s ++ slice (rm - fso) (rm + len - fso) data
                   ++ slice (eoff + (rm - fso - L)) (eoff + Nat.min (rm + len - fso - L) m) e).
    { unfold region. rewrite slice_app, firstn_length, Nat.min_l by exact Hs.
      rewrite slice_firstn. f_equal.
      rewrite slice_app. fold L. f_equal.
      rewrite slice_firstn, slice_skipn. reflexivity. }
    rewrite tu_read_parts. cbn [fst snd].
    unfold tu_parts, tu_at. cbn [tu_rm tu_pos tu_new tu_start tu_end tu_segsz tu_off fst snd].
    unfold tu_fso. cbn [tu_off tu_segsz]. fold fso. fold L.
    (* rm < fso forces rm = 0 *)
    assert (Hrm0 : rm < fso -> rm = 0).
    { intros H. destruct j; [reflexivity|]. exfalso. unfold rm in H. cbn in H. lia. }
    set (odl := if rm <? fso then Nat.min len (fso - rm) else 0).
    assert (Hodl : odl + rm = Nat.min (rm + len) (Nat.max fso rm) /\ odl <= len).
    { unfold odl. destruct (rm <? fso) eqn:E; [apply Nat.ltb_lt in E|apply Nat.ltb_ge in E]; lia. }
    set (remaining := L - (rm - fso)).
    assert (Hrem : remaining = fso + L - Nat.max fso rm) by (unfold remaining; lia).
    (* piece 1 *)
    assert (C1 : slice rm (odl + rm) s = slice rm (Nat.min (rm + len) fso) s).
    { destruct (Nat.lt_ge_cases rm fso).
      - f_equal. lia.
      - rewrite !slice_nil by lia. reflexivity. }
    (* piece 2 *)
    assert (C2 : slice (rm - fso) (rm - fso + Nat.min (len - odl) remaining) data = slice (rm - fso) (rm + len - fso) data).
    { rewrite <- (slice_clip _ (rm - fso + _)), <- (slice_clip _ (rm + len - fso)). f_equal. fold L. lia. }
    (* piece 3 *)
    assert (C3 : (if remaining <? len - odl
                  then slice ((Nat.min (len - odl) remaining + odl) mod seg)
                             ((Nat.min (len - odl) remaining + odl) mod seg + (len - odl - remaining)) e
                  else []) = slice (eoff + (rm - fso - L)) (eoff + Nat.min (rm + len - fso - L) m) e).
    { destruct (remaining <? len - odl) eqn:E.
      - apply Nat.ltb_lt in E.
        assert (Hmod : (Nat.min (len - odl) remaining + odl) mod seg = eoff).
        { rewrite Nat.min_r by lia. unfold eoff.
          destruct (Nat.lt_ge_cases rm fso) as [Hc|Hc].
          - rewrite (Hrm0 Hc) in *. f_equal. lia.
          - replace (remaining + odl) with (fso + L - j * seg) by (unfold rm in *; lia).
            apply mod_sub_mul; [exact Hseg|unfold rm in *; lia]. }
        rewrite Hmod. f_equal; lia.
      - apply Nat.ltb_ge in E. rewrite slice_nil by lia. reflexivity. }
    rewrite C1, C2, C3, <- Hreg. split; [reflexivity|].
    intros Hc. f_equal.
    - rewrite slice_length. lia.
    - rewrite <- C2, slice_length. fold L. lia.
  Qed.

  (* any chunking by the segment size: a full-segment reads followed by one read of any length *)
  Lemma tu_reads_region lastlen : forall a j,
    (j + a) * seg <= fso + L -> (j + a) * seg + lastlen <= length region ->
    concat (tu_reads (tu_at (j * seg)) (repeat seg a ++ [lastlen])) = slice (j * seg) ((j + a) * seg + lastlen) region.
  Proof.
    induction a as [|a IH]; intros j H1 H2.
    - cbn [repeat app tu_reads]. rewrite Nat.add_0_r in *.
      destruct (tu_read_region j lastlen) as [Hout _]; [lia|lia|].
      destruct (tu_read (tu_at (j * seg)) lastlen) as [d t']. cbn [fst] in Hout. subst d.
      cbn [tu_reads concat]. apply app_nil_r.
    - cbn [repeat app tu_reads].
      assert ((j + 1) * seg <= (j + S a) * seg) by (apply Nat.mul_le_mono_r; lia).
      destruct (tu_read_region j seg) as [Hout Hst]; [lia|lia|].
      destruct (tu_read (tu_at (j * seg)) seg) as [d t']. cbn [fst snd] in Hout, Hst. subst d.
      rewrite Hst by lia. cbn [concat].
      replace (j * seg + seg) with (S j * seg) by lia.
      rewrite IH by (replace (S j + a) with (j + S a) by lia; assumption).
      replace (S j + a) with (j + S a) by lia.
      apply slice_adj; lia.
  Qed.

  (* the push_segment loop: n0 segments, all of size seg except the last (lastlen) *)
  Variables (p : enc) (st n0 lastlen : nat).
  Hypothesis Hp_seg : e_seg p = seg.
  Hypothesis Hn0 : 0 < n0.
  Hypothesis Hlast : 0 < lastlen <= seg.
  Hypothesis Hlen : length region = (n0 - 1) * seg + lastlen.
  Hypothesis Hnew : (n0 - 1) * seg <= fso + L.
  Hypothesis Hsizes : forall j, j < n0 -> seg_read_size p (st + j) = if j + 1 =? n0 then lastlen else seg.

  Lemma push_tu_chunks : forall n j, j + n <= n0 ->
    push_tu n (st + j) p (tu_at (j * seg)) = Some (chunks_n n seg (skipn (j * seg) region)).
  Proof.
    induction n as [|n IH]; intros j Hj; [reflexivity|].
    cbn [push_tu chunks_n].
    assert (Hjn : j < n0) by lia.
    rewrite (Hsizes j Hjn).
    assert (Hjs : j * seg <= (n0 - 1) * seg) by (apply Nat.mul_le_mono_r; lia).
    destruct (j + 1 =? n0) eqn:E.
    - apply Nat.eqb_eq in E. assert (n = 0) by lia. subst n.
      assert (Hj1 : j * seg = (n0 - 1) * seg) by (f_equal; lia).
      destruct (tu_read_region j lastlen) as [Hout _]; [lia|lia|].
      destruct (tu_read (tu_at (j * seg)) lastlen) as [d t'] eqn:Rd. cbn [fst] in Hout. subst d.
      rewrite slice_length.
      replace (Nat.min (j * seg + lastlen - j * seg) (length region - j * seg)) with lastlen by lia.
      rewrite Nat.eqb_refl. cbn [push_tu chunks_n]. f_equal. f_equal.
      unfold slice. replace (j * seg + lastlen - j * seg) with lastlen by lia.
      rewrite !firstn_all2; try reflexivity; rewrite skipn_length; lia.
    - apply Nat.eqb_neq in E.
      assert (Hj2 : (j + 1) * seg <= (n0 - 1) * seg) by (apply Nat.mul_le_mono_r; lia).
      destruct (tu_read_region j seg) as [Hout Hst]; [lia|lia|].
      destruct (tu_read (tu_at (j * seg)) seg) as [d t'] eqn:Rd. cbn [fst snd] in Hout, Hst. subst d.
      rewrite Hst by lia.
      rewrite slice_length.
      replace (Nat.min (j * seg + seg - j * seg) (length region - j * seg)) with seg by lia.
      rewrite Nat.eqb_refl.
      replace (S (st + j)) with (st + S j) by lia.
      replace (j * seg + seg) with (S j * seg) by lia.
      rewrite IH by lia.
      f_equal. f_equal.
      + unfold slice. f_equal. lia.
      + f_equal. rewrite skipn_skipn. f_equal. lia.
  Qed.
End Region.
