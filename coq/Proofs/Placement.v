(* C07: specification of the three clauses of the share-placement property and
   soundness of the boolean validator [placement_valid] (all inputs, all claimed
   placements and covers).  The optimality clause re-uses the Koenig certificate
   theorem of Proofs/Matching.v on the graph [allowed]. *)
From Coq Require Import List NArith ZArith Bool Arith Lia.
From Verif Require Import Model.Matching Model.Placement Proofs.Matching.
Import ListNotations.

(* ---------- specification ------------------------------------------------------ *)

Definition holds (p2s : smap) (p s : N) : Prop :=
  exists held, lookupN p p2s = Some held /\ In s held.

Definition total_spec (shares : list N) (res : list (N * N)) : Prop :=
  forall s, In s shares -> exists p, In (s, p) res.

Definition readonly_spec (readonly : list N) (p2s : smap) (res : list (N * N)) : Prop :=
  forall s p, In (s, p) res -> In p readonly -> holds p2s p s.

Definition known_spec (peers readonly : list N) (res : list (N * N)) : Prop :=
  forall s p, In (s, p) res -> In p peers \/ In p readonly.

(* n = number of distinct servers the placement uses *)
Definition distinct_servers (res : list (N * N)) (n : nat) : Prop :=
  exists l, NoDup l /\ (forall p, In p l <-> exists s, In (s, p) res) /\ length l = n.

(* the placement spreads over as many servers as any assignment could: a maximum
   matching of (writable server -- every share, read-only server -- shares it holds) *)
Definition maximal_spec (peers readonly shares : list N) (p2s : smap) (res : list (N * N)) : Prop :=
  exists n, distinct_servers res n /\ max_matching_size (allowed peers readonly shares p2s) n.

(* ---------- the graph [allowed] is the one the property describes ---------------- *)

Lemma edge_app : forall a b p s, edge (a ++ b) p s <-> edge a p s \/ edge b p s.
Proof.
  intros a b p s. unfold edge. split.
  - intros [l [Hin Hs]]. apply in_app_iff in Hin. destruct Hin as [H|H]; [left|right]; exists l; tauto.
  - intros [[l [H Hs]]|[l [H Hs]]]; exists l; (split; [apply in_app_iff; tauto | exact Hs]).
Qed.

Lemma allowed_edge : forall peers readonly shares p2s p s,
  edge (allowed peers readonly shares p2s) p s <->
  (In p peers /\ In s shares) \/ (In p readonly /\ In s shares /\ holds p2s p s).
Proof.
  intros peers readonly shares p2s p s. unfold allowed. rewrite edge_app. unfold edge, holds.
  split.
  - intros [[l [Hin Hs]]|[l [Hin Hs]]].
    + apply in_map_iff in Hin. destruct Hin as [q [E Hq]]. inversion E; subst. left. tauto.
    + apply in_map_iff in Hin. destruct Hin as [q [E Hq]]. inversion E; subst. right.
      destruct (lookupN p p2s) as [held|]; [|destruct Hs].
      apply filter_In in Hs. destruct Hs as [H1 H2]. apply memN_In in H2.
      split; [exact Hq|]. split; [exact H2|]. exists held. tauto.
  - intros [[Hp Hs]|[Hp [Hs [held [E Hh]]]]].
    + left. exists shares. split; [|exact Hs]. apply in_map_iff. exists p. tauto.
    + right. exists (filter (fun s => memN s shares) held). split.
      * apply in_map_iff. exists p. rewrite E. tauto.
      * apply filter_In. split; [exact Hh | apply memN_In; exact Hs].
Qed.

(* ---------- sets as lists ---------------------------------------------------------- *)

Lemma add_set_In : forall x y l, In y (add_set x l) <-> y = x \/ In y l.
Proof.
  intros x y l. unfold add_set. destruct (memN x l) eqn:E.
  - apply memN_In in E. split; [tauto|]. intros [H|H]; [subst; exact E | exact H].
  - rewrite in_app_iff. cbn [In]. split; [intros [H|[H|[]]]; [tauto | left; symmetry; exact H] |].
    intros [H|H]; [right; left; symmetry; exact H | left; exact H].
Qed.

Lemma add_set_NoDup : forall x l, NoDup l -> NoDup (add_set x l).
Proof.
  intros x l H. unfold add_set. destruct (memN x l) eqn:E; [exact H|].
  assert (Hn : ~ In x l) by (intro Hin; apply memN_In in Hin; rewrite Hin in E; discriminate).
  clear E. induction H as [|a r Ha Hr IH]; cbn [app].
  - constructor; [intros []|constructor].
  - constructor.
    + rewrite in_app_iff. cbn [In]. intros [H|[H|[]]]; [contradiction|]. apply Hn. left. symmetry. exact H.
    + apply IH. intro H. apply Hn. right. exact H.
Qed.

Lemma fold_add_set : forall (A : Type) (f : A -> N) (l : list A) (acc : list N),
  NoDup acc ->
  NoDup (fold_left (fun a e => add_set (f e) a) l acc) /\
  (forall x, In x (fold_left (fun a e => add_set (f e) a) l acc) <-> In x acc \/ In x (map f l)).
Proof.
  intros A f. induction l as [|e r IH]; intros acc Hn; cbn [fold_left map In].
  - split; [exact Hn | tauto].
  - destruct (IH (add_set (f e) acc) (add_set_NoDup _ _ Hn)) as [H1 H2]. split; [exact H1|].
    intros x. rewrite H2, add_set_In. split.
    + intros [[H|H]|H]; [right; left; symmetry; exact H | tauto | tauto].
    + intros [H|[H|H]]; [tauto | left; left; symmetry; exact H | tauto].
Qed.

Lemma servers_used_spec : forall res,
  NoDup (servers_used res) /\ (forall p, In p (servers_used res) <-> exists s, In (s, p) res).
Proof.
  intros res. unfold servers_used.
  destruct (fold_add_set _ (fun e : N * N => snd e) res [] (NoDup_nil N)) as [H1 H2].
  split; [exact H1|]. intros p. rewrite H2. cbn [In]. rewrite in_map_iff. split.
  - intros [[]|[[s q] [E Hin]]]. cbn [snd] in E. subst q. exists s. exact Hin.
  - intros [s Hin]. right. exists (s, p). split; [reflexivity | exact Hin].
Qed.

Lemma distinct_servers_used : forall res, distinct_servers res (length (servers_used res)).
Proof.
  intros res. destruct (servers_used_spec res) as [H1 H2].
  exists (servers_used res). split; [exact H1|]. split; [exact H2 | reflexivity].
Qed.

Lemma distinct_servers_unique : forall res n m, distinct_servers res n -> distinct_servers res m -> n = m.
Proof.
  intros res n m [l [Hl [El Ll]]] [k [Hk [Ek Lk]]]. subst n m.
  apply Nat.le_antisymm; apply NoDup_incl_length; try assumption; intros x Hx.
  - apply Ek. apply El. exact Hx.
  - apply El. apply Ek. exact Hx.
Qed.

(* ---------- the validator is sound ---------------------------------------------------- *)

Lemma total_b_sound : forall shares res, placement_total_b shares res = true -> total_spec shares res.
Proof.
  intros shares res H s Hs. unfold placement_total_b in H. rewrite forallb_forall in H.
  specialize (H _ Hs). apply memN_In in H. apply in_map_iff in H. destruct H as [[s' p] [E Hin]].
  cbn [fst] in E. subst s'. exists p. exact Hin.
Qed.

Lemma readonly_b_sound : forall readonly p2s res,
  readonly_ok_b readonly p2s res = true -> readonly_spec readonly p2s res.
Proof.
  intros readonly p2s res H s p Hin Hro. unfold readonly_ok_b in H. rewrite forallb_forall in H.
  specialize (H _ Hin). cbn [fst snd] in H. apply orb_true_iff in H. destruct H as [H|H].
  - apply memN_In in Hro. rewrite Hro in H. discriminate.
  - unfold holds. destruct (lookupN p p2s) as [held|]; [|discriminate].
    exists held. split; [reflexivity | apply memN_In; exact H].
Qed.

Lemma known_b_sound : forall peers readonly res,
  servers_known_b peers readonly res = true -> known_spec peers readonly res.
Proof.
  intros peers readonly res H s p Hin. unfold servers_known_b in H. rewrite forallb_forall in H.
  specialize (H _ Hin). cbn [snd] in H. apply orb_true_iff in H.
  destruct H as [H|H]; apply memN_In in H; tauto.
Qed.

Theorem placement_valid_sound : forall peers readonly shares p2s res CL CR,
  placement_valid peers readonly shares p2s res CL CR = true ->
  total_spec shares res /\ readonly_spec readonly p2s res /\ known_spec peers readonly res /\
  maximal_spec peers readonly shares p2s res.
Proof.
  intros peers readonly shares p2s res CL CR H. unfold placement_valid in H.
  apply andb_true_iff in H. destruct H as [H H4].
  apply andb_true_iff in H. destruct H as [H H3].
  apply andb_true_iff in H. destruct H as [H1 H2].
  split; [apply total_b_sound; exact H1|].
  split; [apply readonly_b_sound; exact H2|].
  split; [apply known_b_sound; exact H3|].
  destruct (certificate_sound _ _ _ _ _ H4) as [_ [_ Hmax]].
  exists (length (servers_used res)). split; [apply distinct_servers_used|].
  unfold witness_matching in Hmax. rewrite map_length in Hmax. exact Hmax.
Qed.

(* ---------- results of the model, conditional on the certificate check ------------------ *)

Lemma placement_certified_inv : forall os peers readonly shares p2s,
  placement_certified os peers readonly shares p2s = true ->
  exists res CL CR, share_placement os peers readonly shares p2s = Some res /\
                    placement_valid peers readonly shares p2s res CL CR = true.
Proof.
  intros os peers readonly shares p2s H. unfold placement_certified in H. unfold share_placement.
  destruct peers as [|p0 pr]; [discriminate|].
  destruct (share_placement_state os (p0 :: pr) readonly shares p2s) as [st|]; [|discriminate].
  cbn [option_map]. destruct (readonly_cover (ps_readonly_phase st)) as [cl cr].
  apply orb_true_iff in H. destruct H as [H|H].
  - exists (ps_result st), [], shares. split; [reflexivity | exact H].
  - exists (ps_result st), ((p0 :: pr) ++ cl), (filter (fun s => memN s shares) cr). split; [reflexivity | exact H].
Qed.

Lemma placement_of_certified : forall os peers readonly shares p2s res,
  placement_certified os peers readonly shares p2s = true ->
  share_placement os peers readonly shares p2s = Some res ->
  total_spec shares res /\ readonly_spec readonly p2s res /\ known_spec peers readonly res /\
  maximal_spec peers readonly shares p2s res.
Proof.
  intros os peers readonly shares p2s res Hc Hr.
  destruct (placement_certified_inv _ _ _ _ _ Hc) as [res' [CL [CR [E V]]]].
  rewrite Hr in E. inversion E; subst res'. eapply placement_valid_sound. exact V.
Qed.

Lemma total_of_certified : forall os peers readonly shares p2s res,
  placement_certified os peers readonly shares p2s = true ->
  share_placement os peers readonly shares p2s = Some res -> total_spec shares res.
Proof. intros. eapply placement_of_certified; eassumption. Qed.

Lemma readonly_of_certified : forall os peers readonly shares p2s res,
  placement_certified os peers readonly shares p2s = true ->
  share_placement os peers readonly shares p2s = Some res ->
  readonly_spec readonly p2s res /\ known_spec peers readonly res.
Proof.
  intros os peers readonly shares p2s res Hc Hr.
  destruct (placement_of_certified _ _ _ _ _ _ Hc Hr) as [_ [H2 [H3 _]]]. split; assumption.
Qed.

Lemma maximal_of_certified : forall os peers readonly shares p2s res,
  placement_certified os peers readonly shares p2s = true ->
  share_placement os peers readonly shares p2s = Some res ->
  maximal_spec peers readonly shares p2s res.
Proof. intros. eapply placement_of_certified; eassumption. Qed.
