(* base62: a2b (b2a os) = os, no assertion failure, fuel; converse under b62_canonical; refutation. *)
From Coq Require Import String.
From Coq Require Import List NArith ZArith Bool Lia ZifyBool ZifyNat ZifyN.
From Verif Require Import Lib.Hex Lib.Bytes Model.Base32 Model.Base62 Gen.CodecConsts Proofs.CodecsBase32.
Import ListNotations.
Local Open Scope N_scope.
Local Ltac Zify.zify_post_hook ::= Z.to_euclidean_division_equations.

(* ---- alphabet ---- *)
Lemma b62_c2v_char v : v < 62 -> b62_c2v (b62_char v) = v.
Proof.
  intro H.
  assert (Hall : forallb (fun v => b62_c2v (b62_char v) =? v) (map N.of_nat (seq 0 62)) = true)
    by (vm_compute; reflexivity).
  rewrite forallb_forall in Hall. apply N.eqb_eq. apply Hall. apply N_lt_in_seq. exact H.
Qed.

Lemma b62_index_char c v : index_of c base62_chars 0 = Some v -> b62_char v = c /\ v < 62.
Proof.
  intro H. apply index_of_spec in H. destruct H as (k & -> & Hk & Hn). unfold b62_char.
  replace (N.to_nat (0 + N.of_nat k)) with k by lia. split; [assumption|].
  change (length base62_chars) with 62%nat in Hk. lia.
Qed.

(* ---- the digit loop ---- *)
Fixpoint b62_count (f : nat) (nv : N) : nat :=
  match f with
  | O => 0%nat
  | S f' => if nv =? 0 then 0%nat else S (b62_count f' (nv / 62))
  end.

Lemma pow2_S f : 2 ^ N.of_nat (S f) = 2 * 2 ^ N.of_nat f.
Proof. apply pow_of_nat_S. Qed.

Lemma b62_loop_count : forall f v nv acc,
  nv < 2 ^ N.of_nat f -> b62_loop (S f) v nv acc = Some (be_digits 62 (b62_count f nv) v ++ acc).
Proof.
  induction f as [|f IH]; intros v nv acc H.
  - change (2 ^ N.of_nat 0) with 1 in H. assert (nv = 0) by lia. subst. reflexivity.
  - cbn [b62_loop b62_count]. destruct (nv =? 0) eqn:E; [reflexivity|].
    change (b62_loop (S f) (v / 62) (nv / 62) (v mod 62 :: acc) =
            Some (be_digits 62 (S (b62_count f (nv / 62))) v ++ acc)).
    rewrite IH.
    + cbn [be_digits]. rewrite <- app_assoc. reflexivity.
    + rewrite pow2_S in H. lia.
Qed.

Lemma b62_count_bounds : forall f nv,
  nv < 2 ^ N.of_nat f ->
  nv < 62 ^ N.of_nat (b62_count f nv) /\
  (nv <> 0 -> exists c', b62_count f nv = S c' /\ 62 ^ N.of_nat c' <= nv).
Proof.
  induction f as [|f IH]; intros nv H.
  - change (2 ^ N.of_nat 0) with 1 in H. assert (nv = 0) by lia. subst. cbn. split; [lia|congruence].
  - cbn [b62_count]. destruct (nv =? 0) eqn:E.
    + apply N.eqb_eq in E. subst. cbn. split; [lia|congruence].
    + apply N.eqb_neq in E. rewrite pow2_S in H.
      destruct (IH (nv / 62)) as [Hu Hl]; [lia|].
      rewrite pow_of_nat_S. split; [lia|].
      intros _. exists (b62_count f (nv / 62)). split; [reflexivity|].
      destruct (N.eq_dec (nv / 62) 0) as [Hz|Hnz].
      * rewrite Hz. destruct f; cbn; lia.
      * destruct (Hl Hnz) as (c' & Ec & Hc). rewrite Ec, pow_of_nat_S. lia.
Qed.

Lemma size_fuel nv : nv < 2 ^ N.of_nat (N.to_nat (N.size nv)).
Proof.
  rewrite N2Nat.id. destruct nv; [cbn; lia|]. apply N.size_gt.
Qed.

(* ---- log_floor ---- *)
Lemma pow256 k : 256 ^ k = 2 ^ (8 * k).
Proof. rewrite N.pow_mul_r. reflexivity. Qed.

Lemma log_floor_loop_spec n k : 256 ^ k <= n -> n < 256 ^ (k + 1) ->
  forall (j : nat) fuel i, i + N.of_nat j = k + 1 -> (j < fuel)%nat ->
  log_floor_loop fuel (256 ^ i) i n 256 = Some k.
Proof.
  intros Hlo Hhi. induction j as [|j IH]; intros fuel i Hi Hf.
  - destruct fuel as [|fuel]; [lia|]. cbn [log_floor_loop].
    assert (i = k + 1) by lia. subst i.
    assert (E : 256 ^ (k + 1) <=? n = false) by (apply N.leb_gt; assumption).
    rewrite E. f_equal. lia.
  - destruct fuel as [|fuel]; [lia|]. cbn [log_floor_loop].
    assert (Hle : 256 ^ i <= n).
    { apply N.le_trans with (256 ^ k); [|assumption]. apply N.pow_le_mono_r; lia. }
    apply N.leb_le in Hle. rewrite Hle.
    replace (256 ^ i * 256) with (256 ^ (i + 1)) by (rewrite N.pow_add_r; reflexivity).
    apply IH; lia.
Qed.

Lemma log_floor_256_spec n k : 256 ^ k <= n -> n < 256 ^ (k + 1) -> log_floor_256 n = Some k.
Proof.
  intros Hlo Hhi. unfold log_floor_256.
  change 1 with (256 ^ 0) at 1.
  apply (log_floor_loop_spec n k Hlo Hhi (N.to_nat (k + 1))); [lia|].
  assert (Hn : 0 < n). { pose proof (N.pow_nonzero 256 k). lia. }
  assert (Hk : 8 * k <= N.log2 n). { apply N.log2_le_pow2; [assumption|]. rewrite <- pow256. assumption. }
  lia.
Qed.

Lemma log_floor_256_total n : 1 <= n -> exists k, log_floor_256 n = Some k /\ 256 ^ k <= n < 256 ^ (k + 1).
Proof.
  intro H. set (k := N.log2 n / 8).
  destruct (N.log2_spec n) as [Hlo Hhi]; [lia|].
  assert (H1 : 256 ^ k <= n).
  { rewrite pow256. apply N.le_trans with (2 ^ N.log2 n); [|assumption]. apply N.pow_le_mono_r; unfold k; lia. }
  assert (H2 : n < 256 ^ (k + 1)).
  { rewrite pow256. apply N.lt_le_trans with (2 ^ N.succ (N.log2 n)); [assumption|]. apply N.pow_le_mono_r; unfold k; lia. }
  exists k. split; [apply log_floor_256_spec; assumption|split; assumption].
Qed.

(* ---- a2b never fails ---- *)
Theorem b62_a2b_total cs : exists x, b62_a2b cs = Some x.
Proof.
  unfold b62_a2b, b62_num_octets.
  destruct (log_floor_256_total (62 ^ N.of_nat (length cs))) as (k & -> & _).
  - pose proof (N.pow_nonzero 62 (N.of_nat (length cs))). lia.
  - eexists. reflexivity.
Qed.

(* ---- a2b (b2a os) = os; b2a's assert holds and its fuel suffices ---- *)
Theorem b62_roundtrip os :
  bytes_ok os = true -> exists cs, b62_b2a os = Some cs /\ b62_a2b cs = Some os.
Proof.
  intro Hok. set (n := length os). set (v := be_value 256 os). set (nv := 256 ^ N.of_nat n).
  assert (Hv : v < nv) by (apply be_value_bound; exact Hok).
  assert (Hnv : nv <> 0) by (apply N.pow_nonzero; lia).
  pose proof (size_fuel nv) as Hfuel.
  destruct (b62_count_bounds _ _ Hfuel) as [Hup Hlow].
  destruct (Hlow Hnv) as (c' & Ec & Hc').
  set (c := b62_count (N.to_nat (N.size nv)) nv) in *.
  set (digits := be_digits 62 c v).
  assert (Hk : b62_num_octets (N.of_nat c) = Some (N.of_nat n)).
  { unfold b62_num_octets. apply log_floor_256_spec.
    - fold nv. lia.
    - rewrite Ec, pow_of_nat_S. replace (N.of_nat n + 1) with (N.of_nat (S n)) by lia.
      rewrite pow_of_nat_S. fold nv. lia. }
  assert (Hdl : length digits = c) by apply be_digits_length.
  exists (map b62_char digits). split.
  - unfold b62_b2a. fold n nv v. rewrite b62_loop_count by exact Hfuel. fold c. rewrite app_nil_r. fold digits.
    rewrite map_length, Hdl, Hk, N.eqb_refl. reflexivity.
  - unfold b62_a2b. rewrite map_length, Hdl, Hk.
    rewrite map_map.
    assert (Hd : map (fun x => b62_c2v (b62_char x)) digits = digits).
    { rewrite <- (map_id digits) at 2. apply map_ext_in. intros d Hd. apply b62_c2v_char.
      pose proof (be_digits_below 62 c ltac:(lia) v) as Hb. unfold digits_below in Hb.
      rewrite forallb_forall in Hb. specialize (Hb d Hd). lia. }
    rewrite Hd. unfold digits. rewrite be_digits_small by lia.
    rewrite Nat2N.id. unfold v, n. rewrite be_digits_value by exact Hok. reflexivity.
Qed.

(* ---- strict converse on canonical inputs ---- *)
Theorem b62_converse_canonical cs x :
  b62_a2b cs = Some x -> b62_canonical cs = true -> b62_b2a x = Some cs.
Proof.
  unfold b62_a2b, b62_canonical.
  destruct (b62_num_octets (N.of_nat (length cs))) as [k|] eqn:Hk; [|discriminate].
  intro Hx. injection Hx as <-.
  rewrite !andb_true_iff. intros [Halpha [Hval Hlen]].
  apply N.ltb_lt in Hval.
  set (nv := 256 ^ k) in *.
  pose proof (size_fuel nv) as Hfuel.
  rewrite b62_loop_count in Hlen by exact Hfuel. rewrite app_nil_r, be_digits_length in Hlen.
  apply Nat.eqb_eq in Hlen.
  set (vals := map b62_c2v cs) in *. set (value := be_value 62 vals) in *.
  assert (Hvals : digits_below 62 vals = true /\ map b62_char vals = cs).
  { unfold vals. clear - Halpha. induction cs as [|c cs IH]; [split; reflexivity|].
    cbn [b62_in_alphabet forallb] in Halpha. apply andb_true_iff in Halpha. destruct Halpha as [Hc Hcs].
    destruct (IH Hcs) as [IH1 IH2]. cbn [map digits_below forallb]. unfold b62_c2v at 1 3.
    destruct (index_of c base62_chars 0) as [v|] eqn:E; [|discriminate].
    destruct (b62_index_char c v E) as [Hch Hlt]. split.
    - apply andb_true_iff. split; [apply N.ltb_lt; assumption|exact IH1].
    - rewrite Hch. f_equal. exact IH2. }
  destruct Hvals as [Hbelow Hchars].
  unfold b62_b2a. rewrite be_digits_length, N2Nat.id. fold nv.
  rewrite be_digits_small by (try lia; rewrite N2Nat.id; exact Hval).
  rewrite b62_loop_count by exact Hfuel. rewrite app_nil_r, Hlen.
  replace (length cs) with (length vals) by (unfold vals; apply map_length).
  unfold value. rewrite be_digits_value by exact Hbelow.
  rewrite Hchars, Hk, N.eqb_refl. reflexivity.
Qed.

(* what b2a produces is canonical *)
Theorem b62_b2a_canonical os cs : bytes_ok os = true -> b62_b2a os = Some cs -> b62_canonical cs = true.
Proof.
  intros Hok Hb.
  destruct (b62_roundtrip os Hok) as (cs' & Hb' & Ha). rewrite Hb in Hb'. injection Hb' as <-.
  set (n := length os) in *. set (v := be_value 256 os) in *. set (nv := 256 ^ N.of_nat n) in *.
  pose proof (size_fuel nv) as Hfuel.
  unfold b62_b2a in Hb. fold n nv v in Hb. rewrite b62_loop_count in Hb by exact Hfuel. rewrite app_nil_r in Hb.
  set (c := b62_count (N.to_nat (N.size nv)) nv) in *.
  destruct (b62_num_octets (N.of_nat (length (map b62_char (be_digits 62 c v))))) as [k|] eqn:Hk; [|discriminate].
  destruct (k =? N.of_nat n) eqn:Ekn; [|discriminate]. apply N.eqb_eq in Ekn. subst k. injection Hb as <-.
  assert (Hv : v < nv) by (apply be_value_bound; exact Hok).
  destruct (b62_count_bounds _ _ Hfuel) as [Hup _]. fold c in Hup.
  unfold b62_canonical. rewrite Hk. fold nv.
  rewrite b62_loop_count by exact Hfuel. fold c. rewrite app_nil_r, !map_length, !be_digits_length, Nat.eqb_refl.
  rewrite !andb_true_r. apply andb_true_iff. split.
  - unfold b62_in_alphabet. rewrite forallb_forall. intros ch Hch. apply in_map_iff in Hch.
    destruct Hch as (d & <- & Hd).
    pose proof (be_digits_below 62 c ltac:(lia) v) as Hbl. unfold digits_below in Hbl.
    rewrite forallb_forall in Hbl. specialize (Hbl d Hd).
    assert (Hall : forallb (fun d => match index_of (b62_char d) base62_chars 0 with Some _ => true | None => false end)
                           (map N.of_nat (seq 0 62)) = true) by (vm_compute; reflexivity).
    rewrite forallb_forall in Hall. apply Hall. apply N_lt_in_seq. lia.
  - apply N.ltb_lt. rewrite map_map.
    assert (Hd : map (fun x => b62_c2v (b62_char x)) (be_digits 62 c v) = be_digits 62 c v).
    { rewrite <- (map_id (be_digits 62 c v)) at 2. apply map_ext_in. intros d Hd. apply b62_c2v_char.
      pose proof (be_digits_below 62 c ltac:(lia) v) as Hbl. unfold digits_below in Hbl.
      rewrite forallb_forall in Hbl. specialize (Hbl d Hd). lia. }
    rewrite Hd, be_digits_small by lia. exact Hv.
Qed.

(* ---- the unconditional converse is false ---- *)
Definition b62_witness_out_of_alphabet : list (list N) := [bytes_of_string "!!"%string; [0; 5]; bytes_of_string "a-b"%string].
Definition b62_witness_overflow : list (list N) := map bytes_of_string ["zz"; "zzz"; "4C"]%string.
Definition b62_witness_length : list (list N) := [[]; bytes_of_string "0000"%string; bytes_of_string "00000000"%string].

Definition b62_accepts_noncanonical (cs : list N) : bool :=
  match b62_a2b cs with
  | Some x => negb (opt_list_N_eqb (b62_b2a x) (Some cs)) && negb (b62_canonical cs)
  | None => false
  end.

Theorem b62_witnesses_accepted :
  forallb b62_accepts_noncanonical (b62_witness_out_of_alphabet ++ b62_witness_overflow ++ b62_witness_length) = true.
Proof. vm_compute. reflexivity. Qed.

Theorem b62_converse_refuted : exists cs x, b62_a2b cs = Some x /\ b62_b2a x <> Some cs.
Proof.
  exists (bytes_of_string "zz"%string), [3]. split; [vm_compute; reflexivity|vm_compute; discriminate].
Qed.
