(* Paths: what walk_back returns, and what augment does to the flow matrix. *)
From Coq Require Import List NArith ZArith Bool Arith Lia.
From Verif Require Import Model.Matching Proofs.MatchingLists.
Import ListNotations.

(* [chain l a b]: l is a list of edges forming a walk from a to b *)
Fixpoint chain (l : list (nat * nat)) (a b : nat) : Prop :=
  match l with
  | [] => a = b
  | (u, v) :: r => u = a /\ chain r v b
  end.

Lemma chain_app : forall l1 l2 a b c, chain l1 a b -> chain l2 b c -> chain (l1 ++ l2) a c.
Proof.
  induction l1 as [|[u v] r IH]; intros l2 a b c H1 H2; cbn [chain app] in *.
  - subst. exact H2.
  - destruct H1 as [E H1]. split; [exact E | eapply IH; eassumption].
Qed.

Lemma chain_first : forall l a b, chain l a b -> a <> b -> exists v, In (a, v) l.
Proof.
  intros l a b H Hne. destruct l as [|[u v] r]; cbn [chain] in H; [contradiction|].
  destruct H as [E _]. subst u. exists v. left. reflexivity.
Qed.

(* every edge goes one level up *)
Definition levelled (d : nat -> nat) (l : list (nat * nat)) : Prop :=
  forall u v, In (u, v) l -> d v = S (d u).

Section Levelled.
Variable d : nat -> nat.

Lemma chain_levels : forall l a b, chain l a b -> levelled d l ->
  d a <= d b /\ (forall u v, In (u, v) l -> d a <= d u /\ d v <= d b).
Proof.
  induction l as [|[u v] r IH]; intros a b Hc Hl; cbn [chain] in Hc.
  - subst. split; [lia | intros u v []].
  - destruct Hc as [E Hc]. subst u.
    assert (Hl' : levelled d r) by (intros x y Hxy; apply Hl; right; exact Hxy).
    pose proof (Hl a v (or_introl eq_refl)) as Hav.
    destruct (IH _ _ Hc Hl') as [H1 H2]. split; [lia|].
    intros x y [Hxy|Hxy].
    + inversion Hxy; subst. lia.
    + destruct (H2 _ _ Hxy). lia.
Qed.

Lemma chain_source_unique : forall l a b, chain l a b -> levelled d l ->
  forall x y y', In (x, y) l -> In (x, y') l -> y = y'.
Proof.
  induction l as [|[u v] r IH]; intros a b Hc Hl x y y' H1 H2; [destruct H1|].
  cbn [chain] in Hc. destruct Hc as [E Hc]. subst u.
  assert (Hl' : levelled d r) by (intros p q Hpq; apply Hl; right; exact Hpq).
  pose proof (Hl a v (or_introl eq_refl)) as Hav.
  destruct (chain_levels _ _ _ Hc Hl') as [_ Hlev].
  destruct H1 as [H1|H1], H2 as [H2|H2].
  - inversion H1; inversion H2; subst. reflexivity.
  - inversion H1; subst. destruct (Hlev _ _ H2). lia.
  - inversion H2; subst. destruct (Hlev _ _ H1). lia.
  - eapply IH; eassumption.
Qed.

Lemma chain_target_unique : forall l a b, chain l a b -> levelled d l ->
  forall x x' y, In (x, y) l -> In (x', y) l -> x = x'.
Proof.
  induction l as [|[u v] r IH]; intros a b Hc Hl x x' y H1 H2; [destruct H1|].
  cbn [chain] in Hc. destruct Hc as [E Hc]. subst u.
  assert (Hl' : levelled d r) by (intros p q Hpq; apply Hl; right; exact Hpq).
  pose proof (Hl a v (or_introl eq_refl)) as Hav.
  destruct (chain_levels _ _ _ Hc Hl') as [_ Hlev].
  destruct H1 as [H1|H1], H2 as [H2|H2].
  - inversion H1; inversion H2; subst. reflexivity.
  - inversion H1; subst. destruct (Hlev _ _ H2). pose proof (Hl' _ _ H2). lia.
  - inversion H2; subst. destruct (Hlev _ _ H1). pose proof (Hl' _ _ H1). lia.
  - eapply IH; eassumption.
Qed.

(* an inner vertex that is entered is also left, and conversely *)
Lemma chain_in_out : forall l a b, chain l a b ->
  forall u x, In (u, x) l -> x <> b -> exists y, In (x, y) l.
Proof.
  induction l as [|[p q] r IH]; intros a b Hc u x H Hx; [destruct H|].
  cbn [chain] in Hc. destruct Hc as [E Hc]. subst p. destruct H as [H|H].
  - inversion H; subst. destruct r as [|[p' q'] r'].
    + cbn [chain] in Hc. contradiction.
    + cbn [chain] in Hc. destruct Hc as [E' _]. subst p'. exists q'. right. left. reflexivity.
  - destruct (IH _ _ Hc _ _ H Hx) as [y Hy]. exists y. right. exact Hy.
Qed.

Lemma chain_out_in : forall l a b, chain l a b ->
  forall x y, In (x, y) l -> x <> a -> exists u, In (u, x) l.
Proof.
  induction l as [|[p q] r IH]; intros a b Hc x y H Hx; [destruct H|].
  cbn [chain] in Hc. destruct Hc as [E Hc]. subst p. destruct H as [H|H].
  - inversion H; subst. contradiction.
  - destruct (Nat.eq_dec x q) as [->|Hne].
    + exists a. left. reflexivity.
    + destruct (IH _ _ Hc _ _ H Hne) as [u Hu]. exists u. right. exact Hu.
Qed.

Lemma chain_no_into_start : forall l a b, chain l a b -> levelled d l -> forall u, ~ In (u, a) l.
Proof.
  intros l a b Hc Hl u H. destruct (chain_levels _ _ _ Hc Hl) as [_ Hlev].
  destruct (Hlev _ _ H). pose proof (Hl _ _ H). lia.
Qed.

Lemma chain_no_from_end : forall l a b, chain l a b -> levelled d l -> forall y, ~ In (b, y) l.
Proof.
  intros l a b Hc Hl y H. destruct (chain_levels _ _ _ Hc Hl) as [_ Hlev].
  destruct (Hlev _ _ H). pose proof (Hl _ _ H). lia.
Qed.

Lemma levelled_NoDup : forall l a b, chain l a b -> levelled d l -> NoDup l.
Proof.
  induction l as [|[u v] r IH]; intros a b Hc Hl; [constructor|].
  cbn [chain] in Hc. destruct Hc as [E Hc]. subst u.
  assert (Hl' : levelled d r) by (intros p q Hpq; apply Hl; right; exact Hpq).
  constructor; [|eapply IH; eassumption].
  intro H. destruct (chain_levels _ _ _ Hc Hl') as [_ Hlev].
  destruct (Hlev _ _ H). pose proof (Hl' _ _ H). lia.
Qed.

Lemma levelled_no_swap : forall l, levelled d l -> forall u v, In (u, v) l -> ~ In (v, u) l.
Proof.
  intros l Hl u v H1 H2. pose proof (Hl _ _ H1). pose proof (Hl _ _ H2). lia.
Qed.

Lemma levelled_no_loop : forall l, levelled d l -> forall u v, In (u, v) l -> u <> v.
Proof. intros l Hl u v H E. subst. pose proof (Hl _ _ H). lia. Qed.

End Levelled.

(* ---------- walk_back ------------------------------------------------------------- *)

Lemma walk_back_spec : forall fuel tree n acc path,
  walk_back fuel tree n acc = Some path ->
  exists pre, path = pre ++ acc /\ chain pre 0 n /\
              forall u v, In (u, v) pre -> nth v tree None = Some u.
Proof.
  induction fuel as [|fuel IH]; intros tree n acc path H.
  - destruct n; cbn [walk_back] in H; [|discriminate]. inversion H; subst.
    exists []. split; [reflexivity|]. split; [reflexivity | intros u v []].
  - destruct n as [|k]; cbn [walk_back] in H.
    + inversion H; subst. exists []. split; [reflexivity|]. split; [reflexivity | intros u v []].
    + destruct (nth (S k) tree None) as [p|] eqn:Ep; [|discriminate].
      destruct (IH _ _ _ _ H) as [pre [E [Hc Hp]]].
      exists (pre ++ [(p, S k)]). split; [rewrite <- app_assoc; exact E|]. split.
      * eapply chain_app; [exact Hc|]. cbn [chain]. split; reflexivity.
      * intros u v Hin. apply in_app_iff in Hin. destruct Hin as [Hin|[Hin|[]]].
        -- apply Hp. exact Hin.
        -- inversion Hin; subst. exact Ep.
Qed.

(* ---------- augment ------------------------------------------------------------------ *)

Definition edge_eq_dec : forall e1 e2 : nat * nat, {e1 = e2} + {e1 <> e2}.
Proof. decide equality; apply Nat.eq_dec. Defined.

Lemma shape_augment : forall dim path f delta, shape dim f -> shape dim (augment f delta path).
Proof.
  intros dim. induction path as [|[u v] r IH]; intros f delta Hs; cbn [augment]; [exact Hs|].
  apply IH. apply shape_mset. apply shape_mset. exact Hs.
Qed.

Lemma augment_spec : forall dim path f,
  shape dim f ->
  (forall u v, In (u, v) path -> u < dim /\ v < dim /\ u <> v) ->
  NoDup path -> (forall u v, In (u, v) path -> ~ In (v, u) path) ->
  forall a b,
    mget (augment f 1%Z path) a b =
    if in_dec edge_eq_dec (a, b) path then (mget f a b + 1)%Z
    else if in_dec edge_eq_dec (b, a) path then (mget f a b - 1)%Z
    else mget f a b.
Proof.
  intros dim. induction path as [|[u v] r IH]; intros f Hs Hd Hnd Hsw a b; cbn [augment].
  - destruct (in_dec edge_eq_dec (a, b) []) as [[]|_]. destruct (in_dec edge_eq_dec (b, a) []) as [[]|_]. reflexivity.
  - destruct (Hd u v (or_introl eq_refl)) as [Hu [Hv Huv]].
    inversion Hnd as [|x y Hnotin Hnd']; subst.
    assert (Hs1 : shape dim (mset f u v (mget f u v + 1)%Z)) by (apply shape_mset; exact Hs).
    set (f1 := mset f u v (mget f u v + 1)%Z) in *.
    assert (Hs2 : shape dim (mset f1 v u (mget f1 v u - 1)%Z)) by (apply shape_mset; exact Hs1).
    set (f2 := mset f1 v u (mget f1 v u - 1)%Z) in *.
    assert (Hd' : forall p q, In (p, q) r -> p < dim /\ q < dim /\ p <> q) by (intros p q H; apply Hd; right; exact H).
    assert (Hsw' : forall p q, In (p, q) r -> ~ In (q, p) r).
    { intros p q H1 H2. apply (Hsw p q); right; assumption. }
    rewrite (IH f2 Hs2 Hd' Hnd' Hsw' a b).
    assert (Hvu : ~ In (v, u) r) by (intro H; apply (Hsw u v); [left; reflexivity | right; exact H]).
    assert (F2 : mget f2 a b = if Nat.eqb a v && Nat.eqb b u then (mget f v u - 1)%Z
                               else if Nat.eqb a u && Nat.eqb b v then (mget f u v + 1)%Z else mget f a b).
    { unfold f2. rewrite (mget_mset dim) by assumption.
      destruct (Nat.eqb a v && Nat.eqb b u) eqn:E1.
      - unfold f1. rewrite (mget_mset_other dim) by (try assumption; lia). reflexivity.
      - unfold f1. rewrite (mget_mset dim) by assumption. reflexivity. }
    destruct (in_dec edge_eq_dec (a, b) ((u, v) :: r)) as [Hab|Hab];
      destruct (in_dec edge_eq_dec (a, b) r) as [Hab'|Hab'].
    + (* (a,b) in r: then (a,b) <> (u,v), and (a,b) <> (v,u) *)
      rewrite F2.
      assert (N1 : Nat.eqb a v && Nat.eqb b u = false).
      { apply andb_false_iff. destruct (Nat.eqb a v) eqn:Ea; [|left; reflexivity]. right.
        apply Nat.eqb_eq in Ea. subst a. apply Nat.eqb_neq. intro; subst b. contradiction. }
      assert (N2 : Nat.eqb a u && Nat.eqb b v = false).
      { apply andb_false_iff. destruct (Nat.eqb a u) eqn:Ea; [|left; reflexivity]. right.
        apply Nat.eqb_eq in Ea. subst a. apply Nat.eqb_neq. intro; subst b. contradiction. }
      rewrite N1, N2. reflexivity.
    + (* (a,b) = (u,v) *)
      destruct Hab as [Hab|Hab]; [|contradiction]. inversion Hab; subst a b.
      destruct (in_dec edge_eq_dec (v, u) r) as [H|_]; [contradiction|].
      rewrite F2, !Nat.eqb_refl.
      assert (N1 : Nat.eqb u v = false) by (apply Nat.eqb_neq; exact Huv).
      rewrite N1. cbn [andb]. reflexivity.
    + exfalso. apply Hab. right. exact Hab'.
    + (* (a,b) not in path *)
      assert (N2 : Nat.eqb a u && Nat.eqb b v = false).
      { apply andb_false_iff. destruct (Nat.eqb a u) eqn:Ea; [|left; reflexivity]. right.
        apply Nat.eqb_eq in Ea. subst a. apply Nat.eqb_neq. intro; subst b. apply Hab. left. reflexivity. }
      destruct (in_dec edge_eq_dec (b, a) ((u, v) :: r)) as [Hba|Hba];
        destruct (in_dec edge_eq_dec (b, a) r) as [Hba'|Hba'].
      * (* (b,a) in r, so (b,a) <> (u,v) *)
        rewrite F2, N2.
        assert (N1 : Nat.eqb a v && Nat.eqb b u = false).
        { apply andb_false_iff. destruct (Nat.eqb a v) eqn:Ea; [|left; reflexivity]. right.
          apply Nat.eqb_eq in Ea. subst a. apply Nat.eqb_neq. intro; subst b. contradiction. }
        rewrite N1. reflexivity.
      * destruct Hba as [Hba|Hba]; [|contradiction]. inversion Hba; subst a b.
        rewrite F2, !Nat.eqb_refl. cbn [andb]. reflexivity.
      * exfalso. apply Hba. right. exact Hba'.
      * rewrite F2, N2.
        assert (N1 : Nat.eqb a v && Nat.eqb b u = false).
        { apply andb_false_iff. destruct (Nat.eqb a v) eqn:Ea; [|left; reflexivity]. right.
          apply Nat.eqb_eq in Ea. subst a. apply Nat.eqb_neq. intro; subst b. apply Hba. left. reflexivity. }
        rewrite N1. reflexivity.
Qed.

(* all residual capacities on the path are 1, so delta = 1 *)
Lemma path_delta_one : forall cf path,
  path <> [] -> (forall u v, In (u, v) path -> mget cf u v = 1%Z) -> path_delta cf path = Some 1%Z.
Proof.
  intros cf path Hne H. destruct path as [|[u v] r]; [contradiction|]. cbn [path_delta].
  rewrite (H u v (or_introl eq_refl)).
  assert (Hr : forall e, In e r -> mget cf (fst e) (snd e) = 1%Z).
  { intros [p q] Hin. apply H. right. exact Hin. }
  clear H Hne. f_equal. induction r as [|e r IH]; cbn [fold_left]; [reflexivity|].
  rewrite (Hr e (or_introl eq_refl)). change (Z.min 1 1) with 1%Z.
  apply IH. intros e' He'. apply Hr. right. exact He'.
Qed.
