(* C44: proofs about Model/Helper.v *)
From Coq Require Import List NArith Arith Bool Lia.
From Verif Require Import Model.Helper.
Import ListNotations.

Definition is_prefix (a b : bytes) : Prop := exists t, b = a ++ t.

Definition positive (cs : list nat) : Prop := Forall (fun c => 0 < c) cs.

Lemma slice_of_prefix : forall file t len, slice (file ++ t) (length file) len = firstn len t.
Proof.
  intros. unfold slice. rewrite skipn_app. rewrite skipn_all. rewrite Nat.sub_diag. reflexivity.
Qed.

Lemma prefix_full : forall a b, is_prefix a b -> length b <= length a -> a = b.
Proof.
  intros a b [t E] L. subst b. rewrite app_length in L. destruct t; [rewrite app_nil_r; reflexivity|cbn in L; lia].
Qed.

Lemma prefix_length : forall a b, is_prefix a b -> length a <= length b.
Proof. intros a b [t E]. subst. rewrite app_length. lia. Qed.

(* one round of the loop keeps "the incoming file is a prefix of the ciphertext" and the reader in step *)
Lemma read_extends_prefix : forall ct file r len data r',
    is_prefix file ct -> rd_offset r <= length file -> 0 < len -> len <= length ct - length file ->
    remote_read_encrypted ct r (length file) len = Some (data, r') ->
    is_prefix (file ++ data) ct /\ rd_offset r' = length (file ++ data) /\ length data = len
    /\ rd_calls r' = S (rd_calls r).
Proof.
  intros ct file r len data r' [t E] RO P L H. subst ct.
  unfold remote_read_encrypted in H.
  destruct (length file <? rd_offset r) eqn:C; [apply Nat.ltb_lt in C; lia|].
  inversion H; subst data r'. clear H. rewrite slice_of_prefix.
  rewrite app_length in L.
  assert (LT : len <= length t) by lia.
  split; [|split; [|split]].
  - exists (skipn len t). rewrite <- app_assoc. rewrite firstn_skipn. reflexivity.
  - cbn. rewrite app_length. reflexivity.
  - rewrite firstn_length. lia.
  - reflexivity.
Qed.

Lemma read_never_refused : forall (ct file : bytes) r len,
    rd_offset r <= length file -> remote_read_encrypted ct r (length file) len <> None.
Proof.
  intros. unfold remote_read_encrypted.
  destruct (length file <? rd_offset r) eqn:C; [apply Nat.ltb_lt in C; lia|discriminate].
Qed.

(* the loop from a prefix: whatever the chunking and wherever it is cut, the file stays a prefix; when the
   loop says "done" the file IS the ciphertext; no read is refused *)
Lemma fetch_loop_inv : forall cs ct r file res r',
    positive cs -> is_prefix file ct -> rd_offset r <= length file ->
    fetch_loop cs ct r file = (res, r') ->
    match res with
    | Complete f => f = ct
    | Interrupted f => is_prefix f ct /\ is_prefix file f
    | Refused _ => False
    end.
Proof.
  induction cs as [|c cs IH]; intros ct r file res r' P PR RO H; cbn [fetch_loop] in H.
  - unfold fetch_step in H. pose proof (prefix_length _ _ PR) as L.
    destruct (length ct <? length file) eqn:C; [apply Nat.ltb_lt in C; lia|].
    destruct (Nat.min (length ct - length file) 1 =? 0) eqn:Z.
    + inversion H; subst. apply Nat.eqb_eq in Z. apply prefix_full; [exact PR|lia].
    + inversion H; subst. split; [exact PR|exists []; rewrite app_nil_r; reflexivity].
  - inversion P as [|c' cs' PC PCS]; subst.
    unfold fetch_step in H. pose proof (prefix_length _ _ PR) as L.
    destruct (length ct <? length file) eqn:C; [apply Nat.ltb_lt in C; lia|].
    destruct (Nat.min (length ct - length file) c =? 0) eqn:Z.
    + inversion H; subst. apply Nat.eqb_eq in Z. apply prefix_full; [exact PR|lia].
    + apply Nat.eqb_neq in Z.
      destruct (remote_read_encrypted ct r (length file) (Nat.min (length ct - length file) c)) as [[data r1]|] eqn:RD;
        [|exfalso; eapply read_never_refused; eauto].
      destruct (read_extends_prefix ct file r (Nat.min (length ct - length file) c) data r1 PR RO ltac:(lia) ltac:(lia) RD) as [P1 [O1 [L1 _]]].
      specialize (IH ct r1 (file ++ data) res r' PCS P1 ltac:(lia) H).
      destruct res; try exact IH.
      destruct IH as [A [t B]]. split; [exact A|]. exists (data ++ t). rewrite app_assoc. exact B.
Qed.

(* with enough rounds the loop finishes *)
Lemma fetch_loop_completes : forall cs ct r file,
    positive cs -> is_prefix file ct -> rd_offset r <= length file ->
    length ct - length file <= length cs ->
    exists r', fetch_loop cs ct r file = (Complete ct, r').
Proof.
  induction cs as [|c cs IH]; intros ct r file P PR RO N; cbn [fetch_loop].
  - unfold fetch_step. pose proof (prefix_length _ _ PR) as L. cbn in N.
    destruct (length ct <? length file) eqn:C; [apply Nat.ltb_lt in C; lia|].
    replace (length ct - length file) with 0 by lia. cbn.
    exists r. f_equal. f_equal. apply prefix_full; [exact PR|lia].
  - inversion P as [|c' cs' PC PCS]; subst.
    unfold fetch_step. pose proof (prefix_length _ _ PR) as L.
    destruct (length ct <? length file) eqn:C; [apply Nat.ltb_lt in C; lia|].
    destruct (Nat.min (length ct - length file) c =? 0) eqn:Z.
    + apply Nat.eqb_eq in Z. exists r. f_equal. f_equal. apply prefix_full; [exact PR|lia].
    + apply Nat.eqb_neq in Z.
      destruct (remote_read_encrypted ct r (length file) (Nat.min (length ct - length file) c)) as [[data r1]|] eqn:RD;
        [|exfalso; eapply read_never_refused; eauto].
      destruct (read_extends_prefix ct file r (Nat.min (length ct - length file) c) data r1 PR RO ltac:(lia) ltac:(lia) RD) as [P1 [O1 [L1 _]]].
      apply IH; try assumption; try lia.
      rewrite app_length. cbn in N. lia.
Qed.

Lemma nil_prefix : forall ct, is_prefix [] ct.
Proof. intros ct. exists ct. reflexivity. Qed.

(* an interrupted transfer leaves a prefix of the ciphertext in the incoming file *)
Lemma interrupted_leaves_prefix_ok : forall cs ct incoming f r,
    positive cs -> is_prefix incoming ct ->
    fetch_loop cs ct fresh_reader incoming = (Interrupted f, r) -> is_prefix f ct.
Proof.
  intros cs ct incoming f r P PR H.
  pose proof (fetch_loop_inv cs ct fresh_reader incoming (Interrupted f) r P PR ltac:(cbn; lia) H) as I.
  cbn in I. tauto.
Qed.

(* resuming from any prefix, with any chunking, ends with exactly the ciphertext *)
Lemma resume_from_prefix_ok : forall cs ct incoming,
    positive cs -> is_prefix incoming ct -> length ct - length incoming <= length cs ->
    fst (fetch_loop cs ct fresh_reader incoming) = Complete ct.
Proof.
  intros cs ct incoming P PR N.
  destruct (fetch_loop_completes cs ct fresh_reader incoming P PR ltac:(cbn; lia) N) as [r' E]. rewrite E. reflexivity.
Qed.

Lemma resumed_equals_uninterrupted : forall ct cs1 cs2 cs f1 r1,
    positive cs1 -> positive cs2 -> positive cs ->
    fetch_loop cs1 ct fresh_reader [] = (Interrupted f1, r1) ->
    length ct - length f1 <= length cs2 -> length ct <= length cs ->
    fst (fetch_loop cs2 ct fresh_reader f1) = Complete ct
    /\ fst (fetch_loop cs ct fresh_reader []) = Complete ct.
Proof.
  intros ct cs1 cs2 cs f1 r1 P1 P2 P H N2 N. split.
  - apply resume_from_prefix_ok; try assumption.
    eapply interrupted_leaves_prefix_ok; [exact P1|apply nil_prefix|exact H].
  - apply resume_from_prefix_ok; try assumption; [apply nil_prefix|cbn; lia].
Qed.

(* a cut after j rounds really is an interruption point, and the bytes on disk are the first bytes *)
Lemma cut_is_interruption : forall cs ct f r,
    positive cs -> fetch_loop cs ct fresh_reader [] = (Interrupted f, r) ->
    is_prefix f ct /\ length f < length ct /\ rd_calls r = length cs.
Proof.
  intros cs ct f r P H.
  assert (G : forall cs ct r0 file f r, positive cs -> is_prefix file ct -> rd_offset r0 <= length file ->
                fetch_loop cs ct r0 file = (Interrupted f, r) ->
                length f < length ct /\ rd_calls r = rd_calls r0 + length cs).
  { clear. induction cs as [|c cs IH]; intros ct r0 file f r P PR RO H; cbn [fetch_loop] in H.
    - unfold fetch_step in H. destruct (length ct <? length file) eqn:C; [discriminate|].
      destruct (Nat.min (length ct - length file) 1 =? 0) eqn:Z; [discriminate|].
      inversion H; subst. apply Nat.eqb_neq in Z. cbn. split; lia.
    - inversion P as [|c' cs' PC PCS]; subst. pose proof (prefix_length _ _ PR) as L.
      unfold fetch_step in H. destruct (length ct <? length file) eqn:C; [discriminate|].
      destruct (Nat.min (length ct - length file) c =? 0) eqn:Z; [discriminate|]. apply Nat.eqb_neq in Z.
      destruct (remote_read_encrypted ct r0 (length file) (Nat.min (length ct - length file) c)) as [[data r1]|] eqn:RD;
        [|discriminate].
      destruct (read_extends_prefix ct file r0 (Nat.min (length ct - length file) c) data r1 PR RO ltac:(lia) ltac:(lia) RD) as [P1 [O1 [L1 K1]]].
      destruct (IH ct r1 (file ++ data) f r PCS P1 ltac:(lia) H) as [A B]. split; [exact A|]. cbn. lia. }
  destruct (G cs ct fresh_reader [] f r P (nil_prefix ct) ltac:(cbn; lia) H) as [A B].
  split; [|split; [exact A|exact B]].
  eapply interrupted_leaves_prefix_ok; [exact P|apply nil_prefix|exact H].
Qed.

(* the requests of a session start at the size of the incoming file and are contiguous *)
Lemma requests_start_at_have : forall fuel size have chunk off len rest,
    fetch_requests fuel size have chunk = (off, len) :: rest -> off = have /\ 0 < len /\ have + len <= size.
Proof.
  intros fuel size have chunk off len rest H. destruct fuel; cbn in H; [discriminate|].
  unfold fetch_step in H. destruct (size <? have) eqn:C; [discriminate|]. apply Nat.ltb_ge in C.
  destruct (Nat.min (size - have) chunk =? 0) eqn:Z; [discriminate|]. apply Nat.eqb_neq in Z.
  inversion H; subst. repeat split; lia.
Qed.

Section Upload.
  Variable encode : bytes -> params -> list bytes.
  Variable ueb_hash : bytes -> params -> bytes.

  Lemma build_cap_own : forall key ct p fetched,
      build_cap key (length ct) p (snd (helper_encode encode ueb_hash ct p fetched))
      = Some (snd (direct_upload encode ueb_hash key ct p)).
  Proof.
    intros. unfold build_cap, helper_encode, direct_upload. cbn. rewrite !Nat.eqb_refl. reflexivity.
  Qed.

  Lemma helper_equals_direct : forall key ct p cs incoming,
      positive cs -> is_prefix incoming ct -> length ct - length incoming <= length cs ->
      exists reads,
        assisted_session encode ueb_hash key ct p cs incoming
        = (Complete ct, Some (direct_upload encode ueb_hash key ct p), reads).
  Proof.
    intros key ct p cs incoming P PR N. unfold assisted_session.
    destruct (fetch_loop_completes cs ct fresh_reader incoming P PR ltac:(cbn; lia) N) as [r' E]. rewrite E.
    exists (rd_calls r'). cbn [helper_encode].
    pose proof (build_cap_own key ct p (rd_sent r')) as B. cbn [helper_encode snd] in B. rewrite B.
    reflexivity.
  Qed.

  Lemma already_present : forall key ct p cs incoming found u,
      u_n u <= length (nodup Nat.eq_dec found) ->
      upload_chk false found (Some u) = AlreadyPresent (mk_hur (u_hash u) (u_k u) (u_n u) (u_segsize u) (u_size u) 0 0)
      /\ snd (client_upload encode ueb_hash key ct p cs incoming false found (Some u)) = 0
      /\ (u_hash u = ueb_hash ct p -> u_k u = p_k p -> u_n u = p_n p -> u_segsize u = p_segsize p -> u_size u = length ct ->
          fst (client_upload encode ueb_hash key ct p cs incoming false found (Some u))
          = Some (snd (direct_upload encode ueb_hash key ct p))).
  Proof.
    intros key ct p cs incoming found u H.
    assert (E : upload_chk false found (Some u) = AlreadyPresent (mk_hur (u_hash u) (u_k u) (u_n u) (u_segsize u) (u_size u) 0 0)).
    { unfold upload_chk, chk_check. destruct (length (nodup Nat.eq_dec found) <? u_n u) eqn:C; [apply Nat.ltb_lt in C; lia|reflexivity]. }
    split; [exact E|]. unfold client_upload. rewrite E. split; [reflexivity|].
    intros H1 H2 H3 H4 H5. cbn [fst]. unfold build_cap, direct_upload. cbn.
    rewrite H1, H2, H3, H4, H5, !Nat.eqb_refl. reflexivity.
  Qed.

  Lemma not_all_shares : forall found u active,
      length (nodup Nat.eq_dec found) < u_n u -> upload_chk active found (Some u) = NeedUpload.
  Proof.
    intros found u active H. unfold upload_chk, chk_check. destruct active; [reflexivity|].
    destruct (length (nodup Nat.eq_dec found) <? u_n u) eqn:C; [reflexivity|apply Nat.ltb_ge in C; lia].
  Qed.

  Lemma no_ueb : forall found active, upload_chk active found None = NeedUpload.
  Proof. intros. unfold upload_chk, chk_check. destruct active; reflexivity. Qed.
End Upload.
