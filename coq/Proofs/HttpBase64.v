(* base64 round trip and injectivity of the Authorization header (C30). *)
From Coq Require Import List NArith ZArith Bool Lia.
Require Import ZifyBool ZifyN.
From Verif Require Import Lib.Hex Gen.Routes Model.HttpAuth Proofs.HttpAuth.
Import ListNotations.
Local Open Scope N_scope.
Local Open Scope bool_scope.
Ltac Zify.zify_post_hook ::= Z.to_euclidean_division_equations.

(* ---------------------------------------------------------------- base64 round trip *)

Lemma b64val_char_nat : forall n : nat, (n < 64)%nat ->
  b64val (b64char (N.of_nat n)) = Some (N.of_nat n) /\ b64char (N.of_nat n) <> 61 /\ b64char (N.of_nat n) < 128.
Proof.
  intros n H.
  do 64 (destruct n as [|n]; [vm_compute; repeat split; congruence|]). lia.
Qed.

Lemma b64val_char v : v < 64 -> b64val (b64char v) = Some v /\ b64char v <> 61 /\ b64char v < 128.
Proof.
  intro H. rewrite <- (Nnat.N2Nat.id v). apply b64val_char_nat. lia.
Qed.

Lemma loop_q0 ch v r acc : ch <> 61 -> b64val ch = Some v ->
  b64_loop (ch :: r) 0 0 0 acc = b64_loop r 1 v 0 acc.
Proof. intros H1 H2. cbn [b64_loop]. apply N.eqb_neq in H1. rewrite H1, H2. reflexivity. Qed.

Lemma loop_q1 ch v r l acc : ch <> 61 -> b64val ch = Some v ->
  b64_loop (ch :: r) 1 l 0 acc = b64_loop r 2 (v mod 16) 0 ((l * 4 + v / 16) :: acc).
Proof. intros H1 H2. cbn [b64_loop]. apply N.eqb_neq in H1. rewrite H1, H2. reflexivity. Qed.

Lemma loop_q2 ch v r l acc : ch <> 61 -> b64val ch = Some v ->
  b64_loop (ch :: r) 2 l 0 acc = b64_loop r 3 (v mod 4) 0 ((l * 16 + v / 4) :: acc).
Proof. intros H1 H2. cbn [b64_loop]. apply N.eqb_neq in H1. rewrite H1, H2. reflexivity. Qed.

Lemma loop_q3 ch v r l acc : ch <> 61 -> b64val ch = Some v ->
  b64_loop (ch :: r) 3 l 0 acc = b64_loop r 0 0 0 ((l * 64 + v) :: acc).
Proof. intros H1 H2. cbn [b64_loop]. apply N.eqb_neq in H1. rewrite H1, H2. reflexivity. Qed.

Local Opaque b64char b64val.

Lemma b64_loop_encode : forall n b acc,
  (length b <= n)%nat -> Forall is_byte b ->
  b64_loop (b64encode b) 0 0 0 acc = Some (rev acc ++ b).
Proof.
  unfold is_byte.
  induction n as [|n IH]; intros b acc Hl Hb.
  - destruct b; [|simpl in Hl; lia]. simpl. rewrite app_nil_r. reflexivity.
  - destruct b as [|x [|y [|z r]]].
    + simpl. rewrite app_nil_r. reflexivity.
    + inversion Hb as [|? ? Hx _]; subst.
      cbn [b64encode].
      destruct (b64val_char (x / 4)) as [A1 [A2 _]]; [lia|].
      destruct (b64val_char ((x mod 4) * 16)) as [B1 [B2 _]]; [lia|].
      rewrite (loop_q0 _ _ _ _ A2 A1), (loop_q1 _ _ _ _ _ B2 B1).
      cbn [b64_loop]. simpl. f_equal. f_equal. f_equal. lia.
    + inversion Hb as [|? ? Hx Hb']; subst. inversion Hb' as [|? ? Hy _]; subst.
      cbn [b64encode].
      destruct (b64val_char (x / 4)) as [A1 [A2 _]]; [lia|].
      destruct (b64val_char ((x mod 4) * 16 + y / 16)) as [B1 [B2 _]]; [lia|].
      destruct (b64val_char ((y mod 16) * 4)) as [C1 [C2 _]]; [lia|].
      rewrite (loop_q0 _ _ _ _ A2 A1), (loop_q1 _ _ _ _ _ B2 B1), (loop_q2 _ _ _ _ _ C2 C1).
      cbn [b64_loop]. simpl. rewrite <- app_assoc. simpl. f_equal. f_equal. f_equal; [lia|]. f_equal. lia.
    + inversion Hb as [|? ? Hx Hb']; subst. inversion Hb' as [|? ? Hy Hb'']; subst.
      inversion Hb'' as [|? ? Hz Hr]; subst.
      cbn [b64encode].
      destruct (b64val_char (x / 4)) as [A1 [A2 _]]; [lia|].
      destruct (b64val_char ((x mod 4) * 16 + y / 16)) as [B1 [B2 _]]; [lia|].
      destruct (b64val_char ((y mod 16) * 4 + z / 64)) as [C1 [C2 _]]; [lia|].
      destruct (b64val_char (z mod 64)) as [D1 [D2 _]]; [lia|].
      rewrite (loop_q0 _ _ _ _ A2 A1), (loop_q1 _ _ _ _ _ B2 B1), (loop_q2 _ _ _ _ _ C2 C1), (loop_q3 _ _ _ _ _ D2 D1).
      rewrite IH; [|simpl in Hl; lia|exact Hr].
      simpl. rewrite <- !app_assoc. simpl. f_equal. f_equal. f_equal; [lia|]. f_equal; [lia|]. f_equal. lia.
Qed.

Lemma b64encode_ascii : forall n b, (length b <= n)%nat -> Forall is_byte b ->
  existsb (fun c => 128 <=? c) (b64encode b) = false.
Proof.
  unfold is_byte.
  assert (P : forall v, v < 64 -> (128 <=? b64char v) = false).
  { intros v Hv. destruct (b64val_char v Hv) as [_ [_ H]]. apply N.leb_gt. exact H. }
  induction n as [|n IH]; intros b Hl Hb.
  - destruct b; [reflexivity | simpl in Hl; lia].
  - destruct b as [|x [|y [|z r]]]; [reflexivity| | |].
    + inversion Hb; subst. cbn [b64encode existsb]. rewrite !P by lia. reflexivity.
    + inversion Hb as [|? ? Hx Hb']; subst. inversion Hb'; subst.
      cbn [b64encode existsb]. rewrite !P by lia. reflexivity.
    + inversion Hb as [|? ? Hx Hb']; subst. inversion Hb' as [|? ? Hy Hb'']; subst.
      inversion Hb'' as [|? ? Hz Hr]; subst.
      cbn [b64encode existsb]. rewrite !P by lia. simpl. apply IH; [simpl in Hl; lia | exact Hr].
Qed.

Lemma b64_roundtrip b : Forall is_byte b -> b64decode (b64encode b) = Some b.
Proof.
  intro H. unfold b64decode. rewrite (b64encode_ascii (length b) b (le_n _) H).
  rewrite (b64_loop_encode (length b) b [] (le_n _) H). reflexivity.
Qed.

Lemma swissnum_header_injective a b :
  Forall is_byte a -> Forall is_byte b -> swissnum_auth_header a = swissnum_auth_header b -> a = b.
Proof.
  intros Ha Hb H. unfold swissnum_auth_header in H. apply app_inv_head in H.
  apply (f_equal b64decode) in H. rewrite !b64_roundtrip in H by assumption. congruence.
Qed.

(* presenting the header of any OTHER swissnum is presenting no swissnum *)
Lemma other_swissnum_ok :
  forall (B R RTW : Type) bucket_write bucket_abort already_uploaded backend_rtw
         swissnum swissnum' required more xauth (a : action B R RTW) st,
    Forall is_byte swissnum -> Forall is_byte swissnum' -> swissnum' <> swissnum ->
    serve B R RTW bucket_write bucket_abort already_uploaded backend_rtw swissnum required
          (mk_request (Some (swissnum_auth_header swissnum') :: map Some more) xauth) a st
    = (st, HStatus 401).
Proof.
  intros B R RTW bw ba au br sw sw' req more xauth a st Hb Hb' Hne.
  assert (E : auth_header (mk_request (Some (swissnum_auth_header sw') :: map Some more) xauth)
              = Some (swissnum_auth_header sw')).
  { unfold auth_header. simpl.
    assert (A : all_some (map Some more) = Some more).
    { induction more as [|m more IH]; simpl; [reflexivity | rewrite IH; reflexivity]. }
    rewrite A. reflexivity. }
  rewrite (serve_no_swissnum B R RTW bw ba au br sw req _ a st).
  - rewrite E. reflexivity.
  - rewrite E. intro H. injection H as H1. apply Hne. apply swissnum_header_injective; [exact Hb' | exact Hb | unfold swissnum_auth_header; rewrite H1; reflexivity].
Qed.
