From Coq Require Import List NArith Bool Lia.
From Verif Require Import Model.Publish.
Import ListNotations.
Local Open Scope N_scope.

Lemma writer_eqb_eq a b : writer_eqb a b = true <-> a = b.
Proof.
  destruct a as [s1 v1], b as [s2 v2]; unfold writer_eqb; cbn.
  rewrite andb_true_iff, !N.eqb_eq. split; [intros [-> ->]; reflexivity|intro H; inversion H; auto].
Qed.

Lemma mem_N_In x l : mem_N x l = true <-> In x l.
Proof.
  induction l as [|y r IH]; cbn; [split; [discriminate|contradiction]|].
  rewrite orb_true_iff, N.eqb_eq, IH. split; intros [H|H]; auto.
Qed.

Lemma dedup_N_In x l : In x (dedup_N l) <-> In x l.
Proof.
  induction l as [|y r IH]; cbn; [tauto|]. destruct (mem_N y r) eqn:E.
  - rewrite IH. apply mem_N_In in E. split; [auto|]. intros [H|H]; [subst; exact E|exact H].
  - cbn. rewrite IH. tauto.
Qed.

Lemma dedup_N_NoDup l : NoDup (dedup_N l).
Proof.
  induction l as [|y r IH]; cbn; [constructor|]. destruct (mem_N y r) eqn:E; [exact IH|].
  constructor; [|exact IH]. rewrite dedup_N_In. intro H. apply mem_N_In in H. congruence.
Qed.

Lemma distinct_shnums_mono A B :
  (forall x, In x (map w_shnum A) -> In x (map w_shnum B)) -> distinct_shnums A <= distinct_shnums B.
Proof.
  intro H. unfold distinct_shnums.
  assert ((length (dedup_N (map w_shnum A)) <= length (dedup_N (map w_shnum B)))%nat).
  { apply NoDup_incl_length; [apply dedup_N_NoDup|]. intros x Hx. apply dedup_N_In. apply H. apply dedup_N_In, Hx. }
  lia.
Qed.

(* ---- facts about one answer ---- *)
Lemma handle_writers_subset s w a x : In x (writers (handle_answer s w a)) -> In x (writers s).
Proof.
  destruct a as [|wrote rd]; cbn.
  - intro H. apply filter_In in H. tauto.
  - destruct wrote; cbn; auto.
Qed.

Lemma handle_surprised_mono s w a : surprised s = true -> surprised (handle_answer s w a) = true.
Proof.
  intro H. destruct a as [|wrote rd]; cbn; [exact H|].
  destruct wrote; cbn; [|reflexivity].
  destruct (existsb _ rd); [reflexivity|exact H].
Qed.

Lemma handle_placed_mono s w a x : In x (placed s) -> In x (placed (handle_answer s w a)).
Proof. destruct a as [|wrote rd]; cbn; [auto|]. destruct wrote; cbn; auto. Qed.

Lemma handle_placed_inv s w a x :
  In x (placed (handle_answer s w a)) -> In x (placed s) \/ (x = w /\ exists rd, a = Answered true rd).
Proof.
  destruct a as [|wrote rd]; cbn; [auto|]. destruct wrote; cbn; [|auto].
  intros [H|H]; [right; split; [auto|exists rd; reflexivity]|left; exact H].
Qed.

(* ---- facts about the whole answer list ---- *)
Lemma all_writers_subset answers : forall s x, In x (writers (handle_all s answers)) -> In x (writers s).
Proof.
  induction answers as [|[w a] r IH]; intros s x H; [exact H|].
  cbn in H. apply IH in H. eapply handle_writers_subset; eauto.
Qed.

Lemma all_surprised_mono answers : forall s, surprised s = true -> surprised (handle_all s answers) = true.
Proof.
  induction answers as [|[w a] r IH]; intros s H; [exact H|]. cbn. apply IH, handle_surprised_mono, H.
Qed.

Lemma all_placed_mono answers : forall s x, In x (placed s) -> In x (placed (handle_all s answers)).
Proof.
  induction answers as [|[w a] r IH]; intros s x H; [exact H|]. cbn. apply IH, handle_placed_mono, H.
Qed.

Lemma all_placed_inv answers : forall s x,
  In x (placed (handle_all s answers)) -> In x (placed s) \/ exists rd, In (x, Answered true rd) answers.
Proof.
  induction answers as [|[w a] r IH]; intros s x H; [left; exact H|].
  cbn in H. apply IH in H. destruct H as [H|[rd H]].
  - apply handle_placed_inv in H. destruct H as [H|[-> [rd ->]]]; [left; exact H|].
    right. exists rd. left. reflexivity.
  - right. exists rd. right. exact H.
Qed.

Lemma conn_error_removes answers : forall s w,
  In (w, ConnError) answers -> ~ In w (writers (handle_all s answers)).
Proof.
  induction answers as [|[w0 a0] r IH]; intros s w H; [contradiction|].
  cbn. destruct H as [H|H].
  - inversion H; subst. intro Hin. apply all_writers_subset in Hin. cbn in Hin.
    apply filter_In in Hin. destruct Hin as [_ Hneq]. apply negb_true_iff in Hneq.
    assert (writer_eqb w w = true) by (apply writer_eqb_eq; reflexivity). congruence.
  - apply IH, H.
Qed.

Lemma testv_failure_surprises answers : forall s w rd,
  In (w, Answered false rd) answers -> surprised (handle_all s answers) = true.
Proof.
  induction answers as [|[w0 a0] r IH]; intros s w rd H; [contradiction|].
  cbn. destruct H as [H|H].
  - inversion H; subst. apply all_surprised_mono. reflexivity.
  - eapply IH, H.
Qed.

Lemma wrote_is_placed answers : forall s w rd,
  In (w, Answered true rd) answers -> In w (placed (handle_all s answers)).
Proof.
  induction answers as [|[w0 a0] r IH]; intros s w rd H; [contradiction|].
  cbn. destruct H as [H|H].
  - inversion H; subst. apply all_placed_mono. cbn. left. reflexivity.
  - eapply IH, H.
Qed.

(* ---- property-level statements ---- *)
Definition covered (ws : list writer) (answers : list (writer * answer)) : Prop :=
  forall w, In w ws -> exists a, In (w, a) answers.

Lemma success_implies_k_acked_ok k ws answers :
  covered ws answers ->
  publish_outcome k ws answers = Success ->
  let final := handle_all (start ws) answers in
  k <= distinct_shnums (placed final) /\
  (forall w, In w (placed final) -> exists rd, In (w, Answered true rd) answers).
Proof.
  intros Hc H final. unfold publish_outcome, decide in H. fold final in H.
  destruct (distinct_shnums (writers final) <? k) eqn:E; cbn in H; [destruct (surprised final); discriminate|].
  destruct (surprised final) eqn:S; [discriminate|]. apply N.ltb_ge in E.
  split.
  - eapply N.le_trans; [exact E|]. apply distinct_shnums_mono.
    intros x Hx. apply in_map_iff in Hx. destruct Hx as [w [<- Hw]]. apply in_map.
    assert (Hws : In w ws) by (apply (all_writers_subset answers (start ws)), Hw).
    destruct (Hc w Hws) as [a Ha]. destruct a as [|wrote rd].
    + exfalso. apply (conn_error_removes answers (start ws) w Ha). exact Hw.
    + destruct wrote.
      * eapply wrote_is_placed, Ha.
      * exfalso. pose proof (testv_failure_surprises answers (start ws) w rd Ha) as X. fold final in X. congruence.
  - intros w Hw. apply all_placed_inv in Hw. destruct Hw as [[]|H']. exact H'.
Qed.

Lemma success_implies_not_surprised_ok k ws answers :
  publish_outcome k ws answers = Success ->
  surprised (handle_all (start ws) answers) = false /\
  (forall w rd, ~ In (w, Answered false rd) answers).
Proof.
  intro H. unfold publish_outcome, decide in H.
  destruct (surprised (handle_all (start ws) answers)) eqn:S.
  - rewrite orb_true_r in H. discriminate.
  - split; [reflexivity|]. intros w rd Hin.
    pose proof (testv_failure_surprises answers (start ws) w rd Hin). congruence.
Qed.

Definition has_conn_error (answers : list (writer * answer)) (w : writer) : bool :=
  existsb (fun wa => writer_eqb (fst wa) w && match snd wa with ConnError => true | _ => false end) answers.

Lemma fewer_than_k_is_error_ok k ws answers :
  distinct_shnums (filter (fun w => negb (has_conn_error answers w)) ws) < k ->
  publish_outcome k ws answers <> Success.
Proof.
  intros H Hs. unfold publish_outcome, decide in Hs.
  set (final := handle_all (start ws) answers) in *.
  destruct (distinct_shnums (writers final) <? k) eqn:E; cbn in Hs; [destruct (surprised final); discriminate|].
  apply N.ltb_ge in E.
  assert (distinct_shnums (writers final) <= distinct_shnums (filter (fun w => negb (has_conn_error answers w)) ws)).
  { apply distinct_shnums_mono. intros x Hx. apply in_map_iff in Hx. destruct Hx as [w [<- Hw]]. apply in_map.
    apply filter_In. split; [apply (all_writers_subset answers (start ws)), Hw|].
    apply negb_true_iff. destruct (has_conn_error answers w) eqn:C; [|reflexivity]. exfalso.
    unfold has_conn_error in C. apply existsb_exists in C. destruct C as [[w0 a0] [Hin Hc]]. cbn in Hc.
    apply andb_prop in Hc. destruct Hc as [Hw0 Ha0]. apply writer_eqb_eq in Hw0. subst w0.
    destruct a0; [|discriminate]. apply (conn_error_removes answers (start ws) w Hin). exact Hw. }
  lia.
Qed.

(* surprised => the error is UncoordinatedWriteError, never success *)
Lemma surprised_is_ucwe_ok k s : surprised s = true -> decide k s = UncoordinatedWrite.
Proof. intro H. unfold decide. rewrite H, orb_true_r. reflexivity. Qed.
