(* An accepted set_hashes call stores every (non-empty) value it was given:
   after acceptance the slot named by each key of `hashes`/`leaves` holds the
   supplied value.  Together with accepted_genuine this gives: an accepted leaf
   equals the genuine leaf. *)
From Coq Require Import List ZArith Bool Lia.
From Verif Require Import Model.HashTree Proofs.HashTreeBase.
Import ListNotations.
Local Open Scope Z_scope.

Section Stored.
  Variable H : Type.
  Variable H_eqb : H -> H -> bool.
  Variable pair_hash : H -> H -> H.
  Variable truthy : H -> bool.
  Hypothesis H_eqb_spec : forall a b, H_eqb a b = true <-> a = b.

  Notation tree := (list (option H)).
  Notation wst := (wst H).
  Notation is_truthy := (is_truthy H truthy).
  Notation stepB := (stepB H H_eqb truthy).
  Notation phaseB := (phaseB H H_eqb truthy).
  Notation stepC := (stepC H H_eqb pair_hash truthy).
  Notation run_level := (run_level H H_eqb pair_hash truthy).
  Notation run_levels := (run_levels H H_eqb pair_hash truthy).
  Notation set_hashes := (set_hashes H H_eqb pair_hash truthy).
  Notation mkW := (mkW H).

  (* Tb extends Ta: same length, non-empty stored values untouched *)
  Definition Keep (Ta Tb : tree) : Prop :=
    length Tb = length Ta /\ forall j, 0 <= j -> is_truthy (slot Ta j) = true -> slot Tb j = slot Ta j.

  Lemma Keep_refl : forall T, Keep T T.
  Proof. intros T. split; auto. Qed.

  Lemma Keep_trans : forall Ta Tb Tc, Keep Ta Tb -> Keep Tb Tc -> Keep Ta Tc.
  Proof.
    intros Ta Tb Tc [L1 K1] [L2 K2]. split; [congruence|]. intros j Hj Ht.
    rewrite K2; [apply K1; assumption|exact Hj|]. rewrite K1; assumption.
  Qed.

  Lemma put_keep : forall (T : tree) k cur v T',
    get T k = Some cur -> is_truthy cur = false -> put T k v = Some T' ->
    Keep T T' /\ slot T' (normz (zlen T) k) = v.
  Proof.
    intros T k cur v T' Hg Hf Hp. apply put_some_valid in Hp. destruct Hp as [Hv ->].
    rewrite get_valid in Hg by exact Hv. apply Some_inj in Hg.
    pose proof (normz_range _ _ Hv) as Hr. split; [split; [apply upd_length|]|].
    - intros j Hj Ht. rewrite slot_upd by lia. destruct (normz (zlen T) k =? j) eqn:E; [|reflexivity].
      apply Z.eqb_eq in E. rewrite <- E, Hg in Ht. congruence.
    - rewrite slot_upd by lia. rewrite Z.eqb_refl. reflexivity.
  Qed.

  Lemma stepB_stored : forall st i h st',
    stepB st i h = inl st' ->
    Keep (wT H st) (wT H st') /\
    (validz (zlen (wT H st)) i -> truthy h = true -> slot (wT H st') (normz (zlen (wT H st)) i) = Some h).
  Proof.
    intros st i h st' Hs. unfold HashTree.stepB in Hs.
    destruct (get (wT H st) i) as [cur|] eqn:Eg; [|discriminate].
    destruct (is_truthy cur) eqn:Et.
    - destruct cur as [c|]; [|cbn in Et; discriminate].
      destruct (H_eqb c h) eqn:Eq; [|discriminate]. inversion Hs. subst st'. split; [apply Keep_refl|].
      intros Hv _. rewrite get_valid in Eg by exact Hv. apply Some_inj in Eg. apply H_eqb_spec in Eq. subst c. exact Eg.
    - destruct (get (wlv H st) (depth_of i)) as [s|]; [|discriminate].
      destruct (put (wT H st) i (Some h)) as [T'|] eqn:Ep; [|discriminate].
      destruct (put (wlv H st) (depth_of i) (zadd i s)) as [lv'|]; [|discriminate].
      inversion Hs. subst st'. cbn [wT]. destruct (put_keep _ _ _ _ _ Eg Et Ep) as [K S]. split; [exact K|]. intros _ _. exact S.
  Qed.

  Lemma phaseB_stored : forall nh st st',
    phaseB nh st = inl st' ->
    Keep (wT H st) (wT H st') /\
    (forall k h, In (k, h) nh -> validz (zlen (wT H st)) k -> truthy h = true ->
                 slot (wT H st') (normz (zlen (wT H st)) k) = Some h).
  Proof.
    induction nh as [|[i h] r IH]; intros st st' Hp; cbn [HashTree.phaseB] in Hp.
    - inversion Hp. subst. split; [apply Keep_refl|intros k h' []].
    - destruct (stepB st i h) as [st1|e] eqn:Es; [|discriminate].
      destruct (stepB_stored _ _ _ _ Es) as [K1 S1]. destruct (IH _ _ Hp) as [K2 S2].
      assert (Hz : zlen (wT H st1) = zlen (wT H st)) by (unfold zlen; rewrite (proj1 K1); reflexivity).
      split; [apply (Keep_trans _ _ _ K1 K2)|].
      intros k h' [Heq|Hin] Hv Ht.
      + inversion Heq. subst k h'. pose proof (S1 Hv Ht) as Hs1. pose proof (normz_range _ _ Hv) as Hr.
        rewrite (proj2 K2); [exact Hs1|lia|]. rewrite Hs1. exact Ht.
      + rewrite <- Hz. apply (S2 k h' Hin); [rewrite Hz; exact Hv|exact Ht].
  Qed.

  Lemma stepC_keep : forall l i cur st cur' st',
    stepC l i cur st = inl (cur', st') -> Keep (wT H st) (wT H st').
  Proof.
    intros l i cur st cur' st' Hs. unfold HashTree.stepC in Hs.
    destruct (i =? 0); [inversion Hs; apply Keep_refl|].
    destruct (sibling (zlen (wT H st)) i) as [s|]; [|discriminate].
    destruct (get (wT H st) s) as [[hs|]|]; try discriminate.
    destruct (parent (zlen (wT H st)) i) as [p|]; [|discriminate].
    destruct (get (wT H st) (Z.min i s)) as [[hl|]|]; try discriminate;
    destruct (get (wT H st) (Z.max i s)) as [[hr|]|]; try discriminate;
    destruct (get (wT H st) p) as [pcur|] eqn:Eg; try discriminate.
    destruct (is_truthy pcur) eqn:Et.
    - destruct pcur as [ph|]; [|discriminate]. destruct (H_eqb ph (pair_hash hl hr)); [|discriminate].
      inversion Hs. apply Keep_refl.
    - destruct (put (wT H st) p (Some (pair_hash hl hr))) as [T'|] eqn:Ep; [|discriminate].
      cbv zeta in Hs. destruct (negb (depth_of p =? l - 1)); [discriminate|].
      destruct (get (wlv H st) (depth_of p)) as [s'|]; [|discriminate].
      destruct (put (wlv H st) (depth_of p) (zadd p s')) as [lv'|]; [|discriminate].
      inversion Hs. cbn [wT]. apply (put_keep _ _ _ _ _ Eg Et Ep).
  Qed.

  Lemma run_level_keep : forall fuel l cur st ord st' ord' cur',
    run_level fuel l cur st ord = inl (st', ord', cur') -> Keep (wT H st) (wT H st').
  Proof.
    induction fuel as [|f IH]; intros l cur st ord st' ord' cur' Hr; cbn [HashTree.run_level] in Hr.
    - inversion Hr. apply Keep_refl.
    - destruct (zpop ord cur) as [[[i c1] o1]|]; [|inversion Hr; apply Keep_refl].
      destruct (stepC l i c1 st) as [[c2 st1]|e] eqn:Es; [|discriminate].
      apply (Keep_trans _ _ _ (stepC_keep _ _ _ _ _ _ Es) (IH _ _ _ _ _ _ _ Hr)).
  Qed.

  Lemma run_levels_keep : forall k st ord st',
    run_levels k st ord = inl st' -> Keep (wT H st) (wT H st').
  Proof.
    induction k as [|L IH]; intros st ord st' Hr; cbn [HashTree.run_levels] in Hr.
    - inversion Hr. apply Keep_refl.
    - destruct (run_level (length (nth L (wlv H st) [])) (Z.of_nat L) (nth L (wlv H st) [])
                  (mkW (wT H st) (upd (wlv H st) L []) (wruf H st)) ord) as [[[st1 o1] c1]|e] eqn:E; [|discriminate].
      apply run_level_keep in E. cbn [wT] in E. apply (Keep_trans _ _ _ E (IH _ _ _ Hr)).
  Qed.

  Lemma assoc_some_in : forall k d h, assoc H k d = Some h -> In (k, h) d.
  Proof.
    induction d as [|[k' h'] r IH]; cbn [assoc]; intros h Hs; [discriminate|].
    destruct (k =? k') eqn:E; [|right; apply IH; exact Hs].
    apply Z.eqb_eq in E. subst. inversion Hs. left. reflexivity.
  Qed.

  Lemma merge_in : forall fl leaves nh nh',
    merge_leaves H H_eqb fl nh leaves = Some nh' ->
    (forall k h, In (k, h) nh -> In (k, h) nh') /\
    (forall ln h, In (ln, h) leaves -> In (fl + ln, h) nh').
  Proof.
    intros fl. induction leaves as [|[ln lh] r IH]; intros nh nh' Hm; cbn [merge_leaves] in Hm.
    - inversion Hm. subst. split; [auto|intros ln h []].
    - destruct (assoc H (fl + ln) nh) as [h'|] eqn:Ea.
      + destruct (H_eqb h' lh) eqn:Eq; [|discriminate]. apply H_eqb_spec in Eq. subst h'.
        destruct (IH _ _ Hm) as [I1 I2]. split; [exact I1|].
        intros l h [Heq|Hin]; [|apply I2; exact Hin]. inversion Heq. subst l h. apply I1. apply assoc_some_in. exact Ea.
      + destruct (IH _ _ Hm) as [I1 I2]. split.
        * intros k h Hin. apply I1. apply in_app_iff. left. exact Hin.
        * intros l h [Heq|Hin]; [|apply I2; exact Hin]. inversion Heq. subst l h. apply I1. apply in_app_iff. right. left. reflexivity.
  Qed.

  Theorem accepted_stores : forall fl T0 hashes leaves ord T1,
    set_hashes fl T0 hashes leaves ord = Accepted H T1 ->
    (forall k h, In (k, h) hashes -> validz (zlen T0) k -> truthy h = true -> slot T1 (normz (zlen T0) k) = Some h) /\
    (forall ln h, In (ln, h) leaves -> validz (zlen T0) (fl + ln) -> truthy h = true ->
                  slot T1 (normz (zlen T0) (fl + ln)) = Some h).
  Proof.
    intros fl T0 hashes leaves ord T1 Hacc. unfold HashTree.set_hashes in Hacc.
    destruct (merge_leaves H H_eqb fl hashes leaves) as [nh|] eqn:Em; [|discriminate].
    cbv zeta in Hacc.
    destruct (phaseB nh (mkW T0 (repeat [] (Z.to_nat (depth_of (zlen T0 - 1) + 1))) [])) as [st1|[e st]] eqn:Eb;
      [|destruct e; discriminate].
    destruct (run_levels (length (wlv H st1)) st1 ord) as [st2|[e st]] eqn:Ec; [|destruct e; discriminate].
    inversion Hacc. subst T1.
    destruct (phaseB_stored _ _ _ Eb) as [K1 S1]. cbn [wT] in K1, S1.
    pose proof (run_levels_keep _ _ _ _ Ec) as K2.
    destruct (merge_in _ _ _ _ Em) as [M1 M2].
    assert (Hst : forall k h, In (k, h) nh -> validz (zlen T0) k -> truthy h = true -> slot (wT H st2) (normz (zlen T0) k) = Some h).
    { intros k h Hin Hv Ht. pose proof (S1 k h Hin Hv Ht) as Hs1. pose proof (normz_range _ _ Hv) as Hr.
      rewrite (proj2 K2); [exact Hs1|lia|]. rewrite Hs1. exact Ht. }
    split.
    - intros k h Hin. apply Hst. apply M1. exact Hin.
    - intros ln h Hin. apply Hst. apply M2. exact Hin.
  Qed.
End Stored.
