(* Proofs about Model/HttpAuth.v (C30). *)
From Coq Require Import List NArith Bool String Lia.
From Verif Require Import Lib.Hex Gen.Routes Model.HttpAuth.
Import ListNotations.
Local Open Scope N_scope.
Local Open Scope bool_scope.

(* ---------------------------------------------------------------- basics *)

Lemma secret_eqb_eq a b : secret_eqb a b = true <-> a = b.
Proof. destruct a, b; simpl; split; intro H; try reflexivity; try discriminate. Qed.

Lemma secret_eqb_refl a : secret_eqb a a = true.
Proof. apply secret_eqb_eq. reflexivity. Qed.

Lemma secret_eqb_neq a b : secret_eqb a b = false <-> a <> b.
Proof.
  split.
  - intros H E. apply secret_eqb_eq in E. congruence.
  - intro H. destruct (secret_eqb a b) eqn:E; [apply secret_eqb_eq in E; contradiction | reflexivity].
Qed.

Lemma secret_eqb_sym a b : secret_eqb a b = secret_eqb b a.
Proof.
  destruct (secret_eqb a b) eqn:E.
  - apply secret_eqb_eq in E. subst. symmetry. apply secret_eqb_refl.
  - apply secret_eqb_neq in E. symmetry. apply secret_eqb_neq. congruence.
Qed.

Lemma list_N_eqb_refl a : list_N_eqb a a = true.
Proof. apply list_N_eqb_eq. reflexivity. Qed.

Lemma list_N_eqb_neq a b : a <> b -> list_N_eqb a b = false.
Proof.
  intro H. destruct (list_N_eqb a b) eqn:E; [apply list_N_eqb_eq in E; contradiction | reflexivity].
Qed.

Lemma secret_mem_In k l : secret_mem k l = true <-> In k l.
Proof.
  unfold secret_mem. rewrite existsb_exists. split.
  - intros [x [Hx E]]. apply secret_eqb_eq in E. subst. exact Hx.
  - intro H. exists k. split; [exact H | apply secret_eqb_refl].
Qed.

(* ---------------------------------------------------------------- the dictionary *)

Lemma dict_get_set d k v k' :
  dict_get (dict_set d k v) k' = if secret_eqb k' k then Some v else dict_get d k'.
Proof.
  induction d as [|[k0 v0] d IH]; simpl.
  - reflexivity.
  - destruct (secret_eqb k k0) eqn:E.
    + apply secret_eqb_eq in E. subst k0. simpl.
      destruct (secret_eqb k' k) eqn:E2; reflexivity.
    + simpl. destruct (secret_eqb k' k0) eqn:E2.
      * apply secret_eqb_eq in E2. subst k0.
        rewrite secret_eqb_sym in E. rewrite E. reflexivity.
      * exact IH.
Qed.

Lemma dict_keys_get d k : secret_mem k (dict_keys d) = true <-> exists v, dict_get d k = Some v.
Proof.
  induction d as [|[k0 v0] d IH]; simpl.
  - split; [discriminate | intros [v H]; discriminate].
  - destruct (secret_eqb k k0) eqn:E; simpl.
    + split; [intros _; eexists; reflexivity | reflexivity].
    + exact IH.
Qed.

Lemma keys_eq_spec d req :
  keys_eq d req = true ->
  forall k, In k req <-> exists v, dict_get d k = Some v.
Proof.
  unfold keys_eq. intros H k. apply andb_prop in H. destruct H as [H1 H2].
  rewrite forallb_forall in H1, H2. split.
  - intro Hin. apply dict_keys_get. apply H2. exact Hin.
  - intro Hv. apply dict_keys_get in Hv. apply secret_mem_In in Hv.
    apply secret_mem_In. apply H1. exact Hv.
Qed.

(* ---------------------------------------------------------------- _extract_secrets *)

Lemma extract_loop_last hs : forall d d',
  extract_loop hs d = inr d' ->
  forall k, dict_get d' k = last_of k hs (dict_get d k).
Proof.
  induction hs as [|h hs IH]; intros d d' H k; simpl in *.
  - inversion H. reflexivity.
  - destruct (parse_header h) as [e|[k0 v0]] eqn:P; [discriminate|].
    rewrite (IH _ _ H k). rewrite dict_get_set.
    destruct (secret_eqb k k0); reflexivity.
Qed.

Lemma extract_loop_all_parse hs : forall d d',
  extract_loop hs d = inr d' ->
  forall h, In h hs -> exists k v, parse_header h = inr (k, v).
Proof.
  induction hs as [|h0 hs IH]; intros d d' H h Hin; simpl in *.
  - contradiction.
  - destruct (parse_header h0) as [e|[k0 v0]] eqn:P; [discriminate|].
    destruct Hin as [<-|Hin].
    + exists k0, v0. exact P.
    + eapply IH; eauto.
Qed.

Lemma last_of_some_acc k hs v : exists v', last_of k hs (Some v) = Some v'.
Proof.
  revert v. induction hs as [|h hs IH]; intro v; simpl.
  - eexists; reflexivity.
  - destruct (parse_header h) as [e|[k0 v0]]; [apply IH|].
    destruct (secret_eqb k k0); apply IH.
Qed.

Lemma last_of_none_absent k hs :
  (forall h, In h hs -> forall k' v, parse_header h = inr (k', v) -> k' <> k) ->
  last_of k hs None = None.
Proof.
  induction hs as [|h hs IH]; intro H; simpl.
  - reflexivity.
  - destruct (parse_header h) as [e|[k0 v0]] eqn:P.
    + apply IH. intros h' Hin. apply H. right. exact Hin.
    + destruct (secret_eqb k k0) eqn:E.
      * apply secret_eqb_eq in E. subst k0. exfalso. eapply (H h); [left; reflexivity | exact P | reflexivity].
      * apply IH. intros h' Hin. apply H. right. exact Hin.
Qed.

Lemma last_of_present k hs h v acc :
  In h hs -> parse_header h = inr (k, v) -> exists v', last_of k hs acc = Some v'.
Proof.
  revert acc. induction hs as [|h0 hs IH]; intros acc Hin P; simpl in *.
  - contradiction.
  - destruct Hin as [->|Hin].
    + rewrite P. rewrite secret_eqb_refl. apply last_of_some_acc.
    + destruct (parse_header h0) as [e|[k0 v0]]; [apply IH; assumption|].
      destruct (secret_eqb k k0); apply IH; assumption.
Qed.

(* what an accepted header set looks like *)
Lemma extract_ok_spec hs req d :
  extract_secrets hs req = inr d ->
  (forall h, In h hs -> exists k v, parse_header h = inr (k, v))
  /\ (forall k, dict_get d k = last_of k hs None)
  /\ (forall k, In k req <-> exists v, last_of k hs None = Some v).
Proof.
  unfold extract_secrets. intro H.
  destruct (extract_loop hs []) as [e|d0] eqn:L; [discriminate|].
  destruct (keys_eq d0 req) eqn:K; [|discriminate]. inversion H; subst d0. clear H.
  split; [|split].
  - eapply extract_loop_all_parse. exact L.
  - intro k. rewrite (extract_loop_last _ _ _ L k). reflexivity.
  - intro k. rewrite (keys_eq_spec _ _ K k). rewrite (extract_loop_last _ _ _ L k). simpl. reflexivity.
Qed.

Lemma extract_malformed hs req h e :
  In h hs -> parse_header h = inl e -> exists e', extract_secrets hs req = inl e'.
Proof.
  intros Hin P. destruct (extract_secrets hs req) as [e'|d] eqn:X; [eexists; reflexivity|].
  apply extract_ok_spec in X. destruct X as [A _]. destruct (A h Hin) as [k [v Q]]. congruence.
Qed.

Lemma extract_missing hs req k :
  In k req ->
  (forall h, In h hs -> forall k' v, parse_header h = inr (k', v) -> k' <> k) ->
  exists e, extract_secrets hs req = inl e.
Proof.
  intros Hin Habs. destruct (extract_secrets hs req) as [e'|d] eqn:X; [eexists; reflexivity|].
  apply extract_ok_spec in X. destruct X as [_ [_ C]].
  apply C in Hin. destruct Hin as [v Hv]. rewrite (last_of_none_absent _ _ Habs) in Hv. discriminate.
Qed.

Lemma extract_extra hs req h k v :
  In h hs -> parse_header h = inr (k, v) -> ~ In k req ->
  exists e, extract_secrets hs req = inl e.
Proof.
  intros Hin P Hn. destruct (extract_secrets hs req) as [e'|d] eqn:X; [eexists; reflexivity|].
  apply extract_ok_spec in X. destruct X as [_ [_ C]].
  exfalso. apply Hn. apply C. eapply last_of_present; eauto.
Qed.

(* ---------------------------------------------------------------- _authorization_decorator *)

Lemma authorize_no_swissnum sw req rq :
  auth_header rq <> Some (swissnum_auth_header sw) ->
  authorize sw req rq = Reject (match auth_header rq with None => BadAuthorizationHeader | Some _ => WrongAuthorizationHeader end).
Proof.
  intro H. unfold authorize. destruct (auth_header rq) as [a|]; [|reflexivity].
  unfold timing_safe_compare. rewrite list_N_eqb_neq; [reflexivity | congruence].
Qed.

Lemma authorize_invoke_inv sw req rq d :
  authorize sw req rq = Invoke d ->
  auth_header rq = Some (swissnum_auth_header sw)
  /\ exists hs, all_some (rq_xauth rq) = Some hs /\ extract_secrets hs req = inr d.
Proof.
  unfold authorize. destruct (auth_header rq) as [a|]; [|discriminate].
  unfold timing_safe_compare. destruct (list_N_eqb a (swissnum_auth_header sw)) eqn:E; simpl; [|discriminate].
  apply list_N_eqb_eq in E. subst a.
  destruct (all_some (rq_xauth rq)) as [hs|]; [|discriminate].
  destruct (extract_secrets hs req) as [e|d0] eqn:X; [discriminate|].
  intro H. inversion H. subst d0. split; [reflexivity|]. exists hs. split; [reflexivity | exact X].
Qed.

Lemma authorize_bad_secrets sw req rq hs :
  auth_header rq = Some (swissnum_auth_header sw) ->
  all_some (rq_xauth rq) = Some hs ->
  (exists e, extract_secrets hs req = inl e) ->
  exists e, authorize sw req rq = Reject (ClientSecrets e).
Proof.
  intros A X [e E]. unfold authorize. rewrite A. unfold timing_safe_compare. rewrite list_N_eqb_refl. simpl.
  rewrite X. rewrite E. exists e. reflexivity.
Qed.

Lemma authorize_effective sw req rq d k :
  authorize sw req rq = Invoke d -> dict_get d k = effective_secret rq k.
Proof.
  intro H. apply authorize_invoke_inv in H. destruct H as [_ [hs [A X]]].
  unfold effective_secret. rewrite A. apply extract_ok_spec in X. destruct X as [_ [B _]]. apply B.
Qed.

Lemma reject_code_cases why : reject_code why = 400 \/ reject_code why = 401 \/ reject_code why = 500.
Proof. destruct why; simpl; auto. Qed.

(* ---------------------------------------------------------------- handlers *)

Section HandlerProofs.
  Variable B R RTW : Type.
  Variable bucket_write : B -> upkey -> N -> list N -> B * R * bool.
  Variable bucket_abort : B -> upkey -> B.
  Variable already_uploaded : B -> upkey -> bool.
  Variable backend_rtw : B -> list N -> (list N * list N * list N) -> RTW -> option (B * R).

  Notation serve' := (serve B R RTW bucket_write bucket_abort already_uploaded backend_rtw).
  Notation run' := (run_action B R RTW bucket_write bucket_abort already_uploaded backend_rtw).

  Lemma serve_no_swissnum sw req rq a st :
    auth_header rq <> Some (swissnum_auth_header sw) ->
    serve' sw req rq a st = (st, HStatus (match auth_header rq with None => 400 | Some _ => 401 end)).
  Proof.
    intro H. unfold serve. rewrite (authorize_no_swissnum _ _ _ H).
    destruct (auth_header rq); reflexivity.
  Qed.

  Lemma serve_bad_secrets sw req rq hs a st :
    auth_header rq = Some (swissnum_auth_header sw) ->
    all_some (rq_xauth rq) = Some hs ->
    (exists e, extract_secrets hs req = inl e) ->
    serve' sw req rq a st = (st, HStatus 400).
  Proof.
    intros A X E. destruct (authorize_bad_secrets sw req rq hs A X E) as [e H].
    unfold serve. rewrite H. reflexivity.
  Qed.

  Lemma get_write_bucket_wrong u k s s' :
    up_lookup u k = Some s -> s' <> s -> get_write_bucket u k s' = inl 401.
  Proof.
    intros L Hn. unfold get_write_bucket, validate_upload_secret. rewrite L.
    unfold timing_safe_compare. rewrite list_N_eqb_neq; [reflexivity | congruence].
  Qed.

  Lemma h_write_wrong_secret d k off body u b s s' :
    up_lookup u k = Some s -> dict_get d S_UPLOAD = Some s' -> s' <> s ->
    h_write B R bucket_write d k true off body (u, b) = ((u, b), HStatus 401).
  Proof.
    intros L D Hn. unfold h_write. simpl. rewrite D. rewrite (get_write_bucket_wrong _ _ _ _ L Hn). reflexivity.
  Qed.

  Lemma h_abort_wrong_secret d k u b s s' :
    up_lookup u k = Some s -> dict_get d S_UPLOAD = Some s' -> s' <> s ->
    h_abort B R bucket_abort already_uploaded d k (u, b) = ((u, b), HStatus 401).
  Proof.
    intros L D Hn. unfold h_abort. simpl. rewrite D. rewrite (get_write_bucket_wrong _ _ _ _ L Hn). reflexivity.
  Qed.

  (* end to end: any request to write to / abort an in-progress upload whose effective
     upload secret is not that upload's leaves the state alone *)
  Lemma serve_upload_secret sw req rq k cr off body u b s :
    up_lookup u k = Some s ->
    effective_secret rq S_UPLOAD <> Some s ->
    (fst (serve' sw req rq (AWrite k cr off body) (u, b)) = (u, b)
     /\ exists c, snd (serve' sw req rq (AWrite k cr off body) (u, b)) = HStatus c /\ is_reject_status c)
    /\ (fst (serve' sw req rq (AAbort k) (u, b)) = (u, b)
     /\ exists c, snd (serve' sw req rq (AAbort k) (u, b)) = HStatus c /\ is_reject_status c).
  Proof.
    intros L Hn. unfold serve, is_reject_status.
    destruct (authorize sw req rq) as [why|d] eqn:A.
    - simpl. split; (split; [reflexivity|]); exists (reject_code why);
        (split; [reflexivity|]); destruct (reject_code_cases why) as [H|[H|H]]; rewrite H; auto.
    - pose proof (authorize_effective _ _ _ _ S_UPLOAD A) as E. simpl.
      split.
      + unfold h_write. destruct cr; simpl.
        * destruct (dict_get d S_UPLOAD) as [s'|] eqn:D.
          -- assert (s' <> s) as Hs by (intro; subst; apply Hn; rewrite <- E; reflexivity).
             rewrite (get_write_bucket_wrong _ _ _ _ L Hs). simpl. split; [reflexivity|]. exists 401. auto.
          -- simpl. split; [reflexivity|]. exists 500. auto.
        * split; [reflexivity|]. exists 416. auto.
      + unfold h_abort. simpl. destruct (dict_get d S_UPLOAD) as [s'|] eqn:D.
        * assert (s' <> s) as Hs by (intro; subst; apply Hn; rewrite <- E; reflexivity).
          rewrite (get_write_bucket_wrong _ _ _ _ L Hs). simpl. split; [reflexivity|]. exists 401. auto.
        * simpl. split; [reflexivity|]. exists 500. auto.
  Qed.

  (* write enabler: delegated to the storage server *)
  Variable slot_enabler : B -> list N -> option (list N).
  Hypothesis backend_checks_enabler :
    forall b si we lr lc req e, slot_enabler b si = Some e -> we <> e -> backend_rtw b si (we, lr, lc) req = None.

  Lemma h_rtw_passes_secrets d si req u b we lr lc :
    dict_get d S_WRITE_ENABLER = Some we -> dict_get d S_LEASE_RENEW = Some lr -> dict_get d S_LEASE_CANCEL = Some lc ->
    h_rtw B R RTW backend_rtw d si req (u, b) =
      match backend_rtw b si (we, lr, lc) req with
      | None => ((u, b), HStatus 401)
      | Some (b', r) => ((u, b'), HBusiness r)
      end.
  Proof. intros A C D. unfold h_rtw. rewrite A, C, D. reflexivity. Qed.

  Lemma serve_write_enabler sw req rq si rtw u b e :
    slot_enabler b si = Some e ->
    effective_secret rq S_WRITE_ENABLER <> Some e ->
    fst (serve' sw req rq (ARtw si rtw) (u, b)) = (u, b)
    /\ exists c, snd (serve' sw req rq (ARtw si rtw) (u, b)) = HStatus c /\ is_reject_status c.
  Proof.
    intros S Hn. unfold serve, is_reject_status.
    destruct (authorize sw req rq) as [why|d] eqn:A.
    - simpl. split; [reflexivity|]. exists (reject_code why). split; [reflexivity|].
      destruct (reject_code_cases why) as [H|[H|H]]; rewrite H; auto.
    - pose proof (authorize_effective _ _ _ _ S_WRITE_ENABLER A) as E. simpl. unfold h_rtw.
      destruct (dict_get d S_WRITE_ENABLER) as [we|] eqn:D1; [|simpl; split; [reflexivity|]; exists 500; auto].
      destruct (dict_get d S_LEASE_RENEW) as [lr|]; [|simpl; split; [reflexivity|]; exists 500; auto].
      destruct (dict_get d S_LEASE_CANCEL) as [lc|]; [|simpl; split; [reflexivity|]; exists 500; auto].
      assert (we <> e) as Hw by (intro; subst; apply Hn; rewrite <- E; reflexivity).
      simpl. rewrite (backend_checks_enabler b si we lr lc rtw e S Hw). simpl.
      split; [reflexivity|]. exists 401. auto.
  Qed.
End HandlerProofs.

(* ---------------------------------------------------------------- the route table *)

Lemma routes_all_ok : forallb route_ok routes = true.
Proof. vm_compute. reflexivity. Qed.

Lemma every_route_authorised_ok : forall r, In r routes -> r_authorised r = true.
Proof.
  intros r H. pose proof routes_all_ok as A. rewrite forallb_forall in A. apply A in H.
  unfold route_ok in H. apply andb_prop in H. tauto.
Qed.

Lemma every_route_reads_required_ok : forall r, In r routes -> secret_set_eqb (r_uses r) (r_required r) = true.
Proof.
  intros r H. pose proof routes_all_ok as A. rewrite forallb_forall in A. apply A in H.
  unfold route_ok in H. apply andb_prop in H. tauto.
Qed.

Lemma secret_routes_ok :
  needs "write_share_data" S_UPLOAD = true /\ needs "abort_share_upload" S_UPLOAD = true
  /\ needs "allocate_buckets" S_UPLOAD = true /\ needs "mutable_read_test_write" S_WRITE_ENABLER = true.
Proof. vm_compute. repeat split; reflexivity. Qed.

Lemma pins_ok :
  (pin_authorization_decorator, pin_authorized_route, pin_extract_secrets, pin_UploadsInProgress,
   pin_StorageIndexUploads, pin_HTTPError, pin_add_error_handling, pin_swissnum_auth_header)
  = ("76de59f014c8757e", "690c3092b3431409", "2803c43c76835969", "3f1f3694b5dfcb59",
     "a9a18daedb02e4fc", "ee5554427c780c9a", "c3342ffc5b0a19b8", "d9ec2bd37416caa6")%string.
Proof. reflexivity. Qed.

Lemma handler_pins_ok :
  (handler_pin "write_share_data", handler_pin "abort_share_upload", handler_pin "mutable_read_test_write",
   handler_pin "allocate_buckets")
  = ("360860dc48965e6f", "d0bd803e85fb51cb", "4cc5d1b98b169ffd", "169c785c59c5cf7a")%string.
Proof. vm_compute. reflexivity. Qed.

Lemma bad_secrets_ok :
  forall (B R RTW : Type) bucket_write bucket_abort already_uploaded backend_rtw
         swissnum required rq hs (a : action B R RTW) st,
    auth_header rq = Some (swissnum_auth_header swissnum) ->
    all_some (rq_xauth rq) = Some hs ->
    ( (exists h e, In h hs /\ parse_header h = inl e)                                            (* malformed *)
      \/ (exists k, In k required /\ forall h, In h hs -> forall k' v, parse_header h = inr (k', v) -> k' <> k)   (* missing *)
      \/ (exists h k v, In h hs /\ parse_header h = inr (k, v) /\ ~ In k required) ) ->            (* extra *)
    serve B R RTW bucket_write bucket_abort already_uploaded backend_rtw swissnum required rq a st
    = (st, HStatus 400).
Proof.
  intros B R RTW bw ba au br sw req rq hs a st A X H.
  apply (serve_bad_secrets B R RTW bw ba au br sw req rq hs a st A X).
  destruct H as [[h [e [Hin P]]] | [[k [Hin Habs]] | [h [k [v [Hin [P Hn]]]]]]].
  - exact (extract_malformed hs req h e Hin P).
  - exact (extract_missing hs req k Hin Habs).
  - exact (extract_extra hs req h k v Hin P Hn).
Qed.

Lemma duplicate_last_wins_ok :
  forall swissnum required rq d,
    authorize swissnum required rq = Invoke d ->
    auth_header rq = Some (swissnum_auth_header swissnum)
    /\ exists hs, all_some (rq_xauth rq) = Some hs
       /\ (forall h, In h hs -> exists k v, parse_header h = inr (k, v))
       /\ (forall k, dict_get d k = last_of k hs None)
       /\ (forall k, In k required <-> exists v, last_of k hs None = Some v).
Proof.
  intros sw req rq d H. apply authorize_invoke_inv in H. destruct H as [A [hs [X E]]].
  split; [exact A|]. exists hs. split; [exact X|]. exact (extract_ok_spec hs req d E).
Qed.

Lemma upload_secret_mismatch_ok :
  forall (B R : Type) bucket_write bucket_abort already_uploaded d k offset body u (b : B) s s',
    up_lookup u k = Some s -> dict_get d S_UPLOAD = Some s' -> s' <> s ->
    h_write B R bucket_write d k true offset body (u, b) = ((u, b), HStatus 401)
    /\ h_abort B R bucket_abort already_uploaded d k (u, b) = ((u, b), HStatus 401).
Proof.
  intros B R bw ba au d k off body u b s s' L D Hn. split.
  - exact (h_write_wrong_secret B R bw d k off body u b s s' L D Hn).
  - exact (h_abort_wrong_secret B R ba au d k u b s s' L D Hn).
Qed.
