(* Byte-array lemmas for Lib/FileSys.v and Model/Crash.v: reads (`sub`) versus
   positional writes (`write_at`), big-endian encode/decode round trip. *)
From Coq Require Import List Arith NArith Bool Lia.
From Verif Require Import Lib.Hex Lib.FileSys Model.Crash.
Import ListNotations.

(* ------------------------------------------------------------- nth_error *)
Lemma nth_error_ext {A} (l1 l2 : list A) :
  (forall i, nth_error l1 i = nth_error l2 i) -> l1 = l2.
Proof.
  revert l2; induction l1 as [|x l1 IH]; intros [|y l2] H.
  - reflexivity.
  - specialize (H 0%nat). discriminate.
  - specialize (H 0%nat). discriminate.
  - f_equal.
    + specialize (H 0%nat). simpl in H. congruence.
    + apply IH. intro i. apply (H (S i)).
Qed.

Lemma nth_error_nil' {A} i : nth_error (@nil A) i = None.
Proof. destruct i; reflexivity. Qed.

Lemma nth_error_skipn' {A} n : forall (l : list A) i,
  nth_error (skipn n l) i = nth_error l (n + i).
Proof.
  induction n as [|n IH]; intros l i; [reflexivity|].
  destruct l as [|x l]; simpl.
  - apply nth_error_nil'.
  - apply IH.
Qed.

Lemma nth_error_firstn' {A} n : forall (l : list A) i,
  nth_error (firstn n l) i = if (i <? n)%nat then nth_error l i else None.
Proof.
  induction n as [|n IH]; intros l i.
  - simpl. apply nth_error_nil'.
  - destruct l as [|x l]; simpl firstn.
    + rewrite nth_error_nil'. destruct (i <? S n)%nat; reflexivity.
    + destruct i as [|i]; [reflexivity|]. simpl nth_error. rewrite IH.
      change (S i <? S n)%nat with (i <? n)%nat. reflexivity.
Qed.

Lemma nth_error_app' {A} (l l' : list A) i :
  nth_error (l ++ l') i = if (i <? length l)%nat then nth_error l i else nth_error l' (i - length l).
Proof.
  destruct (Nat.ltb_spec i (length l)).
  - apply nth_error_app1. assumption.
  - apply nth_error_app2. assumption.
Qed.

Lemma nth_error_repeat' {A} (x : A) m i :
  nth_error (repeat x m) i = if (i <? m)%nat then Some x else None.
Proof.
  destruct (Nat.ltb_spec i m).
  - apply nth_error_repeat. assumption.
  - apply nth_error_None. rewrite repeat_length. assumption.
Qed.

Lemma nth_error_beyond {A} (l : list A) i : (length l <= i)%nat -> nth_error l i = None.
Proof. apply nth_error_None. Qed.

Lemma nth_error_sub a l f i :
  nth_error (sub a l f) i =
  if (i <? N.to_nat l)%nat then nth_error f (N.to_nat a + i) else None.
Proof. unfold sub. rewrite nth_error_firstn', nth_error_skipn'. reflexivity. Qed.

Lemma flen_nat f : N.to_nat (flen f) = length f.
Proof. unfold flen. apply Nat2N.id. Qed.

Lemma zeros_length n : length (zeros n) = N.to_nat n.
Proof. unfold zeros. apply repeat_length. Qed.

Lemma write_at_nil f off : write_at f off [] = f.
Proof. reflexivity. Qed.

Lemma write_at_cons f off b bs :
  write_at f off (b :: bs) =
  firstn (N.to_nat off) f ++ zeros (off - flen f) ++ (b :: bs)
  ++ skipn (N.to_nat off + length (b :: bs)) f.
Proof. reflexivity. Qed.

Ltac ltb_cases :=
  repeat match goal with
         | |- context [(?a <? ?b)%nat] => destruct (Nat.ltb_spec a b)
         end.

(* the content of a file after a positional write *)
Lemma nth_error_write_at f off bs i :
  bs <> [] ->
  nth_error (write_at f off bs) i =
  if (i <? N.to_nat off)%nat
  then (if (i <? length f)%nat then nth_error f i else Some 0%N)
  else if (i <? N.to_nat off + length bs)%nat then nth_error bs (i - N.to_nat off)
       else nth_error f i.
Proof.
  intro Hne. destruct bs as [|b bs]; [congruence|]. rewrite write_at_cons.
  set (o := N.to_nat off). set (B := b :: bs).
  assert (Hz : length (zeros (off - flen f)) = (o - length f)%nat).
  { rewrite zeros_length, N2Nat.inj_sub, flen_nat. reflexivity. }
  rewrite !nth_error_app'. rewrite Hz, firstn_length.
  rewrite nth_error_firstn', nth_error_skipn'.
  unfold zeros. rewrite nth_error_repeat'.
  replace (N.to_nat (off - flen f)) with (o - length f)%nat
    by (rewrite N2Nat.inj_sub, flen_nat; reflexivity).
  ltb_cases; try lia; try reflexivity; try (f_equal; lia);
    try (symmetry; apply nth_error_beyond; lia); try (apply nth_error_beyond; lia).
Qed.

Lemma write_at_length f off bs :
  bs <> [] ->
  length (write_at f off bs) = Nat.max (length f) (N.to_nat off + length bs).
Proof.
  intro Hne. destruct bs as [|b bs]; [congruence|]. rewrite write_at_cons.
  rewrite !app_length, firstn_length, skipn_length, zeros_length, N2Nat.inj_sub, flen_nat.
  lia.
Qed.

Lemma write_at_length_ge f off bs : (length f <= length (write_at f off bs))%nat.
Proof.
  destruct bs as [|b bs]; [simpl; lia|]. rewrite write_at_length by discriminate. lia.
Qed.

Lemma write_at_length_inside f off bs :
  (N.to_nat off + length bs <= length f)%nat -> length (write_at f off bs) = length f.
Proof.
  intro H. destruct bs as [|b bs]; [reflexivity|]. rewrite write_at_length by discriminate. lia.
Qed.

(* a read entirely before the write position (and inside the old file) *)
Lemma sub_write_at_before f off bs a l :
  (N.to_nat a + N.to_nat l <= N.to_nat off)%nat ->
  (N.to_nat a + N.to_nat l <= length f)%nat ->
  sub a l (write_at f off bs) = sub a l f.
Proof.
  intros H1 H2. destruct bs as [|b bs]; [reflexivity|].
  apply nth_error_ext. intro i. rewrite !nth_error_sub.
  rewrite nth_error_write_at by discriminate.
  ltb_cases; try lia; reflexivity.
Qed.

(* a read entirely after a write that stays inside the old file *)
Lemma sub_write_at_after f off bs a l :
  (N.to_nat off + length bs <= N.to_nat a)%nat ->
  (N.to_nat off + length bs <= length f)%nat ->
  sub a l (write_at f off bs) = sub a l f.
Proof.
  intros H1 H2. destruct bs as [|b bs]; [reflexivity|].
  apply nth_error_ext. intro i. rewrite !nth_error_sub.
  rewrite nth_error_write_at by discriminate.
  ltb_cases; try lia; reflexivity.
Qed.

(* reading back what was written *)
Lemma sub_write_at_same f off bs :
  sub off (flen bs) (write_at f off bs) = bs.
Proof.
  destruct bs as [|b bs]; [reflexivity|].
  apply nth_error_ext. intro i. rewrite nth_error_sub, flen_nat.
  rewrite nth_error_write_at by discriminate.
  ltb_cases; try lia.
  - f_equal. lia.
  - symmetry. apply nth_error_beyond. lia.
Qed.

Lemma sub_length a l f :
  length (sub a l f) = Nat.min (N.to_nat l) (length f - N.to_nat a).
Proof. unfold sub. rewrite firstn_length, skipn_length. reflexivity. Qed.

Lemma sub_app_left a l f g :
  (N.to_nat a + N.to_nat l <= length f)%nat -> sub a l (f ++ g) = sub a l f.
Proof.
  intro H. apply nth_error_ext. intro i. rewrite !nth_error_sub, nth_error_app'.
  ltb_cases; try lia; reflexivity.
Qed.

Lemma write_at_end f bs : write_at f (flen f) bs = f ++ bs.
Proof.
  destruct bs as [|b bs]; [rewrite app_nil_r; reflexivity|].
  apply nth_error_ext. intro i. rewrite nth_error_write_at by discriminate.
  rewrite flen_nat, nth_error_app'.
  ltb_cases; try lia; try reflexivity.
  rewrite !nth_error_beyond; [reflexivity| |]; simpl in *; lia.
Qed.

(* a write inside the first part of a concatenation *)
Lemma write_at_app_left f g off bs :
  (N.to_nat off + length bs <= length f)%nat ->
  write_at (f ++ g) off bs = write_at f off bs ++ g.
Proof.
  intro H. destruct bs as [|b bs]; [reflexivity|].
  apply nth_error_ext. intro i.
  rewrite nth_error_app', write_at_length_inside by exact H.
  rewrite !nth_error_write_at by discriminate. rewrite app_length, nth_error_app'.
  ltb_cases; try lia; reflexivity.
Qed.

(* a write inside the middle part of a concatenation *)
Lemma write_at_app_mid h d r off bs :
  (N.to_nat off + length bs <= length d)%nat ->
  write_at (h ++ d ++ r) (N.of_nat (length h) + off) bs = h ++ write_at d off bs ++ r.
Proof.
  intro H. destruct bs as [|b bs]; [reflexivity|].
  apply nth_error_ext. intro i.
  rewrite nth_error_write_at by discriminate.
  rewrite N2Nat.inj_add, Nat2N.id.
  rewrite !app_length.
  rewrite (nth_error_app' h (write_at d off (b :: bs) ++ r)).
  rewrite (nth_error_app' (write_at d off (b :: bs)) r).
  rewrite write_at_length_inside by exact H.
  rewrite nth_error_write_at by discriminate.
  rewrite (nth_error_app' h (d ++ r)), (nth_error_app' d r).
  ltb_cases; try lia; try reflexivity; f_equal; lia.
Qed.

(* --------------------------------------------------------- big endian *)
Lemma enc_length n v : length (enc n v) = n.
Proof. induction n as [|n IH]; simpl; [reflexivity|]. rewrite IH. reflexivity. Qed.

Local Open Scope N_scope.

Lemma be_fold bs : forall a,
  fold_left (fun a b => a * 256 + b) bs a
  = a * 256 ^ N.of_nat (length bs) + fold_left (fun a b => a * 256 + b) bs 0.
Proof.
  induction bs as [|b bs IH]; intro a; cbn [fold_left length].
  - change (N.of_nat 0) with 0. rewrite N.pow_0_r. lia.
  - rewrite (IH (a * 256 + b)), (IH (0 * 256 + b)).
    rewrite Nat2N.inj_succ, N.pow_succ_r by lia. lia.
Qed.

Lemma be_cons b bs : be (b :: bs) = b * 256 ^ N.of_nat (length bs) + be bs.
Proof.
  unfold be. cbn [fold_left]. rewrite be_fold. lia.
Qed.

Lemma be_enc n v : be (enc n v) = v mod 256 ^ N.of_nat n.
Proof.
  induction n as [|n IH].
  - simpl. rewrite N.mod_1_r. reflexivity.
  - cbn [enc]. rewrite be_cons, enc_length, IH.
    rewrite Nat2N.inj_succ, N.pow_succ_r by lia.
    rewrite (N.mul_comm 256 (256 ^ N.of_nat n)).
    rewrite N.mod_mul_r by (try apply N.pow_nonzero; lia).
    lia.
Qed.

Lemma be_enc_small n v : v < 256 ^ N.of_nat n -> be (enc n v) = v.
Proof. intro H. rewrite be_enc. apply N.mod_small. exact H. Qed.
