(* C48  Proofs about Model/Config.v: list scanning lemmas, the parsers accept
   exactly the documented grammars, calendar arithmetic, print-then-parse. *)
From Coq Require Import List NArith ZArith Bool String Lia ZifyBool ZifyNat ZifyN.
From Verif Require Import Lib.Hex Lib.Decimal Lib.DecimalFacts Gen.Config Model.Config.
Import ListNotations.
Local Open Scope N_scope.
Local Open Scope bool_scope.

(* ------------------------------------------------------------------------ *)
(* scanning                                                                  *)

Definition hd_not (p : N -> bool) (l : list N) : bool :=
  match l with [] => true | c :: _ => negb (p c) end.

Definition none_of (p : N -> bool) (l : list N) : bool := forallb (fun c => negb (p c)) l.

Lemma none_of_hd_not p l : none_of p l = true -> hd_not p l = true.
Proof. destruct l as [|c r]; cbn; [reflexivity|]. intro H. apply andb_prop in H. tauto. Qed.

Lemma hd_not_app p a b : hd_not p a = true -> hd_not p b = true -> hd_not p (a ++ b) = true.
Proof. destruct a; cbn; auto. Qed.

Lemma hd_not_app_ne p a b : a <> [] -> hd_not p a = true -> hd_not p (a ++ b) = true.
Proof. destruct a; cbn; [congruence|auto]. Qed.

Lemma drop_while_all p a b : forallb p a = true -> drop_while p (a ++ b) = drop_while p b.
Proof.
  induction a as [|c a IH]; cbn; [reflexivity|]. intro H. apply andb_prop in H. destruct H as [Hc Ha].
  rewrite Hc. auto.
Qed.

Lemma drop_while_hd_not p l : hd_not p l = true -> drop_while p l = l.
Proof. destruct l as [|c r]; cbn; [reflexivity|]. intro H. apply negb_true_iff in H. rewrite H. reflexivity. Qed.

Lemma drop_while_split p l : exists a, l = a ++ drop_while p l /\ forallb p a = true /\ hd_not p (drop_while p l) = true.
Proof.
  induction l as [|c r IH]; cbn.
  - exists []. auto.
  - destruct (p c) eqn:E.
    + destruct IH as [a [H1 [H2 H3]]]. exists (c :: a). cbn. rewrite E, H2. split; [congruence|auto].
    + exists []. cbn. rewrite E. auto.
Qed.

Lemma span_all p a b : forallb p a = true -> hd_not p b = true -> span p (a ++ b) = (a, b).
Proof.
  induction a as [|c a IH]; cbn.
  - intros _ H. destruct b as [|x b]; cbn in *; [reflexivity|]. apply negb_true_iff in H. rewrite H. reflexivity.
  - intros H Hb. apply andb_prop in H. destruct H as [Hc Ha]. rewrite Hc, (IH Ha Hb). reflexivity.
Qed.

Lemma span_split p l a b : span p l = (a, b) -> l = a ++ b /\ forallb p a = true /\ hd_not p b = true.
Proof.
  revert a b. induction l as [|c r IH]; cbn; intros a b H.
  - inversion H; subst. auto.
  - destruct (p c) eqn:E.
    + destruct (span p r) as [a' b'] eqn:S. inversion H; subst. destruct (IH _ _ eq_refl) as [H1 [H2 H3]].
      cbn. rewrite E, H2. split; [congruence|auto].
    + inversion H; subst. cbn. rewrite E. auto.
Qed.

Lemma forallb_rev (p : N -> bool) l : forallb p (rev l) = forallb p l.
Proof.
  induction l as [|c r IH]; cbn; [reflexivity|]. rewrite forallb_app, IH. cbn. rewrite andb_true_r. apply andb_comm.
Qed.

Lemma rstrip_all p u w : none_of p u = true -> forallb p w = true -> rstrip p (u ++ w) = u.
Proof.
  intros Hu Hw. unfold rstrip. rewrite rev_app_distr, drop_while_all by (rewrite forallb_rev; exact Hw).
  rewrite drop_while_hd_not; [apply rev_involutive|]. apply none_of_hd_not. unfold none_of. rewrite forallb_rev. exact Hu.
Qed.

Lemma rstrip_split p l : exists w, l = rstrip p l ++ w /\ forallb p w = true.
Proof.
  unfold rstrip. destruct (drop_while_split p (rev l)) as [a [H1 [H2 _]]].
  exists (rev a). split; [|rewrite forallb_rev; exact H2].
  rewrite <- rev_app_distr, <- H1, rev_involutive. reflexivity.
Qed.

(* ------------------------------------------------------------------------ *)
(* characters                                                                *)

Lemma ws_not_digit c : is_ws c = true -> is_digit c = false.
Proof. unfold is_ws, is_digit. lia. Qed.

Lemma forallb_ws_none_digit l : forallb is_ws l = true -> none_of is_digit l = true.
Proof.
  unfold none_of. induction l as [|c r IH]; cbn; [reflexivity|]. intro H. apply andb_prop in H. destruct H as [Hc Hr].
  rewrite (ws_not_digit _ Hc), IH by assumption. reflexivity.
Qed.

Definition is_letter (c : N) : bool := ((65 <=? c) && (c <=? 90)) || ((97 <=? c) && (c <=? 122)).

Lemma letter_not_ws_digit c : is_letter c = true -> is_ws c = false /\ is_digit c = false.
Proof. unfold is_letter, is_ws, is_digit. intro H. split; lia. Qed.

Lemma lower_letter c : is_letter (lower c) = true -> is_letter c = true.
Proof. unfold is_letter, lower. destruct ((65 <=? c) && (c <=? 90)) eqn:E; intro H; lia. Qed.

Lemma upper_letter c : is_letter (upper c) = true -> is_letter c = true.
Proof. unfold is_letter, upper. destruct ((97 <=? c) && (c <=? 122)) eqn:E; intro H; lia. Qed.

Lemma letters_via_map (f : N -> N) (Hf : forall c, is_letter (f c) = true -> is_letter c = true) u :
  forallb is_letter (map f u) = true -> forallb is_letter u = true.
Proof.
  induction u as [|c r IH]; cbn; [reflexivity|]. intro H. apply andb_prop in H. destruct H as [Hc Hr].
  rewrite (Hf _ Hc), IH by assumption. reflexivity.
Qed.

Lemma letters_none u : forallb is_letter u = true -> none_of is_ws u = true /\ none_of is_digit u = true.
Proof.
  unfold none_of. induction u as [|c r IH]; cbn; [auto|]. intro H. apply andb_prop in H. destruct H as [Hc Hr].
  destruct (letter_not_ws_digit _ Hc) as [A B]. destruct (IH Hr) as [C D]. rewrite A, B, C, D. auto.
Qed.

(* ------------------------------------------------------------------------ *)
(* numbers                                                                   *)

Lemma undec_acc_value l : forall acc, forallb is_digit l = true ->
  undec_acc l acc = Some (fold_left (fun a d => a * 10 + (d - 48)) l acc).
Proof.
  induction l as [|c r IH]; cbn; intros acc H; [reflexivity|].
  apply andb_prop in H. destruct H as [Hc Hr]. rewrite Hc. apply IH. exact Hr.
Qed.

Lemma undec_value l : l <> [] -> forallb is_digit l = true -> undec l = Some (digits_value l).
Proof. intros Hn H. rewrite undec_nonempty by assumption. apply undec_acc_value. exact H. Qed.

Lemma py_int_digits_value ds : digit_string ds -> py_int_digits ds = Some (digits_value ds).
Proof.
  intros [Hn [Hd Hl]]. unfold py_int_digits. apply N.leb_le in Hl. rewrite Hl. apply undec_value; assumption.
Qed.

Lemma py_int_digits_inv ds n : ds <> [] -> forallb is_digit ds = true -> py_int_digits ds = Some n ->
  digit_string ds /\ n = digits_value ds.
Proof.
  intros Hn Hd. unfold py_int_digits. destruct (N.of_nat (List.length ds) <=? max_int_digits) eqn:E; [|discriminate].
  rewrite undec_value by assumption. intro H. inversion H. apply N.leb_le in E. unfold digit_string. auto.
Qed.

Lemma dec_aux_length : forall f n acc, (List.length (dec_aux f n acc) <= f + List.length acc)%nat.
Proof.
  induction f as [|f IH]; intros n acc; cbn [dec_aux]; [lia|].
  destruct (n <? 10); [cbn [List.length]; lia|]. specialize (IH (n / 10) ((48 + n mod 10) :: acc)). cbn [List.length] in IH. lia.
Qed.

Lemma dec_length n : (List.length (dec n) <= S (N.to_nat (N.size n)))%nat.
Proof. unfold dec. pose proof (dec_aux_length (S (N.to_nat (N.size n))) n []) as H. cbn [List.length] in H. lia. Qed.

Lemma dec_digit_string n : N.size n <= 4000 -> digit_string (dec n).
Proof.
  intro H. split; [apply dec_nonempty|]. split; [apply dec_all_digits|].
  pose proof (dec_length n). unfold max_int_digits. lia.
Qed.

Lemma digits_value_dec n : digits_value (dec n) = n.
Proof.
  pose proof (undec_dec n) as H. rewrite undec_value in H by (apply dec_nonempty || apply dec_all_digits).
  congruence.
Qed.

(* ------------------------------------------------------------------------ *)
(* lookup                                                                    *)

Lemma lookup_map_some {A B} (g : A -> B) k (t : list (list N * A)) :
  lookup k (map (fun kv => (fst kv, g (snd kv))) t) = option_map g (lookup k t).
Proof.
  induction t as [|[k' v] r IH]; cbn; [reflexivity|]. destruct (list_N_eqb k k'); [reflexivity|exact IH].
Qed.

Lemma lookup_in {A} k (t : list (list N * A)) v : lookup k t = Some v -> In k (map fst t).
Proof.
  induction t as [|[k' v'] r IH]; cbn; [discriminate|]. destruct (list_N_eqb k k') eqn:E.
  - intros _. left. symmetry. apply list_N_eqb_eq. exact E.
  - intro H. right. auto.
Qed.

(* ------------------------------------------------------------------------ *)
(* the tables regenerated from the source are the documented ones            *)

Lemma duration_table_ok :
  duration_units = map (fun kv => (fst kv, Some (snd kv))) spec_duration_units.
Proof. reflexivity. Qed.

Lemma duration_lookup k : lookup k duration_units = option_map Some (lookup k spec_duration_units).
Proof. rewrite duration_table_ok. apply lookup_map_some. Qed.

Lemma spec_units_letters k m : lookup k spec_duration_units = Some m -> forallb is_letter k = true /\ k <> [].
Proof.
  intro H. apply lookup_in in H. cbn in H.
  repeat (destruct H as [H|H]; [subst k; split; [reflexivity|discriminate]|]). contradiction.
Qed.

(* ------------------------------------------------------------------------ *)
(* parse_duration                                                            *)

Lemma duration_accepts s v : duration_grammar s v -> parse_duration s = POk v.
Proof.
  intros [ws1 [ds [ws2 [u [ws3 [m [Hs [H1 [H2 [H3 [Hd [Hu Hv]]]]]]]]]]]]. subst s v.
  destruct (spec_units_letters _ _ Hu) as [Hl Hne].
  apply (letters_via_map lower lower_letter) in Hl. destruct (letters_none _ Hl) as [Unw Und].
  assert (Une : u <> []) by (destruct u; [cbn in Hne; congruence|discriminate]).
  destruct Hd as [Dn [Dd Dl]].
  unfold parse_duration. rewrite drop_while_all by assumption.
  rewrite drop_while_hd_not.
  2:{ destruct ds as [|d ds']; [congruence|]. cbn in *. apply andb_prop in Dd. destruct Dd as [Dd _].
      destruct (is_ws d) eqn:E; [|reflexivity]. apply ws_not_digit in E. congruence. }
  rewrite (span_all is_digit ds (ws2 ++ u ++ ws3)); [|assumption|].
  2:{ apply hd_not_app; [apply none_of_hd_not, forallb_ws_none_digit; assumption|].
      apply hd_not_app; [apply none_of_hd_not; assumption|]. apply none_of_hd_not, forallb_ws_none_digit; assumption. }
  destruct ds as [|d ds']; [congruence|].
  rewrite drop_while_all by assumption. rewrite (drop_while_hd_not is_ws (u ++ ws3)).
  2:{ apply hd_not_app_ne; [assumption|]. apply none_of_hd_not; assumption. }
  rewrite rstrip_all by assumption. rewrite duration_lookup, Hu. cbn [option_map].
  rewrite py_int_digits_value by (split; [discriminate|split; assumption]). reflexivity.
Qed.

Lemma duration_rejects s v : parse_duration s = POk v -> duration_grammar s v.
Proof.
  unfold parse_duration. intro H.
  destruct (drop_while_split is_ws s) as [ws1 [Hs [Hw1 _]]].
  destruct (span is_digit (drop_while is_ws s)) as [ds r] eqn:Sp.
  destruct (span_split _ _ _ _ Sp) as [Hr [Hd _]].
  destruct ds as [|d ds']; [discriminate|].
  destruct (drop_while_split is_ws r) as [ws2 [Hr2 [Hw2 _]]].
  destruct (rstrip_split is_ws (drop_while is_ws r)) as [ws3 [Hr3 Hw3]].
  set (u := rstrip is_ws (drop_while is_ws r)) in *.
  rewrite duration_lookup in H.
  destruct (lookup (map lower u) spec_duration_units) as [m|] eqn:L; cbn [option_map] in H; [|discriminate].
  destruct (py_int_digits (d :: ds')) as [n|] eqn:I; [|discriminate].
  apply py_int_digits_inv in I; [|discriminate|assumption]. destruct I as [[I1 [I2 I3]] In]. inversion H; subst v n.
  exists ws1, (d :: ds'), ws2, u, ws3, m. repeat split; try assumption.
  rewrite Hs at 1. rewrite Hr. rewrite Hr2 at 1. rewrite Hr3 at 1. reflexivity.
Qed.

Lemma duration_no_keyerror s : parse_duration s <> PKeyError.
Proof.
  unfold parse_duration. destruct (span is_digit (drop_while is_ws s)) as [ds r].
  destruct ds; [discriminate|]. rewrite duration_lookup.
  destruct (lookup _ spec_duration_units); cbn [option_map]; [|discriminate].
  destruct (py_int_digits _); discriminate.
Qed.

(* ------------------------------------------------------------------------ *)
(* parse_abbreviated_size                                                    *)

Lemma is_scale_cases c : is_scale c = true -> c = 75 \/ c = 77 \/ c = 71 \/ c = 84 \/ c = 80 \/ c = 69.
Proof.
  unfold is_scale. cbn [existsb]. intro H.
  repeat (apply orb_prop in H; destruct H as [H|H]; [apply N.eqb_eq in H; tauto|]). discriminate.
Qed.

Lemma suffix_table_ok x : suffix_wf x = true ->
  size_suffix_ok (suffix_text x) = true /\
  lookup (drop_trailing_B (suffix_text x)) size_multipliers = Some (spec_multiplier x) /\
  forallb is_letter (suffix_text x) = true.
Proof.
  destruct x as [[c|] bin b]; cbn [suffix_wf]; intro H.
  - apply is_scale_cases in H. destruct H as [H|[H|[H|[H|[H|H]]]]]; subst c; destruct bin, b; vm_compute; auto.
  - destruct bin, b; vm_compute; auto.
Qed.

Lemma suffix_ok_inv u : size_suffix_ok u = true -> exists x, suffix_wf x = true /\ u = suffix_text x.
Proof.
  unfold size_suffix_ok. intro H.
  assert (S1 : exists (sc : option N) r1, u = (match sc with Some c => [c] | None => [] end) ++ r1 /\ strip_scale u = r1
                              /\ match sc with Some c => is_scale c = true | None => True end).
  { destruct u as [|c r]; [exists None, nil; auto|]. cbn [strip_scale]. destruct (is_scale c) eqn:E.
    - exists (Some c), r. auto.
    - exists None, (c :: r). auto. }
  destruct S1 as [sc [r1 [Hu [Hs Hsc]]]]. rewrite Hs in H.
  assert (S2 : exists (bin : bool) r2, r1 = (if bin then [73] else []) ++ r2 /\ strip_opt 73 r1 = r2).
  { destruct r1 as [|c r]; [exists false, nil; auto|]. cbn [strip_opt]. destruct (c =? 73) eqn:E.
    - apply N.eqb_eq in E. subst c. exists true, r. auto.
    - exists false, (c :: r). auto. }
  destruct S2 as [bin [r2 [Hr1 Hs2]]]. rewrite Hs2 in H.
  assert (S3 : exists (b : bool) r3, r2 = (if b then [66] else []) ++ r3 /\ strip_opt 66 r2 = r3).
  { destruct r2 as [|c r]; [exists false, nil; auto|]. cbn [strip_opt]. destruct (c =? 66) eqn:E.
    - apply N.eqb_eq in E. subst c. exists true, r. auto.
    - exists false, (c :: r). auto. }
  destruct S3 as [b [r3 [Hr2 Hs3]]]. rewrite Hs3 in H. destruct r3; [|discriminate].
  exists (Suffix sc bin b). split.
  - cbn. destruct sc; [exact Hsc|reflexivity].
  - subst u r1 r2. cbn [suffix_text]. rewrite app_nil_r. reflexivity.
Qed.

Lemma size_accepts s v : size_grammar s v -> parse_abbreviated_size s = SzOk v.
Proof.
  intros [ds [ws [sfx [x [Hs [[Dn [Dd Dl]] [Hw [Hx [Hu Hv]]]]]]]]]. subst s v.
  destruct (suffix_table_ok _ Hx) as [Hok [Hlk Hlet]].
  rewrite <- Hu in Hlet. apply (letters_via_map upper upper_letter) in Hlet.
  destruct (letters_none _ Hlet) as [Snw Snd].
  unfold parse_abbreviated_size.
  destruct ds as [|d ds']; [congruence|]. cbn [app].
  change (d :: ds' ++ ws ++ sfx) with ((d :: ds') ++ ws ++ sfx).
  rewrite (span_all is_digit (d :: ds') (ws ++ sfx)); [|assumption|].
  2:{ apply hd_not_app; apply none_of_hd_not; [apply forallb_ws_none_digit|]; assumption. }
  rewrite drop_while_all by assumption. rewrite drop_while_hd_not by (apply none_of_hd_not; assumption).
  rewrite Hu, Hok, Hlk. rewrite py_int_digits_value by (split; [discriminate|split; assumption]). reflexivity.
Qed.

Lemma size_rejects s v : parse_abbreviated_size s = SzOk v -> size_grammar s v.
Proof.
  unfold parse_abbreviated_size. intro H. destruct s as [|c0 s0]; [discriminate|].
  destruct (span is_digit (c0 :: s0)) as [ds r] eqn:Sp.
  destruct (span_split _ _ _ _ Sp) as [Hr [Hd _]].
  destruct ds as [|d ds']; [discriminate|].
  destruct (drop_while_split is_ws r) as [ws [Hr2 [Hw _]]].
  set (sfx := drop_while is_ws r) in *.
  destruct (size_suffix_ok (map upper sfx)) eqn:Ok; [|discriminate].
  destruct (suffix_ok_inv _ Ok) as [x [Hx Hu]].
  destruct (suffix_table_ok _ Hx) as [_ [Hlk _]]. rewrite Hu, Hlk in H.
  destruct (py_int_digits (d :: ds')) as [n|] eqn:I; [|discriminate].
  apply py_int_digits_inv in I; [|discriminate|assumption]. destruct I as [[I1 [I2 I3]] In]. inversion H; subst v n.
  exists (d :: ds'), ws, sfx, x. repeat split; try assumption.
  rewrite Hr. rewrite Hr2 at 1. reflexivity.
Qed.

Lemma size_no_keyerror s : parse_abbreviated_size s <> SzKeyError.
Proof.
  unfold parse_abbreviated_size. destruct s as [|c0 s0]; [discriminate|].
  destruct (span is_digit (c0 :: s0)) as [ds r]. destruct ds; [discriminate|].
  destruct (size_suffix_ok _) eqn:Ok; [|discriminate].
  destruct (suffix_ok_inv _ Ok) as [x [Hx Hu]]. destruct (suffix_table_ok _ Hx) as [_ [Hlk _]].
  rewrite Hu, Hlk. destruct (py_int_digits _); discriminate.
Qed.

Lemma size_none_iff s : parse_abbreviated_size s = SzNone <-> s = [].
Proof.
  split; [|intros ->; reflexivity]. unfold parse_abbreviated_size. destruct s as [|c0 s0]; [reflexivity|].
  destruct (span is_digit (c0 :: s0)) as [ds r]. destruct ds; [discriminate|].
  destruct (size_suffix_ok _); [|discriminate]. destruct (lookup _ _); [|discriminate].
  destruct (py_int_digits _); discriminate.
Qed.

(* ------------------------------------------------------------------------ *)
(* parse_date: calendar arithmetic                                           *)
Local Open Scope Z_scope.
Ltac Zify.zify_post_hook ::= Z.to_euclidean_division_equations.

Lemma year_step k : 1 <= k -> days_before_year (k + 1) = days_before_year k + year_len k.
Proof.
  intro H. unfold days_before_year, year_len, is_leap. replace (k + 1 - 1) with k by lia.
  destruct (k mod 4 =? 0) eqn:A; destruct (k mod 100 =? 0) eqn:B; destruct (k mod 400 =? 0) eqn:C; cbn [andb orb negb]; lia.
Qed.

Lemma days_before_year_sum (n : nat) : days_before_year (Z.of_nat n + 1) = days_in_years n.
Proof.
  induction n as [|n IH]; [reflexivity|].
  cbn [days_in_years]. rewrite <- IH. replace (Z.of_nat (S n) + 1) with ((Z.of_nat n + 1) + 1) by lia.
  rewrite year_step by lia. f_equal. f_equal. lia.
Qed.

Lemma days_before_year_spec y : 1 <= y -> days_before_year y = days_in_years (Z.to_nat (y - 1)).
Proof. intro H. rewrite <- days_before_year_sum. f_equal. lia. Qed.

Lemma days_before_month_spec y m : 1 <= m <= 12 -> days_before_month y m = days_in_months y (Z.to_nat (m - 1)).
Proof.
  intro H.
  assert (C : m = 1 \/ m = 2 \/ m = 3 \/ m = 4 \/ m = 5 \/ m = 6 \/ m = 7 \/ m = 8 \/ m = 9 \/ m = 10 \/ m = 11 \/ m = 12) by lia.
  unfold days_before_month.
  repeat (destruct C as [C|C]; [subst m; lazy -[is_leap]; destruct (is_leap y); reflexivity|]).
  subst m; lazy -[is_leap]; destruct (is_leap y); reflexivity.
Qed.

Lemma epoch_day_number : day_number 1970 1 1 = epoch_ord.
Proof. vm_compute. reflexivity. Qed.

Lemma valid_date_bounds y m d : valid_date y m d = true ->
  1 <= y <= 9999 /\ 1 <= m <= 12 /\ 1 <= d <= days_in_month y m.
Proof. unfold valid_date. intro H. repeat (apply andb_prop in H; destruct H as [H ?]). lia. Qed.

Lemma timegm_is_spec y m d : valid_date y m d = true -> timegm_midnight y m d = spec_utc_midnight y m d.
Proof.
  intro V. apply valid_date_bounds in V. destruct V as [Hy [Hm Hd]].
  unfold spec_utc_midnight. rewrite epoch_day_number. unfold timegm_midnight, ymd2ord, day_number, epoch_ord.
  rewrite days_before_year_spec, days_before_month_spec by lia. ring.
Qed.

Lemma spec_midnight_multiple y m d : spec_utc_midnight y m d mod 86400 = 0.
Proof. unfold spec_utc_midnight. rewrite Z.mul_comm. apply Z.mod_mul. lia. Qed.

Lemma is_digit_digit_of v : 0 <= v <= 9 -> is_digit (digit_of v) = true /\ dval (digit_of v) = v.
Proof. intro H. unfold is_digit, digit_of, dval. split; lia. Qed.

Lemma digit_of_dval c : is_digit c = true -> digit_of (dval c) = c /\ 0 <= dval c <= 9.
Proof. unfold is_digit, digit_of, dval. intro H. split; lia. Qed.

Lemma parse_date_digits a b c e f g h i :
  0 <= a <= 9 -> 0 <= b <= 9 -> 0 <= c <= 9 -> 0 <= e <= 9 -> 0 <= f <= 9 -> 0 <= g <= 9 -> 0 <= h <= 9 -> 0 <= i <= 9 ->
  parse_date [digit_of a; digit_of b; digit_of c; digit_of e; 45%N; digit_of f; digit_of g; 45%N; digit_of h; digit_of i] =
  if valid_date (((a * 10 + b) * 10 + c) * 10 + e) (f * 10 + g) (h * 10 + i)
  then POk (timegm_midnight (((a * 10 + b) * 10 + c) * 10 + e) (f * 10 + g) (h * 10 + i)) else PValueError.
Proof.
  intros Ha Hb Hc He Hf Hg Hh Hi. unfold parse_date. cbn [forallb].
  destruct (is_digit_digit_of a Ha) as [-> ->]. destruct (is_digit_digit_of b Hb) as [-> ->].
  destruct (is_digit_digit_of c Hc) as [-> ->]. destruct (is_digit_digit_of e He) as [-> ->].
  destruct (is_digit_digit_of f Hf) as [-> ->]. destruct (is_digit_digit_of g Hg) as [-> ->].
  destruct (is_digit_digit_of h Hh) as [-> ->]. destruct (is_digit_digit_of i Hi) as [-> ->].
  reflexivity.
Qed.

Lemma parse_fmt_date y m d : valid_date y m d = true -> parse_date (fmt_date y m d) = POk (spec_utc_midnight y m d).
Proof.
  intro V. pose proof (valid_date_bounds _ _ _ V) as [Hy [Hm Hd]].
  assert (Hd' : d <= 31) by (unfold days_in_month in Hd; destruct (m =? 2); [destruct (is_leap y)|destruct ((m =? 4) || (m =? 6) || (m =? 9) || (m =? 11))%bool]; lia).
  unfold fmt_date. rewrite parse_date_digits by lia.
  replace ((((y / 1000 * 10 + y / 100 mod 10) * 10 + y / 10 mod 10) * 10 + y mod 10)) with y by lia.
  replace (m / 10 * 10 + m mod 10) with m by lia. replace (d / 10 * 10 + d mod 10) with d by lia.
  rewrite V. f_equal. apply timegm_is_spec. exact V.
Qed.

Lemma date_rejects s t : parse_date s = POk t -> date_grammar s t.
Proof.
  unfold parse_date. intro H.
  destruct s as [|y1 [|y2 [|y3 [|y4 [|h1 [|m1 [|m2 [|h2 [|d1 [|d2 [|x r]]]]]]]]]]]; try discriminate.
  destruct (forallb is_digit [y1; y2; y3; y4; m1; m2; d1; d2] && (h1 =? 45)%N && (h2 =? 45)%N) eqn:E; [|discriminate].
  apply andb_prop in E. destruct E as [E E2]. apply andb_prop in E. destruct E as [E E1].
  apply N.eqb_eq in E1, E2. subst h1 h2. cbn [forallb] in E.
  repeat (apply andb_prop in E; destruct E as [? E]).
  set (y := ((dval y1 * 10 + dval y2) * 10 + dval y3) * 10 + dval y4) in *.
  set (m := dval m1 * 10 + dval m2) in *. set (d := dval d1 * 10 + dval d2) in *.
  destruct (valid_date y m d) eqn:V; [|discriminate]. inversion H; subst t.
  exists y, m, d. split; [exact V|]. split; [|apply timegm_is_spec; exact V].
  repeat match goal with Hd : is_digit ?c = true |- _ => destruct (digit_of_dval c Hd) as [? ?]; clear Hd end.
  unfold fmt_date.
  replace (y / 1000) with (dval y1) by (unfold y; lia). replace (y / 100 mod 10) with (dval y2) by (unfold y; lia).
  replace (y / 10 mod 10) with (dval y3) by (unfold y; lia). replace (y mod 10) with (dval y4) by (unfold y; lia).
  replace (m / 10) with (dval m1) by (unfold m; lia). replace (m mod 10) with (dval m2) by (unfold m; lia).
  replace (d / 10) with (dval d1) by (unfold d; lia). replace (d mod 10) with (dval d2) by (unfold d; lia).
  congruence.
Qed.

Lemma date_no_keyerror s : parse_date s <> PKeyError.
Proof.
  unfold parse_date.
  destruct s as [|y1 [|y2 [|y3 [|y4 [|h1 [|m1 [|m2 [|h2 [|d1 [|d2 [|x r]]]]]]]]]]]; try discriminate.
  destruct (_ && _ && _)%bool; [|discriminate]. destruct (valid_date _ _ _); discriminate.
Qed.
Local Close Scope Z_scope.

(* ------------------------------------------------------------------------ *)
(* abbreviate_space then parse_abbreviated_size                              *)

Lemma small_size_digit_string s : s < 1024 -> digit_string (dec s).
Proof.
  intro H. apply dec_digit_string.
  destruct (N.eq_dec s 0) as [->|Hz]; [cbn; lia|].
  rewrite N.size_log2 by assumption.
  assert (N.log2 s < 10) by (apply N.log2_lt_pow2; [lia|exact H]). lia.
Qed.

Lemma print_parse_small si s : s < abbrev_small_limit ->
  parse_abbreviated_size (abbreviate_space si s) = SzOk s.
Proof.
  intro H. unfold abbreviate_space. apply N.ltb_lt in H. rewrite H. apply N.ltb_lt in H.
  apply size_accepts. exists (dec s), [32], [66], (Suffix None false true).
  split; [reflexivity|]. split; [apply small_size_digit_string; exact H|].
  repeat split. rewrite digits_value_dec. cbn. lia.
Qed.

Lemma fmt_2f_shape x : exists a rest, fmt_2f x = dec a ++ 46 :: rest.
Proof. destruct x as [m e]. unfold fmt_2f. eexists. eexists. reflexivity. Qed.

Lemma ladder_shape s U isuffix steps : exists a rest, abbrev_ladder s U isuffix steps = dec a ++ 46 :: rest.
Proof.
  induction steps as [|[[k j] prefix] rest IH]; cbn [abbrev_ladder].
  - unfold abbrev_r. destruct (fmt_2f_shape (double_div (to_double s 1) (U ^ fst abbrev_last))) as [a [r ->]].
    exists a. eexists. rewrite <- app_assoc. reflexivity.
  - destruct (s <? U ^ k); [|exact IH].
    unfold abbrev_r. destruct (fmt_2f_shape (double_div (to_double s 1) (U ^ j))) as [a [r ->]].
    exists a. eexists. rewrite <- app_assoc. reflexivity.
Qed.

Lemma parse_rejects_fraction a rest : parse_abbreviated_size (dec a ++ 46 :: rest) = SzValueError.
Proof.
  unfold parse_abbreviated_size.
  pose proof (dec_nonempty a) as Hn. pose proof (dec_all_digits a) as Hd.
  destruct (dec a) as [|d ds'] eqn:E; [congruence|]. cbn [app].
  change (d :: ds' ++ 46 :: rest) with ((d :: ds') ++ 46 :: rest).
  rewrite span_all by (assumption || reflexivity).
  reflexivity.
Qed.

Lemma print_parse_large si s : abbrev_small_limit <= s ->
  parse_abbreviated_size (abbreviate_space si s) = SzValueError.
Proof.
  intro H. unfold abbreviate_space. apply N.ltb_ge in H. rewrite H.
  destruct (ladder_shape s (if si then abbrev_U_si else abbrev_U_bin)
                         (if si then abbrev_isuffix_si else abbrev_isuffix_bin) abbrev_steps) as [a [rest ->]].
  apply parse_rejects_fraction.
Qed.

(* ------------------------------------------------------------------------ *)
(* pins: the function bodies the model was written for                       *)
Lemma pins_ok :
  (pin_ParseDurationUnitFormat, pin_parse_duration, pin_parse_date, pin_iso_utc_time_to_seconds,
   pin_parse_abbreviated_size, pin_abbreviate_space)
  = ("e60451526ff2414a", "693d444aee709583", "ec2189f6a5d6742e", "d07f2764f994da2a",
     "e478f6b709c0fba5", "fb656703568ea414")%string.
Proof. reflexivity. Qed.

Lemma regexes_ok :
  (duration_regex_template, duration_regex_flags, date_regex, date_regex_flags, date_regex_method,
   size_regex, size_regex_flags)
  = ("^\s*(\d+)\s*({unit_pattern})\s*$", "ASCII|IGNORECASE", "(\d{4})-(\d{2})-(\d{2})", "ASCII", "fullmatch",
     "^(\d+)\s*([KMGTPE]?[I]?[B]?)\Z", "ASCII|IGNORECASE")%string.
Proof. reflexivity. Qed.

Lemma abbrev_format_ok :
  (abbrev_small_limit, abbrev_fmt_small, abbrev_fmt_r, abbrev_U_si, abbrev_U_bin, abbrev_isuffix_si, abbrev_isuffix_bin,
   map (fun st => snd st) abbrev_steps, snd abbrev_last)
  = (1024, "%d B"%string, "%.2f %s%s"%string, 1000, 1024, bytes_of_string "B", bytes_of_string "iB",
     map bytes_of_string ["k"; "M"; "G"; "T"; "P"]%string, bytes_of_string "E").
Proof. reflexivity. Qed.

(* ------------------------------------------------------------------------ *)
(* the statements of Props/C48.v                                             *)

Lemma duration_spellings_ok :
  forall ws1 ds ws2 u ws3 m,
    forallb is_ws ws1 = true -> forallb is_ws ws2 = true -> forallb is_ws ws3 = true ->
    digit_string ds ->
    lookup (map lower u) spec_duration_units = Some m ->
    parse_duration (ws1 ++ ds ++ ws2 ++ u ++ ws3) = POk (digits_value ds * m).
Proof.
  intros ws1 ds ws2 u ws3 m H1 H2 H3 Hd Hu. apply duration_accepts.
  exists ws1, ds, ws2, u, ws3, m. repeat split; try assumption; apply Hd.
Qed.

Lemma size_spellings_ok :
  forall ds ws sfx x,
    digit_string ds -> forallb is_ws ws = true ->
    suffix_wf x = true -> map upper sfx = suffix_text x ->
    parse_abbreviated_size (ds ++ ws ++ sfx) = SzOk (digits_value ds * spec_multiplier x).
Proof.
  intros ds ws sfx x Hd Hw Hx Hs. apply size_accepts.
  exists ds, ws, sfx, x. repeat split; try assumption; apply Hd.
Qed.

Lemma date_midnight_ok :
  forall y m d, valid_date y m d = true ->
    parse_date (fmt_date y m d) = POk (spec_utc_midnight y m d) /\
    (spec_utc_midnight y m d mod 86400 = 0)%Z.
Proof. intros y m d V. split; [exact (parse_fmt_date y m d V)|exact (spec_midnight_multiple y m d)]. Qed.

Lemma date_accepts s t : date_grammar s t -> parse_date s = POk t.
Proof. intros [y [m [d [V [-> ->]]]]]. apply parse_fmt_date. exact V. Qed.

Lemma malformed_rejected_ok :
  (forall s v, parse_duration s = POk v <-> duration_grammar s v) /\
  (forall s, ~ (exists v, duration_grammar s v) -> parse_duration s = PValueError) /\
  (forall s v, parse_abbreviated_size s = SzOk v <-> size_grammar s v) /\
  (forall s, s <> [] -> ~ (exists v, size_grammar s v) -> parse_abbreviated_size s = SzValueError) /\
  (forall s, parse_abbreviated_size s = SzNone <-> s = []) /\
  (forall s t, parse_date s = POk t <-> date_grammar s t) /\
  (forall s, ~ (exists t, date_grammar s t) -> parse_date s = PValueError).
Proof.
  split; [intros s v; split; [apply duration_rejects|apply duration_accepts]|].
  split.
  { intros s N. destruct (parse_duration s) as [v| |] eqn:E; [|reflexivity|].
    - exfalso. apply N. exists v. apply duration_rejects. exact E.
    - exfalso. exact (duration_no_keyerror s E). }
  split; [intros s v; split; [apply size_rejects|apply size_accepts]|].
  split.
  { intros s Hne N. destruct (parse_abbreviated_size s) as [|v| |] eqn:E; [| |reflexivity|].
    - apply size_none_iff in E. contradiction.
    - exfalso. apply N. exists v. apply size_rejects. exact E.
    - exfalso. exact (size_no_keyerror s E). }
  split; [exact size_none_iff|].
  split; [intros s t; split; [apply date_rejects|apply date_accepts]|].
  intros s N. destruct (parse_date s) as [t| |] eqn:E; [|reflexivity|].
  - exfalso. apply N. exists t. apply date_rejects. exact E.
  - exfalso. exact (date_no_keyerror s E).
Qed.

Lemma print_parse_ok :
  forall si s,
    (s < 1024 -> parse_abbreviated_size (abbreviate_space si s) = SzOk s) /\
    (1024 <= s -> parse_abbreviated_size (abbreviate_space si s) = SzValueError).
Proof. intros si s. split; [exact (print_parse_small si s)|exact (print_parse_large si s)]. Qed.

Lemma print_parse_refuted_ok : exists s, parse_abbreviated_size (abbreviate_space true s) <> SzOk s.
Proof. exists 1024. vm_compute. discriminate. Qed.

Lemma tables_ok :
  duration_units = map (fun kv => (fst kv, Some (snd kv))) spec_duration_units /\
  (forall x, suffix_wf x = true ->
     lookup (drop_trailing_B (suffix_text x)) size_multipliers = Some (spec_multiplier x)).
Proof. split; [exact duration_table_ok|intros x H; exact (proj1 (proj2 (suffix_table_ok x H)))]. Qed.
