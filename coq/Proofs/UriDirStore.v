(* C16: alleged prefixes survive being stored in a directory
   (dirnode._pack_normalized_children / strip_prefix_for_ro, then
   DirectoryNode._unpack_contents / NodeMaker.create_from_cap / UnknownNode). *)
From Coq Require Import String List NArith ZArith PeanoNat Bool Lia.
From Verif Require Import Lib.Hex Lib.Bytes Lib.Decimal Gen.Hashutil Gen.Uri Model.UriBase32 Model.Uri Model.UriNodes
  Proofs.UriBase32 Proofs.UriParse Proofs.UriAtten.
Import ListNotations.
Local Open Scope N_scope.

Lemma strength_cases r :
  (strength r = 2%nat /\ starts_with imm_prefix r = true)
  \/ (strength r = 1%nat /\ starts_with imm_prefix r = false /\ starts_with ro_prefix r = true)
  \/ (strength r = 0%nat /\ starts_with imm_prefix r = false /\ starts_with ro_prefix r = false).
Proof.
  unfold strength. destruct (starts_with imm_prefix r); [left; auto|].
  destruct (starts_with ro_prefix r); [right; left; auto|right; right; auto].
Qed.

Lemma starts_with_strip p s : starts_with p s = true -> exists t, strip_prefix p s = Some t /\ s = p ++ t.
Proof.
  unfold starts_with. destruct (strip_prefix p s) as [t|] eqn:E; [|discriminate].
  intros _. exists t. split; [reflexivity|apply strip_prefix_some; exact E].
Qed.

Lemma starts_with_false_strip p s : starts_with p s = false -> strip_prefix p s = None.
Proof. unfold starts_with. destruct (strip_prefix p s); [discriminate|reflexivity]. Qed.

(* what _pack_normalized_children stores, by strength of the allegation *)
Lemma strip_prefix_for_ro_spec r di :
  match strength r with
  | 2%nat => if di then imm_prefix ++ strip_prefix_for_ro r di = r else strip_prefix_for_ro r di = r
  | 1%nat => ro_prefix ++ strip_prefix_for_ro r di = r
  | _ => strip_prefix_for_ro r di = r
  end.
Proof.
  unfold strip_prefix_for_ro.
  destruct (strength_cases r) as [[-> I]|[(-> & I & R)|(-> & I & R)]].
  - destruct (starts_with_strip _ _ I) as (t & -> & E). destruct di; [symmetry; exact E|reflexivity].
  - rewrite (starts_with_false_strip _ _ I). destruct (starts_with_strip _ _ R) as (t & -> & E). symmetry. exact E.
  - rewrite (starts_with_false_strip _ _ I), (starts_with_false_strip _ _ R). reflexivity.
Qed.

(* what UnknownNode.__init__ makes of a cap found in a read slot *)
Lemma phase3_strength rw x di r' : un_ro (unknown_phase3 rw (Some x) di) = Some r' ->
  (strength x <= strength r')%nat /\ (1 <= strength r')%nat /\ (di = true -> strength r' = 2%nat)
  /\ (di = false -> (1 <= strength x)%nat -> r' = x).
Proof.
  unfold unknown_phase3. destruct di; cbn [un_ro].
  - destruct (starts_with imm_prefix x) eqn:I.
    + intro H. injection H as <-. unfold strength. rewrite I. repeat split; auto; discriminate.
    + assert (S : forall t, strength (imm_prefix ++ t) = 2%nat) by (intro t; unfold strength; rewrite starts_with_app; reflexivity).
      assert (Sx : (strength x <= 1)%nat) by (unfold strength; rewrite I; destruct (starts_with ro_prefix x); auto).
      destruct (strip_prefix ro_prefix x) as [t|]; intro H; injection H as H; subst r'.
      * pose proof (S t) as St. change (imm_prefix ++ t) with (105 :: 109 :: 109 :: 46 :: t) in St.
        rewrite St. repeat split; auto; try discriminate; lia.
      * pose proof (S x) as St. change (imm_prefix ++ x) with (105 :: 109 :: 109 :: 46 :: x) in St.
        rewrite St. repeat split; auto; try discriminate; lia.
  - destruct (starts_with ro_prefix x) eqn:R; cbn [orb].
    + intro H. injection H as <-. unfold strength. rewrite R. destruct (starts_with imm_prefix x); repeat split; auto; discriminate.
    + destruct (starts_with imm_prefix x) eqn:I; intro H; injection H as <-.
      * unfold strength. rewrite I. repeat split; auto; discriminate.
      * assert (Sx : strength x = 0%nat) by (unfold strength; rewrite I, R; reflexivity).
        assert (Sr : strength (ro_prefix ++ x) = 1%nat).
        { unfold strength. assert (starts_with imm_prefix (ro_prefix ++ x) = false) as -> by (vm_compute; reflexivity).
          rewrite starts_with_app. reflexivity. }
        change (ro_prefix ++ x) with (114 :: 111 :: 46 :: x) in Sr.
        rewrite Sx, Sr. repeat split; auto; try discriminate; lia.
Qed.

Lemma unknown_node_no_error rw ro di n : unknown_node rw ro di = UOk n -> un_error n = ENone ->
  exists rw' ro', unknown_phase1 (or_none rw) (or_none ro) di = inr (rw', ro') /\ n = unknown_phase3 rw' ro' di.
Proof.
  unfold unknown_node. destruct (unknown_phase1 (or_none rw) (or_none ro) di) as [e|[rw' ro']] eqn:E1.
  - unfold opaque. intros H He. injection H as <-. cbn in He. subst e. exfalso.
    unfold unknown_phase1 in E1. destruct (or_none rw) as [w|]; [|discriminate].
    destruct di; [destruct (starts_with imm_prefix w && is_none (or_none ro)); [|destruct (is_none (or_none ro)); discriminate]|];
      (destruct (or_none ro) as [r|]; [destruct (starts_with imm_prefix r); discriminate|
                                       destruct (negb (starts_with ro_prefix w || starts_with imm_prefix w)); discriminate]).
  - intros H He. exists rw', ro'. split; [reflexivity|].
    destruct ro' as [r|]; [|injection H as <-; reflexivity].
    destruct (from_string di r) as [c| |]; try discriminate.
    destruct c as [f|f|s e]; try (injection H as <-; reflexivity).
    destruct e; try (injection H as <-; reflexivity); unfold opaque in H; injection H as <-; cbn in He; discriminate.
Qed.

Lemma phase1_ro_slot rw x di rw' ro' : unknown_phase1 rw (Some x) di = inr (rw', ro') -> ro' = Some x.
Proof.
  unfold unknown_phase1. destruct rw as [w|]; [|intro H; injection H as <- <-; reflexivity].
  destruct di.
  - cbn [is_none]. rewrite andb_false_r. discriminate.
  - destruct (starts_with imm_prefix x); [discriminate|]. intro H. injection H as <- <-. reflexivity.
Qed.

Lemma drop_spaces_id s : match s with c :: _ => c <> 32 | [] => True end -> drop_spaces s = s.
Proof. destruct s as [|c s]; [reflexivity|]. intro H. cbn. apply N.eqb_neq in H. rewrite H. reflexivity. Qed.

Lemma rstrip_spaces_id s : (s = [] \/ last s 0 <> 32) -> rstrip_spaces s = s.
Proof.
  intro H. unfold rstrip_spaces. destruct (list_eq_dec N.eq_dec s []) as [->|Hne]; [reflexivity|].
  destruct H as [->|H]; [reflexivity|]. destruct (exists_last Hne) as (l & x & ->).
  rewrite last_last in H. rewrite rev_app_distr. cbn [rev app]. rewrite drop_spaces_id by exact H.
  cbn [rev]. rewrite rev_involutive. reflexivity.
Qed.

Lemma last_app_nonempty (a b : bytes) : b <> [] -> last (a ++ b) 0 = last b 0.
Proof.
  intro H. destruct (exists_last H) as (l & x & ->). rewrite app_assoc, !last_last. reflexivity.
Qed.

(* An unknown child whose read cap carries an allegation (as every UnknownNode's does), stored
   in a directory and read back as an unknown child again, carries an allegation at least as
   strong -- through either view, in a mutable or a deep-immutable directory -- and has a
   write cap only if it had that very one.  (Read caps ending in a space are excluded: the
   unpacker strips trailing spaces, DESIGN section 9 / C19.) *)
Theorem allegation_survives_directory_ok n di view n' r :
  un_ro n = Some r -> last r 0 <> 32 -> strip_prefix_for_ro r di <> [] ->
  dir_store_read (MUnknown (UOk n)) di view = Some (MUnknown (UOk n')) ->
  (forall r', un_ro n' = Some r' -> (strength r <= strength r')%nat /\ (1 <= strength r')%nat /\ (di = true -> strength r' = 2%nat))
  /\ (forall w', un_rw n' = Some w' -> exists w, un_rw n = Some w /\ w' = rstrip_spaces w /\ view = true).
Proof.
  intros Hr Hl Hne. unfold dir_store_read. cbn [made_write_uri made_readonly_uri]. rewrite Hr. cbn [from_opt].
  remember (strip_prefix_for_ro r di) as x eqn:Ex.
  pose proof (strip_prefix_for_ro_spec r di) as S. rewrite <- Ex in S.
  assert (Hx : rstrip_spaces x = x).
  { apply rstrip_spaces_id. right.
    destruct (strength r) as [|[|[|k]]]; try (rewrite S; exact Hl);
      try (destruct di); try (rewrite S; exact Hl);
      rewrite <- S, last_app_nonempty in Hl by exact Hne; exact Hl. }
  remember (if view then or_none (Some (rstrip_spaces (from_opt (un_rw n)))) else None) as rw' eqn:Erw.
  rewrite Hx.
  destruct x as [|x0 xs]; [congruence|]. change (or_none (Some (x0 :: xs))) with (Some (x0 :: xs)).
  intro H.
  assert (Hmain : unknown_node rw' (Some (x0 :: xs)) di = UOk n' /\ un_error n' = ENone).
  { unfold create_fresh in H. destruct (bigcap rw' (Some (x0 :: xs))) as [b|] eqn:Eb.
    2: { exfalso. unfold bigcap in Eb. destruct (or_none rw'); discriminate Eb. }
    destruct (from_string di b) as [c| |]; try discriminate H.
    destruct (builds_node c).
    { destruct (di && match is_mutable c with Some true => true | _ => false end); discriminate H. }
    destruct (unknown_node rw' (Some (x0 :: xs)) di) as [m| |] eqn:Em; try (injection H as H; discriminate H).
    destruct (un_error m) eqn:Ee; try discriminate H. destruct (di && is_some (un_rw m)); [discriminate H|].
    injection H as <-. split; [reflexivity|exact Ee]. }
  clear H. destruct Hmain as [Hn' He'].
  destruct (unknown_node_no_error _ _ _ _ Hn' He') as (rw'' & ro'' & P1 & ->).
  cbn [or_none] in P1.
  split.
  - intros r' Hr'. apply phase1_ro_slot in P1. subst ro''.
    destruct (phase3_strength rw'' (x0 :: xs) di r' Hr') as (A & B & C & _).
    repeat split; try assumption.
    destruct (strength_cases r) as [[E I]|[(E & I & R)|(E & I & R)]]; rewrite E in S |- *; try lia.
    destruct di; [rewrite (C eq_refl); lia|]. rewrite S, E in A. exact A.
  - intros w' Hw'. destruct (phase3_props rw'' ro'' di) as (_ & _ & _ & _ & F & _).
    destruct F as [F|F]; rewrite F in Hw'; [|discriminate]. subst rw''.
    destruct (phase1_props _ _ _ _ _ P1) as (_ & Q & _).
    destruct (Q ltac:(discriminate)) as (Q1 & _).
    subst rw'. destruct view; [|discriminate Q1].
    destruct (un_rw n) as [w|]; [|cbn in Q1; discriminate Q1].
    exists w. repeat split. cbn [from_opt] in Q1.
    destruct (rstrip_spaces w) eqn:Ers; cbn [or_none] in Q1; [discriminate Q1|]. injection Q1 as <-. reflexivity.
Qed.

(* The other way a stored read cap can come back: as a KNOWN cap.  If the read cap r was
   acceptable when it was attached (from_string di r gave a known cap or a plain
   UnknownURI, i.e. no constraint error), then whatever known cap the stored form
   strip_prefix_for_ro r di parses to in the directory's context is not writeable when r
   was alleged read-only or immutable, and not mutable when r was alleged immutable. *)
Theorem stored_readcap_never_upgrades_ok r di c0 c :
  from_string di r = Ok c0 -> (known c0 = true \/ exists s, c0 = CUnknown s ENone) ->
  from_string di (strip_prefix_for_ro r di) = Ok c ->
  ((1 <= strength r)%nat -> is_readonly c <> Some false)
  /\ (strength r = 2%nat -> is_mutable c <> Some true)
  /\ (di = true -> is_readonly c <> Some false /\ is_mutable c <> Some true).
Proof.
  intros H0 Hc0 H.
  assert (Hdi : di = true -> is_readonly c <> Some false /\ is_mutable c <> Some true).
  { intros ->. destruct (alleged_prefix_never_upgrades_ok true (strip_prefix_for_ro r true) c) as (_ & _ & A). exact (A H). }
  destruct di; [destruct (Hdi eq_refl); repeat split; auto|].
  split; [|split; [|discriminate]].
  - intro Hs. pose proof (strip_prefix_for_ro_spec r false) as S.
    destruct (strength_cases r) as [[E I]|[(E & I & R)|(E & I & R)]]; rewrite E in S; [| |lia].
    + rewrite S in H. destruct (starts_with_strip _ _ I) as (t & _ & ->).
      destruct (alleged_prefix_never_upgrades_ok false t c) as (_ & A & _). exact (proj1 (A H)).
    + (* r = "ro." ++ x, x stored *)
      set (x := strip_prefix_for_ro r false) in *. intro W.
      destruct (known c) eqn:K; [|destruct c; try discriminate K; discriminate W].
      destruct (from_string_known false x c H K) as (cbm & cbw & s & dir & f & g & ext & Ea & -> & Hin & G & _ & Hs' & _).
      unfold is_readonly in W. rewrite inner_mk_cap in W. cbn [option_map] in W. injection W as W. unfold is_readonly_f in W.
      destruct (dispatch_guards dir (kind_of f) g Hin) as [Gw _]. rewrite (Gw W) in G. cbn [guard_ok] in G. subst cbw.
      apply strip_alleged_spec in Ea. destruct Ea as [(_ & _ & E')|[(_ & _ & E' & _)|(Ex & _ & _ & _)]]; try discriminate E'.
      subst s. rewrite to_string_prefix, <- app_assoc in Hs'.
      (* the same string behind "ro." is refused *)
      rewrite <- S in H0. destruct (strip_alleged_ro false x) as [cbm' Ea'].
      unfold from_string in H0. rewrite Ea' in H0.
      destruct (dispatch_find dir (kind_of f) (file_body f ++ ext)) as [g' Ef]. rewrite <- Hs' in Ef. rewrite Ef in H0.
      apply find_some in Ef. destruct Ef as [Hin' _].
      destruct (dispatch_guards dir (kind_of f) g' Hin') as [Gw' _]. rewrite (Gw' W) in H0. cbn [guard_ok] in H0.
      injection H0 as <-. destruct Hc0 as [Kc|[s' Es]]; [discriminate Kc|].
      injection Es as _ Ee. unfold constraint_error in Ee. destruct cbm'; discriminate Ee.
  - intro Hs. pose proof (strip_prefix_for_ro_spec r false) as S. rewrite Hs in S. rewrite S in H.
    destruct (strength_cases r) as [[E I]|[(E & _)|(E & _)]]; rewrite Hs in E; try discriminate E.
    destruct (starts_with_strip _ _ I) as (t & _ & ->).
    destruct (alleged_prefix_never_upgrades_ok false t c) as (_ & A & _). exact (proj2 (A H)).
Qed.

(* ------------------------------------------------------------ no-write links *)
Lemma ro_kind_readonly k : is_readonly_k (ro_kind k) = true.
Proof. destruct k; reflexivity. Qed.

Lemma known_mk c : known c = true -> exists dir f, c = mk_cap dir f.
Proof. destruct c as [f|f|s e]; intro K; [exists false, f|exists true, f|discriminate]; reflexivity. Qed.

Lemma parse_of_readonly_string_is_readonly dir f c' :
  from_string false (to_string (mk_cap dir (get_readonly_f f))) = Ok c' -> is_readonly c' <> Some false.
Proof.
  intro H. destruct (known c') eqn:K; [|destruct c'; try discriminate K; cbn; discriminate].
  destruct (from_string_known false _ c' H K) as (cbm & cbw & s & dir' & f' & g & ext & Ea & -> & _ & _ & _ & Hs & _).
  rewrite to_string_prefix in Ea, Hs.
  unfold strip_alleged in Ea. destruct (alleged_none dir (kind_of (get_readonly_f f)) (file_body (get_readonly_f f))) as [E1 E2].
  rewrite E1, E2 in Ea. injection Ea as _ _ <-.
  rewrite <- app_assoc in Hs.
  destruct (dispatch_prefix_unique _ _ _ _ _ _ _ eq_refl Hs) as [_ Hk].
  unfold is_readonly. rewrite inner_mk_cap. cbn [option_map]. unfold is_readonly_f.
  rewrite <- Hk, kind_of_get_readonly, ro_kind_readonly. discriminate.
Qed.

(* A child linked with no-write carries no write cap: DirectoryNode._create_readonly_node
   returns a node whose get_write_uri() is None -- for every known cap, and for every
   UnknownNode whose read cap carries an allegation (as UnknownNode.__init__ guarantees),
   in particular for an unknown-format (write cap, read cap) pair. *)
Theorem no_write_link_has_no_write_cap_ok m :
  (forall n r, m = MUnknown (UOk n) -> un_ro n = Some r -> (1 <= strength r)%nat) ->
  made_write_uri (create_readonly_node m) = None.
Proof.
  intro Hn.
  assert (Fresh : forall ro, (forall s c', or_none ro = Some s -> from_string false s = Ok c' -> is_readonly c' <> Some false) ->
                  made_write_uri (create_fresh None ro false) = None).
  { intros ro Hro. unfold create_fresh, bigcap. cbn [or_none]. destruct (or_none ro) as [s|] eqn:Es; [|reflexivity].
    destruct (from_string false s) as [c'| |] eqn:F; try reflexivity.
    destruct (builds_node c').
    - cbn [made_write_uri]. specialize (Hro s c' eq_refl F). destruct (is_readonly c') as [[|]|]; try reflexivity. exfalso. apply Hro. reflexivity.
    - cbn [made_write_uri]. destruct (unknown_node None ro false) as [n'| |] eqn:U; try reflexivity.
      destruct (un_rw n') as [w|] eqn:W; [|reflexivity].
      destruct (unknown_node_rules_ok None ro false n' U) as (_ & _ & _ & _ & R). destruct (R w W) as [R1 _]. discriminate R1. }
  unfold create_readonly_node. destruct m as [c|u|].
  - destruct (is_readonly c) as [[|]|] eqn:Er.
    + cbn [made_write_uri]. rewrite Er. reflexivity.
    + apply Fresh. intros s c' Es F. cbn [made_readonly_uri] in Es.
      destruct c as [f|f|x e]; cbn [get_readonly option_map] in Es; try discriminate Er.
      * assert (s = to_string (mk_cap false (get_readonly_f f))) as -> by (cbn [mk_cap]; destruct (to_string (CFile (get_readonly_f f))); [discriminate Es|injection Es as <-; reflexivity]).
        exact (parse_of_readonly_string_is_readonly false f c' F).
      * assert (s = to_string (mk_cap true (get_readonly_f f))) as -> by (cbn [mk_cap]; destruct (to_string (CDir (get_readonly_f f))); [discriminate Es|injection Es as <-; reflexivity]).
        exact (parse_of_readonly_string_is_readonly true f c' F).
    + destruct c as [f|f|x e]; try discriminate Er. apply Fresh. intros s c' Es. discriminate Es.
  - apply Fresh. intros s c' Es F. destruct u as [n| |]; cbn [made_readonly_uri] in Es; try discriminate Es.
    destruct (un_ro n) as [r|] eqn:Er; [|discriminate Es].
    assert (s = r) as -> by (destruct r; [discriminate Es|injection Es as <-; reflexivity]).
    specialize (Hn n r eq_refl Er).
    destruct (strength_cases r) as [[E I]|[(E & I & R)|(E & _)]]; [| |rewrite E in Hn; lia].
    + destruct (starts_with_strip _ _ I) as (t & _ & ->).
      destruct (alleged_prefix_never_upgrades_ok false t c') as (_ & A & _). exact (proj1 (A F)).
    + destruct (starts_with_strip _ _ R) as (t & _ & ->).
      destruct (alleged_prefix_never_upgrades_ok false t c') as (A & _). exact (A F).
  - apply Fresh. intros s c' Es. discriminate Es.
Qed.
