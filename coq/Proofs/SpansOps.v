(* C37: Spans -- canonical form, constructors and operators, queries, and the
   theorems over whole operation histories. *)
From Coq Require Import List Arith NArith Bool Lia ZifyBool ZifyNat ZifyN Permutation Btauto FinFun.
From Verif Require Import Model.Spans Proofs.SpansBase Proofs.SpansAdd Proofs.SpansRemove.
Import ListNotations.
Local Open Scope N_scope.

(* ---- membership as a proposition ------------------------------------------------- *)
Lemma mem_In z l : mem z l = true <-> exists sp, In sp l /\ in_iv (fst sp) (snd sp) z = true.
Proof. unfold mem. apply existsb_exists. Qed.

Lemma mem_lower e l z : wf_from e l -> mem z l = true -> e <= z.
Proof.
  intros H M. destruct (N.le_gt_cases e z) as [L|L]; [exact L|].
  rewrite (mem_below _ _ _ H L) in M. discriminate.
Qed.

Lemma mem_upper l : forall e z d, wf_from e l -> mem z l = true ->
  z < fst (last l d) + snd (last l d).
Proof.
  induction l as [|x r IH]; intros e z d H M; [discriminate|].
  cbn [wf_from] in H. destruct H as (H1 & H2 & H3).
  rewrite mem_cons in M. rewrite last_cons.
  destruct r as [|y r'].
  - cbn [last]. rewrite mem_nil in M. unfold in_iv in M. lia.
  - destruct (mem z (y :: r')) eqn:M2.
    + apply (IH _ z x H3 M2).
    + pose proof (IH _ (fst y) x H3) as U.
      assert (My : mem (fst y) (y :: r') = true).
      { rewrite mem_cons. cbn [wf_from] in H3. unfold in_iv. lia. }
      specialize (U My). cbn [wf_from] in H3. unfold in_iv in M. lia.
Qed.

(* two spans of a wf list are equal or separated by a gap *)
Lemma wf_separated l : forall e x y, wf_from e l -> In x l -> In y l ->
  x = y \/ fst x + snd x < fst y \/ fst y + snd y < fst x.
Proof.
  induction l as [|h r IH]; intros e x y H Hx Hy; [contradiction|].
  cbn [wf_from] in H. destruct H as (H1 & H2 & H3).
  destruct Hx as [<-|Hx], Hy as [<-|Hy].
  - left; reflexivity.
  - right; left. destruct (wf_from_In _ _ _ H3 Hy). lia.
  - right; right. destruct (wf_from_In _ _ _ H3 Hx). lia.
  - apply (IH _ _ _ H3 Hx Hy).
Qed.

(* ---- the representation is canonical: equal sets => equal lists ------------------ *)
Lemma wf_canonical l1 : forall l2 e1 e2, wf_from e1 l1 -> wf_from e2 l2 ->
  (forall z, mem z l1 = mem z l2) -> l1 = l2.
Proof.
  induction l1 as [|[a b] r1 IH]; intros l2 e1 e2 H1 H2 EQ.
  - destruct l2 as [|[c d] r2]; [reflexivity|].
    cbn [wf_from fst snd] in H2. specialize (EQ c). rewrite mem_nil, mem_cons in EQ.
    cbn [fst snd] in EQ. unfold in_iv in EQ. lia.
  - destruct l2 as [|[c d] r2].
    + cbn [wf_from fst snd] in H1. specialize (EQ a). rewrite mem_nil, mem_cons in EQ.
      cbn [fst snd] in EQ. unfold in_iv in EQ. lia.
    + pose proof H1 as W1. pose proof H2 as W2.
      cbn [wf_from fst snd] in H1, H2. destruct H1 as (A1 & A2 & A3). destruct H2 as (B1 & B2 & B3).
      assert (Ma : mem a ((a, b) :: r1) = true) by (rewrite mem_cons; cbn [fst snd]; unfold in_iv; lia).
      assert (Mc : mem c ((c, d) :: r2) = true) by (rewrite mem_cons; cbn [fst snd]; unfold in_iv; lia).
      assert (Hca : c <= a).
      { rewrite EQ in Ma. apply (mem_lower c _ _ (wf_from_head _ c _ _ W2 (N.le_refl _)) Ma). }
      assert (Hac : a <= c).
      { rewrite <- EQ in Mc. apply (mem_lower a _ _ (wf_from_head _ a _ _ W1 (N.le_refl _)) Mc). }
      assert (a = c) by lia. subst c.
      assert (b = d).
      { pose proof (EQ (a + b)) as E1. pose proof (EQ (a + d)) as E2.
        rewrite !mem_cons in E1, E2. cbn [fst snd] in E1, E2.
        destruct (N.lt_trichotomy b d) as [L|[L|L]]; [|exact L|].
        - rewrite (mem_below _ _ _ A3) in E1 by lia. unfold in_iv in E1. lia.
        - rewrite (mem_below _ _ _ B3) in E2 by lia. unfold in_iv in E2. lia. }
      subst d. f_equal.
      apply (IH r2 _ _ A3 B3). intro z.
      destruct (N.lt_ge_cases z (a + b + 1)) as [L|L].
      * rewrite (mem_below _ _ _ A3 L), (mem_below _ _ _ B3 L). reflexivity.
      * specialize (EQ z). rewrite !mem_cons in EQ. cbn [fst snd] in EQ.
        assert (F : in_iv a b z = false) by (unfold in_iv; lia). rewrite F in EQ. exact EQ.
Qed.

Theorem wf_unique l1 l2 : wf l1 -> wf l2 -> (forall z, mem z l1 = mem z l2) -> l1 = l2.
Proof. intros H1 H2. apply (wf_canonical l1 l2 0 0 H1 H2). Qed.

(* ---- folds of add / remove --------------------------------------------------------- *)
Definition all_pos (o : list span) : Prop := Forall (fun sp => 0 < snd sp) o.

Lemma wf_all_pos e l : wf_from e l -> all_pos l.
Proof.
  intro H. apply Forall_forall. intros sp Hin. destruct (wf_from_In _ _ _ H Hin). assumption.
Qed.

Lemma fold_add_None o : fold_add None o = None.
Proof. unfold fold_add. induction o as [|sp o IH]; [reflexivity|]. cbn [fold_left bind]. exact IH. Qed.

Lemma fold_remove_None o : fold_remove None o = None.
Proof. unfold fold_remove. induction o as [|sp o IH]; [reflexivity|]. cbn [fold_left bind]. exact IH. Qed.

Lemma fold_add_cons l sp o : fold_add (Some l) (sp :: o) = fold_add (spans_add (fst sp) (snd sp) l) o.
Proof. reflexivity. Qed.

Lemma fold_remove_cons l sp o : fold_remove (Some l) (sp :: o) = fold_remove (spans_remove (fst sp) (snd sp) l) o.
Proof. reflexivity. Qed.

Lemma fold_add_correct o : forall l, wf l -> all_pos o ->
  exists l', fold_add (Some l) o = Some l' /\ wf l' /\ forall z, mem z l' = mem z l || mem z o.
Proof.
  induction o as [|sp o IH]; intros l H P.
  - exists l. repeat split; [assumption|]. intro z. rewrite mem_nil. btauto.
  - inversion P as [|? ? P1 P2]; subst.
    destruct (spans_add_correct (fst sp) (snd sp) P1 l H) as (l1 & E1 & W1 & M1).
    destruct (IH l1 W1 P2) as (l' & E & W & M).
    exists l'. rewrite fold_add_cons, E1. repeat split; [exact E|exact W|].
    intro z. rewrite M, M1, mem_cons. btauto.
Qed.

Lemma fold_remove_correct o : forall l, wf l -> all_pos o ->
  exists l', fold_remove (Some l) o = Some l' /\ wf l' /\ forall z, mem z l' = mem z l && negb (mem z o).
Proof.
  induction o as [|sp o IH]; intros l H P.
  - exists l. repeat split; [assumption|]. intro z. rewrite mem_nil. btauto.
  - inversion P as [|? ? P1 P2]; subst.
    destruct (spans_remove_correct (fst sp) (snd sp) P1 l H) as (l1 & E1 & W1 & M1).
    destruct (IH l1 W1 P2) as (l' & E & W & M).
    exists l'. rewrite fold_remove_cons, E1. repeat split; [exact E|exact W|].
    intro z. rewrite M, M1, mem_cons. btauto.
Qed.

(* a zero-length span anywhere in the operand: AssertionError *)
Definition has_zero (o : list span) : Prop := Exists (fun sp => snd sp = 0) o.

Lemma fold_add_zero o : forall l, wf l -> has_zero o -> fold_add (Some l) o = None.
Proof.
  induction o as [|sp o IH]; intros l H Z; [inversion Z|].
  rewrite fold_add_cons. destruct (N.eq_dec (snd sp) 0) as [E|E].
  - rewrite E. rewrite spans_add_zero. apply fold_add_None.
  - inversion Z as [? ? Z1|? ? Z1]; subst; [contradiction|].
    destruct (spans_add_correct (fst sp) (snd sp) ltac:(lia) l H) as (l1 & E1 & W1 & _).
    rewrite E1. apply (IH _ W1 Z1).
Qed.

Lemma fold_remove_zero o : forall l, wf l -> has_zero o -> fold_remove (Some l) o = None.
Proof.
  induction o as [|sp o IH]; intros l H Z; [inversion Z|].
  rewrite fold_remove_cons. destruct (N.eq_dec (snd sp) 0) as [E|E].
  - rewrite E. rewrite spans_remove_zero. apply fold_remove_None.
  - inversion Z as [? ? Z1|? ? Z1]; subst; [contradiction|].
    destruct (spans_remove_correct (fst sp) (snd sp) ltac:(lia) l H) as (l1 & E1 & W1 & _).
    rewrite E1. apply (IH _ W1 Z1).
Qed.

(* ---- constructors ------------------------------------------------------------------- *)
Lemma wf_nil : wf [].
Proof. exact I. Qed.

Lemma spans_of_list_correct o : all_pos o ->
  exists o', spans_of_list o = Some o' /\ wf o' /\ forall z, mem z o' = mem z o.
Proof.
  intro P. destruct (fold_add_correct o [] wf_nil P) as (o' & E & W & M).
  exists o'. repeat split; [exact E|exact W|]. intro z. rewrite M, mem_nil. reflexivity.
Qed.

Lemma spans_of_list_zero o : has_zero o -> spans_of_list o = None.
Proof. apply (fold_add_zero o [] wf_nil). Qed.

(* Spans(other) is an exact copy *)
Lemma spans_copy_id l : wf l -> spans_copy l = Some l.
Proof.
  intro H. unfold spans_copy. destruct (spans_len l =? 0) eqn:E.
  - destruct l as [|sp r]; [reflexivity|].
    pose proof (spans_len_pos_nonempty (sp :: r) H ltac:(discriminate)). lia.
  - destruct (fold_add_correct l [] wf_nil (wf_all_pos _ _ H)) as (l' & E' & W & M).
    assert (EQ : l' = l) by (apply (wf_unique _ _ W H); intro z; rewrite M, mem_nil; reflexivity).
    rewrite EQ in E'. exact E'.
Qed.

(* ---- operators ------------------------------------------------------------------------ *)
Lemma spans_union_correct a b : wf a -> wf b ->
  exists c, spans_union a b = Some c /\ wf c /\ forall z, mem z c = mem z a || mem z b.
Proof.
  intros Ha Hb. unfold spans_union. rewrite (spans_copy_id a Ha).
  apply (fold_add_correct b a Ha (wf_all_pos _ _ Hb)).
Qed.

Lemma spans_diff_correct a b : wf a -> wf b ->
  exists c, spans_diff a b = Some c /\ wf c /\ forall z, mem z c = mem z a && negb (mem z b).
Proof.
  intros Ha Hb. unfold spans_diff. rewrite (spans_copy_id a Ha).
  apply (fold_remove_correct b a Ha (wf_all_pos _ _ Hb)).
Qed.

Lemma spans_iadd_correct a b : wf a -> wf b ->
  exists c, spans_iadd a b = Some c /\ wf c /\ forall z, mem z c = mem z a || mem z b.
Proof. intros Ha Hb. apply (fold_add_correct b a Ha (wf_all_pos _ _ Hb)). Qed.

Lemma spans_isub_correct a b : wf a -> wf b ->
  exists c, spans_isub a b = Some c /\ wf c /\ forall z, mem z c = mem z a && negb (mem z b).
Proof. intros Ha Hb. apply (fold_remove_correct b a Ha (wf_all_pos _ _ Hb)). Qed.

Lemma spans_inter_unfold (a b : spans) : a <> [] ->
  spans_inter a b =
  let '(ls, ll) := last a (0, 0) in
  bind (spans_diff [(fst (hd (0, 0) a), ls + ll)] b) (fun not_other => spans_diff a not_other).
Proof. destruct a as [|[fs fl] r]; [congruence|reflexivity]. Qed.

Lemma spans_inter_correct a b : wf a -> wf b ->
  exists c, spans_inter a b = Some c /\ wf c /\ forall z, mem z c = mem z a && mem z b.
Proof.
  intros Ha Hb.
  destruct (match a with [] => true | _ => false end) eqn:Em.
  - assert (a = []) by (destruct a; [reflexivity|discriminate]). subst a.
    exists []. repeat split.
  - assert (Hne : a <> []) by (intro; subst a; discriminate).
    rewrite (spans_inter_unfold a b Hne).
    destruct (last a (0, 0)) as [ls ll] eqn:EL.
    set (fs := fst (hd (0, 0) a)).
    assert (Hlast : In (ls, ll) a).
    { rewrite <- EL. destruct (exists_last Hne) as (p & x & ->). rewrite last_last. apply in_or_app. right. left. reflexivity. }
    destruct (wf_from_In _ _ _ Ha Hlast) as [_ Hll]. cbn [snd fst] in Hll.
    assert (Wb : wf [(fs, ls + ll)]).
    { unfold wf. cbn [wf_from fst snd]. repeat split; lia. }
    destruct (spans_diff_correct _ b Wb Hb) as (no & E1 & W1 & M1).
    rewrite E1. cbn [bind].
    destruct (spans_diff_correct a no Ha W1) as (c & E2 & W2 & M2).
    exists c. repeat split; [exact E2|exact W2|].
    intro z. rewrite M2, M1, mem_cons, mem_nil. cbn [fst snd].
    destruct (mem z a) eqn:Mz; [|reflexivity].
    assert (B : in_iv fs (ls + ll) z = true).
    { pose proof (mem_upper a 0 z (0, 0) Ha Mz) as U. rewrite EL in U. cbn [fst snd] in U.
      assert (Wfs : wf_from fs a).
      { subst fs. clear -Ha Hne. destruct a as [|x r]; [congruence|]. apply (wf_from_head 0 _ _ _ Ha). cbn [hd]. lia. }
      pose proof (mem_lower _ _ _ Wfs Mz). unfold in_iv. lia. }
    rewrite B. btauto.
Qed.

(* ---- __contains__ ----------------------------------------------------------------------- *)
Lemma contains_found s n l sp : 0 < n -> In sp l -> fst sp <= s -> s + n <= fst sp + snd sp ->
  spans_contains s n l = true.
Proof.
  intros Hn. induction l as [|[a b] r IH]; intros Hin H1 H2; [contradiction|].
  cbn [spans_contains]. rewrite overlap_spec.
  destruct (N.max s a <? N.min (s + n) (a + b)) eqn:C.
  - destruct ((N.max s a =? s) && (N.min (s + n) (a + b) - N.max s a =? n)) eqn:C2; [reflexivity|].
    destruct Hin as [<-|Hin]; [cbn [fst snd] in *; lia|]. apply IH; assumption.
  - destruct Hin as [<-|Hin]; [cbn [fst snd] in *; lia|]. apply IH; assumption.
Qed.

Lemma contains_sound s n l : spans_contains s n l = true ->
  0 < n /\ exists sp, In sp l /\ fst sp <= s /\ s + n <= fst sp + snd sp.
Proof.
  induction l as [|[a b] r IH]; intro H; [discriminate|].
  cbn [spans_contains] in H. rewrite overlap_spec in H.
  destruct (N.max s a <? N.min (s + n) (a + b)) eqn:C.
  - destruct ((N.max s a =? s) && (N.min (s + n) (a + b) - N.max s a =? n)) eqn:C2.
    + split; [lia|]. exists (a, b). cbn [fst snd]. split; [left; reflexivity|]. lia.
    + destruct (IH H) as (Hn & sp & Hin & Hs). split; [exact Hn|]. exists sp. split; [right; exact Hin|exact Hs].
  - destruct (IH H) as (Hn & sp & Hin & Hs). split; [exact Hn|]. exists sp. split; [right; exact Hin|exact Hs].
Qed.

Theorem spans_contains_correct s n l : wf l ->
  (spans_contains s n l = true <-> 0 < n /\ forall z, s <= z -> z < s + n -> mem z l = true).
Proof.
  intro H. split.
  - intro C. destruct (contains_sound _ _ _ C) as (Hn & sp & Hin & H1 & H2). split; [exact Hn|].
    intros z Z1 Z2. apply mem_In. exists sp. split; [exact Hin|]. unfold in_iv. lia.
  - intros [Hn All].
    assert (Ms : mem s l = true) by (apply All; lia).
    apply mem_In in Ms. destruct Ms as (sp & Hin & Hs).
    apply (contains_found s n l sp Hn Hin); [unfold in_iv in Hs; lia|].
    destruct (N.le_gt_cases (s + n) (fst sp + snd sp)) as [L|L]; [exact L|exfalso].
    assert (Me : mem (fst sp + snd sp) l = true) by (apply All; unfold in_iv in Hs; lia).
    apply mem_In in Me. destruct Me as (sp2 & Hin2 & Hs2).
    destruct (wf_separated l 0 sp sp2 H Hin Hin2) as [->|[S1|S1]]; unfold in_iv in *; lia.
Qed.

(* ---- each() and len(): cardinality --------------------------------------------------------- *)
Lemma In_nrange s n z : In z (nrange s n) <-> s <= z /\ z < s + n.
Proof.
  unfold nrange. rewrite in_map_iff. split.
  - intros (k & <- & Hk). apply in_seq in Hk. lia.
  - intros [H1 H2]. exists (N.to_nat (z - s)). split; [lia|]. apply in_seq. lia.
Qed.

Lemma NoDup_nrange s n : NoDup (nrange s n).
Proof.
  unfold nrange. apply Injective_map_NoDup; [|apply seq_NoDup].
  intros x y E. lia.
Qed.

Lemma length_nrange s n : length (nrange s n) = N.to_nat n.
Proof. unfold nrange. rewrite map_length, seq_length. reflexivity. Qed.

Lemma NoDup_app_disjoint {A} (l1 l2 : list A) :
  NoDup l1 -> NoDup l2 -> (forall x, In x l1 -> ~ In x l2) -> NoDup (l1 ++ l2).
Proof.
  induction l1 as [|x l1 IH]; intros H1 H2 D; [exact H2|].
  inversion H1 as [|? ? N1 N2]; subst. cbn [app]. constructor.
  - intro Hin. apply in_app_or in Hin. destruct Hin as [Hin|Hin]; [contradiction|].
    apply (D x); [left; reflexivity|exact Hin].
  - apply IH; [exact N2|exact H2|]. intros y Hy. apply D. right. exact Hy.
Qed.

Lemma In_each z l : In z (spans_each l) <-> mem z l = true.
Proof.
  unfold spans_each. rewrite in_flat_map, mem_In. split.
  - intros (sp & Hin & Hz). exists sp. split; [exact Hin|]. apply In_nrange in Hz. unfold in_iv. lia.
  - intros (sp & Hin & Hz). exists sp. split; [exact Hin|]. apply In_nrange. unfold in_iv in Hz. lia.
Qed.

Lemma NoDup_each l : forall e, wf_from e l -> NoDup (spans_each l).
Proof.
  induction l as [|sp r IH]; intros e H; [constructor|].
  cbn [wf_from] in H. destruct H as (H1 & H2 & H3).
  change (spans_each (sp :: r)) with (nrange (fst sp) (snd sp) ++ spans_each r).
  apply NoDup_app_disjoint; [apply NoDup_nrange|apply (IH _ H3)|].
  intros x Hx Hx2. apply In_nrange in Hx. apply In_each in Hx2.
  pose proof (mem_lower _ _ _ H3 Hx2). lia.
Qed.

Lemma length_each l : N.of_nat (length (spans_each l)) = spans_len l.
Proof.
  induction l as [|sp r IH]; [reflexivity|].
  change (spans_each (sp :: r)) with (nrange (fst sp) (snd sp) ++ spans_each r).
  rewrite app_length, length_nrange, spans_len_cons. lia.
Qed.

Theorem spans_len_cardinality l : wf l ->
  NoDup (spans_each l) /\
  (forall z, In z (spans_each l) <-> mem z l = true) /\
  spans_len l = N.of_nat (length (spans_each l)).
Proof.
  intro H. split; [apply (NoDup_each l 0 H)|]. split; [intro z; apply In_each|].
  symmetry. apply length_each.
Qed.

(* ---- histories ------------------------------------------------------------------------------- *)
Definition op_ok (op : sop) : Prop :=
  match op with
  | OpAdd _ n | OpRemove _ n => 0 < n
  | OpUnion o | OpDiff o | OpInter o | OpIAdd o | OpISub o => all_pos o
  | OpContains _ _ => True
  end.

Definition op_rejected (op : sop) : Prop :=
  match op with
  | OpAdd _ n | OpRemove _ n => n = 0
  | OpUnion o | OpDiff o | OpInter o | OpIAdd o | OpISub o => has_zero o
  | OpContains _ _ => False
  end.

(* the reference: a set of N as its characteristic function *)
Definition set_step (S : N -> bool) (op : sop) : N -> bool :=
  match op with
  | OpAdd s n => fun z => S z || in_iv s n z
  | OpRemove s n => fun z => S z && negb (in_iv s n z)
  | OpUnion o | OpIAdd o => fun z => S z || mem z o
  | OpDiff o | OpISub o => fun z => S z && negb (mem z o)
  | OpInter o => fun z => S z && mem z o
  | OpContains _ _ => S
  end.

Definition set_run (ops : list sop) : N -> bool :=
  fold_left set_step ops (fun _ => false).

Lemma set_step_ext S S' op : (forall z, S z = S' z) -> forall z, set_step S op z = set_step S' op z.
Proof. intros E z. destruct op; cbn [set_step]; rewrite ?E; reflexivity. Qed.

Lemma set_fold_ext ops : forall S S', (forall z, S z = S' z) ->
  forall z, fold_left set_step ops S z = fold_left set_step ops S' z.
Proof.
  induction ops as [|op ops IH]; intros S S' E z; cbn [fold_left]; [apply E|].
  apply IH. apply set_step_ext. exact E.
Qed.

Theorem sp_step_correct l op : wf l -> op_ok op ->
  exists l', sp_step l op = Some l' /\ wf l' /\
             forall z, mem z l' = set_step (fun x => mem x l) op z.
Proof.
  intros H Hop. destruct op as [s n|s n|o|o|o|o|o|s n]; cbn [op_ok] in Hop; cbn [sp_step set_step].
  - apply (spans_add_correct s n Hop l H).
  - apply (spans_remove_correct s n Hop l H).
  - destruct (spans_of_list_correct o Hop) as (o' & E & W & M). rewrite E. cbn [bind].
    destruct (spans_union_correct l o' H W) as (c & Ec & Wc & Mc).
    exists c. repeat split; [exact Ec|exact Wc|]. intro z. rewrite Mc, M. reflexivity.
  - destruct (spans_of_list_correct o Hop) as (o' & E & W & M). rewrite E. cbn [bind].
    destruct (spans_diff_correct l o' H W) as (c & Ec & Wc & Mc).
    exists c. repeat split; [exact Ec|exact Wc|]. intro z. rewrite Mc, M. reflexivity.
  - destruct (spans_of_list_correct o Hop) as (o' & E & W & M). rewrite E. cbn [bind].
    destruct (spans_inter_correct l o' H W) as (c & Ec & Wc & Mc).
    exists c. repeat split; [exact Ec|exact Wc|]. intro z. rewrite Mc, M. reflexivity.
  - destruct (spans_of_list_correct o Hop) as (o' & E & W & M). rewrite E. cbn [bind].
    destruct (spans_iadd_correct l o' H W) as (c & Ec & Wc & Mc).
    exists c. repeat split; [exact Ec|exact Wc|]. intro z. rewrite Mc, M. reflexivity.
  - destruct (spans_of_list_correct o Hop) as (o' & E & W & M). rewrite E. cbn [bind].
    destruct (spans_isub_correct l o' H W) as (c & Ec & Wc & Mc).
    exists c. repeat split; [exact Ec|exact Wc|]. intro z. rewrite Mc, M. reflexivity.
  - exists l. repeat split. exact H.
Qed.

Theorem sp_step_rejected l op : op_rejected op -> sp_step l op = None.
Proof.
  destruct op as [s n|s n|o|o|o|o|o|s n]; cbn [op_rejected sp_step]; intro R.
  - subst n. reflexivity.
  - subst n. reflexivity.
  - rewrite (spans_of_list_zero o R). reflexivity.
  - rewrite (spans_of_list_zero o R). reflexivity.
  - rewrite (spans_of_list_zero o R). reflexivity.
  - rewrite (spans_of_list_zero o R). reflexivity.
  - rewrite (spans_of_list_zero o R). reflexivity.
  - contradiction.
Qed.

Lemma sp_run_from ops : forall l S, wf l -> (forall z, mem z l = S z) -> Forall op_ok ops ->
  exists l', fold_left (fun st op => bind st (fun l => sp_step l op)) ops (Some l) = Some l' /\
             wf l' /\ forall z, mem z l' = fold_left set_step ops S z.
Proof.
  induction ops as [|op ops IH]; intros l S H E P.
  - exists l. repeat split; assumption.
  - inversion P as [|? ? P1 P2]; subst.
    destruct (sp_step_correct l op H P1) as (l1 & E1 & W1 & M1).
    cbn [fold_left bind]. rewrite E1.
    apply (IH l1 (set_step S op) W1); [|exact P2].
    intro z. rewrite M1. apply set_step_ext. exact E.
Qed.

Theorem sp_run_correct ops : Forall op_ok ops ->
  exists l, sp_run ops = Some l /\ wf l /\ forall z, mem z l = set_run ops z.
Proof.
  intro P. apply (sp_run_from ops [] (fun _ => false) wf_nil); [intro z; reflexivity|exact P].
Qed.

(* every wf list is reachable: add its spans in order *)
Theorem wf_reachable l : wf l -> sp_run (map (fun sp => OpAdd (fst sp) (snd sp)) l) = Some l.
Proof.
  intro H.
  assert (P : Forall op_ok (map (fun sp => OpAdd (fst sp) (snd sp)) l)).
  { apply Forall_forall. intros op Hin. apply in_map_iff in Hin. destruct Hin as (sp & <- & Hin).
    cbn [op_ok]. destruct (wf_from_In _ _ _ H Hin). assumption. }
  destruct (sp_run_correct _ P) as (l' & E & W & M). rewrite E. f_equal.
  apply (wf_unique _ _ W H). intro z. rewrite M. unfold set_run.
  assert (G : forall (S : N -> bool), fold_left set_step (map (fun sp => OpAdd (fst sp) (snd sp)) l) S z = S z || mem z l).
  { clear. induction l as [|sp r IH]; intro S; cbn [map fold_left].
    - rewrite mem_nil. btauto.
    - rewrite IH. cbn [set_step]. rewrite mem_cons. btauto. }
  rewrite G. reflexivity.
Qed.

(* the invariant, spelled out on the list: sorted, positive, disjoint, non-adjacent *)
Lemma wf_from_consecutive l : forall e, wf_from e l ->
  forall p x y q, l = p ++ x :: y :: q -> fst x + snd x < fst y.
Proof.
  induction l as [|sp r IH]; intros e H p x y q E.
  - destruct p; discriminate.
  - cbn [wf_from] in H. destruct H as (H1 & H2 & H3).
    destruct p as [|h p]; cbn [app] in E.
    + injection E as E1 E2. subst. cbn [wf_from] in H3. lia.
    + injection E as E1 E2. apply (IH _ H3 p x y q E2).
Qed.

Lemma chain_wf l : forall e,
  (forall sp, In sp l -> 0 < snd sp) ->
  match l with [] => True | x :: _ => e <= fst x end ->
  (forall p x y q, l = p ++ x :: y :: q -> fst x + snd x < fst y) ->
  wf_from e l.
Proof.
  induction l as [|sp r IH]; intros e A Hd B; [exact I|].
  cbn [wf_from]. split; [exact Hd|]. split; [apply A; left; reflexivity|].
  apply IH.
  - intros x Hx. apply A. right. exact Hx.
  - destruct r as [|y q]; [exact I|]. specialize (B [] sp y q eq_refl). lia.
  - intros p x y q E. apply (B (sp :: p) x y q). cbn [app]. f_equal. exact E.
Qed.

Lemma wf_spelled_out l : wf l <->
  (forall sp, In sp l -> 0 < snd sp) /\
  (forall p x y q, l = p ++ x :: y :: q -> fst x + snd x < fst y).
Proof.
  split.
  - intro H. split.
    + intros sp Hin. apply (wf_from_In _ _ _ H Hin).
    + apply (wf_from_consecutive l 0 H).
  - intros [A B]. apply chain_wf; [exact A| |exact B]. destruct l; [exact I|lia].
Qed.
