(* Fingerprints of the hand-modelled functions and the generated layout tables
   equal the values Model/ImmFile.v was written against. *)
From Coq Require Import List NArith String.
From Verif Require Import Gen.ImmConsts.
Import ListNotations.
Local Open Scope N_scope.

Lemma pins_ok :
  (pin_BaseUploadable_get_all_encoding_parameters, pin_Encoder_got_all_encoding_parameters,
   pin_Encoder_encode_segment, pin_Encoder_gather_data, pin_Encoder_get_share_size,
   pin_WriteBucketProxy_init, pin_WriteBucketProxy_get_allocated_size, pin_WriteBucketProxy_put_block,
   pin_make_write_bucket_proxy, pin_DownloadNode_build_guessed_tables, pin_DownloadNode_calculate_sizes,
   pin_DownloadNode_decode_blocks, pin_DownloadNode_read, pin_Segmentation_fetch_next,
   pin_Segmentation_got_segment, pin_DecryptingConsumer_init, pin_DecryptingConsumer_write, pin_overlap,
   pin_CRSEncoder_set_params, pin_CRSDecoder_set_params)
  = ("e74fad7b74b26da8", "531b631b92563778", "4f79c8e5854be6a2", "5470046c97d918dc", "f587d029f3b1f2f3",
     "ee17e59e80853283", "ce00acc96b01f32f", "f4bee6ae705251c2", "9909770779820706", "4c33f3cb5f143a1f",
     "35928de3cae9f6ed", "d4edd272955a07d9", "eb0c28e2f7b04721", "f6706afc2e663f91", "5468803b9bc98785",
     "9e49f09b91262de5", "d18a6b29e10925ac", "dd26fb16711d66b4", "0a1295e05666d233", "e20e28cfa9f63af6")%string.
Proof. reflexivity. Qed.

Lemma layout_tables_ok :
  (V1_SECTIONS, V1_HEADER_FIELDS, V2_HEADER_FIELDS, V2_SECTIONS = V1_SECTIONS,
   (HASH_SIZE, V1_HEADER_SIZE, V1_FIELDSIZE, V1_LIMIT, V2_HEADER_SIZE, V2_FIELDSIZE, V2_LIMIT, READ_HEADER_OFFSET, READ_HEADER_SIZE))
  = ([("data", "data_size"); ("plaintext_hash_tree", "_segment_hash_size"); ("crypttext_hash_tree", "_segment_hash_size");
      ("block_hashes", "_segment_hash_size"); ("share_hashes", "_share_hashtree_size"); ("uri_extension", "")],
     [("=1", 4); ("block_size", 4); ("data_size", 4); ("@data", 4); ("@plaintext_hash_tree", 4); ("@crypttext_hash_tree", 4);
      ("@block_hashes", 4); ("@share_hashes", 4); ("@uri_extension", 4)],
     [("=2", 4); ("block_size", 8); ("data_size", 8); ("@data", 8); ("@plaintext_hash_tree", 8); ("@crypttext_hash_tree", 8);
      ("@block_hashes", 8); ("@share_hashes", 8); ("@uri_extension", 8)],
     V1_SECTIONS = V1_SECTIONS,
     (32, 36, 4, 2 ^ 32, 68, 8, 2 ^ 64, 0, 68))%string.
Proof. reflexivity. Qed.
