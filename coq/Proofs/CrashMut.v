(* Mutable container (MutableShareFile): every prefix of a lease operation
   leaves the magic, the data length, the extra-lease offset and the data
   region of a well-formed container untouched. *)
From Coq Require Import List Arith NArith Bool Lia.
From Verif Require Import Lib.Hex Lib.FileSys Model.Crash Proofs.CrashBytes Proofs.CrashImm.
Import ListNotations.
Local Open Scope N_scope.

Lemma mut_wf_facts f :
  mut_wf f = true -> 468 + mut_dl f <= mut_elo f /\ mut_elo f + 4 <= flen f.
Proof. unfold mut_wf. rewrite andb_true_iff, !N.leb_le. tauto. Qed.

(* g agrees with f on everything a reader of the share data looks at *)
Definition mut_same (f g : file) : Prop :=
  sub 0 32 g = sub 0 32 f /\ sub 84 8 g = sub 84 8 f /\ sub 92 8 g = sub 92 8 f /\
  (length f <= length g)%nat /\ sub 468 (mut_dl f) g = sub 468 (mut_dl f) f.

Lemma mut_same_refl f : mut_same f f.
Proof. unfold mut_same. repeat split; auto. Qed.

(* a write into the four header lease slots, or at/after the extra-lease block *)
Definition safe (f : file) (o : fop) : Prop :=
  match o with
  | FWrite off bs => (100 <= off /\ off + flen bs <= 468) \/ mut_elo f <= off
  | FTrunc _ => False
  end.

Lemma mut_same_step f g off bs :
  mut_wf f = true -> mut_same f g -> safe f (FWrite off bs) ->
  mut_same f (write_at g off bs).
Proof.
  intros Hwf [H0 [H84 [H92 [Hlen Hd]]]] Hs.
  destruct (mut_wf_facts f Hwf) as [Hfit Hcnt].
  assert (Hg : (472 <= length g)%nat) by (unfold flen in *; lia).
  unfold mut_same. simpl in Hs. destruct Hs as [[Ha Hb]|Hb].
  - (* header lease slots: inside the file, after the header fields, before the data *)
    repeat split.
    + rewrite sub_write_at_before; [exact H0| |]; unfold flen in *; lia.
    + rewrite sub_write_at_before; [exact H84| |]; unfold flen in *; lia.
    + rewrite sub_write_at_before; [exact H92| |]; unfold flen in *; lia.
    + pose proof (write_at_length_ge g off bs). lia.
    + rewrite sub_write_at_after; [exact Hd| |]; unfold flen in *; lia.
  - (* at or after the extra-lease block: after everything *)
    repeat split.
    + rewrite sub_write_at_before; [exact H0| |]; unfold flen in *; lia.
    + rewrite sub_write_at_before; [exact H84| |]; unfold flen in *; lia.
    + rewrite sub_write_at_before; [exact H92| |]; unfold flen in *; lia.
    + pose proof (write_at_length_ge g off bs). lia.
    + rewrite sub_write_at_before; [exact Hd| |]; unfold flen in *; lia.
Qed.

Lemma mut_same_run f ops : mut_wf f = true -> Forall (safe f) ops ->
  forall g, mut_same f g -> mut_same f (run_fops ops g).
Proof.
  intros Hwf H. induction H as [|o ops Ho _ IH]; intros g Hg; [exact Hg|].
  unfold run_fops. cbn [fold_left]. apply IH.
  destruct o as [off bs|n]; [|destruct Ho]. cbn [apply_fop].
  apply mut_same_step; assumption.
Qed.

Lemma Forall_firstn {A} (P : A -> Prop) k l : Forall P l -> Forall P (firstn k l).
Proof.
  intro H. apply Forall_forall. intros x Hx. rewrite Forall_forall in H. apply H.
  revert l Hx H. induction k as [|k IH]; intros [|y l] Hx H; simpl in Hx; try contradiction.
  destruct Hx as [->|Hx]; [left; reflexivity|]. right. eapply IH; [exact Hx|].
  intros z Hz. apply H. right. exact Hz.
Qed.

(* what the public API shows of g is what it showed of f *)
Lemma mut_same_view f g :
  mut_magic_ok f = true -> mut_wf f = true -> mut_same f g ->
  mut_magic_ok g = true /\ mut_wf g = true /\ mut_data g = mut_data f /\ (flen g <? 100) = false.
Proof.
  intros Hm Hwf [H0 [H84 [H92 [Hlen Hd]]]].
  destruct (mut_wf_facts f Hwf) as [Hfit Hcnt].
  assert (Edl : mut_dl g = mut_dl f) by (unfold mut_dl; rewrite H84; reflexivity).
  assert (Eelo : mut_elo g = mut_elo f) by (unfold mut_elo; rewrite H92; reflexivity).
  repeat split.
  - unfold mut_magic_ok in *. rewrite H0. exact Hm.
  - unfold mut_wf. rewrite Edl, Eelo, andb_true_iff, !N.leb_le. unfold flen in *. lia.
  - unfold mut_data, mut_read. rewrite Edl, N.add_0_r, N.sub_0_r.
    destruct (mut_dl f <? 0 + mut_dl f); destruct (_ =? 0); try reflexivity; exact Hd.
  - apply N.ltb_ge. unfold flen in *. lia.
Qed.

(* ---------------------------------------------------- lease writes are safe *)
Lemma chunks_In fuel k l x : In x (chunks fuel k l) -> (length x <= k)%nat.
Proof.
  intro H. apply In_nth_error in H. destruct H as [j Hj].
  apply chunks_nth in Hj. tauto.
Qed.

Lemma mut_slots_len f sl r :
  mut_slots f = Some sl -> In r sl -> (length r <= 92)%nat.
Proof.
  unfold mut_slots. destruct (mut_num_extra f) as [n|]; [|discriminate].
  destruct (_ && _); [|discriminate].
  intros H Hr. apply some_inj in H. subst sl. apply in_app_or in Hr.
  destruct Hr as [Hr|Hr]; eapply chunks_In; exact Hr.
Qed.

Lemma find_index_In {A} (pr : A -> bool) l i0 i x :
  find_index pr l i0 = Some (i, x) -> In x l.
Proof.
  intro H. apply find_index_spec in H. destruct H as [j [_ Hn]].
  eapply nth_error_In. exact Hn.
Qed.

Lemma slot_write_safe f i rec :
  (length rec <= 92)%nat -> safe f (FWrite (mut_slot_offset f i) rec).
Proof.
  intro H. simpl. unfold mut_slot_offset. destruct (i <? 4) eqn:E.
  - apply N.ltb_lt in E. left. unfold flen. lia.
  - right. lia.
Qed.

Lemma write_lease_safe f nslots i rec :
  (length rec <= 92)%nat -> Forall (safe f) (mut_write_lease_fops f nslots i rec).
Proof.
  intro H. unfold mut_write_lease_fops. destruct (i <? nslots).
  - constructor; [apply slot_write_safe; exact H|constructor].
  - constructor; [simpl; right; lia|].
    constructor; [apply slot_write_safe; exact H|constructor].
Qed.

Lemma renewed_len r e : (length r <= 92)%nat -> (length (mut_renewed r e) <= 92)%nat.
Proof.
  intro H. unfold mut_renewed. rewrite !app_length, firstn_length, skipn_length, enc_length. lia.
Qed.

Lemma mut_add_or_renew_safe f rec o :
  length rec = 92%nat -> mut_add_or_renew_fops f rec = Some o -> Forall (safe f) o.
Proof.
  intros Hrec H. unfold mut_add_or_renew_fops in H.
  destruct (mut_slots f) as [sl|] eqn:Es; [|discriminate].
  destruct (find_index (mut_live_match _) sl 0) as [[i r]|] eqn:E1.
  - apply some_inj in H. subst o. destruct (_ <? _); [|constructor].
    apply write_lease_safe. apply renewed_len.
    eapply mut_slots_len; [exact Es|]. eapply find_index_In. exact E1.
  - destruct (find_index (fun r : list N => mut_rec_owner r =? 0) sl 0) as [[i r]|] eqn:E2;
      apply some_inj in H; subst o;
      apply write_lease_safe; lia.
Qed.

Lemma mut_renew_safe f hs e o :
  mut_renew_fops f hs e = Some o -> Forall (safe f) o.
Proof.
  intro H. unfold mut_renew_fops in H.
  destruct (mut_slots f) as [sl|] eqn:Es; [|discriminate].
  destruct (find_index (mut_live_match _) sl 0) as [[i r]|] eqn:E1; [|discriminate].
  apply some_inj in H. subst o. destruct (_ <? _); [|constructor].
  apply write_lease_safe. apply renewed_len.
  eapply mut_slots_len; [exact Es|]. eapply find_index_In. exact E1.
Qed.

(* ------------------------------------------------------ per file, any prefix *)
Lemma mut_lease_file f o k :
  mut_magic_ok f = true -> mut_wf f = true -> Forall (safe f) o ->
  let g := run_fops (firstn k o) f in
  mut_magic_ok g = true /\ mut_wf g = true /\ mut_data g = mut_data f /\ (flen g <? 100) = false.
Proof.
  intros Hm Hwf Hs g. apply mut_same_view; try assumption.
  apply mut_same_run; [exact Hwf|apply Forall_firstn; exact Hs|apply mut_same_refl].
Qed.
