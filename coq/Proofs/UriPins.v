(* Tripwires: the tables and definitions of uri.py, base32.py, unknown.py and
   the node classes, as regenerated into Gen/Uri.v on every run, are the ones
   Model/Uri.v, Model/UriBase32.v and Model/UriNodes.v were written for.

   regex_pins_ok / dispatch_pins_ok / flags_pins_ok compare *renderings of the
   model's own tables* (the field formats its parser interprets, its dispatch
   list, its flag functions) with the generated tables, so they tie model and
   source structurally.  The *_code_pins compare SHA-256 prefixes (or, for the
   short identity methods, the normalised source text) of the Python
   definitions the models transcribe by hand. *)
From Coq Require Import String List NArith Bool.
From Verif Require Import Lib.Hex Gen.Uri Model.UriBase32 Model.Uri Model.UriNodes.
Import ListNotations.
Local Open Scope string_scope.

Lemma regex_pins_ok : classes_rendered = class_table.
Proof. vm_compute. reflexivity. Qed.

Lemma dispatch_pins_ok :
  dispatch_rendered = dispatch_table
  /\ future_test_table = [("x-tahoe-future-test-writeable:", "can_be_writeable"); ("x-tahoe-future-test-mutable:", "can_be_mutable")]
  /\ (ALLEGED_READONLY_PREFIX, ALLEGED_IMMUTABLE_PREFIX) = ("ro.", "imm.").
Proof. vm_compute. repeat split. Qed.

Lemma flags_pins_ok : flags_rendered = flags_table /\ wrap_rendered = wrap_table.
Proof. vm_compute. split; reflexivity. Qed.

Definition expected_base32_code_pins : list (string * string) := [
    ("base32.b2a", "9b9169aad369feaa");
    ("base32.a2b", "7ecc446c42e33c96");
    ("base32.could_be_base32_encoded", "33117dc66e0ca32b");
    ("base32.get_trailing_chars_without_lsbs", "55f9443ea6840656");
    ("base32._get_trailing_chars_without_lsbs", "4c8cd108abe4df87");
    ("base32.init_s8", "bd2e5cbe5fe3a163");
    ("base32.add_check_array", "2c6435ae48d4fbe8")].

Definition expected_uri_code_pins : list (string * string) := [
    ("CHKFileURI.init_from_string", "31f1b7ae9fa5f728");
    ("CHKFileURI.to_string", "8edfbbedc347e74e");
    ("CHKFileURI.__init__", "c500b8a51648a248");
    ("CHKFileVerifierURI.init_from_string", "f6ca408a5237efb7");
    ("CHKFileVerifierURI.to_string", "154bca90866df9a2");
    ("CHKFileVerifierURI.__init__", "dbd8738d804b74d0");
    ("LiteralFileURI.init_from_string", "9267e66cade5af49");
    ("LiteralFileURI.to_string", "1fd693e3a49bbdc2");
    ("LiteralFileURI.__init__", "87ab2f68c21ea99e");
    ("WriteableSSKFileURI.init_from_string", "d428404a9af209c9");
    ("WriteableSSKFileURI.to_string", "b991c5689039bc17");
    ("WriteableSSKFileURI.__init__", "c4c9e76cce406ebf");
    ("ReadonlySSKFileURI.init_from_string", "d428404a9af209c9");
    ("ReadonlySSKFileURI.to_string", "ab9ae28034e8b018");
    ("ReadonlySSKFileURI.__init__", "8c4004d822004a21");
    ("SSKVerifierURI.init_from_string", "7aa4f180f2ebb63e");
    ("SSKVerifierURI.to_string", "df6607680a528d15");
    ("SSKVerifierURI.__init__", "66fb046c815a5db6");
    ("WriteableMDMFFileURI.init_from_string", "d428404a9af209c9");
    ("WriteableMDMFFileURI.to_string", "4ba6b5656478b927");
    ("WriteableMDMFFileURI.__init__", "c4c9e76cce406ebf");
    ("ReadonlyMDMFFileURI.init_from_string", "d428404a9af209c9");
    ("ReadonlyMDMFFileURI.to_string", "de3882be33749b44");
    ("ReadonlyMDMFFileURI.__init__", "8c4004d822004a21");
    ("MDMFVerifierURI.init_from_string", "7aa4f180f2ebb63e");
    ("MDMFVerifierURI.to_string", "ad895b4aaec56722");
    ("MDMFVerifierURI.__init__", "66fb046c815a5db6");
    ("DirectoryURI.__init__", "01d89bd4138e3605");
    ("ReadonlyDirectoryURI.__init__", "45eb62f7ba6baabe");
    ("MDMFDirectoryURI.__init__", "01d89bd4138e3605");
    ("ReadonlyMDMFDirectoryURI.__init__", "45eb62f7ba6baabe");
    ("MDMFDirectoryURIVerifier.__init__", "c4bc5cf69a4be88d");
    ("DirectoryURIVerifier.__init__", "c4bc5cf69a4be88d");
    ("_DirectoryBaseURI.init_from_string", "cc63584944d2ac1a");
    ("_DirectoryBaseURI.to_string", "9c2ed6176b37e689");
    ("_DirectoryBaseURI.__init__", "c8a7006ebb41a542");
    ("_ImmutableDirectoryBaseURI.__init__", "65b6e066a5bcb2aa");
    ("UnknownURI", "85689816e126a526");
    ("from_string", "4600e3e124a64d5f");
    ("si_b2a", "2635e7581ba5d27e");
    ("si_a2b", "7f48179861485fa2")].

Definition expected_unknown_code_pins : list (string * string) := [
    ("strip_prefix_for_ro", "f7f694e4b95154a4");
    ("UnknownNode.__init__", "4a44149ee09d1c35");
    ("UnknownNode.get_cap", "224d0a843a3ab1c7");
    ("UnknownNode.get_readcap", "9980ac89ac59fecb");
    ("UnknownNode.get_uri", "3737146295384618");
    ("UnknownNode.get_write_uri", "9ad26bec3b922a57");
    ("UnknownNode.get_readonly_uri", "d51f1d682ff704df")].

Definition expected_cap_identity_pins : list (string * string) := [
    ("_BaseURI.__eq__", "def __eq__(self, them): if isinstance(them, _BaseURI): return self.to_string() == them.to_string() else: return False");
    ("_BaseURI.__ne__", "def __ne__(self, them): if isinstance(them, _BaseURI): return self.to_string() != them.to_string() else: return True");
    ("_BaseURI.__hash__", "def __hash__(self): return self.to_string().__hash__()")].

Definition expected_node_identity_pins : list (string * string) := [
    ("CiphertextFileNode.<bases>", "");
    ("CiphertextFileNode.__eq__", "<absent>");
    ("CiphertextFileNode.__ne__", "<absent>");
    ("CiphertextFileNode.__hash__", "<absent>");
    ("ImmutableFileNode.<bases>", "");
    ("ImmutableFileNode.__eq__", "def __eq__(self, other): if isinstance(other, ImmutableFileNode): return self.u.__eq__(other.u) else: return False");
    ("ImmutableFileNode.__ne__", "def __ne__(self, other): if isinstance(other, ImmutableFileNode): return self.u.__ne__(other.u) else: return True");
    ("ImmutableFileNode.__hash__", "def __hash__(self): return self.u.__hash__()");
    ("_ImmutableFileNodeBase.<bases>", "");
    ("_ImmutableFileNodeBase.__eq__", "def __eq__(self, other): if isinstance(other, _ImmutableFileNodeBase): return self.u == other.u else: return False");
    ("_ImmutableFileNodeBase.__ne__", "def __ne__(self, other): return not self == other");
    ("_ImmutableFileNodeBase.__hash__", "def __hash__(self): return self.u.__hash__()");
    ("LiteralFileNode.<bases>", "_ImmutableFileNodeBase");
    ("LiteralFileNode.__eq__", "<absent>");
    ("LiteralFileNode.__ne__", "<absent>");
    ("LiteralFileNode.__hash__", "<absent>");
    ("MutableFileNode.<bases>", "");
    ("MutableFileNode.__eq__", "def __eq__(self, them): if type(self) != type(them): return False return self._uri == them._uri");
    ("MutableFileNode.__ne__", "def __ne__(self, them): return not self == them");
    ("MutableFileNode.__hash__", "def __hash__(self): return hash((self.__class__, self._uri))");
    ("DirectoryNode.<bases>", "");
    ("DirectoryNode.__eq__", "<absent>");
    ("DirectoryNode.__ne__", "<absent>");
    ("DirectoryNode.__hash__", "<absent>");
    ("UnknownNode.<bases>", "");
    ("UnknownNode.__eq__", "def __eq__(self, other): if not isinstance(other, UnknownNode): return False return other.ro_uri == self.ro_uri and other.rw_uri == self.rw_uri");
    ("UnknownNode.__ne__", "def __ne__(self, other): return not self == other");
    ("UnknownNode.__hash__", "<absent>")].

Lemma uri_code_pins_ok : base32_code_pins = expected_base32_code_pins /\ uri_code_pins = expected_uri_code_pins.
Proof. vm_compute. split; reflexivity. Qed.

Lemma unknown_code_pins_ok : unknown_code_pins = expected_unknown_code_pins.
Proof. vm_compute. reflexivity. Qed.

Lemma identity_pins_ok : cap_identity_pins = expected_cap_identity_pins /\ node_identity_pins = expected_node_identity_pins.
Proof. vm_compute. split; reflexivity. Qed.

Definition expected_nodemaker_code_pins : list (string * string) := [
    ("NodeMaker.create_from_cap", "28ee450dc16b55c4");
    ("NodeMaker._create_from_single_cap", "0aa8e73854b2d118")].

Lemma nodemaker_pins_ok :
  nodemaker_code_pins = expected_nodemaker_code_pins
  /\ (nodemaker_memokey_immutable, nodemaker_memokey_mutable) = ("I", "M").
Proof. vm_compute. split; reflexivity. Qed.

Definition expected_dirnode_code_pins : list (string * string) := [
    ("_pack_normalized_children", "7a5ccb3ae7ace4e7");
    ("DirectoryNode._unpack_contents", "54b4792b0a8b789c");
    ("DirectoryNode._create_and_validate_node", "aa733bbd375adbc6");
    ("DirectoryNode._pack_contents", "78bff02dc58a87f3");
    ("DirectoryNode._create_readonly_node", "bbdb4eda463c97f3")].

Lemma dirnode_pins_ok : dirnode_code_pins = expected_dirnode_code_pins.
Proof. vm_compute. reflexivity. Qed.

Definition expected_prohibited_code_pins : list (string * string) := [
    ("ProhibitedNode.get_cap", "04c76914b407db5d");
    ("ProhibitedNode.get_readcap", "8245d23a66e02430");
    ("ProhibitedNode.get_uri", "1b8b0f2cfcd4cc6b");
    ("ProhibitedNode.get_write_uri", "453c20b972209a86");
    ("ProhibitedNode.get_readonly_uri", "b52b5c4277f09932");
    ("ProhibitedNode.is_readonly", "c9388039a1c87621");
    ("ProhibitedNode.is_mutable", "e76d62fa04e3eeba");
    ("ProhibitedNode.is_unknown", "bc1846960a62f110");
    ("ProhibitedNode.is_allowed_in_immutable_directory", "c76493f8d71262b5");
    ("ProhibitedNode.raise_error", "370ed14c06a91819");
    ("ProhibitedNode.get_verify_cap", "e042cabe527c171b");
    ("ProhibitedNode.get_storage_index", "27ed201da2fdbb0d")].

Lemma prohibited_pins_ok : prohibited_code_pins = expected_prohibited_code_pins.
Proof. vm_compute. reflexivity. Qed.

Lemma typed_entry_pins_ok :
  typed_entry_table = [("from_string_dirnode", "IDirnodeURI", "from_string(s, **kwargs)");
                       ("from_string_filenode", "IFileURI", "from_string(s, **kwargs)");
                       ("from_string_mutable_filenode", "IMutableFileURI", "from_string(s, **kwargs)");
                       ("from_string_verifier", "IVerifierURI", "from_string(s, **kwargs)")].
Proof. vm_compute. reflexivity. Qed.
