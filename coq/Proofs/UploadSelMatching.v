(* C06, part 5: the tie to C08.  A happiness value of at least `happy` on the final servermap is a set of `happy`
   distinct servers holding distinct shares, each edge of which a server reported or acknowledged. *)
From Coq Require Import List NArith ZArith Bool Lia.
From Verif Require Import Model.Matching Proofs.Matching Proofs.MatchingNetwork Proofs.MatchingFull Proofs.MatchingTotal
  Model.UploadSel Proofs.UploadSelBase Proofs.UploadSelSelector Proofs.UploadSelEncoder Proofs.UploadSel.
Import ListNotations.
Local Open Scope N_scope.

(* C08: the happiness value of a sharemap is the size of a matching of its edges *)
Lemma happiness_gives_matching : forall (sm : dmap) (h : Z),
  servers_of_happiness sm = Some h ->
  exists M : list (N * N),
    NoDup (map fst M) /\ NoDup (map snd M) /\ Z.of_nat (length M) = h /\
    forall p s, In (p, s) M -> dm_in sm s p.
Proof.
  intros sm h H. destruct (servers_of_happiness_correct sm h H) as [Hpos [[M [[Me [M1 M2]] Ml]] _]].
  exists M. split; [exact M1|]. split; [exact M2|]. split; [rewrite Ml; apply Z2Nat.id; exact Hpos|].
  intros p s Hin. apply sm_edge_dm_in. apply shares_by_server_edges. apply Me. exact Hin.
Qed.

Theorem success_has_matching_full : forall c x,
  r_verdict (upload_run c x) = VSuccess ->
  exists M : list (N * N),
    NoDup (map fst M) /\ NoDup (map snd M) /\ (c_happy c <= Z.of_nat (length M))%Z /\
    forall p s, In (p, s) M -> found x p s \/ In (s, p) (r_placed (upload_run c x)).
Proof.
  intros c x V. destruct (success_implies_happy_full c x V) as [h [Hs Hh]].
  destruct (happiness_gives_matching _ _ Hs) as [M [M1 [M2 [Ml Me]]]].
  exists M. split; [exact M1|]. split; [exact M2|]. split; [rewrite Ml; exact Hh|].
  intros p s Hin. apply servermap_edges_found_or_placed_full; [exact V|apply Me; exact Hin].
Qed.

(* the same for the selector alone: what it hands to the encoder *)
Theorem selector_success_has_matching_full : forall c x,
  (r_verdict (upload_run c x) = VSuccess \/ r_verdict (upload_run c x) = VUnhappyEnc \/ r_verdict (upload_run c x) = VAssert) ->
  exists M : list (N * N),
    NoDup (map fst M) /\ NoDup (map snd M) /\ (c_happy c <= Z.of_nat (length M))%Z /\
    forall p s, In (p, s) M -> found x p s \/ allocated x p s.
Proof.
  intros c x V. destruct (proj2 (selector_verdict_is_happiness_test_full c x) V) as [eff [Hs Hh]].
  unfold happiness in Hs. destruct (happiness_gives_matching _ _ Hs) as [M [M1 [M2 [Ml Me]]]].
  exists M. split; [exact M1|]. split; [exact M2|]. split; [rewrite Ml; exact Hh|].
  intros p s Hin. specialize (Me p s Hin).
  assert (NP : r_verdict (upload_run c x) <> VPending) by (destruct V as [V|[V|V]]; rewrite V; discriminate).
  destruct (dm_in_merged _ _ _ Me) as [H|[Hu Hb]].
  - left. revert H NP. clear. intros H NP.
    destruct (upload_run_shape c x) as [|st1 st qs eff P1 SL|st1 st qs eff P1 SL|st1 st qs eff e P1 SL|st1 st qs eff e1 e P1 SL|st1 st qs eff e1 e P1 SL];
      cbn [mk_result r_verdict r_sel] in *; [congruence| | | | |];
      (destruct (selector_state_sound c x st1 [] st qs P1 SL) as [S1 _]; apply S1; exact H).
  - right. apply (buckets_were_allocated_full c x p s NP). apply In_sel_buckets. auto.
Qed.

(* the happiness computation always returns (C08: termination), so the model is stuck only on a missing answer *)
Lemma happiness_total : forall st, exists h, happiness st = Some h.
Proof. intros st. unfold happiness. apply servers_of_happiness_total. Qed.
