(* Completeness of IncompleteHashTree.set_hashes: the genuine values for
   needed_hashes(leaf, include_leaf=True) are accepted in every order. *)
From Coq Require Import List ZArith Bool Lia.
From Verif Require Import Model.HashTree Proofs.HashTreeBase Proofs.HashTree.
Import ListNotations.
Local Open Scope Z_scope.

(* ancestors-or-self of a node *)
Inductive anc (leaf : Z) : Z -> Prop :=
| anc_self : anc leaf leaf
| anc_up : forall y, anc leaf y -> 1 <= y -> anc leaf (parz y).

Lemma anc_start : forall a y, anc a y -> y = a \/ (1 <= a /\ anc (parz a) y).
Proof.
  intros a y Ha. induction Ha as [|y Ha IH Hy]; [left; reflexivity|].
  destruct IH as [->|[H1 H2]]; right; (split; [assumption|]).
  - apply anc_self.
  - apply anc_up; assumption.
Qed.

Lemma anc_from_parent : forall a y, 1 <= a -> anc (parz a) y -> anc a y.
Proof.
  intros a y Ha Hy. induction Hy as [|y Hy IH Hy1].
  - apply anc_up; [apply anc_self|exact Ha].
  - apply anc_up; assumption.
Qed.

Lemma anc_zero : forall y, anc 0 y -> y = 0.
Proof. intros y Hy. induction Hy as [|y Hy IH Hy1]; [reflexivity|lia]. Qed.

Lemma anc_le : forall a y, 0 <= a -> anc a y -> 0 <= y <= a.
Proof.
  intros a y Ha Hy. induction Hy as [|y Hy IH Hy1]; [lia|]. pose proof (parz_range y Hy1). lia.
Qed.

(* the nodes set_hashes may touch when validating `leaf` *)
Definition fam (leaf y : Z) : Prop := 1 <= y /\ (anc leaf y \/ anc leaf (sibz y)).

Lemma fam_parent : forall leaf i, fam leaf i -> anc leaf (parz i).
Proof.
  intros leaf i [Hi [Ha|Ha]].
  - apply anc_up; assumption.
  - rewrite <- (parz_sibz i Hi). apply anc_up; [exact Ha|apply sibz_ge1; exact Hi].
Qed.

Lemma fam_sib : forall leaf i, fam leaf i -> fam leaf (sibz i).
Proof.
  intros leaf i [Hi Ha]. split; [apply sibz_ge1; exact Hi|]. rewrite sibz_invol by exact Hi. tauto.
Qed.

(* ---- needed_for ---------------------------------------------------------------- *)
Lemma needed_for_loop_spec : forall fuel n here r,
  0 <= here -> needed_for_loop fuel n here = Some r ->
  (forall y, 1 <= y -> anc here y -> In (sibz y) r /\ 2 * parz y + 2 < n) /\
  (forall k, In k r -> exists y, 1 <= y /\ anc here y /\ k = sibz y).
Proof.
  induction fuel as [|f IH]; intros n here r Hh Hr; cbn [needed_for_loop] in Hr.
  - destruct (here =? 0) eqn:E; [|discriminate]. apply Z.eqb_eq in E. subst here. inversion Hr. subst r.
    split; [intros y Hy Ha; apply anc_zero in Ha; lia|intros k []].
  - destruct (here =? 0) eqn:E.
    + apply Z.eqb_eq in E. subst here. inversion Hr. subst r.
      split; [intros y Hy Ha; apply anc_zero in Ha; lia|intros k []].
    + apply Z.eqb_neq in E. destruct (sibling n here) as [s|] eqn:Es; [|discriminate].
      destruct (parent n here) as [p|] eqn:Ep; [|discriminate].
      destruct (needed_for_loop f n p) as [r'|] eqn:Er; [|discriminate]. inversion Hr. subst r. clear Hr.
      apply sibling_some in Es. destruct Es as [Hi [Hs Hsr]]. apply parent_some in Ep. destruct Ep as [_ ->].
      assert (Hh1 : 1 <= here) by lia. pose proof (parz_range here Hh1) as Hpr.
      destruct (IH n (parz here) r' ltac:(lia) Er) as [I1 I2].
      assert (Hc : 2 * parz here + 2 < n) by (destruct (node_cases here Hh1) as [[H1 H2]|[H1 H2]]; lia).
      split.
      * intros y Hy Ha. apply anc_start in Ha. destruct Ha as [->|[_ Ha]].
        -- split; [left; exact Hs|exact Hc].
        -- destruct (I1 y Hy Ha) as [J1 J2]. split; [right; exact J1|exact J2].
      * intros k [<-|Hk].
        -- exists here. split; [exact Hh1|]. split; [apply anc_self|exact Hs].
        -- destruct (I2 k Hk) as [y [Hy [Ha Hky]]]. exists y. split; [exact Hy|]. split; [|exact Hky].
           apply anc_from_parent; assumption.
Qed.

Lemma needed_for_spec : forall n leaf nf,
  needed_for n leaf = Some nf ->
  0 <= leaf < n /\
  (forall y, 1 <= y -> anc leaf y -> In (sibz y) nf /\ 2 * parz y + 2 < n) /\
  (forall k, In k nf -> exists y, 1 <= y /\ anc leaf y /\ k = sibz y).
Proof.
  intros n leaf nf Hn. unfold needed_for in Hn.
  destruct (leaf <? 0) eqn:E1; [discriminate|]. destruct (n <=? leaf) eqn:E2; [discriminate|]. cbn [orb] in Hn.
  apply Z.ltb_ge in E1. apply Z.leb_gt in E2. split; [lia|].
  apply (needed_for_loop_spec _ _ _ _ E1 Hn).
Qed.

Section Completeness.
  Variable H : Type.
  Variable H_eqb : H -> H -> bool.
  Variable pair_hash : H -> H -> H.
  Variable truthy : H -> bool.
  Hypothesis H_eqb_spec : forall a b, H_eqb a b = true <-> a = b.
  Hypothesis pair_truthy : forall a b, truthy (pair_hash a b) = true.
  Variable G : Z -> H.
  Variable n : Z.
  Hypothesis merkle : forall p, 0 <= p -> 2 * p + 2 < n -> G p = pair_hash (G (2 * p + 1)) (G (2 * p + 2)).
  Hypothesis G_truthy : forall j, 0 <= j < n -> truthy (G j) = true.

  Notation tree := (list (option H)).
  Notation wst := (wst H).
  Notation is_truthy := (is_truthy H truthy).
  Notation stepB := (stepB H H_eqb truthy).
  Notation phaseB := (phaseB H H_eqb truthy).
  Notation stepC := (stepC H H_eqb pair_hash truthy).
  Notation run_level := (run_level H H_eqb pair_hash truthy).
  Notation run_levels := (run_levels H H_eqb pair_hash truthy).
  Notation set_hashes := (set_hashes H H_eqb pair_hash truthy).
  Notation mkW := (mkW H).
  Notation RInv := (RInv H truthy).
  Notation VInv := (VInv H pair_hash).
  Notation genuine := (genuine H G).
  Notation closed := (closed H).

  Variable T0 : tree.
  Variable leaf : Z.
  Hypothesis Hn : zlen T0 = n.
  Hypothesis Hg0 : genuine T0.
  Hypothesis Hroot : slot T0 0 <> None.
  Hypothesis Hstatic : forall y, 1 <= y -> anc leaf y -> 2 * parz y + 2 < n.

  Lemma root_truthy : is_truthy (slot T0 0) = true.
  Proof. apply (genuine_all_truthy H truthy G n G_truthy T0 Hn Hg0); [lia|exact Hroot]. Qed.

  Record CInv (M : list Z) (st : wst) : Prop := {
    c_gen : genuine (wT H st);
    c_mark : forall key, marked M (wlv H st) key -> fam leaf key /\ key < n;
    c_sib : forall y, 1 <= y -> anc leaf y -> slot (wT H st) (sibz y) <> None;
    c_anc : forall y, 1 <= y -> anc leaf y ->
            slot (wT H st) y <> None \/ exists c, marked M (wlv H st) c /\ 1 <= c /\ parz c = y
  }.

  Lemma stepC_complete : forall l i cur st,
    RInv T0 st -> VInv T0 l (i :: cur) st -> CInv (i :: cur) st ->
    (forall x, 0 <= x < n -> depth_of x < zlen (wlv H st)) ->
    match stepC l i cur st with
    | inl (cur', st') => CInv cur' st'
    | inr _ => False
    end.
  Proof.
    intros l i cur st R V C Hdl. pose proof (RInv_zlen _ _ _ _ R) as Hz. rewrite Hn in Hz.
    destruct (c_mark _ _ C i (or_introl (or_introl eq_refl))) as [Hfam Hin].
    pose proof Hfam as [Hi1 Hanc].
    pose proof (parz_range i Hi1) as Hp.
    assert (Hc : 2 * parz i + 2 < n).
    { destruct Hanc as [Ha|Ha]; [apply (Hstatic i Hi1 Ha)|].
      rewrite <- (parz_sibz i Hi1). apply Hstatic; [apply sibz_ge1; exact Hi1|exact Ha]. }
    pose proof (sibz_ge1 i Hi1) as Hs1.
    assert (Hsn : sibz i < n) by (destruct (node_cases i Hi1) as [[H1 H2]|[H1 H2]]; lia).
    assert (Hdi : depth_of i = l).
    { apply (v_lvM _ _ _ _ _ _ V); [left; reflexivity|lia]. }
    unfold HashTree.stepC.
    assert (i =? 0 = false) as -> by (apply Z.eqb_neq; lia).
    rewrite Hz. rewrite (sibling_intro n i Hi1 Hc).
    assert (Hgs : forall x, 0 <= x < n -> get (wT H st) x = Some (slot (wT H st) x)).
    { intros x Hx. rewrite get_valid by (rewrite Hz; unfold validz; lia). rewrite Hz.
      rewrite normz_nonneg by lia. reflexivity. }
    rewrite (Hgs (sibz i)) by lia.
    assert (Hsp : slot (wT H st) (sibz i) <> None).
    { destruct Hanc as [Ha|Ha]; [apply (c_sib _ _ C i Hi1 Ha)|].
      destruct (c_anc _ _ C (sibz i) Hs1 Ha) as [Hpres|[c [Hm [Hc1 Hpc]]]]; [exact Hpres|]. exfalso.
      pose proof (depth_parz c Hc1) as Dc. rewrite Hpc, depth_sibz, Hdi in Dc by exact Hi1.
      destruct Hm as [Hm|[k Hk]].
      - destruct (v_lvM _ _ _ _ _ _ V c Hm ltac:(lia)) as [_ Dc']. lia.
      - destruct (v_lv _ _ _ _ _ _ V k c Hk ltac:(lia)) as [_ Dc'].
        rewrite (v_empty _ _ _ _ _ _ V k) in Hk by lia. destruct Hk. }
    destruct (slot (wT H st) (sibz i)) as [hs|] eqn:Ess; [|congruence].
    assert (Hpar : parent n i = Some (parz i)) by (apply parent_some; split; [lia|reflexivity]).
    rewrite Hpar.
    destruct (min_max_sib i Hi1) as [Hmin Hmax]. rewrite Hmin, Hmax.
    rewrite (Hgs (2 * parz i + 1)), (Hgs (2 * parz i + 2)), (Hgs (parz i)) by lia.
    assert (Hipres : slot (wT H st) i <> None).
    { apply (v_pres _ _ _ _ _ _ V); [left; left; reflexivity|lia]. }
    assert (Hab : slot (wT H st) (2 * parz i + 1) = Some (G (2 * parz i + 1)) /\
                  slot (wT H st) (2 * parz i + 2) = Some (G (2 * parz i + 2))).
    { destruct (slot (wT H st) i) as [hi|] eqn:Esi; [|congruence].
      pose proof (c_gen _ _ C i hi ltac:(lia) Esi) as Gi.
      pose proof (c_gen _ _ C (sibz i) hs ltac:(lia) Ess) as Gs. subst hi hs.
      destruct (node_cases i Hi1) as [[H1 H2]|[H1 H2]]; rewrite <- H1, <- H2; split; assumption. }
    destruct Hab as [Ha Hb]. rewrite Ha, Hb.
    rewrite <- (merkle (parz i) ltac:(lia) Hc).
    assert (Hroot' : is_truthy (slot (wT H st) 0) = true).
    { rewrite (r_keep _ _ _ _ R 0); [apply root_truthy|lia|apply root_truthy]. }
    destruct (is_truthy (slot (wT H st) (parz i))) eqn:Et.
    - destruct (slot (wT H st) (parz i)) as [ph|] eqn:Esp; [|cbn in Et; discriminate].
      pose proof (c_gen _ _ C (parz i) ph ltac:(lia) Esp) as Gp. subst ph.
      assert (H_eqb (G (parz i)) (G (parz i)) = true) as -> by (apply H_eqb_spec; reflexivity).
      constructor.
      + apply (c_gen _ _ C).
      + intros key Hm. apply (c_mark _ _ C). destruct Hm as [Hk|Hk]; [left; right; apply in_zdiscard in Hk; tauto|right; exact Hk].
      + apply (c_sib _ _ C).
      + intros y Hy Hay. destruct (c_anc _ _ C y Hy Hay) as [Hpres|[c [Hm [Hc1 Hpc]]]]; [left; exact Hpres|].
        destruct Hm as [[<-|Hk]|Hk].
        * left. rewrite <- Hpc, Esp. discriminate.
        * destruct (Z.eq_dec c (sibz i)) as [->|Hne].
          -- left. rewrite <- Hpc, parz_sibz, Esp by exact Hi1. discriminate.
          -- right. exists c. split; [left; apply in_zdiscard; auto|auto].
        * right. exists c. split; [right; exact Hk|auto].
    - assert (Hpn : slot (wT H st) (parz i) = None).
      { destruct (slot (wT H st) (parz i)) as [ph|] eqn:Esp; [|reflexivity].
        pose proof (c_gen _ _ C (parz i) ph ltac:(lia) Esp) as Gp. subst ph. cbn in Et.
        rewrite G_truthy in Et by lia. discriminate. }
      assert (Hp1 : 1 <= parz i).
      { destruct (Z.eq_dec (parz i) 0) as [E0|E0]; [|lia]. rewrite E0 in Et. congruence. }
      rewrite put_valid by (rewrite Hz; unfold validz; lia). rewrite Hz. rewrite (normz_nonneg n (parz i)) by lia.
      cbv beta iota zeta.
      assert (Hdp : depth_of (parz i) = l - 1) by (rewrite depth_parz by exact Hi1; lia).
      rewrite Hdp, Z.eqb_refl. cbn [negb].
      assert (Hl1 : 0 <= l - 1) by (rewrite <- Hdp; apply depth_nonneg; lia).
      assert (Hlv : validz (zlen (wlv H st)) (l - 1)).
      { pose proof (Hdl i ltac:(lia)). unfold validz. lia. }
      rewrite (get_lists_valid _ _ _ [] Hlv). cbv beta iota. rewrite put_valid by exact Hlv.
      rewrite (normz_nonneg _ (l - 1)) by exact Hl1.
      set (kk := Z.to_nat (l - 1)). set (sset := nth kk (wlv H st) []).
      set (T' := upd (wT H st) (Z.to_nat (parz i)) (Some (G (parz i)))).
      assert (Hkk : (kk < length (wlv H st))%nat) by (unfold validz, zlen in Hlv; unfold kk; lia).
      assert (Hnth : forall k, nth k (upd (wlv H st) kk (zadd (parz i) sset)) [] = if Nat.eqb k kk then zadd (parz i) sset else nth k (wlv H st) []).
      { intros k. rewrite nth_upd. assert (Nat.ltb kk (length (wlv H st)) = true) as -> by (apply Nat.ltb_lt; exact Hkk).
        rewrite andb_true_r. reflexivity. }
      assert (Hslot : forall x, 0 <= x -> slot T' x = if parz i =? x then Some (G (parz i)) else slot (wT H st) x).
      { intros x Hx. apply slot_upd; [rewrite Hz; lia|exact Hx]. }
      assert (Hmono : forall x, 0 <= x -> slot (wT H st) x <> None -> slot T' x <> None).
      { intros x Hx Hpx. rewrite Hslot by exact Hx. destruct (parz i =? x); [discriminate|exact Hpx]. }
      assert (Hlvmono : forall k c, In c (nth k (wlv H st) []) -> In c (nth k (upd (wlv H st) kk (zadd (parz i) sset)) [])).
      { intros k c Hk. rewrite Hnth. destruct (Nat.eqb k kk) eqn:E; [|exact Hk].
        apply Nat.eqb_eq in E. subst k. apply in_zadd. right. exact Hk. }
      constructor; cbn [wT wlv wruf].
      + intros x h Hx Hsx. rewrite Hslot in Hsx by exact Hx. destruct (parz i =? x) eqn:E.
        * apply Z.eqb_eq in E. subst x. congruence.
        * apply (c_gen _ _ C x h Hx Hsx).
      + intros key Hm. destruct Hm as [Hk|[k Hk]].
        * apply (c_mark _ _ C). left. right. apply in_zdiscard in Hk. tauto.
        * rewrite Hnth in Hk. destruct (Nat.eqb k kk) eqn:E.
          -- apply in_zadd in Hk. destruct Hk as [->|Hk].
             ++ split; [|lia]. split; [exact Hp1|left; apply (fam_parent leaf i Hfam)].
             ++ apply (c_mark _ _ C). right. exists kk. exact Hk.
          -- apply (c_mark _ _ C). right. exists k. exact Hk.
      + intros y Hy Hay. apply Hmono; [pose proof (sibz_ge1 y Hy); lia|apply (c_sib _ _ C y Hy Hay)].
      + intros y Hy Hay. destruct (c_anc _ _ C y Hy Hay) as [Hpres|[c [Hm [Hc1 Hpc]]]]; [left; apply Hmono; [lia|exact Hpres]|].
        assert (Hyp : parz i = y -> slot T' y <> None).
        { intros <-. rewrite Hslot, Z.eqb_refl by lia. discriminate. }
        destruct Hm as [[<-|Hk]|[k Hk]].
        * left. apply Hyp. exact Hpc.
        * destruct (Z.eq_dec c (sibz i)) as [->|Hne].
          -- left. apply Hyp. rewrite <- Hpc. symmetry. apply parz_sibz. exact Hi1.
          -- right. exists c. split; [left; apply in_zdiscard; auto|auto].
        * right. exists c. split; [right; exists k; apply Hlvmono; exact Hk|auto].
  Qed.

  Lemma VInv_pop : forall l cur i cur' st,
    In i cur -> (forall y, In y cur' -> In y cur) -> (forall y, In y cur -> y = i \/ In y cur') ->
    VInv T0 l cur st -> VInv T0 l (i :: cur') st.
  Proof.
    intros l cur i cur' st Hi Hsub Hsup [V1 V2 V3 V4 V5]. constructor; auto.
    - intros key [<-|Hk]; auto.
    - intros key [[<-|Hk]|Hk] H0; apply V4; auto; [left; auto|left; auto|right; auto].
    - intros j Hj Hp Hne. destruct (V5 j Hj Hp Hne) as [[key [[Hk|Hk] Hr]]|Hs]; [| |right; exact Hs].
      + left. exists key. split; [|exact Hr]. left. destruct (Hsup key Hk) as [->|]; [left; reflexivity|right; assumption].
      + left. exists key. split; [right; exact Hk|exact Hr].
  Qed.

  Lemma CInv_pop : forall cur i cur' st,
    In i cur -> (forall y, In y cur' -> In y cur) -> (forall y, In y cur -> y = i \/ In y cur') ->
    CInv cur st -> CInv (i :: cur') st.
  Proof.
    intros cur i cur' st Hi Hsub Hsup [C1 C2 C3 C4]. constructor; auto.
    - intros key [[<-|Hk]|Hk]; apply C2; [left; exact Hi|left; auto|right; exact Hk].
    - intros y Hy Ha. destruct (C4 y Hy Ha) as [Hp|[c [[Hk|Hk] Hr]]]; [left; exact Hp| |].
      + right. exists c. split; [|exact Hr]. left. destruct (Hsup c Hk) as [->|]; [left; reflexivity|right; assumption].
      + right. exists c. split; [right; exact Hk|exact Hr].
  Qed.

  Lemma run_level_complete : forall l fuel cur st ord,
    (length cur <= fuel)%nat -> RInv T0 st -> VInv T0 l cur st -> CInv cur st ->
    (forall x, 0 <= x < n -> depth_of x < zlen (wlv H st)) ->
    exists st' ord', run_level fuel l cur st ord = inl (st', ord', []) /\
      RInv T0 st' /\ VInv T0 l [] st' /\ CInv [] st' /\ length (wlv H st') = length (wlv H st).
  Proof.
    intros l fuel. induction fuel as [|f IH]; intros cur st ord Hlen R V C Hdl; cbn [HashTree.run_level].
    - destruct cur; [|cbn in Hlen; lia]. exists st, ord. auto.
    - destruct (zpop ord cur) as [[[i cur'] ord']|] eqn:Ep.
      + apply zpop_spec in Ep. destruct Ep as [Hi [Hsub [Hsup Hlt]]].
        pose proof (VInv_pop l cur i cur' st Hi Hsub Hsup V) as V'.
        pose proof (CInv_pop cur i cur' st Hi Hsub Hsup C) as C'.
        pose proof (stepC_ok H H_eqb pair_hash truthy H_eqb_spec pair_truthy T0 l i cur' st R V') as Hok.
        pose proof (stepC_complete l i cur' st R V' C' Hdl) as Hco.
        destruct (stepC l i cur' st) as [[cur'' st']|[e st']]; [|destruct Hco].
        destruct Hok as [R' [V'' [Hl Hlv]]].
        assert (Hdl' : forall x, 0 <= x < n -> depth_of x < zlen (wlv H st')).
        { intros x Hx. unfold zlen in *. rewrite Hlv. apply Hdl; exact Hx. }
        destruct (IH cur'' st' ord' ltac:(lia) R' V'' Hco Hdl') as [st2 [ord2 [E [R2 [V2 [C2 L2]]]]]].
        exists st2, ord2. rewrite E. split; [reflexivity|]. split; [exact R2|]. split; [exact V2|]. split; [exact C2|congruence].
      + apply zpop_none in Ep. subst cur. exists st, ord. auto.
  Qed.

  Lemma CInv_next : forall L st,
    CInv [] st -> CInv (nth L (wlv H st) []) (mkW (wT H st) (upd (wlv H st) L []) (wruf H st)).
  Proof.
    intros L st [C1 C2 C3 C4].
    assert (Hnth : forall k, nth k (upd (wlv H st) L []) [] = if Nat.eqb k L then [] else nth k (wlv H st) []).
    { intros k. rewrite nth_upd. destruct (Nat.eqb k L) eqn:E; cbn [andb]; [|reflexivity].
      apply Nat.eqb_eq in E. subst k. destruct (Nat.ltb L (length (wlv H st))) eqn:E2; [reflexivity|].
      apply Nat.ltb_ge in E2. apply nth_overflow. exact E2. }
    assert (Hm1 : forall key, marked (nth L (wlv H st) []) (upd (wlv H st) L []) key -> marked [] (wlv H st) key).
    { intros key [Hk|[k Hk]]; [right; exists L; exact Hk|]. rewrite Hnth in Hk.
      destruct (Nat.eqb k L); [destruct Hk|right; exists k; exact Hk]. }
    assert (Hm2 : forall key, marked [] (wlv H st) key -> marked (nth L (wlv H st) []) (upd (wlv H st) L []) key).
    { intros key [[]|[k Hk]]. destruct (Nat.eqb k L) eqn:E.
      - apply Nat.eqb_eq in E. subst k. left. exact Hk.
      - right. exists k. rewrite Hnth, E. exact Hk. }
    constructor; cbn [wT wlv wruf]; auto.
    intros y Hy Ha. destruct (C4 y Hy Ha) as [Hp|[c [Hm Hr]]]; [left; exact Hp|right; exists c; auto].
  Qed.

  Lemma run_levels_complete : forall k st ord,
    RInv T0 st -> VInv T0 (Z.of_nat k) [] st -> CInv [] st ->
    (forall x, 0 <= x < n -> depth_of x < zlen (wlv H st)) ->
    exists st', run_levels k st ord = inl st' /\ RInv T0 st' /\ VInv T0 0 [] st' /\ CInv [] st'.
  Proof.
    intros k. induction k as [|L IH]; intros st ord R V C Hdl; cbn [HashTree.run_levels].
    - exists st. auto.
    - pose proof (VInv_next H pair_hash T0 L st V) as V'.
      pose proof (RInv_lv H truthy T0 st (upd (wlv H st) L []) R) as R'.
      pose proof (CInv_next L st C) as C'.
      assert (Hdl' : forall x, 0 <= x < n -> depth_of x < zlen (wlv H (mkW (wT H st) (upd (wlv H st) L []) (wruf H st)))).
      { intros x Hx. cbn [wlv]. rewrite zlen_upd. apply Hdl; exact Hx. }
      destruct (run_level_complete (Z.of_nat L) (length (nth L (wlv H st) [])) (nth L (wlv H st) []) _ ord (le_n _) R' V' C' Hdl')
        as [st1 [ord1 [E [R1 [V1 [C1 L1]]]]]].
      rewrite E. apply IH; try assumption.
      intros x Hx. unfold zlen in *. rewrite L1. apply Hdl'; exact Hx.
  Qed.

  (* ---- phase B with genuine values ------------------------------------------------------- *)
  Record BInv (keys : list Z) (st : wst) : Prop := {
    b_gen : genuine (wT H st);
    b_mono : forall x, 0 <= x -> slot T0 x <> None -> slot (wT H st) x <> None;
    b_keys : forall k, In k keys -> 0 <= k -> slot (wT H st) k <> None;
    b_new : forall x, 0 <= x -> slot (wT H st) x <> None -> slot T0 x = None -> marked [] (wlv H st) x;
    b_mark : forall key, marked [] (wlv H st) key -> In key keys /\ slot T0 key = None
  }.

  Lemma stepB_complete : forall keys st i h,
    BInv keys st -> RInv T0 st -> 0 <= i < n -> h = G i ->
    (forall x, 0 <= x < n -> depth_of x < zlen (wlv H st)) ->
    exists st', stepB st i h = inl st' /\ BInv (i :: keys) st'.
  Proof.
    intros keys st i h B R Hi -> Hdl. pose proof (RInv_zlen _ _ _ _ R) as Hz. rewrite Hn in Hz.
    unfold HashTree.stepB.
    rewrite get_valid by (rewrite Hz; unfold validz; lia). rewrite Hz, normz_nonneg by lia.
    destruct (is_truthy (slot (wT H st) i)) eqn:Et.
    - destruct (slot (wT H st) i) as [c|] eqn:Es; [|cbn in Et; discriminate].
      pose proof (b_gen _ _ B i c ltac:(lia) Es) as Gc. subst c.
      assert (H_eqb (G i) (G i) = true) as -> by (apply H_eqb_spec; reflexivity).
      exists st. split; [reflexivity|]. destruct B as [B1 B2 B3 B4 B5]. constructor; auto.
      + intros k [<-|Hk] Hk0; [rewrite Es; discriminate|apply B3; assumption].
      + intros key Hm. destruct (B5 key Hm) as [Hk Hs]. split; [right; exact Hk|exact Hs].
    - assert (Hnone : slot (wT H st) i = None).
      { destruct (slot (wT H st) i) as [c|] eqn:Es; [|reflexivity].
        pose proof (b_gen _ _ B i c ltac:(lia) Es) as Gc. subst c. cbn in Et. rewrite G_truthy in Et by lia. discriminate. }
      assert (H0none : slot T0 i = None).
      { destruct (slot T0 i) as [c|] eqn:Es; [|reflexivity]. exfalso.
        apply (b_mono _ _ B i ltac:(lia)); [rewrite Es; discriminate|exact Hnone]. }
      pose proof (depth_nonneg i ltac:(lia)) as Hd0.
      assert (Hlv : validz (zlen (wlv H st)) (depth_of i)) by (pose proof (Hdl i Hi); unfold validz; lia).
      rewrite (get_lists_valid _ _ _ [] Hlv).
      rewrite put_valid by (rewrite Hz; unfold validz; lia). rewrite Hz, (normz_nonneg n i) by lia.
      rewrite put_valid by exact Hlv. rewrite (normz_nonneg _ (depth_of i)) by exact Hd0.
      set (kk := Z.to_nat (depth_of i)). set (s := nth kk (wlv H st) []).
      set (T' := upd (wT H st) (Z.to_nat i) (Some (G i))).
      eexists. split; [reflexivity|].
      assert (Hkk : (kk < length (wlv H st))%nat) by (unfold validz, zlen in Hlv; unfold kk; lia).
      assert (Hnth : forall k, nth k (upd (wlv H st) kk (zadd i s)) [] = if Nat.eqb k kk then zadd i s else nth k (wlv H st) []).
      { intros k. rewrite nth_upd. assert (Nat.ltb kk (length (wlv H st)) = true) as -> by (apply Nat.ltb_lt; exact Hkk).
        rewrite andb_true_r. reflexivity. }
      assert (Hslot : forall x, 0 <= x -> slot T' x = if i =? x then Some (G i) else slot (wT H st) x).
      { intros x Hx. apply slot_upd; [rewrite Hz; lia|exact Hx]. }
      assert (Hmk : forall key, marked [] (wlv H st) key -> marked [] (upd (wlv H st) kk (zadd i s)) key).
      { intros key [[]|[k Hk]]. right. exists k. rewrite Hnth. destruct (Nat.eqb k kk) eqn:E; [|exact Hk].
        apply Nat.eqb_eq in E. subst k. apply in_zadd. right. exact Hk. }
      destruct B as [B1 B2 B3 B4 B5]. constructor; cbn [wT wlv wruf].
      + intros x c Hx Hsx. rewrite Hslot in Hsx by exact Hx. destruct (i =? x) eqn:E.
        * apply Z.eqb_eq in E. subst x. congruence.
        * apply (B1 x c Hx Hsx).
      + intros x Hx Hp. rewrite Hslot by exact Hx. destruct (i =? x); [discriminate|apply B2; assumption].
      + intros k [<-|Hk] Hk0.
        * rewrite Hslot, Z.eqb_refl by lia. discriminate.
        * rewrite Hslot by exact Hk0. destruct (i =? k); [discriminate|apply B3; assumption].
      + intros x Hx Hp H0x. rewrite Hslot in Hp by exact Hx. destruct (i =? x) eqn:E.
        * apply Z.eqb_eq in E. subst x. right. exists kk. rewrite Hnth, Nat.eqb_refl. apply in_zadd. auto.
        * apply Hmk. apply B4; assumption.
      + intros key [[]|[k Hk]]. rewrite Hnth in Hk. destruct (Nat.eqb k kk) eqn:E.
        * apply in_zadd in Hk. destruct Hk as [->|Hk]; [split; [left; reflexivity|exact H0none]|].
          destruct (B5 key (or_intror (ex_intro _ kk Hk))) as [Hkk' Hs]. split; [right; exact Hkk'|exact Hs].
        * destruct (B5 key (or_intror (ex_intro _ k Hk))) as [Hkk' Hs]. split; [right; exact Hkk'|exact Hs].
  Qed.

  Lemma phaseB_complete : forall nh keys st,
    (forall k h, In (k, h) nh -> 0 <= k < n /\ h = G k) ->
    BInv keys st -> RInv T0 st -> VInv T0 (zlen (wlv H st)) [] st ->
    (forall x, 0 <= x < n -> depth_of x < zlen (wlv H st)) ->
    exists st' keys', phaseB nh st = inl st' /\ BInv keys' st' /\ RInv T0 st' /\
       VInv T0 (zlen (wlv H st')) [] st' /\ length (wlv H st') = length (wlv H st) /\
       (forall k, In k keys' <-> In k keys \/ In k (map fst nh)).
  Proof.
    induction nh as [|[i h] r IH]; intros keys st Hnh B R V Hdl; cbn [HashTree.phaseB].
    - exists st, keys. split; [reflexivity|]. split; [exact B|]. split; [exact R|]. split; [exact V|]. split; [reflexivity|].
      intros k. cbn [map In]. tauto.
    - destruct (Hnh i h (or_introl eq_refl)) as [Hi Hh].
      destruct (stepB_complete keys st i h B R Hi Hh Hdl) as [st' [E B']].
      pose proof (stepB_ok H H_eqb pair_hash truthy T0 (zlen (wlv H st)) st i h R V) as Hok.
      rewrite Hn in Hok. specialize (Hok Hdl eq_refl). rewrite E in Hok. destruct Hok as [R' [V' Hl]].
      rewrite E.
      assert (Hzl : zlen (wlv H st') = zlen (wlv H st)) by (unfold zlen; rewrite Hl; reflexivity).
      rewrite <- Hzl in V'.
      destruct (IH (i :: keys) st' (fun k h' Hin => Hnh k h' (or_intror Hin)) B' R' V') as [st2 [keys2 [E2 [B2 [R2 [V2 [L2 K2]]]]]]].
      { intros x Hx. rewrite Hzl. apply Hdl; exact Hx. }
      exists st2, keys2. split; [exact E2|]. split; [exact B2|]. split; [exact R2|]. split; [exact V2|]. split; [congruence|].
      intros k. rewrite K2. cbn [map fst In]. tauto.
  Qed.

  Theorem complete_core : forall fl hashes leaves nh ord,
    closed T0 -> 0 <= leaf < n ->
    merge_leaves H H_eqb fl hashes leaves = Some nh ->
    (forall k h, In (k, h) nh -> 0 <= k < n /\ h = G k /\ (k = 0 \/ fam leaf k)) ->
    (forall y, 1 <= y -> anc leaf y -> slot T0 (sibz y) <> None \/ In (sibz y) (map fst nh)) ->
    (slot T0 leaf <> None \/ In leaf (map fst nh)) ->
    exists T1, set_hashes fl T0 hashes leaves ord = Accepted H T1 /\ slot T1 leaf = Some (G leaf).
  Proof.
    intros fl hashes leaves nh ord Hcl Hleaf Hmerge HK HA HA'.
    unfold HashTree.set_hashes. rewrite Hmerge. cbv zeta. rewrite Hn.
    set (nl := Z.to_nat (depth_of (n - 1) + 1)).
    destruct (init_inv H pair_hash truthy T0 nl) as [R0 V0].
    set (st0 := mkW T0 (repeat [] nl) []) in *.
    assert (Hzl0 : zlen (wlv H st0) = Z.of_nat nl) by (unfold st0; cbn [wlv]; unfold zlen; rewrite repeat_length; reflexivity).
    assert (Hdl0 : forall x, 0 <= x < n -> depth_of x < zlen (wlv H st0)).
    { intros x Hx. rewrite Hzl0. apply depth_bound. exact Hx. }
    assert (B0 : BInv [] st0).
    { unfold st0. constructor; cbn [wT wlv wruf].
      - exact Hg0.
      - intros x _ Hp. exact Hp.
      - intros k [].
      - intros x _ Hp H0. congruence.
      - intros key [[]|[k Hk]]. rewrite nth_repeat_nil in Hk. destruct Hk. }
    rewrite <- Hzl0 in V0.
    assert (HK' : forall k h, In (k, h) nh -> 0 <= k < n /\ h = G k).
    { intros k h Hin. destruct (HK k h Hin) as [a [b _]]. split; assumption. }
    destruct (phaseB_complete nh [] st0 HK' B0 R0 V0 Hdl0) as [st1 [keys1 [E1 [B1 [R1 [V1 [L1 K1]]]]]]].
    rewrite E1.
    assert (C1 : CInv [] st1).
    { constructor.
      - apply (b_gen _ _ B1).
      - intros key Hm. destruct (b_mark _ _ B1 key Hm) as [Hk H0]. apply K1 in Hk. destruct Hk as [[]|Hk].
        apply in_map_iff in Hk. destruct Hk as [[k h] [Hfst Hin]]. cbn in Hfst. subst k.
        destruct (HK key h Hin) as [Hr [_ [->|Hf]]]; [congruence|split; [exact Hf|lia]].
      - intros y Hy Ha. pose proof (sibz_ge1 y Hy) as Hs1. destruct (HA y Hy Ha) as [Hp|Hk].
        + apply (b_mono _ _ B1); [lia|exact Hp].
        + apply (b_keys _ _ B1); [apply K1; right; exact Hk|lia].
      - intros y Hy Ha. destruct Ha as [|y' Ha' Hy'].
        + left. destruct HA' as [Hp|Hk]; [apply (b_mono _ _ B1); [lia|exact Hp]|apply (b_keys _ _ B1); [apply K1; right; exact Hk|lia]].
        + pose proof (sibz_ge1 y' Hy') as Hs1. pose proof (parz_range y' Hy') as Hpr.
          destruct (slot T0 (sibz y')) as [v|] eqn:Es.
          * left. apply (b_mono _ _ B1); [lia|]. rewrite <- (parz_sibz y' Hy'). apply (Hcl (sibz y') Hs1). rewrite Es. discriminate.
          * destruct (HA y' Hy' Ha') as [Hp|Hk]; [congruence|].
            right. exists (sibz y'). split; [|split; [exact Hs1|apply parz_sibz; exact Hy']].
            apply (b_new _ _ B1); [lia| |exact Es]. apply (b_keys _ _ B1); [apply K1; right; exact Hk|lia]. }
    assert (Hdl1 : forall x, 0 <= x < n -> depth_of x < zlen (wlv H st1)).
    { intros x Hx. unfold zlen. rewrite L1. apply Hdl0. exact Hx. }
    destruct (run_levels_complete (length (wlv H st1)) st1 ord R1 V1 C1 Hdl1) as [st2 [E2 [R2 [V2 C2]]]].
    rewrite E2. exists (wT H st2). split; [reflexivity|].
    assert (Hpres : slot (wT H st2) leaf <> None).
    { destruct (Z.eq_dec leaf 0) as [->|Hl0].
      - rewrite (r_keep _ _ _ _ R2 0); [exact Hroot|lia|apply root_truthy].
      - destruct (c_anc _ _ C2 leaf ltac:(lia) (anc_self leaf)) as [Hp|[c [[[]|[k Hk]] _]]]; [exact Hp|].
        rewrite (v_empty _ _ _ _ _ _ V2 k) in Hk by lia. destruct Hk. }
    destruct (slot (wT H st2) leaf) as [v|] eqn:Es; [|congruence].
    rewrite (c_gen _ _ C2 leaf v ltac:(lia) Es). reflexivity.
  Qed.
End Completeness.

Section NeededAccepted.
  Variable H : Type.
  Variable H_eqb : H -> H -> bool.
  Variable pair_hash : H -> H -> H.
  Variable truthy : H -> bool.
  Hypothesis H_eqb_spec : forall a b, H_eqb a b = true <-> a = b.
  Hypothesis pair_truthy : forall a b, truthy (pair_hash a b) = true.
  Variable G : Z -> H.
  Variable n : Z.
  Hypothesis merkle : forall p, 0 <= p -> 2 * p + 2 < n -> G p = pair_hash (G (2 * p + 1)) (G (2 * p + 2)).
  Hypothesis G_truthy : forall j, 0 <= j < n -> truthy (G j) = true.

  Lemma assoc_in : forall k d h, assoc H k d = Some h -> In (k, h) d.
  Proof.
    induction d as [|[k' h'] r IH]; cbn [assoc]; intros h Hs; [discriminate|].
    destruct (k =? k') eqn:E; [|right; apply IH; exact Hs].
    apply Z.eqb_eq in E. subst. inversion Hs. left. reflexivity.
  Qed.

  Lemma merge_ok : forall fl (P : Z -> Prop) leaves nh,
    (forall k h, In (k, h) nh -> P k /\ h = G k) ->
    (forall ln h, In (ln, h) leaves -> P (fl + ln) /\ h = G (fl + ln)) ->
    exists nh', merge_leaves H H_eqb fl nh leaves = Some nh' /\
      (forall k h, In (k, h) nh' -> P k /\ h = G k) /\
      (forall k, In k (map fst nh) -> In k (map fst nh')) /\
      (forall ln h, In (ln, h) leaves -> In (fl + ln) (map fst nh')).
  Proof.
    intros fl P. induction leaves as [|[ln lh] r IH]; intros nh Hnh Hlv; cbn [merge_leaves].
    - exists nh. split; [reflexivity|]. split; [exact Hnh|]. split; [auto|intros ln h []].
    - destruct (Hlv ln lh (or_introl eq_refl)) as [HP Hh].
      destruct (assoc H (fl + ln) nh) as [h'|] eqn:Ea.
      + apply assoc_in in Ea. destruct (Hnh _ _ Ea) as [_ Hh']. subst h' lh.
        assert (H_eqb (G (fl + ln)) (G (fl + ln)) = true) as -> by (apply H_eqb_spec; reflexivity).
        destruct (IH nh Hnh (fun l h Hin => Hlv l h (or_intror Hin))) as [nh' [E [K1 [K2 K3]]]].
        exists nh'. split; [exact E|]. split; [exact K1|]. split; [exact K2|].
        intros l h [Heq|Hin]; [|apply (K3 l h Hin)]. inversion Heq. subst l h.
        apply K2. apply in_map_iff. exists (fl + ln, G (fl + ln)). split; [reflexivity|exact Ea].
      + destruct (IH (nh ++ [(fl + ln, lh)])) as [nh' [E [K1 [K2 K3]]]].
        * intros k h Hin. apply in_app_iff in Hin. destruct Hin as [Hin|[Heq|[]]]; [apply Hnh; exact Hin|].
          inversion Heq. subst k h. split; assumption.
        * intros l h Hin. apply Hlv. right. exact Hin.
        * exists nh'. split; [exact E|]. split; [exact K1|]. split.
          -- intros k Hk. apply K2. rewrite map_app. apply in_app_iff. left. exact Hk.
          -- intros l h [Heq|Hin]; [|apply (K3 l h Hin)]. inversion Heq. subst l h.
             apply K2. rewrite map_app. apply in_app_iff. right. left. reflexivity.
  Qed.

  Lemma slot_none_spec : forall (T : list (option H)) k, 0 <= k < zlen T -> (slot_none H T k = true <-> slot T k = None).
  Proof.
    intros T k Hk. unfold slot_none. rewrite get_valid by (unfold validz; lia). rewrite normz_nonneg by lia.
    destruct (slot T k); split; congruence.
  Qed.

  Theorem needed_accepted : forall fl T0 leafnum nd hashes leaves ord,
    zlen T0 = n -> genuine H G T0 -> closed H T0 -> slot T0 0 <> None ->
    needed_hashes H fl T0 leafnum true = Some nd ->
    (forall k h, In (k, h) hashes -> In k nd /\ h = G k) ->
    (forall ln h, In (ln, h) leaves -> ln = leafnum /\ h = G (fl + leafnum)) ->
    (forall k, In k nd -> In k (map fst hashes) \/ (k = fl + leafnum /\ leaves <> [])) ->
    exists T1, set_hashes H H_eqb pair_hash truthy fl T0 hashes leaves ord = Accepted H T1 /\
               slot T1 (fl + leafnum) = Some (G (fl + leafnum)).
  Proof.
    intros fl T0 leafnum nd hashes leaves ord Hn Hg Hcl Hroot Hnd Hh Hl Hcover.
    set (leaf := fl + leafnum) in *.
    unfold needed_hashes in Hnd. fold leaf in Hnd. rewrite Hn in Hnd.
    destruct (needed_for n leaf) as [nf|] eqn:Enf; [|discriminate]. apply Some_inj in Hnd.
    destruct (needed_for_spec _ _ _ Enf) as [Hleaf [N1 N2]].
    set (P := fun k => 0 <= k < n /\ (k = 0 \/ fam leaf k)).
    assert (Hleaf_P : P leaf).
    { split; [exact Hleaf|]. destruct (Z.eq_dec leaf 0); [left; assumption|right; split; [lia|left; apply anc_self]]. }
    assert (Hnf_P : forall k, In k nf -> P k).
    { intros k Hk. destruct (N2 k Hk) as [y [Hy [Ha ->]]]. pose proof (sibz_ge1 y Hy) as Hs1.
      destruct (N1 y Hy Ha) as [_ Hc]. split.
      - destruct (node_cases y Hy) as [[H1 H2]|[H1 H2]]; lia.
      - right. split; [exact Hs1|]. right. rewrite sibz_invol by exact Hy. exact Ha. }
    assert (Hnd_in : forall k, In k nd <-> (k = leaf \/ In k nf) /\ slot_none H T0 k = true).
    { intros k. rewrite <- Hnd. rewrite filter_In. rewrite in_zadd. tauto. }
    assert (Hnd_P : forall k, In k nd -> P k).
    { intros k Hk. apply Hnd_in in Hk. destruct Hk as [[->|Hk] _]; [exact Hleaf_P|apply Hnf_P; exact Hk]. }
    destruct (merge_ok fl P leaves hashes) as [nh [Em [K1 [K2 K3]]]].
    { intros k h Hin. destruct (Hh k h Hin) as [Hk Hv]. split; [apply Hnd_P; exact Hk|exact Hv]. }
    { intros ln h Hin. destruct (Hl ln h Hin) as [-> Hv]. split; [exact Hleaf_P|exact Hv]. }
    assert (Hsup : forall k, 0 <= k < n -> (k = leaf \/ In k nf) -> slot T0 k <> None \/ In k (map fst nh)).
    { intros k Hk Hin. destruct (slot T0 k) as [v|] eqn:Es; [left; discriminate|right].
      assert (Hknd : In k nd) by (apply Hnd_in; split; [exact Hin|apply slot_none_spec; [rewrite Hn; exact Hk|exact Es]]).
      destruct (Hcover k Hknd) as [Hc|[-> Hne]]; [apply K2; exact Hc|].
      destruct leaves as [|[ln h] r]; [congruence|].
      destruct (Hl ln h (or_introl eq_refl)) as [-> _]. apply (K3 leafnum h). left. reflexivity. }
    apply (complete_core H H_eqb pair_hash truthy H_eqb_spec pair_truthy G n merkle G_truthy T0 leaf Hn Hg Hroot
             (fun y Hy Ha => proj2 (N1 y Hy Ha)) fl hashes leaves nh ord Hcl Hleaf Em).
    - intros k h Hin. destruct (K1 k h Hin) as [[Hr Hf] Hv]. split; [exact Hr|]. split; [exact Hv|exact Hf].
    - intros y Hy Ha. destruct (N1 y Hy Ha) as [Hin Hc]. pose proof (sibz_ge1 y Hy) as Hs1.
      apply Hsup; [destruct (node_cases y Hy) as [[H1 H2]|[H1 H2]]; lia|right; exact Hin].
    - apply Hsup; [exact Hleaf|left; reflexivity].
  Qed.
End NeededAccepted.
