From Coq Require Import List NArith Bool Lia Arith.
From Verif Require Import Model.TestAndSet.
Import ListNotations.
Local Open Scope N_scope.

Lemma set_nth_length {A} n (x : A) l : length (set_nth n x l) = length l.
Proof. revert n; induction l as [|y r IH]; intros [|n]; cbn; auto. Qed.

Lemma In_set_nth {A} n (x y : A) l : In y (set_nth n x l) -> y = x \/ In y l.
Proof.
  revert n; induction l as [|z r IH]; intros [|n] H; cbn in *; auto.
  - destruct H as [H|H]; auto.
  - destruct H as [H|H]; auto. apply IH in H. tauto.
Qed.

Lemma nth_error_set_nth_same {A} n (x : A) l : (n < length l)%nat -> nth_error (set_nth n x l) n = Some x.
Proof. revert n; induction l as [|y r IH]; intros [|n] H; cbn in *; try lia; auto. apply IH. lia. Qed.

Lemma nth_error_set_nth_other {A} n m (x : A) l : n <> m -> nth_error (set_nth n x l) m = nth_error l m.
Proof.
  revert n m; induction l as [|y r IH]; intros [|n] [|m] H; cbn; auto; try congruence.
Qed.

(* ---- every cell always holds the old version or some writer's version ---- *)
Definition cells_ok (nwriters : nat) (s : sys) : Prop :=
  forall v, In v (cells s) -> In v (all_versions nwriters).

Lemma new_version_in j n : (j < n)%nat -> In (new_version j) (all_versions n).
Proof. intro H. right. apply in_map, in_seq. lia. Qed.

Lemma step_cells_ok n s e :
  length (ws s) = n -> cells_ok n s -> cells_ok n (step s e) /\ length (ws (step s e)) = n /\ length (cells (step s e)) = length (cells s).
Proof.
  intros Hl Hok. destruct e as [j|j i]; cbn.
  - destruct (nth_error (ws s) j) eqn:E; cbn; [|auto]. rewrite set_nth_length. auto.
  - destruct (nth_error (ws s) j) as [w|] eqn:E; [|auto].
    destruct (snapshot w) as [snap|]; [|auto].
    destruct (nth_error (cells s) i) as [cur|]; [|auto].
    destruct (nth_error snap i) as [seen|]; [|auto].
    assert (Hj : (j < n)%nat) by (rewrite <- Hl; apply nth_error_Some; congruence).
    destruct (cur =? seen); cbn; rewrite !set_nth_length; repeat split; auto.
    intros v Hv. apply In_set_nth in Hv. destruct Hv as [->|Hv]; [apply new_version_in, Hj|apply Hok, Hv].
Qed.

Lemma run_cells_ok ncells n evs :
  let s := run ncells n evs in
  cells_ok n s /\ length (ws s) = n /\ length (cells s) = ncells.
Proof.
  unfold run.
  assert (G : forall evs s, length (ws s) = n -> cells_ok n s -> length (cells s) = ncells ->
              cells_ok n (fold_left step evs s) /\ length (ws (fold_left step evs s)) = n /\ length (cells (fold_left step evs s)) = ncells).
  { induction evs0 as [|e r IH]; intros s Hl Hok Hc; cbn; [auto|].
    destruct (step_cells_ok n s e Hl Hok) as [A [B C]]. apply IH; auto. congruence. }
  apply G; cbn.
  - apply repeat_length.
  - intros v Hv. apply repeat_spec in Hv. subst. left. reflexivity.
  - apply repeat_length.
Qed.

(* ---- pigeonhole: cells drawn from a list of m versions, m * k <= number of cells ---- *)
Lemma count_sum_ge vs : forall l, (forall x, In x l -> In x vs) ->
  (length l <= fold_right (fun v acc => count_v v l + acc) 0 vs)%nat.
Proof.
  induction l as [|x r IH]; intros H; [cbn; lia|].
  assert (Hr : forall y, In y r -> In y vs) by (intros y Hy; apply H; right; exact Hy).
  specialize (IH Hr).
  assert (Hx : In x vs) by (apply H; left; reflexivity).
  clear H Hr. cbn [length].
  assert (G : forall vs0, (fold_right (fun v acc => count_v v r + acc) 0 vs0 <=
                           fold_right (fun v acc => count_v v (x :: r) + acc) 0 vs0)%nat /\
                          (In x vs0 -> (S (fold_right (fun v acc => count_v v r + acc) 0 vs0) <=
                                        fold_right (fun v acc => count_v v (x :: r) + acc) 0 vs0)%nat)).
  { induction vs0 as [|v vs0 IHv]; [cbn; split; [lia|contradiction]|].
    destruct IHv as [A B]. cbn [fold_right].
    assert (Hc : count_v v (x :: r) = if x =? v then S (count_v v r) else count_v v r) by reflexivity.
    rewrite Hc. clear Hc.
    destruct (x =? v) eqn:E.
    - split; [lia|]. intros _. lia.
    - split; [lia|]. intros [Hv|Hv]; [subst; rewrite N.eqb_refl in E; discriminate|]. specialize (B Hv). lia. }
  destruct (G vs) as [_ B]. specialize (B Hx). lia.
Qed.

Lemma pigeonhole vs l k :
  vs <> [] ->
  (forall x, In x l -> In x vs) -> (length vs * k <= length l)%nat -> (1 <= k)%nat ->
  exists v, In v vs /\ (k <= count_v v l)%nat.
Proof.
  intros Hne Hin Hlen Hk.
  pose proof (count_sum_ge vs l Hin) as Hsum.
  assert (G : forall vs0, (forall v, In v vs0 -> (count_v v l < k)%nat) ->
              (fold_right (fun v acc => count_v v l + acc) 0 vs0 <= length vs0 * (k - 1))%nat).
  { induction vs0 as [|v r IH]; intro H; [cbn; lia|]. cbn [fold_right length].
    assert (count_v v l < k)%nat by (apply H; left; reflexivity).
    assert (fold_right (fun v0 acc => count_v v0 l + acc) 0 r <= length r * (k - 1))%nat by (apply IH; intros; apply H; right; auto).
    rewrite Nat.mul_succ_l. lia. }
  destruct (Exists_dec (fun v => (k <= count_v v l)%nat) vs (fun v => le_dec k (count_v v l))) as [E|NE].
  - apply Exists_exists in E. exact E.
  - exfalso. assert (Hall : forall v, In v vs -> (count_v v l < k)%nat).
    { intros v Hv. destruct (le_lt_dec k (count_v v l)) as [L|L]; [|exact L].
      exfalso. apply NE. apply Exists_exists. exists v. auto. }
    specialize (G vs Hall).
    destruct vs as [|v0 vs']; [congruence|].
    assert (length (v0 :: vs') * (k - 1) < length (v0 :: vs') * k)%nat by (cbn [length]; nia).
    lia.
Qed.

Lemma all_versions_length n : length (all_versions n) = S n.
Proof. unfold all_versions. cbn. rewrite map_length, seq_length. reflexivity. Qed.

(* in every reachable state some version (old or new) occupies at least k cells *)
Lemma some_version_survives_ok ncells nwriters k evs :
  (1 <= k)%nat -> (S nwriters * k <= ncells)%nat ->
  exists v, In v (all_versions nwriters) /\ (k <= count_v v (cells (run ncells nwriters evs)))%nat.
Proof.
  intros Hk Hb. destruct (run_cells_ok ncells nwriters evs) as [Hok [_ Hlen]].
  apply pigeonhole; auto; [discriminate|]. rewrite all_versions_length, Hlen. exact Hb.
Qed.

(* ---- a write is applied iff the cell still holds what the writer surveyed ---- *)
Lemma write_applies_iff_test_holds_ok s j i w snap cur seen :
  nth_error (ws s) j = Some w -> snapshot w = Some snap ->
  nth_error (cells s) i = Some cur -> nth_error snap i = Some seen ->
  (cur = seen ->
     nth_error (cells (step s (Write j i))) i = Some (new_version j) /\
     (forall w', nth_error (ws (step s (Write j i))) j = Some w' -> w_surprised w' = w_surprised w /\ acked w' = i :: acked w)) /\
  (cur <> seen ->
     cells (step s (Write j i)) = cells s /\
     (forall w', nth_error (ws (step s (Write j i))) j = Some w' -> w_surprised w' = true /\ acked w' = acked w)).
Proof.
  intros Hw Hs Hc Hn. cbn. rewrite Hw, Hs, Hc, Hn.
  assert (Hj : (j < length (ws s))%nat) by (apply nth_error_Some; congruence).
  assert (Hi : (i < length (cells s))%nat) by (apply nth_error_Some; congruence).
  split; intro H.
  - apply N.eqb_eq in H. rewrite H. cbn. split.
    + apply nth_error_set_nth_same, Hi.
    + intros w' Hw'. rewrite nth_error_set_nth_same in Hw' by exact Hj. inversion Hw'; subst. cbn. auto.
  - apply N.eqb_neq in H. rewrite H. cbn. split; [reflexivity|].
    intros w' Hw'. rewrite nth_error_set_nth_same in Hw' by exact Hj. inversion Hw'; subst. cbn. auto.
Qed.

(* ---- no silent clobber: a cell that changed after writer j's survey refuses j's write.
   Versions are fresh: once a cell leaves the value j saw, it can only return to it if some
   writer publishes that same id -- impossible for the old version 0 and for other writers'
   ids only by that very writer; we state the clobber rule on the direct comparison the
   server makes, and freshness separately. ---- *)
Lemma changed_cell_refuses_ok s j i w snap cur seen :
  nth_error (ws s) j = Some w -> snapshot w = Some snap ->
  nth_error (cells s) i = Some cur -> nth_error snap i = Some seen ->
  cur <> seen ->
  let s' := step s (Write j i) in
  cells s' = cells s /\ exists w', nth_error (ws s') j = Some w' /\ w_surprised w' = true.
Proof.
  intros Hw Hs Hc Hn Hne s'.
  destruct (write_applies_iff_test_holds_ok s j i w snap cur seen Hw Hs Hc Hn) as [_ B].
  destruct (B Hne) as [B1 B2]. split; [exact B1|].
  assert (Hj : (j < length (ws s))%nat) by (apply nth_error_Some; congruence).
  unfold s'. cbn. rewrite Hw, Hs, Hc, Hn. apply N.eqb_neq in Hne. rewrite Hne. cbn.
  eexists. split; [apply nth_error_set_nth_same, Hj|reflexivity].
Qed.

(* surprise is permanent: a writer that met another version reports it at the end *)
Lemma surprised_sticky_ok e s j w :
  nth_error (ws s) j = Some w -> w_surprised w = true ->
  exists w', nth_error (ws (step s e)) j = Some w' /\ w_surprised w' = true.
Proof.
  intros Hw Hs.
  assert (Hj : (j < length (ws s))%nat) by (apply nth_error_Some; congruence).
  destruct e as [j0|j0 i]; cbn.
  - destruct (nth_error (ws s) j0) as [w0|] eqn:E; [|eauto]. cbn.
    destruct (Nat.eq_dec j0 j) as [->|Hn].
    + rewrite nth_error_set_nth_same by exact Hj. rewrite Hw in E. inversion E; subst. eexists; split; [reflexivity|exact Hs].
    + rewrite nth_error_set_nth_other by exact Hn. eauto.
  - destruct (nth_error (ws s) j0) as [w0|] eqn:E; [|eauto].
    destruct (snapshot w0) as [snap|]; [|eauto].
    destruct (nth_error (cells s) i) as [cur|]; [|eauto].
    destruct (nth_error snap i) as [seen|]; [|eauto].
    destruct (cur =? seen); cbn; destruct (Nat.eq_dec j0 j) as [->|Hn];
      try (rewrite nth_error_set_nth_other by exact Hn; eauto);
      rewrite nth_error_set_nth_same by exact Hj; rewrite Hw in E; inversion E; subst;
      eexists; split; try reflexivity; cbn; auto.
Qed.
