(* C25 addendum: MutableShareFile.cancel_lease (used by the lease-expiry crawler) removes exactly
   the leases answering to the cancel secret, in place; every other lease keeps its slot and stays
   enumerable, data and layout are untouched. *)
From Coq Require Import List NArith Arith Bool Lia.
From Verif Require Import Lib.Hex Gen.MutConsts Model.MutContainer Model.Lease
  Proofs.MutContainerBytes Proofs.MutContainer Proofs.MutContainerRefine Proofs.LeaseMutable Proofs.Lease Proofs.LeaseFinal.
Import ListNotations.
Local Open Scope N_scope.

Section WithHash.
Variable H : list N -> list N.

Definition cancels (v : version) (cs : list N) (il : N * lease) : bool := is_cancel_secret H v (snd il) cs.

Lemma blank_record v : exists b, ser_mutable (stored_form H v blank_lease) = Ok b /\ length b = 92%nat /\ slot_of_rec b = None.
Proof.
  assert (Ho : l_owner (stored_form H v blank_lease) = 0) by (destruct v; reflexivity).
  assert (He : l_expire (stored_form H v blank_lease) = 0) by (destruct v; reflexivity).
  destruct (ser_mutable_ok (stored_form H v blank_lease)) as (b & Es & Lb & Pb); [rewrite Ho; reflexivity|rewrite He; reflexivity|].
  exists b. split; [exact Es|]. split; [exact Lb|]. unfold slot_of_rec. rewrite Pb. cbn [norm_mut l_owner]. rewrite Ho. reflexivity.
Qed.

(* blanking slot i of a well-formed container *)
Lemma blank_slot maxsz v c i : wf maxsz c -> i < 4 + c_nx c ->
  exists c', write_lease_record (flat c) i (ser_mutable (stored_form H v blank_lease)) = Done (flat c') /\
             wf maxsz c' /\ same_data c c' /\ c_nx c' = c_nx c /\
             forall j, j < 4 + c_nx c -> slot c' j = if j =? i then None else slot c j.
Proof.
  intros Hw Hi. destruct (blank_record v) as (b & Es & Lb & Sb). rewrite Es.
  destruct (write_record_flat maxsz c i b Hw (N.lt_le_incl _ _ Hi)) as (c' & E & Hw' & Hsd & Enx & Hrec); [lia|exact Lb|].
  destruct (N.eqb_spec i (4 + c_nx c)); [lia|].
  exists c'. split; [exact E|]. split; [exact Hw'|]. split; [exact Hsd|]. split; [exact Enx|].
  intros j Hj. unfold slot. rewrite (Hrec j) by lia. destruct (j =? i); [exact Sb|reflexivity].
Qed.

Definition hit (v : version) (cs : list N) (ls : list (N * lease)) (j : N) : bool :=
  existsb (fun il => (fst il =? j) && cancels v cs il) ls.

Lemma cancel_scan_spec maxsz v cs ls : forall c m rmn,
  wf maxsz c -> (forall i l, In (i, l) ls -> i < 4 + c_nx c) ->
  exists c', cancel_scan H v (flat c) ls cs m rmn
             = (Done (flat c'), m + N.of_nat (length (filter (cancels v cs) ls)),
                rmn + N.of_nat (length (filter (fun il => negb (cancels v cs il)) ls))) /\
             wf maxsz c' /\ same_data c c' /\ c_nx c' = c_nx c /\
             forall j, j < 4 + c_nx c -> slot c' j = if hit v cs ls j then None else slot c j.
Proof.
  induction ls as [|[i l] r IH]; intros c m rmn Hw Hin.
  - exists c. cbn [cancel_scan filter length hit existsb]. rewrite !N.add_0_r.
    split; [reflexivity|]. split; [exact Hw|]. split; [apply same_data_refl|]. split; [reflexivity|]. reflexivity.
  - cbn [cancel_scan filter hit existsb fst]. change (cancels v cs (i, l)) with (is_cancel_secret H v l cs).
    destruct (is_cancel_secret H v l cs) eqn:Ec; cbn [negb].
    + destruct (blank_slot maxsz v c i Hw (Hin i l (or_introl eq_refl))) as (c1 & E1 & Hw1 & Hsd1 & Enx1 & Hs1).
      rewrite E1.
      destruct (IH c1 (m + 1) rmn Hw1) as (c' & E & Hw' & Hsd' & Enx' & Hs').
      { intros i' l' Hx. rewrite Enx1. apply (Hin i' l'). right. exact Hx. }
      exists c'. rewrite E. cbn [length]. split. { apply f_equal2; [apply f_equal2; [reflexivity|lia]|lia]. } split; [exact Hw'|].
      split; [destruct Hsd1 as (A & B & C & D), Hsd' as (A' & B' & C' & D'); repeat split; congruence|].
      split; [congruence|]. intros j Hj. rewrite Hs' by (rewrite Enx1; exact Hj). rewrite (Hs1 j Hj).
      fold (hit v cs r j). rewrite andb_true_r. destruct (N.eqb_spec i j) as [->|Hne].
      * rewrite N.eqb_refl. cbn [orb]. destruct (hit v cs r j); reflexivity.
      * destruct (N.eqb_spec j i); [congruence|]. reflexivity.
    + destruct (IH c m (rmn + 1) Hw) as (c' & E & Hw' & Hsd' & Enx' & Hs').
      { intros i' l' Hx. apply (Hin i' l'). right. exact Hx. }
      exists c'. rewrite E. cbn [length]. split; [apply f_equal2; [apply f_equal2; [reflexivity|lia]|lia]|]. split; [exact Hw'|]. split; [exact Hsd'|].
      split; [exact Enx'|]. intros j Hj. rewrite (Hs' j Hj). fold (hit v cs r j). rewrite andb_false_r. reflexivity.
Qed.

(* on an enumeration, the slots hit are exactly those whose own lease answers to the secret *)
Lemma hit_enumL v cs h L j : NoDup L -> In j L ->
  hit v cs (enumL h L) j = match h j with Some l => is_cancel_secret H v l cs | None => false end.
Proof.
  intros Hnd Hj. unfold hit. destruct (h j) as [l|] eqn:Ehj.
  - destruct (is_cancel_secret H v l cs) eqn:Ec.
    + apply existsb_exists. exists (j, l). split; [apply in_enumL; auto|]. cbn [fst]. rewrite N.eqb_refl. exact Ec.
    + apply not_true_is_false. intro Hx. apply existsb_exists in Hx. destruct Hx as ([k x] & Hin & Hb).
      apply andb_prop in Hb. destruct Hb as [Hk Hc]. cbn [fst] in Hk. apply N.eqb_eq in Hk. subst k.
      apply in_enumL in Hin. destruct Hin as [_ Hx]. unfold cancels in Hc. cbn [snd] in Hc. congruence.
  - apply not_true_is_false. intro Hx. apply existsb_exists in Hx. destruct Hx as ([k x] & Hin & Hb).
    apply andb_prop in Hb. destruct Hb as [Hk _]. cbn [fst] in Hk. apply N.eqb_eq in Hk. subst k.
    apply in_enumL in Hin. destruct Hin as [_ Hx]. congruence.
Qed.

Lemma enumL_filter v cs h h' L :
  (forall j, In j L -> h' j = match h j with Some l => if is_cancel_secret H v l cs then None else Some l | None => None end) ->
  enumL h' L = filter (fun il => negb (cancels v cs il)) (enumL h L).
Proof.
  induction L as [|j r IH]; intro Hh; [reflexivity|]. cbn [enumL flat_map]. fold (enumL h' r). fold (enumL h r).
  rewrite filter_app, <- IH by (intros; apply Hh; right; assumption). f_equal.
  rewrite (Hh j (or_introl eq_refl)). destruct (h j) as [l|]; [|reflexivity].
  cbn [filter]. unfold cancels. cbn [snd]. destruct (is_cancel_secret H v l cs); reflexivity.
Qed.

Lemma cancel_lease_proof maxsz v f cs E :
  layout_ok maxsz f = true -> mut_enumerate f = Ok E ->
  let kept := filter (fun il => negb (cancels v cs il)) E in
  let gone := filter (cancels v cs) E in
  match gone, kept with
  | [], _ => mut_cancel_lease H v f cs = (Some f, Some EIndex)
  | _ :: _, [] => mut_cancel_lease H v f cs = (None, None)
  | _ :: _, _ :: _ =>
      exists f', mut_cancel_lease H v f cs = (Some f', None) /\ layout_ok maxsz f' = true /\
                 abs_data f' = abs_data f /\ mut_enumerate f' = Ok kept
  end.
Proof.
  intros Hl He. apply layout_ok_iff in Hl. destruct Hl as (c & Hw & ->).
  assert (EE : E = enumL (slot c) (nseq (4 + c_nx c))) by (rewrite (mut_enumerate_flat maxsz c Hw) in He; congruence).
  cbn zeta. unfold mut_cancel_lease. rewrite He.
  destruct (cancel_scan_spec maxsz v cs E c 0 0 Hw) as (c' & Es & Hw' & Hsd & Enx & Hs).
  { intros i l Hin. rewrite EE in Hin. apply in_enumL in Hin. destruct Hin as [Hi _]. apply in_nseq. exact Hi. }
  rewrite Es. rewrite !N.add_0_l.
  destruct (filter (cancels v cs) E) as [|g gs] eqn:Eg.
  - cbn [length N.of_nat N.eqb].
    assert (c_same : flat c' = flat c).
    { (* nothing was hit: same slots; but the file itself is unchanged because no write happened *)
      clear Hs. revert Es. generalize (N.of_nat (length (filter (fun il => negb (cancels v cs il)) E))). intros k Es.
      assert (Hno : forall il, In il E -> cancels v cs il = false).
      { intros il Hin. destruct (cancels v cs il) eqn:Ec; [|reflexivity].
        assert (Hx : In il (filter (cancels v cs) E)) by (apply filter_In; auto). rewrite Eg in Hx. destruct Hx. }
      assert (Hgen : forall ls m r, (forall il, In il ls -> cancels v cs il = false) ->
                fst (fst (cancel_scan H v (flat c) ls cs m r)) = Done (flat c)).
      { induction ls as [|[i l] r IH]; intros m r0 Hn; [reflexivity|]. cbn [cancel_scan].
        pose proof (Hn (i, l) (or_introl eq_refl)) as Hc. unfold cancels in Hc. cbn [snd] in Hc. rewrite Hc.
        apply IH. intros il Hin. apply Hn. right. exact Hin. }
      specialize (Hgen E 0 0 Hno). rewrite Es in Hgen. cbn [fst] in Hgen. inversion Hgen. reflexivity. }
    rewrite c_same. reflexivity.
  - assert (Hm : (N.of_nat (length (g :: gs)) =? 0) = false) by (cbn [length]; apply N.eqb_neq; lia).
    rewrite Hm. destruct (filter (fun il => negb (cancels v cs il)) E) as [|k ks] eqn:Ek.
    + reflexivity.
    + assert (Hr : (N.of_nat (length (k :: ks)) =? 0) = false) by (cbn [length]; apply N.eqb_neq; lia).
      rewrite Hr. exists (flat c'). split; [reflexivity|]. split; [apply flat_layout_ok; exact Hw'|].
      split; [rewrite (abs_data_flat _ _ Hw'), (abs_data_flat _ _ Hw), (same_data_c_data _ _ Hsd); reflexivity|].
      rewrite (mut_enumerate_flat maxsz c' Hw'), Enx. f_equal. rewrite <- Ek, EE.
      apply enumL_filter. intros j Hj. pose proof Hj as Hj'. apply in_nseq in Hj'. rewrite (Hs j Hj'), EE.
      rewrite (hit_enumL v cs (slot c) _ j (NoDup_nseq _) Hj).
      destruct (slot c j) as [l|]; [destruct (is_cancel_secret H v l cs); reflexivity|reflexivity].
Qed.

End WithHash.
