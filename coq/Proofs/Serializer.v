(* Proofs for C13: the Deferred-chain model of _do_serialized is a FIFO,
   non-overlapping executor that failures do not block. *)
From Coq Require Import List NArith Bool Lia.
From Verif Require Import Model.Serializer.
Import ListNotations.
Local Open Scope N_scope.

Definition triple (ob : opid * behaviour) : list cb := [Start (fst ob) (snd ob); Deliver (fst ob); LogErr].
Definition triples (l : list (opid * behaviour)) : list cb := flat_map triple l.

(* what running a queue of requests does: synchronous ones run to completion
   one after the other, the first asynchronous one becomes the running op *)
Fixpoint drain (q : list (opid * behaviour)) (tr : list event) : st :=
  match q with
  | [] => {| pending := []; waiting := None; current := Ok; trace := tr |}
  | (o, Sync r) :: rest => drain rest (Delivered o r :: Finished o r :: Started o :: tr)
  | (o, Async) :: rest =>
      {| pending := Deliver o :: LogErr :: triples rest; waiting := Some o; current := Ok; trace := Started o :: tr |}
  end.

Lemma run_triples q tr : run (triples q) Ok tr = drain q tr.
Proof.
  revert tr; induction q as [|[o b] q IH]; intro tr; [reflexivity|].
  destruct b as [r|]; cbn [triples flat_map triple fst snd app run drain].
  - change (flat_map triple q) with (triples q). destruct r; cbn [run]; apply IH.
  - reflexivity.
Qed.

Lemma run_after_complete o q r tr :
  run (Deliver o :: LogErr :: triples q) r tr = drain q (Delivered o r :: tr).
Proof. cbn [run]. apply run_triples. Qed.

Lemma triples_app a b : triples (a ++ b) = triples a ++ triples b.
Proof. unfold triples. apply flat_map_app. Qed.

(* ---- scanning a chronological trace: who is running at the end, or None on overlap ---- *)
Fixpoint scan (running : option opid) (l : list event) : option (option opid) :=
  match l with
  | [] => Some running
  | Started o :: r => match running with None => scan (Some o) r | Some _ => None end
  | Finished o _ :: r => match running with Some o' => if o =? o' then scan None r else None | None => None end
  | Delivered _ _ :: r => scan running r
  end.

Lemma scan_app run0 a b : scan run0 (a ++ b) = match scan run0 a with Some r => scan r b | None => None end.
Proof.
  revert run0; induction a as [|e a IH]; intro run0; [reflexivity|].
  destruct e as [o|o r|o r]; cbn [app scan].
  - destruct run0; [reflexivity|apply IH].
  - destruct run0 as [o'|]; [|reflexivity]. destruct (o =? o'); [apply IH|reflexivity].
  - apply IH.
Qed.

Lemma scan_nonoverlap l : scan None l = Some None -> nonoverlap None l = true.
Proof.
  assert (G : forall run0 fin, scan run0 l = Some fin -> fin = None -> nonoverlap run0 l = true).
  { induction l as [|e l IH]; intros run0 fin H Hf.
    - cbn in H. inversion H; subst. subst. reflexivity.
    - destruct e as [o|o r|o r]; cbn [scan nonoverlap] in *.
      + destruct run0; [discriminate|]. eapply IH; eauto.
      + destruct run0 as [o'|]; [|discriminate]. destruct (o =? o') eqn:E; [|discriminate].
        cbn. eapply IH; eauto.
      + eapply IH; eauto. }
  intro H. eapply G; eauto.
Qed.

Lemma started_ids_app a b : started_ids (a ++ b) = started_ids a ++ started_ids b.
Proof.
  induction a as [|e a IH]; [reflexivity|]. destruct e; cbn [app started_ids]; rewrite IH; reflexivity.
Qed.

Lemma finished_app a b : finished (a ++ b) = finished a ++ finished b.
Proof. induction a as [|e a IH]; [reflexivity|]. destruct e; cbn [app finished]; rewrite IH; reflexivity. Qed.

Lemma delivered_app a b : delivered (a ++ b) = delivered a ++ delivered b.
Proof. induction a as [|e a IH]; [reflexivity|]. destruct e; cbn [app delivered]; rewrite IH; reflexivity. Qed.

(* ---- the invariant ---- *)
(* reqs: the requests so far, in order.  q: those not yet started. *)
Record Inv (s : st) (reqs : list (opid * behaviour)) : Prop := {
  inv_queue : exists q,
      match waiting s with
      | None => pending s = [] /\ current s = Ok /\ q = []
      | Some o => pending s = Deliver o :: LogErr :: triples q
      end
      /\ started_ids (events s) ++ map fst q = map fst reqs;
  inv_scan : scan None (events s) = Some (waiting s);
  (* every finished operation's result has been handed to its caller, except the running one *)
  inv_deliv : delivered (events s) = finished (events s)
}.

Lemma inv_init : Inv init [].
Proof. split; [exists []; cbn; auto | reflexivity | reflexivity]. Qed.

(* drain preserves the facts we track *)
Lemma drain_facts q : forall tr,
  scan None (rev tr) = Some None ->
  delivered (rev tr) = finished (rev tr) ->
  let s' := drain q tr in
  (exists q', match waiting s' with
              | None => pending s' = [] /\ current s' = Ok /\ q' = []
              | Some o => pending s' = Deliver o :: LogErr :: triples q'
              end
              /\ started_ids (events s') ++ map fst q' = started_ids (rev tr) ++ map fst q)
  /\ scan None (events s') = Some (waiting s')
  /\ delivered (events s') = finished (events s').
Proof.
  induction q as [|[o b] q IH]; intros tr Hs Hd; cbn [drain].
  - cbn. split; [exists []; cbn; rewrite !app_nil_r; auto|]. unfold events; cbn. auto.
  - destruct b as [r|].
    + specialize (IH (Delivered o r :: Finished o r :: Started o :: tr)).
      simpl rev in IH. rewrite <- ?app_assoc in IH. simpl app in IH.
      assert (Hs' : scan None (rev tr ++ [Started o; Finished o r; Delivered o r]) = Some None).
      { rewrite scan_app, Hs. cbn. rewrite N.eqb_refl. reflexivity. }
      assert (Hd' : delivered (rev tr ++ [Started o; Finished o r; Delivered o r])
                    = finished (rev tr ++ [Started o; Finished o r; Delivered o r])).
      { rewrite delivered_app, finished_app, Hd. reflexivity. }
      destruct (IH Hs' Hd') as [[q' [Hq Hst]] [Hsc Hdl]].
      split; [|split; assumption].
      exists q'. split; [exact Hq|]. rewrite Hst, started_ids_app. cbn. rewrite <- app_assoc. reflexivity.
    + cbn. unfold events; cbn [trace rev].
      split; [|split].
      * exists q. split; [reflexivity|]. rewrite started_ids_app. cbn. rewrite <- app_assoc. reflexivity.
      * rewrite scan_app, Hs. reflexivity.
      * rewrite delivered_app, finished_app, Hd. reflexivity.
Qed.

Lemma inv_step s reqs i :
  Inv s reqs ->
  Inv (step s i) (match i with Request o b => reqs ++ [(o, b)] | Complete _ => reqs end).
Proof.
  intros [[q [Hq Hst]] Hsc Hdl]. destruct i as [o b|r]; cbn [step].
  - destruct (waiting s) as [w|] eqn:W.
    + (* busy: enqueue *)
      split; cbn [waiting pending current trace].
      * exists (q ++ [(o, b)]). split.
        -- rewrite Hq, triples_app. cbn. rewrite ?app_nil_r. reflexivity.
        -- unfold events in *; cbn [trace]. rewrite !map_app, app_assoc, Hst. reflexivity.
      * unfold events in *; cbn [trace]. exact Hsc.
      * unfold events in *; cbn [trace]. exact Hdl.
    + destruct Hq as [Hp [Hc Hq0]]. subst q. rewrite Hp, Hc. cbn [app].
      change [Start o b; Deliver o; LogErr] with (triples [(o, b)]).
      rewrite run_triples.
      unfold events in Hsc, Hdl, Hst.
      destruct (drain_facts [(o, b)] (trace s) Hsc Hdl) as [[q' [Hq' Hst']] [Hsc' Hdl']].
      split; [|exact Hsc'|exact Hdl'].
      exists q'. split; [exact Hq'|]. rewrite Hst'. cbn. rewrite map_app. cbn.
      cbn in Hst. rewrite app_nil_r in Hst. rewrite Hst. reflexivity.
  - destruct (waiting s) as [w|] eqn:W.
    + rewrite Hq. rewrite run_after_complete.
      unfold events in Hsc, Hdl, Hst.
      assert (Hs' : scan None (rev (Delivered w r :: Finished w r :: trace s)) = Some None).
      { cbn [rev]. rewrite <- app_assoc. cbn [app]. rewrite scan_app, Hsc. cbn. rewrite N.eqb_refl. reflexivity. }
      assert (Hd' : delivered (rev (Delivered w r :: Finished w r :: trace s))
                    = finished (rev (Delivered w r :: Finished w r :: trace s))).
      { cbn [rev]. rewrite <- app_assoc. cbn [app]. rewrite delivered_app, finished_app, Hdl. reflexivity. }
      destruct (drain_facts q _ Hs' Hd') as [[q' [Hq' Hst']] [Hsc' Hdl']].
      split; [|exact Hsc'|exact Hdl'].
      exists q'. split; [exact Hq'|]. rewrite Hst'. cbn [rev]. rewrite <- app_assoc. cbn [app].
      rewrite started_ids_app. cbn. rewrite app_nil_r. exact Hst.
    + split; [exists q; rewrite W; auto | rewrite W; exact Hsc | exact Hdl].
Qed.

Fixpoint reqs_of (l : list input) : list (opid * behaviour) :=
  match l with
  | [] => []
  | Request o b :: r => (o, b) :: reqs_of r
  | Complete _ :: r => reqs_of r
  end.

Lemma reqs_of_app a b : reqs_of (a ++ b) = reqs_of a ++ reqs_of b.
Proof. induction a as [|i a IH]; [reflexivity|]. destruct i; cbn; rewrite IH; reflexivity. Qed.

Lemma requested_ids_reqs l : requested_ids l = map fst (reqs_of l).
Proof. induction l as [|i l IH]; [reflexivity|]. destruct i; cbn; rewrite IH; reflexivity. Qed.

Lemma inv_exec_gen inputs : forall s reqs, Inv s reqs -> Inv (fold_left step inputs s) (reqs ++ reqs_of inputs).
Proof.
  induction inputs as [|i inputs IH]; intros s reqs H; cbn [fold_left reqs_of].
  - rewrite app_nil_r. exact H.
  - apply (inv_step s reqs i) in H. destruct i as [o b|r].
    + specialize (IH _ _ H). rewrite <- app_assoc in IH. exact IH.
    + apply IH. exact H.
Qed.

Lemma inv_exec inputs : Inv (exec inputs) (reqs_of inputs).
Proof. apply (inv_exec_gen inputs init [] inv_init). Qed.

(* ---- the property-level statements ---- *)

Definition is_prefix {A} (a b : list A) : Prop := exists c, b = a ++ c.

Lemma fifo_order_ok inputs :
  is_prefix (started_ids (events (exec inputs))) (requested_ids inputs).
Proof.
  destruct (inv_exec inputs) as [[q [_ Hst]] _ _]. exists (map fst q).
  rewrite requested_ids_reqs. symmetry. exact Hst.
Qed.

Lemma nonoverlap_ok inputs : scan None (events (exec inputs)) = Some (waiting (exec inputs)).
Proof. destruct (inv_exec inputs) as [_ H _]. exact H. Qed.

(* when nothing is running, the trace is perfectly bracketed *)
Lemma nonoverlap_idle inputs :
  waiting (exec inputs) = None -> nonoverlap None (events (exec inputs)) = true.
Proof. intro W. apply scan_nonoverlap. rewrite nonoverlap_ok, W. reflexivity. Qed.

(* no blocking: when nothing is running every requested operation has been started
   (whatever mix of failures occurred before it) *)
Lemma all_started_when_idle inputs :
  waiting (exec inputs) = None -> started_ids (events (exec inputs)) = requested_ids inputs.
Proof.
  intro W. destruct (inv_exec inputs) as [[q [Hq Hst]] _ _]. rewrite W in Hq.
  destruct Hq as [_ [_ Hq]]. subst q. cbn in Hst. rewrite app_nil_r in Hst.
  rewrite requested_ids_reqs. exact Hst.
Qed.

(* a failure of the running operation starts the next queued one at once *)
Lemma next_starts_after_failure inputs :
  forall w, waiting (exec inputs) = Some w ->
  let s' := step (exec inputs) (Complete Fail) in
  (* the failed op is finished and delivered as a failure ... *)
  In (Finished w Fail) (events s') /\ In (Delivered w Fail) (events s') /\
  (* ... and the oldest queued request, if any, has been started *)
  (forall o rest, requested_ids inputs = started_ids (events (exec inputs)) ++ o :: rest ->
                  In (Started o) (events s')).
Proof.
  intros w W s'. destruct (inv_exec inputs) as [[q [Hq Hst]] Hsc Hdl]. rewrite W in Hq.
  unfold s'. cbn [step]. rewrite W, Hq, run_after_complete.
  assert (Hin : forall tr e, In e tr -> forall q0, In e (trace (drain q0 tr))).
  { intros tr e He q0. revert tr He. induction q0 as [|[o1 b1] q0 IH]; intros tr He; cbn [drain].
    - exact He.
    - destruct b1; [apply IH; right; right; right; exact He | cbn; right; exact He]. }
  split; [|split].
  - unfold events. rewrite <- in_rev. apply Hin. right; left; reflexivity.
  - unfold events. rewrite <- in_rev. apply Hin. left; reflexivity.
  - intros o rest Hreq. rewrite requested_ids_reqs, <- Hst in Hreq.
    apply app_inv_head in Hreq. destruct q as [|[o1 b1] q1]; [discriminate|].
    cbn in Hreq. inversion Hreq; subst o1.
    unfold events. rewrite <- in_rev. cbn [drain]. destruct b1.
    + apply Hin. right; right; left; reflexivity.
    + cbn. left; reflexivity.
Qed.

(* ---- read-modify-write operations serialised this way lose no update ---- *)
Section Modify.
  Variable content : Type.
  Variable modifier : opid -> content -> content.

  Lemma replay_bracketed l : forall store,
    nonoverlap None l = true ->
    replay content modifier l store None = apply_ok content modifier (finished l) store.
  Proof.
    assert (G : forall l store run0 rd,
               nonoverlap run0 l = true ->
               (run0 = None -> rd = None) ->
               (forall o, run0 = Some o -> rd = Some store) ->
               replay content modifier l store rd = apply_ok content modifier (finished l) store).
    { induction l0 as [|e l0 IH]; intros store run0 rd Hn H1 H2; [reflexivity|].
      destruct e as [o|o r|o r]; cbn [nonoverlap replay finished apply_ok] in *.
      - destruct run0; [discriminate|]. apply (IH store (Some o) (Some store)); auto; intros; discriminate.
      - destruct run0 as [o'|]; [|discriminate]. apply andb_prop in Hn. destruct Hn as [_ Hn].
        rewrite (H2 o' eq_refl). destruct r.
        + apply (IH _ None None); auto; intros; discriminate.
        + apply (IH _ None None); auto; intros; discriminate.
      - apply (IH store run0 rd); auto. }
    intros store Hn. apply (G l store None None); auto; intros; discriminate.
  Qed.

  Lemma no_lost_update_ok inputs store :
    waiting (exec inputs) = None ->
    replay content modifier (events (exec inputs)) store None
    = apply_ok content modifier (finished (events (exec inputs))) store.
  Proof. intro W. apply replay_bracketed. apply nonoverlap_idle. exact W. Qed.
End Modify.

(* every result is delivered to its own caller, in order *)
Lemma delivered_eq_finished inputs : delivered (events (exec inputs)) = finished (events (exec inputs)).
Proof. destruct (inv_exec inputs) as [_ _ H]. exact H. Qed.

(* ---- node cache ---- *)
Lemma cache_same_cap_same_node c k f1 f2 :
  let '(c1, n1) := create_from_cap c k f1 in
  let '(_, n2) := create_from_cap c1 k f2 in n1 = n2.
Proof.
  unfold create_from_cap. destruct (cache_lookup c k) eqn:E.
  - rewrite E. reflexivity.
  - cbn [cache_lookup].
    assert (R : forall l : list N, (fix eqb (a b : list N) : bool :=
               match a, b with [], [] => true | x :: a', y :: b' => (x =? y) && eqb a' b' | _, _ => false end) l l = true).
    { induction l as [|x l IH]; [reflexivity|]. rewrite N.eqb_refl. exact IH. }
    rewrite R. reflexivity.
Qed.
