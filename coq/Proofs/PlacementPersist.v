(* C07: a matched entry of any phase survives merging, homeless-share distribution and
   the final round-robin: it is in the returned placement. *)
From Coq Require Import List NArith ZArith Bool Arith Lia.
From Verif Require Import Model.Matching Model.Placement Proofs.Matching Proofs.MatchingLists
     Proofs.Placement Proofs.PlacementStruct.
Import ListNotations.

Lemma dict_set_has : forall (A : Type) k (v : A) d, In (k, v) (dict_set k v d).
Proof.
  intros A k v. induction d as [|[k' v'] r IH]; cbn [dict_set]; [left; reflexivity|].
  destruct (N.eqb k k') eqn:E.
  - apply N.eqb_eq in E. subst k'. left. reflexivity.
  - right. exact IH.
Qed.

Lemma dict_set_NoDup : forall (A : Type) k (v : A) d, NoDup (map fst d) -> NoDup (map fst (dict_set k v d)).
Proof.
  intros A k v. induction d as [|[k' v'] r IH]; intros H; cbn [dict_set map fst].
  - constructor; [intros [] | constructor].
  - cbn [map fst] in H. inversion H as [|x y Hn Hr]; subst. destruct (N.eqb k k') eqn:E; cbn [map fst].
    + constructor; assumption.
    + constructor; [|apply IH; exact Hr]. intro Hin. apply dict_set_keys in Hin. destruct Hin as [Hin|Hin].
      * subst k'. rewrite N.eqb_refl in E. discriminate.
      * contradiction.
Qed.

Definition dfold (l d : list (N * option N)) : list (N * option N) :=
  fold_left (fun d e => dict_set (fst e) (snd e) d) l d.

Lemma dfold_NoDup : forall l d, NoDup (map fst d) -> NoDup (map fst (dfold l d)).
Proof.
  induction l as [|e r IH]; intros d H; cbn [dfold fold_left]; [exact H|].
  apply IH. apply dict_set_NoDup. exact H.
Qed.

Lemma dfold_other : forall l d k v, ~ In k (map fst l) -> In (k, v) d -> In (k, v) (dfold l d).
Proof.
  induction l as [|[k' v'] r IH]; intros d k v Hn H; cbn [dfold fold_left fst snd]; [exact H|].
  cbn [map fst In] in Hn. apply IH; [intro Hx; apply Hn; right; exact Hx|].
  apply dict_set_other; [intro; subst; apply Hn; left; reflexivity | exact H].
Qed.

Lemma dfold_persist : forall l1 l2 d k v, ~ In k (map fst l2) -> In (k, v) (dfold (l1 ++ (k, v) :: l2) d).
Proof.
  intros l1 l2 d k v Hn. unfold dfold. rewrite fold_left_app. cbn [fold_left fst snd].
  apply dfold_other; [exact Hn | apply dict_set_has].
Qed.

Lemma NoDup_keys_split : forall (l1 l2 : list (N * option N)) k v,
  NoDup (map fst (l1 ++ (k, v) :: l2)) -> ~ In k (map fst l2).
Proof.
  intros l1 l2 k v H. rewrite map_app in H. cbn [map fst] in H. apply NoDup_remove_2 in H.
  intro Hin. apply H. apply in_app_iff. right. exact Hin.
Qed.

Lemma merged_NoDup : forall a b c, NoDup (map fst (merge_mappings a b c)).
Proof. intros a b c. unfold merge_mappings. apply (dfold_NoDup _ []). constructor. Qed.

(* an entry of one of the three mappings whose key does not occur later is in the merge *)
Lemma merge_persist_a : forall a b c k v, NoDup (map fst a) -> In (k, v) a ->
  ~ In k (map fst b) -> ~ In k (map fst c) -> In (k, v) (merge_mappings a b c).
Proof.
  intros a b c k v Hnd Hin Hb Hc. apply in_split in Hin. destruct Hin as [a1 [a2 Ea]]. subst a.
  unfold merge_mappings. rewrite <- app_assoc. cbn [app]. apply dfold_persist.
  rewrite !map_app, !in_app_iff. intros [H|[H|H]]; [|contradiction|contradiction].
  apply (NoDup_keys_split _ _ _ _ Hnd). exact H.
Qed.

Lemma merge_persist_b : forall a b c k v, NoDup (map fst b) -> In (k, v) b ->
  ~ In k (map fst c) -> In (k, v) (merge_mappings a b c).
Proof.
  intros a b c k v Hnd Hin Hc. apply in_split in Hin. destruct Hin as [b1 [b2 Eb]]. subst b.
  unfold merge_mappings. rewrite <- app_assoc. cbn [app]. rewrite app_assoc. apply dfold_persist.
  rewrite map_app, in_app_iff. intros [H|H]; [|contradiction].
  apply (NoDup_keys_split _ _ _ _ Hnd). exact H.
Qed.

Lemma merge_persist_c : forall a b c k v, NoDup (map fst c) -> In (k, v) c -> In (k, v) (merge_mappings a b c).
Proof.
  intros a b c k v Hnd Hin. apply in_split in Hin. destruct Hin as [c1 [c2 Ec]]. subst c.
  unfold merge_mappings. rewrite !app_assoc. apply dfold_persist.
  apply (NoDup_keys_split _ _ _ _ Hnd).
Qed.

(* ---------- homeless shares --------------------------------------------------------------------- *)

Lemma homeless_of_In : forall m s, In s (homeless_of m) <-> In (s, None) m.
Proof.
  intros m s. unfold homeless_of.
  assert (H : forall l acc, In s (fold_left (fun acc (e : N * option N) => match snd e with None => add_set (fst e) acc | Some _ => acc end) l acc)
                           <-> In s acc \/ In (s, None) l).
  { induction l as [|[k v] r IH]; intros acc; cbn [fold_left fst snd In].
    - tauto.
    - rewrite IH. destruct v as [q|].
      + split; [intros [H|H]; [left; exact H | right; right; exact H] | intros [H|[H|H]]; [left; exact H | discriminate | right; exact H]].
      + rewrite add_set_In. split.
        * intros [[H|H]|H]; [right; left; subst; reflexivity | left; exact H | right; right; exact H].
        * intros [H|[H|H]]; [left; right; exact H | inversion H; subst; left; left; reflexivity | right; exact H]. }
  rewrite H. cbn [In]. tauto.
Qed.

Lemma distribute_persist : forall shares pq m m' k v, distribute shares pq m = Some m' ->
  ~ In k shares -> In (k, v) m -> In (k, v) m'.
Proof.
  induction shares as [|s r IH]; intros pq m m' k v H Hn Hin; cbn [distribute] in H.
  - inversion H; subst. exact Hin.
  - destruct pq as [|e rest]; [discriminate|]. apply (IH _ _ _ _ _ H).
    + intro Hx. apply Hn. right. exact Hx.
    + apply dict_set_other; [intro; subst; apply Hn; left; reflexivity | exact Hin].
Qed.

Lemma lease_fold_persist : forall wp2s shareids homeless m td m1 td1 k v,
  fold_left (fun (st : list (N * option N) * list N) share =>
               let '(mm, td) := st in
               if memN share shareids
               then match first_holder share wp2s with
                    | Some p => (dict_set share (Some p) mm, td)
                    | None => (mm, td)
                    end
               else (mm, add_set share td)) homeless (m, td) = (m1, td1) ->
  (~ In k homeless -> In (k, v) m -> In (k, v) m1) /\
  (forall x, In x td1 -> In x td \/ In x homeless).
Proof.
  intros wp2s shareids. induction homeless as [|s r IH]; intros m td m1 td1 k v H; cbn [fold_left] in H.
  - inversion H; subst. split; [auto | intros x Hx; left; exact Hx].
  - destruct (memN s shareids).
    + destruct (first_holder s wp2s) as [q|].
      * destruct (IH _ _ _ _ k v H) as [H1 H2]. split.
        -- intros Hn Hin. apply H1; [intro Hx; apply Hn; right; exact Hx|].
           apply dict_set_other; [intro; subst; apply Hn; left; reflexivity | exact Hin].
        -- intros x Hx. destruct (H2 x Hx) as [H3|H3]; [left; exact H3 | right; right; exact H3].
      * destruct (IH _ _ _ _ k v H) as [H1 H2]. split.
        -- intros Hn Hin. apply H1; [intro Hx; apply Hn; right; exact Hx | exact Hin].
        -- intros x Hx. destruct (H2 x Hx) as [H3|H3]; [left; exact H3 | right; right; exact H3].
    + destruct (IH _ _ _ _ k v H) as [H1 H2]. split.
      * intros Hn Hin. apply H1; [intro Hx; apply Hn; right; exact Hx | exact Hin].
      * intros x Hx. destruct (H2 x Hx) as [H3|H3]; [|right; right; exact H3].
        apply add_set_In in H3. destruct H3 as [H3|H3]; [right; left; symmetry; exact H3 | left; exact H3].
Qed.

Lemma distribute_homeless_persist : forall os m homeless wp2s m' k v,
  distribute_homeless os m homeless wp2s = Some m' ->
  ~ In k homeless -> In (k, v) m -> In (k, v) m'.
Proof.
  intros os m homeless wp2s m' k v H Hn Hin. unfold distribute_homeless in H.
  match type of H with context [fold_left ?F homeless (m, [])] => destruct (fold_left F homeless (m, [])) as [m1 td] eqn:Ef end.
  destruct (lease_fold_persist _ _ _ _ _ _ _ k v Ef) as [L1 L2].
  destruct (map fst wp2s) as [|k0 ks].
  - inversion H; subst. apply L1; assumption.
  - destruct (ordered (o_todist os td) td) as [tdo|] eqn:Eo; [|discriminate].
    apply (distribute_persist _ _ _ _ _ _ H); [|apply L1; assumption].
    intro Hx. destruct (ordered_spec _ _ _ Eo) as [_ [_ [_ Hsub]]].
    destruct (L2 k (Hsub k Hx)) as [[]|H3]. contradiction.
Qed.

Lemma round_robin_persist : forall rr m i res k p, round_robin rr i m = Some res ->
  In (k, Some p) m -> In (k, p) res.
Proof.
  intros rr. induction m as [|[k' [q|]] r IH]; intros i res k p H Hin; cbn [round_robin] in H; [destruct Hin| |].
  - destruct (round_robin rr i r) as [t|] eqn:E; [|discriminate]. inversion H; subst.
    destruct Hin as [Hin|Hin]; [inversion Hin; subst; left; reflexivity | right; apply (IH _ _ _ _ E Hin)].
  - destruct (nth_error rr (i mod length rr)); [|discriminate].
    destruct (round_robin rr (S i) r) as [t|] eqn:E; [|discriminate]. inversion H; subst.
    destruct Hin as [Hin|Hin]; [discriminate | right; apply (IH _ _ _ _ E Hin)].
Qed.
