(* C43: ==, != and hash() of capability objects and node objects. *)
From Coq Require Import String List NArith ZArith PeanoNat Bool Lia.
From Verif Require Import Lib.Hex Lib.Bytes Gen.Uri Model.UriBase32 Model.Uri Model.UriNodes Proofs.UriBase32 Proofs.UriParse.
Import ListNotations.
Local Open Scope N_scope.

Lemma opt_eqb_eq (a b : option bytes) : opt_eqb list_N_eqb a b = true <-> a = b.
Proof.
  destruct a as [x|], b as [y|]; cbn; split; intro H; try discriminate; try reflexivity.
  - apply list_N_eqb_eq in H. subst. reflexivity.
  - injection H as ->. apply list_N_eqb_eq. reflexivity.
Qed.

Lemma opt_eqb_sym (a b : option bytes) : opt_eqb list_N_eqb a b = opt_eqb list_N_eqb b a.
Proof.
  destruct (opt_eqb list_N_eqb a b) eqn:E1, (opt_eqb list_N_eqb b a) eqn:E2; try reflexivity.
  - apply opt_eqb_eq in E1. subst. assert (opt_eqb list_N_eqb b b = true) by (apply opt_eqb_eq; reflexivity). congruence.
  - apply opt_eqb_eq in E2. subst. assert (opt_eqb list_N_eqb a a = true) by (apply opt_eqb_eq; reflexivity). congruence.
Qed.

(* ------------------------------------------------------------------- caps *)
(* _BaseURI objects: equal exactly when the strings are equal *)
Theorem cap_eq_iff_same_string_ok a b : known (co_cap a) = true -> known (co_cap b) = true ->
  (cap_eq a b = true <-> to_string (co_cap a) = to_string (co_cap b)).
Proof. intros Ka Kb. unfold cap_eq. rewrite Ka, Kb. apply list_N_eqb_eq. Qed.

(* ... and, for well-formed caps, exactly when they are the same capability *)
Theorem cap_eq_iff_same_cap_ok a b : wf_cap (co_cap a) = true -> wf_cap (co_cap b) = true ->
  (cap_eq a b = true <-> co_cap a = co_cap b).
Proof.
  intros Wa Wb.
  assert (Ka : known (co_cap a) = true) by (destruct (co_cap a); [reflexivity|reflexivity|discriminate]).
  assert (Kb : known (co_cap b) = true) by (destruct (co_cap b); [reflexivity|reflexivity|discriminate]).
  rewrite (cap_eq_iff_same_string_ok a b Ka Kb). split.
  - apply to_string_injective; assumption.
  - intros ->. reflexivity.
Qed.

Theorem cap_ne_is_negation_ok a b : cap_ne a b = negb (cap_eq a b).
Proof. unfold cap_ne, cap_eq. destruct (known (co_cap a)), (known (co_cap b)); reflexivity. Qed.

Theorem cap_eq_implies_same_hash_ok a b : cap_eq a b = true -> cap_hash a = cap_hash b.
Proof.
  unfold cap_eq, cap_hash. destruct (known (co_cap a)), (known (co_cap b)); intro H; try discriminate.
  - apply list_N_eqb_eq in H. rewrite H. reflexivity.
  - apply N.eqb_eq in H. rewrite H. reflexivity.
Qed.

(* UnknownURI defines no __eq__: two objects holding the same string are unequal *)
Theorem unknown_uri_eq_refuted :
  exists a b, to_string (co_cap a) = to_string (co_cap b) /\ co_id a <> co_id b /\ cap_eq a b = false.
Proof.
  exists {| co_id := 1; co_cap := CUnknown [102; 111; 111] ENone |}, {| co_id := 2; co_cap := CUnknown [102; 111; 111] ENone |}.
  repeat split. discriminate.
Qed.

(* ------------------------------------------------------------------ nodes *)
Definition node_cap (n : node) : option capobj :=
  match n with
  | NodeImmutable _ u | NodeLiteral _ u | NodeMutable _ u | NodeDirectory _ u | NodeCiphertext _ u => Some u
  | NodeUnknown _ _ _ => None
  end.

Lemma node_wf_known n u : node_wf n = true -> node_cap n = Some u -> known (co_cap u) = true.
Proof.
  destruct n; cbn [node_wf node_cap]; intros W E; try discriminate; injection E as E; subst;
    match goal with |- known (co_cap ?y) = true => destruct (co_cap y) end; try discriminate; reflexivity.
Qed.

(* nodes of different classes wrap caps of different kinds, hence different strings *)
Lemma cross_class_strings_differ a b ua ub :
  node_wf a = true -> node_wf b = true -> node_cap a = Some ua -> node_cap b = Some ub ->
  to_string (co_cap ua) = to_string (co_cap ub) ->
  match a, b with
  | NodeImmutable _ _, NodeImmutable _ _ | NodeLiteral _ _, NodeLiteral _ _ | NodeMutable _ _, NodeMutable _ _
  | NodeDirectory _ _, NodeDirectory _ _ | NodeCiphertext _ _, NodeCiphertext _ _ => True
  | _, _ => False
  end.
Proof.
  intros Wa Wb Ea Eb E.
  destruct a, b; cbn [node_cap] in Ea, Eb; try discriminate; try exact I;
    injection Ea as <-; injection Eb as <-; cbn [node_wf] in Wa, Wb;
    destruct (co_cap u) as [fa|fa|sa ea]; try discriminate Wa;
    destruct (co_cap u0) as [fb|fb|sb eb]; try discriminate Wb;
    destruct fa; try discriminate Wa; destruct fb; try discriminate Wb;
    match type of E with
    | to_string (CFile ?x) = to_string (CFile ?y) => destruct (to_string_kind false x false y E) as [_ K]; discriminate K
    | to_string (CFile ?x) = to_string (CDir ?y) => destruct (to_string_kind false x true y E) as [K _]; discriminate K
    | to_string (CDir ?x) = to_string (CFile ?y) => destruct (to_string_kind true x false y E) as [K _]; discriminate K
    end.
Qed.

(* file nodes (immutable, literal, mutable) and unknown nodes compare by capability string *)
Theorem node_eq_iff_same_string_ok a b :
  node_wf a = true -> node_wf b = true -> compares_by_cap a = true -> compares_by_cap b = true ->
  (node_eq a b = true <-> node_key a = node_key b).
Proof.
  intros Wa Wb Ca Cb.
  destruct a as [i u|i u|i u|i u|i u|i rw ro]; try discriminate Ca;
    destruct b as [j v|j v|j v|j v|j v|j rw' ro']; try discriminate Cb; cbn [node_eq node_key].
  (* same class: cap_eq <-> strings *)
  all: try (rewrite cap_eq_iff_same_string_ok;
            [split; [intros ->; reflexivity|intro H; injection H; auto]
            |eapply node_wf_known; [exact Wa|reflexivity]|eapply node_wf_known; [exact Wb|reflexivity]]).
  (* different classes: never equal, and the strings differ *)
  all: try (split; [discriminate|]; intro H; try discriminate H; injection H as H; exfalso;
            match goal with
            | |- False => first
                [ exact (cross_class_strings_differ (NodeImmutable i u) (NodeLiteral j v) u v Wa Wb eq_refl eq_refl H)
                | exact (cross_class_strings_differ (NodeImmutable i u) (NodeMutable j v) u v Wa Wb eq_refl eq_refl H)
                | exact (cross_class_strings_differ (NodeLiteral i u) (NodeImmutable j v) u v Wa Wb eq_refl eq_refl H)
                | exact (cross_class_strings_differ (NodeLiteral i u) (NodeMutable j v) u v Wa Wb eq_refl eq_refl H)
                | exact (cross_class_strings_differ (NodeMutable i u) (NodeImmutable j v) u v Wa Wb eq_refl eq_refl H)
                | exact (cross_class_strings_differ (NodeMutable i u) (NodeLiteral j v) u v Wa Wb eq_refl eq_refl H) ]
            end).
  (* UnknownNode vs UnknownNode *)
  rewrite andb_true_iff, !opt_eqb_eq. split.
  - intros [-> ->]. reflexivity.
  - intro H. injection H as -> ->. split; reflexivity.
Qed.

Theorem node_ne_is_negation_ok a b : node_ne a b = negb (node_eq a b).
Proof.
  destruct a, b; cbn [node_ne node_eq]; try reflexivity. apply cap_ne_is_negation_ok.
Qed.

Theorem node_eq_implies_same_hash_ok a b : node_eq a b = true -> node_hash a = node_hash b.
Proof.
  destruct a, b; cbn [node_eq node_hash]; intro H; try discriminate; try reflexivity;
    try (rewrite (cap_eq_implies_same_hash_ok _ _ H); reflexivity);
    apply N.eqb_eq in H; subst; reflexivity.
Qed.

(* with object identities behaving like identities, identity-compared nodes that are equal are the same object *)
Theorem node_eq_sym_ok a b : node_eq a b = node_eq b a.
Proof.
  destruct a, b; cbn [node_eq]; try reflexivity;
    try (unfold cap_eq; destruct (known (co_cap u)), (known (co_cap u0)); try reflexivity;
         [destruct (list_N_eqb (to_string (co_cap u)) (to_string (co_cap u0))) eqn:E1,
                   (list_N_eqb (to_string (co_cap u0)) (to_string (co_cap u))) eqn:E2; try reflexivity;
          [apply list_N_eqb_eq in E1; rewrite E1 in E2; assert (list_N_eqb (to_string (co_cap u0)) (to_string (co_cap u0)) = true) by (apply list_N_eqb_eq; reflexivity); congruence
          |apply list_N_eqb_eq in E2; rewrite E2 in E1; assert (list_N_eqb (to_string (co_cap u)) (to_string (co_cap u)) = true) by (apply list_N_eqb_eq; reflexivity); congruence]
         |apply N.eqb_sym]);
    try apply N.eqb_sym.
  rewrite (opt_eqb_sym ro0 ro), (opt_eqb_sym rw0 rw). reflexivity.
Qed.

(* DirectoryNode and CiphertextFileNode define neither __eq__ nor __hash__: two
   node objects for the same capability compare unequal *)
Definition sample_ssk : filecap := SSK (repeat 1 16) (repeat 2 32).
Definition sample_chkv : filecap := CHKVerifier (repeat 1 16) (repeat 2 32) 3 10 1000.

Theorem directory_node_eq_refuted :
  exists a b, node_wf a = true /\ node_wf b = true /\ node_key a = node_key b /\ node_id a <> node_id b /\ node_eq a b = false.
Proof.
  exists (NodeDirectory 1 {| co_id := 11; co_cap := CDir sample_ssk |}), (NodeDirectory 2 {| co_id := 12; co_cap := CDir sample_ssk |}).
  repeat split. discriminate.
Qed.

Theorem ciphertext_node_eq_refuted :
  exists a b, node_wf a = true /\ node_wf b = true /\ node_key a = node_key b /\ node_id a <> node_id b /\ node_eq a b = false.
Proof.
  exists (NodeCiphertext 1 {| co_id := 11; co_cap := CFile sample_chkv |}), (NodeCiphertext 2 {| co_id := 12; co_cap := CFile sample_chkv |}).
  repeat split. discriminate.
Qed.
