(* Model of the immutable checker / verifier / repairer.

   Mirrors:
     immutable/checker.py   ValidatedExtendedURIProxy._check_integrity/_parse_and_validate,
                            ValidatedReadBucketProxy.get_all_sharehashes/get_all_blockhashes/
                            get_all_crypttext_hashes/get_block/_got_data,
                            Checker._download_and_verify (verdict per share),
                            Checker._verify_server_shares/_check_server_shares (per server),
                            Checker._format_results (health decision)
     immutable/layout.py    ReadBucketProxy (what is read from where; abstracted into `vshare`)
     immutable/filenode.py  CiphertextFileNode._gather_repair_results (post-repair decision)
     immutable/repairer.py  Repairer: download the verified ciphertext, re-encode with (k, N,
                            segment size) of the cap / the validated UEB
   Hash trees: Model/HashTree.v (C35).  Genuine file, cap, UEB: Model/ImmVerify.v.

   `anchor`: ValidatedReadBucketProxy._got_data compares the root of the block hash tree with
   the share's leaf of the share hash tree on every block (anchor = true, the code as fixed in
   /repo).  Before the fix it did so only `if not self.block_hash_tree[0]`, which is never the
   case once get_all_blockhashes() has filled the tree from the share itself (anchor = false):
   Proofs/ImmCheck.v keeps the refutation witness for that variant.

   No proofs in this file. *)
From Coq Require Import List ZArith NArith Bool.
From Verif Require Import Gen.ImmConsts Model.HashTree Model.ImmFile Model.ImmVerify.
Import ListNotations.
Local Open Scope Z_scope.

Inductive ueb_read (UB : Type) :=
| UebBytes (b : UB)      (* the length field and that many bytes were read *)
| UebShort               (* LayoutInvalid: not enough bytes for the length field *)
| UebTooLarge.           (* RidiculouslyLargeURIExtensionBlock: length >= 2000 *)
Arguments UebBytes {UB}. Arguments UebShort {UB}. Arguments UebTooLarge {UB}.

(* what the verifier reads out of one share through ReadBucketProxy *)
Record vshare (H UB : Type) := mkVshare {
  v_version : N;
  v_ueb : ueb_read UB;
  v_share_hashes : option (list (Z * H));   (* None = LayoutInvalid (size not a multiple of 34, short read) *)
  v_block_hashes : list H;                  (* [block_hashes, share_hashes) cut in 32-byte pieces *)
  v_ct_hashes : list H;                     (* [crypttext_hash_tree, block_hashes) cut in 32-byte pieces *)
  v_blocks : list (Z * list N) }.           (* block number -> the bytes read for it (absent = b"") *)
Arguments mkVshare {H UB}. Arguments v_version {H UB}. Arguments v_ueb {H UB}. Arguments v_share_hashes {H UB}.
Arguments v_block_hashes {H UB}. Arguments v_ct_hashes {H UB}. Arguments v_blocks {H UB}.

Inductive verdict :=
| VGood            (* (True, sharenum, None) *)
| VCorrupt         (* (False, sharenum, 'corrupt') *)
| VIncompatible    (* (False, sharenum, 'incompatible') *)
| VError.          (* the Deferred errbacks: the whole check fails (BadURIExtension, IndexError, ...) *)

Definition verdict_code (v : verdict) : N :=
  match v with VGood => 0 | VCorrupt => 1 | VIncompatible => 2 | VError => 3 end%N.

Fixpoint enumerate_from {A} (i : Z) (l : list A) : list (Z * A) :=
  match l with
  | [] => []
  | x :: r => (i, x) :: enumerate_from (i + 1) r
  end.
Definition enumerate {A} (l : list A) : list (Z * A) := enumerate_from 0 l.

Definition opt_is {A} (eqb : A -> A -> bool) (o : option A) (v : A) : bool :=
  match o with None => true | Some x => eqb x v end.
Definition n3_eqb (a b : N * N * N) : bool :=
  match a, b with (a1, a2, a3), (b1, b2, b3) => (a1 =? b1)%N && (a2 =? b2)%N && (a3 =? b3)%N end.

Section ImmCheck.
  Variable H : Type.
  Variable H_eqb : H -> H -> bool.
  Variable pair_hash : H -> H -> H.
  Variable truthy : H -> bool.
  Variable block_hash : list N -> H.
  Variable UB : Type.
  Variable ueb_hash : UB -> H.
  Variable parse_ueb : UB -> option (ueb H).

  Notation set_hashes := (set_hashes H H_eqb pair_hash truthy).
  Notation needed_hashes := (needed_hashes H).

  (* ValidatedExtendedURIProxy._parse_and_validate: the computed sizes *)
  Record vsizes := mkVs { vs_segment_size : N; vs_block_size : N; vs_num_segments : N; vs_tail_segment_size : N; vs_share_size : N }.
  Definition ueb_sizes (c : cap H) (u : ueb H) : vsizes :=
    let ss := u_segment_size u in
    let tail_data := if (c_size c mod ss =? 0)%N then ss else (c_size c mod ss)%N in
    mkVs ss (div_ceil ss (c_k c)) (div_ceil (c_size c) ss) (next_multiple tail_data (c_k c)) (div_ceil (c_size c) (c_k c)).

  (* ... and the consistency rules; false = BadURIExtension / UnsupportedErasureCodec (or
     ZeroDivisionError for a zero segment size): none of them is caught by _download_and_verify *)
  Definition ueb_consistent (c : cap H) (u : ueb H) : bool :=
    let s := ueb_sizes c u in
    negb (u_segment_size u =? 0)%N && negb (c_k c =? 0)%N &&
    opt_is N.eqb (u_crypttext_hash_len u) 32%N &&
    u_codec_ok u &&
    opt_is n3_eqb (u_codec_params u) (vs_segment_size s, c_k c, c_n c) &&
    opt_is n3_eqb (u_tail_codec_params u) (vs_tail_segment_size s, c_k c, c_n c) &&
    opt_is N.eqb (u_num_segments u) (vs_num_segments s) &&
    opt_is N.eqb (u_size u) (c_size c) &&
    opt_is N.eqb (u_needed_shares u) (c_k c) &&
    opt_is N.eqb (u_total_shares u) (c_n c).

  (* get_all_*hashes and the share hash step of _got_data turn IndexError into BadOrMissingHash *)
  Definition rej (e : err) : verdict := match e with Crash => VError | _ => VCorrupt end.
  (* the block hash tree steps of _got_data catch only BadHashError / NotEnoughHashesError *)
  Definition rej_strict (e : err) : verdict :=
    match e with BadHashError | NotEnoughHashesError => VCorrupt | _ => VError end.

  (* one ValidatedReadBucketProxy.get_block(blocknum) + _got_data: returns the trees or a verdict *)
  Definition verify_block (anchor : bool) (nsh nseg sharenum blocknum : Z) (vs : vshare H UB)
             (sht bht : tree H) (ords : nat -> list Z) : (tree H * tree H) + verdict :=
    let flS := first_leaf_num nsh in
    let flB := first_leaf_num nseg in
    match needed_hashes flS sht sharenum false with
    | None => inr VError                       (* IndexError out of get_block itself *)
    | Some ndS =>
      (* `if self.share_hash_tree.needed_hashes(self.sharenum): set_hashes(sharehashes)` *)
      match (match ndS with
             | [] => inl sht
             | _ => match v_share_hashes vs with
                    | None => inr VCorrupt
                    | Some l => match set_hashes flS sht (pydict l) [] (ords 0%nat) with
                                | Accepted _ T => inl T
                                | Rejected _ e _ => inr (rej e)
                                end
                    end
             end) with
      | inr v => inr v
      | inl sht1 =>
        (* the root of the block hash tree is the share's leaf of the share hash tree *)
        match (if anchor || negb (is_truthy H truthy (match get bht 0 with Some v => v | None => None end))
               then match get sht1 (flS + sharenum) with
                    | Some (Some h) =>
                        match set_hashes flB bht [(0, h)] [] (ords 1%nat) with
                        | Accepted _ T => inl T
                        | Rejected _ e _ => inr (rej_strict e)
                        end
                    | Some None => inr VCorrupt          (* NotEnoughHashesError *)
                    | None => inr VError
                    end
               else inl bht) with
        | inr v => inr v
        | inl bht1 =>
          match needed_hashes flB bht1 blocknum false with
          | None => inr VError
          | Some ndB =>
            (* `if self.block_hash_tree.needed_hashes(blocknum): set_hashes(blockhashes)`; the block
               hashes were fetched iff needed_hashes(blocknum, include_leaf=True) - {0} was non-empty
               when get_block was called *)
            match (match ndB with
                   | [] => inl bht1
                   | _ =>
                     let fetched := match needed_hashes flB bht blocknum true with
                                    | Some nd => negb (match zdiscard 0 nd with [] => true | _ => false end)
                                    | None => false
                                    end in
                     match set_hashes flB bht1 (if fetched then enumerate (v_block_hashes vs) else []) [] (ords 2%nat) with
                     | Accepted _ T => inl T
                     | Rejected _ e _ => inr (rej_strict e)
                     end
                   end) with
            | inr v => inr v
            | inl bht2 =>
              let data := match zassoc blocknum (v_blocks vs) with Some d => d | None => [] end in
              match set_hashes flB bht2 [] [(blocknum, block_hash data)] (ords 3%nat) with
              | Accepted _ T => inl (sht1, T)
              | Rejected _ e _ => inr (rej_strict e)
              end
            end
          end
        end
      end
    end.

  Fixpoint verify_blocks (anchor : bool) (nsh nseg sharenum : Z) (vs : vshare H UB) (todo : list Z)
           (sht bht : tree H) (ords : nat -> nat -> list Z) : verdict :=
    match todo with
    | [] => VGood
    | b :: r =>
      match verify_block anchor nsh nseg sharenum b vs sht bht (ords (Z.to_nat b)) with
      | inr v => v
      | inl (sht', bht') => verify_blocks anchor nsh nseg sharenum vs r sht' bht' ords
      end
    end.

  Definition zrange (n : Z) : list Z := map Z.of_nat (seq 0 (Z.to_nat n)).

  (* Checker._download_and_verify for the share the server calls `sharenum` *)
  Definition verify_share_gen (anchor : bool) (c : cap H) (sharenum : Z) (vs : vshare H UB)
             (ords0 : nat -> list Z) (ords : nat -> nat -> list Z) : verdict :=
    if negb ((v_version vs =? 1) || (v_version vs =? 2))%N then VIncompatible else
    match v_ueb vs with
    | UebShort | UebTooLarge => VCorrupt
    | UebBytes b =>
      if negb (H_eqb (ueb_hash b) (c_ueb_hash c)) then VCorrupt else      (* BadURIExtensionHashValue *)
      match parse_ueb b with
      | None => VError
      | Some u =>
        if negb (ueb_consistent c u) then VError else
        let nsh := Z.of_N (c_n c) in
        let nseg := Z.of_N (vs_num_segments (ueb_sizes c u)) in
        match seed_root H H_eqb pair_hash truthy nsh (fresh_tree H nsh) (u_share_root u) (ords0 0%nat) with
        | Rejected _ e _ => rej e
        | Accepted _ sht0 =>
          (* get_all_sharehashes *)
          match v_share_hashes vs with
          | None => VCorrupt
          | Some l =>
            match set_hashes (first_leaf_num nsh) sht0 (pydict l) [] (ords0 1%nat) with
            | Rejected _ e _ => rej e
            | Accepted _ sht1 =>
              (* get_all_blockhashes: a new tree WITHOUT a root, filled from the share *)
              let bht0 := fresh_tree H nseg in
              if zlen (v_block_hashes vs) <? zlen bht0 then VCorrupt else
              match set_hashes (first_leaf_num nseg) bht0 (enumerate (v_block_hashes vs)) [] (ords0 2%nat) with
              | Rejected _ e _ => rej e
              | Accepted _ bht1 =>
                (* get_all_crypttext_hashes on a tree holding the UEB's crypttext_root_hash *)
                match seed_root H H_eqb pair_hash truthy nseg (fresh_tree H nseg) (u_crypttext_root u) (ords0 3%nat) with
                | Rejected _ e _ => rej e
                | Accepted _ cht0 =>
                  if zlen (v_ct_hashes vs) <? zlen cht0 then VCorrupt else
                  match set_hashes (first_leaf_num nseg) cht0 (enumerate (v_ct_hashes vs)) [] (ords0 4%nat) with
                  | Rejected _ e _ => rej e
                  | Accepted _ _ =>
                    verify_blocks anchor nsh nseg sharenum vs (zrange nseg) sht1 bht1 ords
                  end
                end
              end
            end
          end
        end
      end
    end.

  Definition verify_share := verify_share_gen true.

  (* ---- per server, and the health decision ---------------------------------------------------- *)
  (* one element of the list Checker.start hands to _format_results *)
  Record server_result := mkSr {
    sr_server : Z; sr_verified : list Z; sr_corrupt : list Z; sr_incompatible : list Z; sr_responded : bool }.

  Definition zdedup (l : list Z) : list Z := nodup Z.eq_dec l.

  (* _verify_server_shares: None = one of the share verifications errbacked *)
  Definition verify_server (c : cap H) (server : Z) (shares : list (Z * vshare H UB))
             (ords0 : Z -> nat -> list Z) (ords : Z -> nat -> nat -> list Z) : option server_result :=
    let vs := map (fun p => (fst p, verify_share c (fst p) (snd p) (ords0 (fst p)) (ords (fst p)))) shares in
    if existsb (fun p => match snd p with VError => true | _ => false end) vs then None
    else Some (mkSr server
                    (zdedup (map fst (filter (fun p => match snd p with VGood => true | _ => false end) vs)))
                    (zdedup (map fst (filter (fun p => match snd p with VCorrupt => true | _ => false end) vs)))
                    (zdedup (map fst (filter (fun p => match snd p with VIncompatible => true | _ => false end) vs)))
                    true).

  (* _check_server_shares: the server's word is taken *)
  Definition check_server (server : Z) (claimed : list Z) (responded : bool) : server_result :=
    mkSr server (zdedup claimed) [] [] responded.

  Record check_results := mkCr {
    cr_healthy : bool; cr_recoverable : bool;
    cr_good : N;                 (* count_shares_good = len(verifiedshares) *)
    cr_good_hosts : N;           (* count_good_share_hosts *)
    cr_corrupt : N; cr_incompatible : N;
    cr_sharemap : list Z }.      (* keys of the sharemap *)

  Definition good_shares (rs : list server_result) : list Z := zdedup (flat_map sr_verified rs).

  (* Checker._format_results; None = `assert len(verifiedshares) <= total_shares` fails *)
  Definition format_results (k n : N) (rs : list server_result) : option check_results :=
    let good := good_shares rs in
    let cnt := N.of_nat (length good) in
    if (n <? cnt)%N then None else
    Some (mkCr (cnt =? n)%N (k <=? cnt)%N cnt
               (N.of_nat (length (zdedup (map sr_server (filter (fun r => negb (match sr_verified r with [] => true | _ => false end)) rs)))))
               (N.of_nat (length (flat_map sr_corrupt rs))) (N.of_nat (length (flat_map sr_incompatible rs)))
               good).

  (* CiphertextFileNode._gather_repair_results: pre-repair sharemap plus what the upload placed *)
  Definition post_repair (k n : N) (pre : check_results) (placed : list Z) : check_results :=
    let sm := zdedup (cr_sharemap pre ++ placed) in
    let cnt := N.of_nat (length sm) in
    mkCr (n <=? cnt)%N (k <=? cnt)%N cnt (cr_good_hosts pre) (cr_corrupt pre) (cr_incompatible pre) sm.

  (* what a genuine share looks like to the verifier *)
  Definition vshare_of (sh : share H UB) (nseg_nodes : Z) : vshare H UB :=
    mkVshare (s_version sh)
             (match s_ueb sh with Some b => UebBytes b | None => UebShort end)
             (s_share_hashes sh)
             (map snd (s_block_hashes sh)) (map snd (s_ct_hashes sh)) (s_blocks sh).
End ImmCheck.

(* Repairer: the ciphertext read through the validating downloader, encoded again with the
   cap's k and N and the segment size of the validated UEB *)
Definition repair_encode (enc : N -> N -> list (list N) -> list (list N)) (k n segsize : N) (ct : list N) : efile :=
  encode_file enc k n segsize ct.

(* ---- executable instance ----------------------------------------------------------------------- *)
Definition sym_verify_share_gen := verify_share_gen hs hs_eqb HPair sym_truthy HBlock ub sym_ueb_hash sym_parse_ueb.
Definition sym_verify_share := verify_share hs hs_eqb HPair sym_truthy HBlock ub sym_ueb_hash sym_parse_ueb.
Definition sym_vshare_of := vshare_of hs ub.

Definition cr_eqb (a b : check_results) : bool :=
  Bool.eqb (cr_healthy a) (cr_healthy b) && Bool.eqb (cr_recoverable a) (cr_recoverable b) &&
  (cr_good a =? cr_good b)%N && (cr_good_hosts a =? cr_good_hosts b)%N &&
  (cr_corrupt a =? cr_corrupt b)%N && (cr_incompatible a =? cr_incompatible b)%N.
