(* Model of src/allmydata/hashtree.py: CompleteBinaryTreeMixin index arithmetic,
   HashTree.__init__ (padding with empty_leaf_hash(i), rows, flattening),
   IncompleteHashTree.__init__/needed_hashes/set_hashes.

   Node indices and dictionary keys are Python ints (Z): the `hashes`/`leaves`
   arguments of set_hashes are adversarial, so negative keys (Python's
   negative list indexing) and out-of-range keys (IndexError) are modelled.
   The tree is the Python list itself: `list (option H)`.

   Hash values are an abstract type H.  What the code does with them:
     pair_hash a b            (hashtree.pair_hash)
     empty_leaf_hash i        (hashtree.empty_leaf_hash)
     a != b                   (H_eqb)
     `if self[i]:`            truthiness of a bytes object (truthy h = (len h > 0)),
                              which is NOT the same as `self[i] is None`: the code
                              uses both tests and the model keeps them apart.

   Python `set.pop()` picks an arbitrary element.  The model takes the order as
   an argument `ord : list Z` (one entry consumed per pop: that element is
   popped if it is in the set, otherwise the first element of the model's
   representation); theorems quantify over every `ord`.

   Outcome classes: the three exceptions callers catch (BadHashError,
   NotEnoughHashesError, IndexError) and `Crash` for the uncaught
   AssertionError/TypeError paths (proved unreachable in Proofs/HashTree.v).
   The code rolls back `remove_upon_failure` for BadHashError,
   NotEnoughHashesError and IndexError.  No proofs in this file. *)
From Coq Require Import List ZArith Bool.
Import ListNotations.
Local Open Scope Z_scope.

(* ---- Python list indexing ------------------------------------------------ *)
Definition pyidx (n i : Z) : option nat :=
  if (0 <=? i) && (i <? n) then Some (Z.to_nat i)
  else if (i <? 0) && (- n <=? i) then Some (Z.to_nat (i + n))
  else None.

Definition zlen {A} (l : list A) : Z := Z.of_nat (length l).

(* l[i]; None = IndexError *)
Definition get {A} (l : list A) (i : Z) : option A :=
  match pyidx (zlen l) i with
  | Some k => nth_error l k
  | None => None
  end.

Fixpoint upd {A} (l : list A) (k : nat) (v : A) : list A :=
  match l, k with
  | [], _ => []
  | _ :: r, O => v :: r
  | x :: r, S k' => x :: upd r k' v
  end.

(* l[i] = v; None = IndexError *)
Definition put {A} (l : list A) (i : Z) (v : A) : option (list A) :=
  match pyidx (zlen l) i with
  | Some k => Some (upd l k v)
  | None => None
  end.

(* ---- sets of ints, as duplicate-free lists ------------------------------- *)
Fixpoint zmem (x : Z) (s : list Z) : bool :=
  match s with
  | [] => false
  | y :: r => if x =? y then true else zmem x r
  end.
Definition zadd (x : Z) (s : list Z) : list Z := if zmem x s then s else s ++ [x].
Fixpoint zdiscard (x : Z) (s : list Z) : list Z :=
  match s with
  | [] => []
  | y :: r => if x =? y then zdiscard x r else y :: zdiscard x r
  end.

(* set.pop(): the caller-supplied order decides *)
Definition zpop (ord : list Z) (s : list Z) : option (Z * list Z * list Z) :=
  match s with
  | [] => None
  | x :: r =>
      match ord with
      | c :: ord' => if zmem c s then Some (c, zdiscard c s, ord') else Some (x, r, ord')
      | [] => Some (x, r, [])
      end
  end.

(* ---- complete binary tree arithmetic (CompleteBinaryTreeMixin) ----------- *)
(* each returns None where the code raises IndexError; n = len(self) *)
Definition parent (n i : Z) : option Z :=
  if (i <? 1) || (n <=? i) then None else Some ((i - 1) / 2).
Definition lchild (n i : Z) : option Z :=
  let ans := 2 * i + 1 in if (i <? 0) || (n <=? ans) then None else Some ans.
Definition rchild (n i : Z) : option Z :=
  let ans := 2 * i + 2 in if (i <? 0) || (n <=? ans) then None else Some ans.
Definition sibling (n i : Z) : option Z :=
  match parent n i with
  | None => None
  | Some p =>
      match lchild n p with
      | None => None
      | Some lc => if lc =? i then rchild n p else lchild n p
      end
  end.

(* needed_for: `while here != 0: needed.append(sibling(here)); here = parent(here)`.
   Fuel: the walk is at most len steps long; exhausted fuel cannot happen for
   an index inside the tree (Proofs: needed_for_fuel). *)
Fixpoint needed_for_loop (fuel : nat) (n here : Z) : option (list Z) :=
  match fuel with
  | O => if here =? 0 then Some [] else None
  | S f =>
      if here =? 0 then Some []
      else match sibling n here, parent n here with
           | Some s, Some p =>
               match needed_for_loop f n p with
               | Some r => Some (s :: r)
               | None => None
               end
           | _, _ => None
           end
  end.
Definition needed_for (n i : Z) : option (list Z) :=
  if (i <? 0) || (n <=? i) then None else needed_for_loop (Z.to_nat n) n i.

(* mathutil.log_floor(n, 2): largest k with 2^k <= n, and -1 when n <= 0 *)
Definition depth_of (i : Z) : Z := if i + 1 <=? 0 then -1 else Z.log2 (i + 1).

(* roundup_pow2: ans = 1; while ans < x: ans *= 2 *)
Fixpoint roundup_loop (fuel : nat) (ans x : Z) : Z :=
  match fuel with
  | O => ans
  | S f => if ans <? x then roundup_loop f (2 * ans) x else ans
  end.
Definition roundup_pow2 (x : Z) : Z := roundup_loop (Z.to_nat x) 1 x.

Inductive err := BadHashError | NotEnoughHashesError | IndexError | Crash.
Definition err_eqb (a b : err) : bool :=
  match a, b with
  | BadHashError, BadHashError | NotEnoughHashesError, NotEnoughHashesError
  | IndexError, IndexError | Crash, Crash => true
  | _, _ => false
  end.

Section HashTreeModel.
  Variable H : Type.
  Variable H_eqb : H -> H -> bool.
  Variable pair_hash : H -> H -> H.
  Variable truthy : H -> bool.
  Variable empty_leaf_hash : Z -> H.

  Definition tree := list (option H).

  (* ---- HashTree.__init__ ------------------------------------------------- *)
  (* L + [empty_leaf_hash(i) for i in range(start, end)] *)
  Fixpoint pad_from (cnt : nat) (i : Z) : list H :=
    match cnt with
    | O => []
    | S c => empty_leaf_hash i :: pad_from c (i + 1)
    end.
  Definition padded (L : list H) : list H :=
    let start := zlen L in
    let end_ := roundup_pow2 start in
    L ++ pad_from (Z.to_nat (end_ - start)) start.

  (* [pair_hash(last[2i], last[2i+1]) for i in range(len(last)//2)] *)
  Fixpoint pair_up (l : list H) : list H :=
    match l with
    | a :: b :: r => pair_hash a b :: pair_up r
    | _ => []
    end.
  (* rows, deepest first; `while len(rows[-1]) != 1`.  Fuel = len of the bottom row. *)
  Fixpoint rows_loop (fuel : nat) (last : list H) : list (list H) :=
    match fuel with
    | O => [last]
    | S f => if (length last =? 1)%nat then [last] else last :: rows_loop f (pair_up last)
    end.
  (* rows.reverse(); self[:] = sum(rows, []) *)
  Definition hash_tree (L : list H) : list H :=
    let bottom := padded L in concat (rev (rows_loop (length bottom) bottom)).
  Definition first_leaf_num (num_leaves : Z) : Z := roundup_pow2 num_leaves - 1.

  (* ---- IncompleteHashTree.__init__ -------------------------------------- *)
  Definition iht_init (num_leaves : Z) : tree :=
    repeat None (Z.to_nat (2 * roundup_pow2 num_leaves - 1)).

  Definition is_none (o : option H) : bool := match o with None => true | Some _ => false end.
  (* `if self[i]:` *)
  Definition is_truthy (o : option H) : bool := match o with None => false | Some h => truthy h end.

  (* needed_hashes(leafnum, include_leaf): set([i for i in maybe_needed if self[i] is None]).
     Returned as a list (a set in the code; order is irrelevant to callers). *)
  Definition slot_none (T : tree) (i : Z) : bool :=
    match get T i with Some None => true | _ => false end.
  Definition needed_hashes (fl : Z) (T : tree) (leafnum : Z) (include_leaf : bool) : option (list Z) :=
    match needed_for (zlen T) (fl + leafnum) with
    | None => None
    | Some nf =>
        let maybe := if include_leaf then zadd (fl + leafnum) nf else nf in
        Some (filter (slot_none T) maybe)
    end.

  (* ---- set_hashes --------------------------------------------------------- *)
  Fixpoint assoc (k : Z) (d : list (Z * H)) : option H :=
    match d with
    | [] => None
    | (k', h) :: r => if k =? k' then Some h else assoc k r
    end.

  (* new_hashes = hashes.copy(); for leafnum, leafhash in leaves.items(): ...
     None = BadHashError("got conflicting hashes in my arguments"), raised
     before the try block (nothing has been written yet). *)
  Fixpoint merge_leaves (fl : Z) (nh leaves : list (Z * H)) : option (list (Z * H)) :=
    match leaves with
    | [] => Some nh
    | (leafnum, leafhash) :: r =>
        let hashnum := fl + leafnum in
        match assoc hashnum nh with
        | Some h' => if H_eqb h' leafhash then merge_leaves fl nh r else None
        | None => merge_leaves fl (nh ++ [(hashnum, leafhash)]) r
        end
    end.

  (* working state inside the try block *)
  Record wst := mkW { wT : tree; wlv : list (list Z); wruf : list Z }.

  (* one iteration of `for i,h in new_hashes.items()` *)
  Definition stepB (st : wst) (i : Z) (h : H) : wst + (err * wst) :=
    match get (wT st) i with
    | None => inr (IndexError, st)
    | Some cur =>
        if is_truthy cur then
          match cur with
          | Some c => if H_eqb c h then inl st else inr (BadHashError, st)
          | None => inl st
          end
        else
          let level := depth_of i in
          match get (wlv st) level, put (wT st) i (Some h) with
          | Some s, Some T' =>
              match put (wlv st) level (zadd i s) with
              | Some lv' => inl (mkW T' lv' (zadd i (wruf st)))
              | None => inr (IndexError, st)
              end
          | _, _ => inr (IndexError, st)
          end
    end.

  Fixpoint phaseB (nh : list (Z * H)) (st : wst) : wst + (err * wst) :=
    match nh with
    | [] => inl st
    | (i, h) :: r =>
        match stepB st i h with
        | inl st' => phaseB r st'
        | inr e => inr e
        end
    end.

  (* body of `while this_level:` after `i = this_level.pop()`; `cur` is
     this_level (already without i), `level` its index *)
  Definition stepC (level : Z) (i : Z) (cur : list Z) (st : wst) : (list Z * wst) + (err * wst) :=
    if i =? 0 then inl (cur, st)
    else
      let n := zlen (wT st) in
      match sibling n i with
      | None => inr (IndexError, st)
      | Some siblingnum =>
          match get (wT st) siblingnum with
          | None => inr (IndexError, st)
          | Some None => inr (NotEnoughHashesError, st)
          | Some (Some _) =>
              match parent n i with
              | None => inr (IndexError, st)
              | Some parentnum =>
                  let leftnum := Z.min i siblingnum in
                  let rightnum := Z.max i siblingnum in
                  match get (wT st) leftnum, get (wT st) rightnum, get (wT st) parentnum with
                  | Some (Some hl), Some (Some hr), Some pcur =>
                      let new_parent_hash := pair_hash hl hr in
                      if is_truthy pcur then
                        match pcur with
                        | Some ph =>
                            if H_eqb ph new_parent_hash then inl (zdiscard siblingnum cur, st)
                            else inr (BadHashError, st)
                        | None => inr (Crash, st)
                        end
                      else
                        match put (wT st) parentnum (Some new_parent_hash) with
                        | None => inr (IndexError, st)
                        | Some T' =>
                            let ruf' := zadd parentnum (wruf st) in
                            let parent_level := depth_of parentnum in
                            if negb (parent_level =? level - 1) then inr (Crash, mkW T' (wlv st) ruf')
                            else
                              match get (wlv st) parent_level with
                              | None => inr (IndexError, mkW T' (wlv st) ruf')
                              | Some s =>
                                  match put (wlv st) parent_level (zadd parentnum s) with
                                  | None => inr (IndexError, mkW T' (wlv st) ruf')
                                  | Some lv' => inl (zdiscard siblingnum cur, mkW T' lv' ruf')
                                  end
                              end
                        end
                  | Some None, _, _ | _, Some None, _ => inr (Crash, st)   (* pair_hash(None, ..): TypeError *)
                  | _, _, _ => inr (IndexError, st)
                  end
              end
          end
      end.

  (* `while this_level:`.  Nothing is ever added to this_level while it is
     being drained (parents go one level up), so |this_level| iterations
     suffice; Proofs: run_level_drains. *)
  Fixpoint run_level (fuel : nat) (level : Z) (cur : list Z) (st : wst) (ord : list Z)
    : (wst * list Z * list Z) + (err * wst) :=
    match fuel with
    | O => inl (st, ord, cur)
    | S f =>
        match zpop ord cur with
        | None => inl (st, ord, cur)
        | Some (i, cur', ord') =>
            match stepC level i cur' st with
            | inl (cur'', st') => run_level f level cur'' st' ord'
            | inr e => inr e
            end
        end
    end.

  (* `for level in reversed(range(len(hashes_to_check)))`: k = number of levels
     still to do; processes level k-1.  The level's set is taken out of wlv
     while it is drained (it is the same object in the code; parents are added
     to a different level). *)
  Fixpoint run_levels (k : nat) (st : wst) (ord : list Z) : wst + (err * wst) :=
    match k with
    | O => inl st
    | S L =>
        let cur := nth L (wlv st) [] in
        let st0 := mkW (wT st) (upd (wlv st) L []) (wruf st) in
        match run_level (length cur) (Z.of_nat L) cur st0 ord with
        | inl (st', ord', _) => run_levels L st' ord'
        | inr e => inr e
        end
    end.

  (* `for i in remove_upon_failure: self[i] = None` *)
  Fixpoint rollback (T : tree) (ruf : list Z) : tree :=
    match ruf with
    | [] => T
    | i :: r => rollback (match put T i None with Some T' => T' | None => T end) r
    end.

  Inductive outcome :=
  | Accepted (T : tree)
  | Rejected (e : err) (T : tree).   (* T: the tree as the exception leaves it *)

  (* the except clause: (BadHashError, NotEnoughHashesError, IndexError) roll back; anything else propagates as is *)
  Definition handle (e : err) (st : wst) : outcome :=
    match e with
    | Crash => Rejected e (wT st)
    | _ => Rejected e (rollback (wT st) (wruf st))
    end.

  Definition set_hashes (fl : Z) (T : tree) (hashes leaves : list (Z * H)) (ord : list Z) : outcome :=
    match merge_leaves fl hashes leaves with
    | None => Rejected BadHashError T
    | Some new_hashes =>
        let num_levels := depth_of (zlen T - 1) in
        let nl := Z.to_nat (num_levels + 1) in
        let st0 := mkW T (repeat [] nl) [] in
        match phaseB new_hashes st0 with
        | inr (e, st) => handle e st
        | inl st1 =>
            match run_levels (length (wlv st1)) st1 ord with
            | inr (e, st) => handle e st
            | inl st2 => Accepted (wT st2)
            end
        end
    end.
End HashTreeModel.

(* ---- executable instance: free term algebra of hashes ---------------------- *)
(* Leaf n: a caller-supplied leaf hash; Pad i: empty_leaf_hash(i); Pair: pair_hash;
   Junk n: any other byte string, Junk 0 standing for b"" (the only falsy one). *)
Inductive sym := Leaf (n : Z) | Pad (i : Z) | Pair (a b : sym) | Junk (n : Z).

Fixpoint sym_eqb (a b : sym) : bool :=
  match a, b with
  | Leaf x, Leaf y => x =? y
  | Pad x, Pad y => x =? y
  | Junk x, Junk y => x =? y
  | Pair a1 a2, Pair b1 b2 => sym_eqb a1 b1 && sym_eqb a2 b2
  | _, _ => false
  end.
Definition sym_truthy (a : sym) : bool := match a with Junk 0 => false | _ => true end.

Definition sym_tree := tree sym.
Definition sym_hash_tree := hash_tree sym Pair Pad.
Definition sym_set_hashes := set_hashes sym sym_eqb Pair sym_truthy.
Definition sym_needed_hashes := needed_hashes sym.

(* comparisons used by the harness *)
Definition osym_eqb (a b : option sym) : bool :=
  match a, b with
  | None, None => true
  | Some x, Some y => sym_eqb x y
  | _, _ => false
  end.
Fixpoint sym_tree_eqb (a b : list (option sym)) : bool :=
  match a, b with
  | [], [] => true
  | x :: r, y :: s => osym_eqb x y && sym_tree_eqb r s
  | _, _ => false
  end.
Fixpoint sym_list_eqb (a b : list sym) : bool :=
  match a, b with
  | [], [] => true
  | x :: r, y :: s => sym_eqb x y && sym_list_eqb r s
  | _, _ => false
  end.
Definition outcome_eqb (a b : outcome sym) : bool :=
  match a, b with
  | Accepted _ t, Accepted _ u => sym_tree_eqb t u
  | Rejected _ e t, Rejected _ f u => err_eqb e f && sym_tree_eqb t u
  | _, _ => false
  end.
Fixpoint zlist_eqb (a b : list Z) : bool :=
  match a, b with
  | [], [] => true
  | x :: r, y :: s => (x =? y) && zlist_eqb r s
  | _, _ => false
  end.
(* equality of duplicate-free lists as sets *)
Definition zset_eqb (a b : list Z) : bool :=
  (length a =? length b)%nat && forallb (fun x => zmem x b) a.
Definition ozlist_eqb (a b : option (list Z)) : bool :=
  match a, b with
  | None, None => true
  | Some x, Some y => zlist_eqb x y
  | _, _ => false
  end.
Definition oz_eqb (a b : option Z) : bool :=
  match a, b with
  | None, None => true
  | Some x, Some y => x =? y
  | _, _ => false
  end.

(* compact notation for the harness: leaves Leaf i .. and trees given by their present nodes *)
Fixpoint leaf_range (cnt : nat) (i : Z) : list sym :=
  match cnt with
  | O => []
  | S c => Leaf i :: leaf_range c (i + 1)
  end.
Definition sparse (n : Z) (l : list (Z * sym)) : sym_tree :=
  map (fun k => assoc sym (Z.of_nat k) l) (seq 0 (Z.to_nat n)).
