(* C12 (glue between the storage server and the publisher): what a test-and-set request
   reports back, and what the publisher makes of it.

   StorageServer.slot_testv_and_readv_and_writev collects EVERY share the server holds for
   the slot (`shares`), evaluates the test vectors, and -- whatever the request names --
   applies the read vector to all of `shares`, BEFORE any write is applied:
       read_data = self._evaluate_read_vectors(read_vector, shares)
   The publisher's read vector is the checkstring, so the answer tells it the version of
   every share on that server; Publish._got_write_answer (Model/Publish.handle_answer)
   turns a share it is not writing there, of another version, into "surprised". *)
From Coq Require Import List NArith Bool.
From Verif Require Import Model.Publish.
Import ListNotations.
Local Open Scope N_scope.

Definition slot := list (N * N).          (* share number -> id of the version stored, for the shares that exist *)

(* the read half of the answer: all held shares, pre-write contents; the request's own
   share numbers (`named`) do not matter *)
Definition server_read_data (held : slot) (named : list N) : slot := held.

(* the publisher compares each reported checkstring with its own new one *)
Definition report (mine : N) (rd : slot) : list reported :=
  map (fun e => {| r_shnum := fst e; r_is_our_checkstring := (snd e =? mine) |}) rd.

Definition answer_of (mine : N) (wrote : bool) (held : slot) (named : list N) : answer :=
  Answered wrote (report mine (server_read_data held named)).
