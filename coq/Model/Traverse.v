(* C21  Model of DirectoryNode.deep_traverse / _deep_traverse_dirnode /
   _deep_traverse_dirnode_children (src/allmydata/dirnode.py) with the walkers
   ManifestWalker and DeepStats (deep_stats.py), as the code is in /repo now.

   The directory graph is a finite map  node-id -> node.  A node-id stands for
   one node object as the traversal sees it (one cap: the write-cap and the
   read-cap of the same directory are two node-ids with the same verifier);
   `n_obj` is the identity of the underlying object (ghost: the traversal
   never reads it, the theorems are stated in terms of it).

   The code does a strict depth-first walk on one Deferred chain:
     _deep_traverse_dirnode(node, path):   walker.add_node(node, path); children = node.list()
     _deep_traverse_dirnode_children:      walker.enter_directory(parent, children)
        for name, (child, metadata) in sorted(children.items()):
            UnknownNode           -> walker.add_node(child, childpath) at once
            verifier = child.get_verify_cap()
            verifier is not None and verifier in found -> skip
            found.add(verifier);  directory -> dirkids, else -> filekids
        then add_node for the filekids in order, then recurse into the dirkids in order.
   `found` is shared by the whole walk and starts as {root.get_verify_cap()}.
   The recursion is rendered as an explicit stack of pending directories
   (dirkids of the directory just listed go in front, in order), which gives
   the same sequence of add_node calls.  No proofs here (Proofs/Traverse*.v). *)
From Coq Require Import List NArith Bool.
Import ListNotations.
Local Open Scope N_scope.
Local Open Scope bool_scope.

Inductive kind := KDir | KFileImm | KFileLit | KFileMut | KUnknown.

Definition name := list N.            (* code points of the child name *)
Definition path := list name.

Record node := mkNode {
  n_obj : N;                          (* ghost: which underlying object this cap denotes *)
  n_kind : kind;
  n_verifier : option N;              (* get_verify_cap(): None for LIT files, LIT directories, unknown nodes *)
  n_size : option N;                  (* get_size() (None for a mutable directory whose size is not known) *)
  n_children : list (name * N)        (* node.list(): the dict's items (names distinct) *)
}.

Definition graph := list (N * node).

Fixpoint lookup (g : graph) (i : N) : option node :=
  match g with
  | [] => None
  | (j, n) :: r => if i =? j then Some n else lookup r i
  end.

Definition is_dir (k : kind) : bool := match k with KDir => true | _ => false end.
Definition is_unknown (k : kind) : bool := match k with KUnknown => true | _ => false end.

(* ---- sorted(children.items()) -------------------------------------------- *)
Fixpoint name_ltb (a b : name) : bool :=
  match a, b with
  | [], [] => false
  | [], _ :: _ => true
  | _ :: _, [] => false
  | x :: a', y :: b' => if x <? y then true else if y <? x then false else name_ltb a' b'
  end.

Fixpoint insert_child (e : name * N) (l : list (name * N)) : list (name * N) :=
  match l with
  | [] => [e]
  | x :: r => if name_ltb (fst x) (fst e) then x :: insert_child e r else e :: l
  end.

Definition sort_children (l : list (name * N)) : list (name * N) := fold_right insert_child [] l.

(* ---- the walk ------------------------------------------------------------ *)
Definition visit := (path * N)%type.          (* walker.add_node(node, path) *)

Fixpoint mem (v : N) (l : list N) : bool :=
  match l with
  | [] => false
  | x :: r => (v =? x) || mem v r
  end.

Record scan_result := mkScan {
  s_found : list N;
  s_unknown : list visit;            (* add_node called during the loop *)
  s_files : list visit;              (* filekids *)
  s_dirs : list visit                (* dirkids *)
}.

(* the `for name, (child, metadata) in sorted(children.items())` loop *)
Fixpoint scan (g : graph) (p : path) (kids : list (name * N)) (found : list N) : scan_result :=
  match kids with
  | [] => mkScan found [] [] []
  | (nm, c) :: r =>
    match lookup g c with
    | None => scan g p r found                 (* a child is always a node object in the code *)
    | Some nc =>
      if is_unknown (n_kind nc) then
        let s := scan g p r found in
        mkScan (s_found s) ((p ++ [nm], c) :: s_unknown s) (s_files s) (s_dirs s)
      else
        let skip := match n_verifier nc with Some v => mem v found | None => false end in
        if skip then scan g p r found
        else
          let found' := match n_verifier nc with Some v => v :: found | None => found end in
          let s := scan g p r found' in
          if is_dir (n_kind nc)
          then mkScan (s_found s) (s_unknown s) (s_files s) ((p ++ [nm], c) :: s_dirs s)
          else mkScan (s_found s) (s_unknown s) ((p ++ [nm], c) :: s_files s) (s_dirs s)
    end
  end.

Record state := mkState {
  st_stack : list visit;             (* directories still to be walked, next first *)
  st_found : list N;
  st_out : list visit                (* add_node calls so far, in order *)
}.

(* one _deep_traverse_dirnode call (its own part, not the recursive calls) *)
Definition step (g : graph) (st : state) : state :=
  match st_stack st with
  | [] => st
  | (p, d) :: rest =>
    match lookup g d with
    | None => mkState rest (st_found st) (st_out st)
    | Some nd =>
      let s := scan g p (sort_children (n_children nd)) (st_found st) in
      mkState (s_dirs s ++ rest) (s_found s)
              (st_out st ++ [(p, d)] ++ s_unknown s ++ s_files s)
    end
  end.

Fixpoint loop (g : graph) (fuel : nat) (st : state) : option (list visit) :=
  match st_stack st with
  | [] => Some (st_out st)
  | _ :: _ =>
    match fuel with
    | O => None
    | S f => loop g f (step g st)
    end
  end.

Definition init_state (g : graph) (root : N) : state :=
  mkState [([], root)]
          (match lookup g root with
           | Some nr => match n_verifier nr with Some v => [v] | None => [] end
           | None => []
           end)
          [].

(* deep_traverse: the sequence of walker.add_node(node, path) calls *)
Definition traverse_fuel (g : graph) (fuel : nat) (root : N) : option (list visit) :=
  loop g fuel (init_state g root).

(* one directory walk per graph node plus one is enough when every directory
   has a verify cap (Proofs/Traverse.v); LIT directories are walked once per link *)
Definition traverse (g : graph) (root : N) : option (list visit) :=
  traverse_fuel g (S (length g)) root.

(* ---- ManifestWalker ------------------------------------------------------ *)
(* manifest = [(tuple(path), node.get_uri())]: the visit list itself (the cap is the node-id) *)
Definition manifest (out : list visit) : list visit := out.

(* verifycaps: the set of verify caps of visited nodes *)
Fixpoint dedup (l : list N) : list N :=
  match l with
  | [] => []
  | x :: r => if mem x r then dedup r else x :: dedup r
  end.

Definition visit_verifiers (g : graph) (out : list visit) : list N :=
  flat_map (fun v => match lookup g (snd v) with
                     | Some n => match n_verifier n with Some x => [x] | None => [] end
                     | None => []
                     end) out.

(* ---- DeepStats ----------------------------------------------------------- *)
Record stats := mkStats {
  count_immutable_files : N;
  count_mutable_files : N;
  count_literal_files : N;
  count_files : N;
  count_directories : N;
  count_unknown : N;
  size_immutable_files : N;
  size_literal_files : N;
  size_directories : N;
  largest_directory : N;
  largest_directory_children : N;
  largest_immutable_file : N
}.

Definition zero_stats : stats := mkStats 0 0 0 0 0 0 0 0 0 0 0 0.

Definition osize (s : option N) : N := match s with Some x => x | None => 0 end.

(* DeepStats.add_node, and DeepStats.enter_directory for the directories (a
   directory node reaches add_node exactly when it is walked) *)
Definition stats_add (s : stats) (n : node) : stats :=
  match n_kind n with
  | KUnknown =>
    mkStats (count_immutable_files s) (count_mutable_files s) (count_literal_files s) (count_files s)
            (count_directories s) (count_unknown s + 1) (size_immutable_files s) (size_literal_files s)
            (size_directories s) (largest_directory s) (largest_directory_children s) (largest_immutable_file s)
  | KDir =>
    let kids := N.of_nat (length (n_children n)) in
    mkStats (count_immutable_files s) (count_mutable_files s) (count_literal_files s) (count_files s)
            (count_directories s + 1) (count_unknown s) (size_immutable_files s) (size_literal_files s)
            (size_directories s + osize (n_size n)) (N.max (largest_directory s) (osize (n_size n)))
            (N.max (largest_directory_children s) kids) (largest_immutable_file s)
  | KFileMut =>
    mkStats (count_immutable_files s) (count_mutable_files s + 1) (count_literal_files s) (count_files s + 1)
            (count_directories s) (count_unknown s) (size_immutable_files s) (size_literal_files s)
            (size_directories s) (largest_directory s) (largest_directory_children s) (largest_immutable_file s)
  | KFileLit =>
    mkStats (count_immutable_files s) (count_mutable_files s) (count_literal_files s + 1) (count_files s + 1)
            (count_directories s) (count_unknown s) (size_immutable_files s) (size_literal_files s + osize (n_size n))
            (size_directories s) (largest_directory s) (largest_directory_children s) (largest_immutable_file s)
  | KFileImm =>
    mkStats (count_immutable_files s + 1) (count_mutable_files s) (count_literal_files s) (count_files s + 1)
            (count_directories s) (count_unknown s) (size_immutable_files s + osize (n_size n)) (size_literal_files s)
            (size_directories s) (largest_directory s) (largest_directory_children s)
            (N.max (largest_immutable_file s) (osize (n_size n)))
  end.

Definition deep_stats (g : graph) (out : list visit) : stats :=
  fold_left (fun s v => match lookup g (snd v) with Some n => stats_add s n | None => s end) out zero_stats.

Definition stats_list (s : stats) : list N :=
  [count_immutable_files s; count_mutable_files s; count_literal_files s; count_files s;
   count_directories s; count_unknown s; size_immutable_files s; size_literal_files s;
   size_directories s; largest_directory s; largest_directory_children s; largest_immutable_file s].

(* ---- following a path from the root -------------------------------------- *)
Fixpoint name_eqb (a b : name) : bool :=
  match a, b with
  | [], [] => true
  | x :: a', y :: b' => (x =? y) && name_eqb a' b'
  | _, _ => false
  end.

Fixpoint find_child (nm : name) (l : list (name * N)) : option N :=
  match l with
  | [] => None
  | (n', c) :: r => if name_eqb nm n' then Some c else find_child nm r
  end.

(* get_child_at_path: every node walked through must be a directory *)
Fixpoint walk (g : graph) (from : N) (p : path) : option N :=
  match p with
  | [] => match lookup g from with Some _ => Some from | None => None end
  | nm :: rest =>
    match lookup g from with
    | Some nd =>
      if is_dir (n_kind nd) then
        match find_child nm (n_children nd) with
        | Some c => walk g c rest
        | None => None
        end
      else None
    | None => None
    end
  end.

(* ---- well-formedness of a graph, decidable form -------------------------- *)
Definition opt_N_eqb (a b : option N) : bool :=
  match a, b with
  | None, None => true
  | Some x, Some y => x =? y
  | _, _ => false
  end.

Definition kind_eqb (a b : kind) : bool :=
  match a, b with
  | KDir, KDir | KFileImm, KFileImm | KFileLit, KFileLit | KFileMut, KFileMut | KUnknown, KUnknown => true
  | _, _ => false
  end.

Fixpoint nodup_names (l : list name) : bool :=
  match l with
  | [] => true
  | x :: r => negb (existsb (name_eqb x) r) && nodup_names r
  end.

(* the (name, object) pairs a directory links to *)
Definition child_objs (g : graph) (n : node) : list (name * option N) :=
  map (fun e => (fst e, match lookup g (snd e) with Some c => Some (n_obj c) | None => None end))
      (sort_children (n_children n)).

Fixpoint child_objs_eqb (a b : list (name * option N)) : bool :=
  match a, b with
  | [], [] => true
  | (n1, o1) :: a', (n2, o2) :: b' => name_eqb n1 n2 && opt_N_eqb o1 o2 && child_objs_eqb a' b'
  | _, _ => false
  end.

(* two caps of the same object agree on everything the walk looks at *)
Definition same_object_agree (g : graph) (a b : node) : bool :=
  if n_obj a =? n_obj b
  then opt_N_eqb (n_verifier a) (n_verifier b) && kind_eqb (n_kind a) (n_kind b)
       && (negb (is_dir (n_kind a)) || child_objs_eqb (child_objs g a) (child_objs g b))
  else true.

(* a verify cap identifies the object *)
Definition verifier_identifies (a b : node) : bool :=
  match n_verifier a, n_verifier b with
  | Some x, Some y => negb (x =? y) || (n_obj a =? n_obj b)
  | _, _ => true
  end.

Definition node_ok (g : graph) (n : node) : bool :=
  nodup_names (map fst (n_children n))
  && forallb (fun e => match lookup g (snd e) with Some _ => true | None => false end) (n_children n)
  && (negb (is_unknown (n_kind n)) || match n_verifier n with None => true | Some _ => false end).

Definition wf_graphb (g : graph) : bool :=
  forallb (fun a => node_ok g (snd a)
                    && forallb (fun b => same_object_agree g (snd a) (snd b) && verifier_identifies (snd a) (snd b)) g) g.

Definition dirs_have_verifierb (g : graph) : bool :=
  forallb (fun a => negb (is_dir (n_kind (snd a))) || match n_verifier (snd a) with Some _ => true | None => false end) g.

(* ---- comparison helpers for the driver ----------------------------------- *)
Fixpoint path_eqb (a b : path) : bool :=
  match a, b with
  | [], [] => true
  | x :: a', y :: b' => name_eqb x y && path_eqb a' b'
  | _, _ => false
  end.

Fixpoint visits_eqb (a b : list visit) : bool :=
  match a, b with
  | [], [] => true
  | (p, i) :: a', (q, j) :: b' => path_eqb p q && (i =? j) && visits_eqb a' b'
  | _, _ => false
  end.

Definition opt_visits_eqb (a : option (list visit)) (b : list visit) : bool :=
  match a with Some x => visits_eqb x b | None => false end.

Fixpoint list_eqb (a b : list N) : bool :=
  match a, b with
  | [], [] => true
  | x :: a', y :: b' => (x =? y) && list_eqb a' b'
  | _, _ => false
  end.

(* ---- specification vocabulary (used in the statements of Props/C21.v) ----- *)
(* reachable from the root by following child links out of directories *)
Inductive reachable (g : graph) (root : N) : N -> Prop :=
| reach_root : forall nr, lookup g root = Some nr -> reachable g root root
| reach_child : forall d nd nm c nc,
    reachable g root d -> lookup g d = Some nd -> n_kind nd = KDir ->
    In (nm, c) (n_children nd) -> lookup g c = Some nc -> reachable g root c.

(* Prop form of wf_graphb *)
Record wf_graph (g : graph) : Prop := mkWf {
  (* a directory listing is a dict: names are distinct; children are nodes *)
  wf_names : forall i n, lookup g i = Some n -> nodup_names (map fst (n_children n)) = true;
  wf_closed : forall i n nm c, lookup g i = Some n -> In (nm, c) (n_children n) -> exists nc, lookup g c = Some nc;
  (* UnknownNode.get_verify_cap() is None *)
  wf_unknown : forall i n, lookup g i = Some n -> n_kind n = KUnknown -> n_verifier n = None;
  (* two caps for the same object: same verify cap, same kind, and (directories)
     the same names leading to the same objects *)
  wf_same_obj : forall i j a b, lookup g i = Some a -> lookup g j = Some b -> n_obj a = n_obj b ->
      n_verifier a = n_verifier b /\ n_kind a = n_kind b /\ (n_kind a = KDir -> child_objs g a = child_objs g b);
  (* a verify cap identifies the object *)
  wf_verifier : forall i j a b v, lookup g i = Some a -> lookup g j = Some b ->
      n_verifier a = Some v -> n_verifier b = Some v -> n_obj a = n_obj b
}.

Definition dirs_have_verifier (g : graph) : Prop :=
  forall i n, lookup g i = Some n -> n_kind n = KDir -> exists v, n_verifier n = Some v.

(* how many add_node calls were made for the object o *)
Definition has_obj (g : graph) (o : N) (v : visit) : bool :=
  match lookup g (snd v) with Some m => n_obj m =? o | None => false end.
Definition count_obj (g : graph) (o : N) (out : list visit) : nat := length (filter (has_obj g o) out).
