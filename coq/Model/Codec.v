(* C36  Erasure coding: block sizes, padding, splitting, joining and trimming
   around the zfec primitive.

   Modelled statement by statement (no proofs in this file):
     pyutil.mathutil            div_ceil, next_multiple, pad_size
     src/allmydata/codec.py     CRSEncoder.set_params / encode, CRSDecoder.set_params / decode
     immutable/encode.py        Encoder._got_all_encoding_parameters (tail codec size),
                                Encoder._encode_segment, Encoder._gather_data
     immutable/downloader/node.py  DownloadNode._calculate_sizes, DownloadNode._decode_blocks
   The hand-modelled functions are pinned by AST fingerprint (Gen/ImmConsts.v,
   theorem `pins` in Props/C36.v).

   mutable/publish.py (Publish._encode_segment: `fec.set_params(tail_segment_size, k, n)`
   with the UNPADDED tail size, then k slices `crypttext[i*ps:(i+1)*ps]` each padded
   with zero bytes to ps = fec.get_block_size()) and mutable/retrieve.py
   (Retrieve._decode_blocks: `set_params(next_multiple(tail_data_size, k), k, n)`, join,
   `segment[:tail_data_size]`) do the same thing with the padding expressed per piece;
   `mutable_pieces` below models the publish.py slicing and Proofs/Codec.v proves it yields
   the same pieces as the immutable path, so the round-trip theorem covers both.

   zfec itself (third party, C) is NOT modelled: it is the pair of Section
   variables enc/dec.  The properties the wrappers need from it are the three
   predicates enc_length_at / enc_block_len_at / mds_at below; they appear as
   hypotheses of the theorems in Props/C36.v and are validated against the real
   zfec by the driver (harness/props/c36.py).

   Inputs the real code rejects and the model totalises:
     * k = 0: Python raises ZeroDivisionError in div_ceil (N division gives 0 here);
       every theorem carries 1 <= k.
     * an empty segment with chunk size 0: `range(0, 0, 0)` raises ValueError;
       every theorem carries 1 <= length seg.
     * asserts / preconditions are modelled: the functions return None where the
       real code raises AssertionError. *)
From Coq Require Import List NArith Bool.
From Verif Require Import Lib.Hex.
Import ListNotations.
Local Open Scope N_scope.

Definition nlen {A : Type} (l : list A) : N := N.of_nat (length l).

(* ---- pyutil.mathutil ------------------------------------------------- *)
(* div_ceil(n, d) = n // d + (n % d != 0) *)
Definition div_ceil (n d : N) : N := n / d + (if n mod d =? 0 then 0 else 1).
(* next_multiple(n, k) = div_ceil(n, k) * k *)
Definition next_multiple (n k : N) : N := div_ceil n k * k.
(* pad_size(n, k) = k - n % k if n % k else 0 *)
Definition pad_size (n k : N) : N := if n mod k =? 0 then 0 else k - n mod k.

(* ---- codec.py: parameters -------------------------------------------- *)
(* CRSEncoder.set_params: `assert required_shares <= max_shares` *)
Definition crs_enc_params_ok (k n : N) : bool := k <=? n.
Definition crs_enc_share_size (data_size k : N) : N := div_ceil data_size k.
Definition crs_enc_last_share_padding (data_size k : N) : N := pad_size (crs_enc_share_size data_size k) k.
(* CRSDecoder.set_params: chunk_size = k; num_chunks = div_ceil(data_size, chunk_size); share_size = num_chunks *)
Definition crs_dec_num_chunks (data_size k : N) : N := div_ceil data_size k.
Definition crs_dec_share_size (data_size k : N) : N := crs_dec_num_chunks data_size k.

(* ---- callers: sizes ---------------------------------------------------- *)
(* encode.py / node.py: tail_size = file_size % segment_size or segment_size *)
Definition tail_size (file_size segment_size : N) : N :=
  if file_size mod segment_size =? 0 then segment_size else file_size mod segment_size.
Definition padded_tail_size (file_size segment_size k : N) : N := next_multiple (tail_size file_size segment_size) k.
(* node.py _calculate_sizes *)
Definition dl_block_size (segment_size k : N) : N := segment_size / k.
Definition dl_tail_block_size (file_size segment_size k : N) : N := padded_tail_size file_size segment_size k / k.
Definition num_segments (file_size segment_size : N) : N := div_ceil file_size segment_size.

(* ---- list plumbing ---------------------------------------------------- *)
(* [data[i:i+sz] for i in range(0, len(data), sz)]; fuel = len(data) suffices when sz >= 1 *)
Fixpoint chunks_fuel (fuel sz : nat) (data : list N) : list (list N) :=
  match fuel with
  | O => []
  | S f => match data with
           | [] => []
           | _ :: _ => firstn sz data :: chunks_fuel f sz (skipn sz data)
           end
  end.
Definition split_pieces (sz : N) (data : list N) : list (list N) :=
  chunks_fuel (length data) (N.to_nat sz) data.

(* data += b"\x00" * (read_size - len(data)) *)
Definition pad_segment (read_size : N) (data : list N) : list N :=
  data ++ repeat 0 (N.to_nat (read_size - nlen data)).

(* Encoder._gather_data(num_chunks, input_chunk_size, hasher, allow_short) applied to the
   bytes `read` that read_encrypted(read_size) returned *)
Definition gather_data (num_chunks chunk_size : N) (allow_short : bool) (read : list N) : option (list (list N)) :=
  let read_size := num_chunks * chunk_size in
  if read_size <? nlen read then None                                  (* precondition(len(data) <= read_size) *)
  else if negb allow_short && negb (nlen read =? read_size) then None  (* precondition(len(data) == read_size) *)
  else
    let data := if allow_short && (nlen read <? read_size) then pad_segment read_size read else read in
    Some (split_pieces chunk_size data).

(* mutable/publish.py Publish._encode_segment: piece i = crypttext[i*ps : i*ps+ps] + b"\x00" * (ps - len(piece)) *)
Definition mutable_pieces (k piece_size : N) (crypttext : list N) : list (list N) :=
  map (fun i : nat =>
         let piece := firstn (N.to_nat piece_size) (skipn (i * N.to_nat piece_size) crypttext) in
         piece ++ repeat 0 (N.to_nat piece_size - length piece))
      (seq 0 (N.to_nat k)).

(* picking blocks by share number, as the downloader's {shareid: block} dict presents them *)
Definition pick (ids : list N) (blocks : list (list N)) : list (N * list N) :=
  map (fun i => (i, nth (N.to_nat i) blocks [])) ids.

(* ---- what the wrappers need from zfec --------------------------------- *)
Definition uniform (sz : N) (ps : list (list N)) : Prop := Forall (fun p => nlen p = sz) ps.
Definition valid_ids (k n : N) (ids : list N) : Prop :=
  NoDup ids /\ nlen ids = k /\ Forall (fun i => i < n) ids.

(* zfec.Encoder(k, n).encode(k pieces of equal length) returns n blocks ... *)
Definition enc_length_at (enc : N -> N -> list (list N) -> list (list N)) (k n : N) : Prop :=
  forall sz pieces, nlen pieces = k -> uniform sz pieces -> nlen (enc k n pieces) = n.
(* ... each as long as the input pieces ... *)
Definition enc_block_len_at (enc : N -> N -> list (list N) -> list (list N)) (k n : N) : Prop :=
  forall sz pieces, nlen pieces = k -> uniform sz pieces -> uniform sz (enc k n pieces).
(* ... and zfec.Decoder(k, n).decode on ANY k distinct blocks, presented in ANY order with
   their share numbers, returns the k input pieces (maximum distance separable code). *)
Definition mds_at (enc : N -> N -> list (list N) -> list (list N))
                  (dec : N -> N -> list (N * list N) -> list (list N)) (k n : N) : Prop :=
  forall sz pieces ids, nlen pieces = k -> uniform sz pieces -> valid_ids k n ids ->
    dec k n (pick ids (enc k n pieces)) = pieces.

Section Codec.
  (* zfec.Encoder(k, n).encode(pieces, range(n)) and zfec.Decoder(k, n).decode(blocks, ids) *)
  Variable enc : N -> N -> list (list N) -> list (list N).
  Variable dec : N -> N -> list (N * list N) -> list (list N).

  (* CRSEncoder.encode(inshares) with desired_share_ids=None:
     `for inshare in inshares: assert len(inshare) == self.share_size` *)
  Definition crs_encode (k n share_size : N) (inshares : list (list N)) : option (list (list N)) :=
    if forallb (fun p => nlen p =? share_size) inshares then Some (enc k n inshares) else None.

  (* CRSDecoder.decode(some_shares, their_shareids): the two preconditions *)
  Definition crs_decode (k n : N) (shares : list (list N)) (ids : list N) : option (list (list N)) :=
    if (nlen shares =? nlen ids) && (nlen shares =? k)
    then Some (dec k n (combine ids shares)) else None.

  (* Encoder._encode_segment(segnum, is_tail) for a segment whose remaining ciphertext is `seg`:
     codec = self._tail_codec (set_params(next_multiple(tail_size, k), k, n)) if is_tail
             else self._codec (set_params(segment_size, k, n), segment_size = len seg);
     chunks = _gather_data(k, codec.get_block_size(), allow_short=is_tail);
     `for c in chunks: assert len(c) == input_piece_size`; codec.encode(chunks) *)
  Definition encode_segment (k n : N) (is_tail : bool) (seg : list N) : option (list (list N)) :=
    if crs_enc_params_ok k n then
      let data_size := if is_tail then next_multiple (nlen seg) k else nlen seg in
      let input_piece_size := crs_enc_share_size data_size k in
      match gather_data k input_piece_size is_tail seg with
      | None => None
      | Some chunks =>
          if forallb (fun c => nlen c =? input_piece_size) chunks
          then crs_encode k n input_piece_size chunks
          else None
      end
    else None.

  (* DownloadNode._decode_blocks(segnum, blocks) with tail = is_tail, for a segment of
     seglen bytes (segment_size when not tail, tail_segment_size when tail):
       block_size / decoded_size chosen by `tail`; `assert len(share) == block_size`;
       codec.decode; segment = b"".join(buffers); `assert len(segment) == decoded_size`;
       if tail: segment = segment[:tail_segment_size] *)
  Definition decode_segment (k n : N) (is_tail : bool) (seglen : N) (blocks : list (N * list N)) : option (list N) :=
    let tail_segment_padded := next_multiple seglen k in
    let block_size := if is_tail then tail_segment_padded / k else seglen / k in
    let decoded_size := if is_tail then tail_segment_padded else seglen in
    if forallb (fun b => nlen (snd b) =? block_size) blocks then
      match crs_decode k n (map snd blocks) (map fst blocks) with
      | None => None
      | Some buffers =>
          let segment := concat buffers in
          if nlen segment =? decoded_size
          then Some (if is_tail then firstn (N.to_nat seglen) segment else segment)
          else None
      end
    else None.

  (* The same pipeline for mutable files: publish.py pads per piece, the codec gets the
     unpadded tail size; retrieve.py decodes exactly like the immutable tail. *)
  Definition mutable_encode_segment (k n : N) (seg : list N) : option (list (list N)) :=
    if crs_enc_params_ok k n then
      let piece_size := crs_enc_share_size (nlen seg) k in
      crs_encode k n piece_size (mutable_pieces k piece_size seg)
    else None.
End Codec.

(* ---- helpers for the correspondence (closed boolean terms) ------------- *)
Fixpoint pieces_eqb (a b : list (list N)) : bool :=
  match a, b with
  | [], [] => true
  | x :: a', y :: b' => list_N_eqb x y && pieces_eqb a' b'
  | _, _ => false
  end.
Definition opt_pieces_eqb (a b : option (list (list N))) : bool :=
  match a, b with
  | None, None => true
  | Some x, Some y => pieces_eqb x y
  | _, _ => false
  end.
Definition opt_bytes_eqb (a b : option (list N)) : bool :=
  match a, b with
  | None, None => true
  | Some x, Some y => list_N_eqb x y
  | _, _ => false
  end.

(* ---- two tiny concrete MDS codes (instances of the hypotheses) ---------- *)
(* k = 1: replication (this IS what zfec computes for k = 1; used end-to-end by the driver) *)
Definition enc_repl (k n : N) (pieces : list (list N)) : list (list N) :=
  repeat (hd [] pieces) (N.to_nat n).
Definition dec_repl (k n : N) (picked : list (N * list N)) : list (list N) :=
  [snd (hd (0, []) picked)].

(* k = 2, n = 3: systematic single-parity code, block 2 = block 0 XOR block 1 *)
Fixpoint xor_bytes (a b : list N) : list N :=
  match a, b with
  | x :: a', y :: b' => N.lxor x y :: xor_bytes a' b'
  | _, _ => []
  end.
Definition enc_xor (k n : N) (pieces : list (list N)) : list (list N) :=
  match pieces with
  | [a; b] => [a; b; xor_bytes a b]
  | _ => []
  end.
Definition dec_xor (k n : N) (picked : list (N * list N)) : list (list N) :=
  match picked with
  | [(i, x); (j, y)] =>
      if (i =? 0) && (j =? 1) then [x; y]
      else if (i =? 1) && (j =? 0) then [y; x]
      else if (i =? 0) && (j =? 2) then [x; xor_bytes x y]
      else if (i =? 2) && (j =? 0) then [y; xor_bytes x y]
      else if (i =? 1) && (j =? 2) then [xor_bytes x y; x]
      else if (i =? 2) && (j =? 1) then [xor_bytes x y; y]
      else []
  | _ => []
  end.
