(* Executable model of the immutable-file size arithmetic and data path.

   Mirrors (statement by statement where it matters):
     pyutil.mathutil            div_ceil, next_multiple, pad_size, next_power_of_k(_,2)
     immutable/upload.py        BaseUploadable.get_all_encoding_parameters
     immutable/encode.py        Encoder._got_all_encoding_parameters, _get_share_size,
                                _encode_segment/_gather_data (sequential reads, tail zero padding)
     codec.py                   CRSEncoder/CRSDecoder.set_params (share size)
     immutable/layout.py        WriteBucketProxy(.v2).__init__/_create_offsets/get_allocated_size/
                                put_block, make_write_bucket_proxy
     immutable/downloader/node.py  DownloadNode._build_guessed_tables, _calculate_sizes, read
                                (clipping), _decode_blocks (tail trim)
     immutable/downloader/segmentation.py  Segmentation._fetch_next/_got_segment/_retry_bad_segment
     util/spans.py              overlap
     immutable/filenode.py      DecryptingConsumer.__init__/write (CTR positioning)
   The erasure code and the AES-CTR keystream are Section variables.
   Python's `//` and `%` raise ZeroDivisionError on a zero divisor where Coq's
   return 0: every theorem carries k >= 1 and segment size >= 1, which is what the
   real code needs to get past those divisions (size 0 never reaches this code:
   Uploader.upload sends files of <= 55 bytes to the literal uploader).
   No proofs in this file. *)
From Coq Require Import List NArith Bool.
From Verif Require Import Gen.ImmConsts.
Import ListNotations.
Local Open Scope N_scope.

(* ---- pyutil.mathutil ---------------------------------------------------- *)
Definition div_ceil (n d : N) : N := n / d + (if n mod d =? 0 then 0 else 1).
Definition next_multiple (n k : N) : N := div_ceil n k * k.
Definition pad_size (n k : N) : N := if n mod k =? 0 then 0 else k - n mod k.

(* next_power_of_k(n, 2):  p = 1; while p < n: p *= 2 *)
Fixpoint npk_loop (fuel : nat) (p n : N) : N :=
  match fuel with
  | O => p
  | S f => if p <? n then npk_loop f (p * 2) n else p
  end.
Definition next_power_of_2 (n : N) : N := npk_loop (S (N.to_nat (N.size n))) 1 n.

(* ---- upload side -------------------------------------------------------- *)
(* BaseUploadable.get_all_encoding_parameters *)
Definition upload_segsize (max_seg size k : N) : N := next_multiple (N.min max_seg size) k.

(* CRSEncoder.set_params / CRSDecoder.set_params *)
Definition crs_enc_share_size (data_size k : N) : N := div_ceil data_size k.
Definition crs_dec_share_size (data_size k : N) : N := div_ceil data_size k.

Record enc_params := mk_enc {
  e_num_segments : N; e_share_size : N; e_tail_size : N; e_padded_tail : N;
  e_block_size : N; e_tail_block_size : N }.

(* Encoder._got_all_encoding_parameters (+ _get_share_size, codec.get_block_size) *)
Definition encoder_params (size k segsize : N) : enc_params :=
  let tail := if size mod segsize =? 0 then segsize else size mod segsize in
  let padded := next_multiple tail k in
  {| e_num_segments := div_ceil size segsize;
     e_share_size := div_ceil size k;
     e_tail_size := tail;
     e_padded_tail := padded;
     e_block_size := crs_enc_share_size segsize k;
     e_tail_block_size := crs_enc_share_size padded k |}.

(* length of the block WriteBucketProxy.put_block accepts for segment i *)
Definition put_block_len (data_size block_size num_segments i : N) : N :=
  if i <? num_segments - 1 then block_size else data_size - block_size * (num_segments - 1).

(* ---- share layout (layout.py) ------------------------------------------- *)
Record offsets := mk_off {
  o_data : N; o_plaintext_hash_tree : N; o_crypttext_hash_tree : N;
  o_block_hashes : N; o_share_hashes : N; o_uri_extension : N }.

Definition segment_hash_size (num_segments : N) : N := (2 * next_power_of_2 num_segments - 1) * HASH_SIZE.
Definition share_hashtree_size (num_share_hashes : N) : N := num_share_hashes * (2 + HASH_SIZE).

Definition header_size (ver : N) : N := if ver =? 1 then V1_HEADER_SIZE else V2_HEADER_SIZE.
Definition field_limit (ver : N) : N := if ver =? 1 then V1_LIMIT else V2_LIMIT.
Definition field_size (ver : N) : N := if ver =? 1 then V1_FIELDSIZE else V2_FIELDSIZE.

(* _create_offsets: None = FileTooLargeError *)
Definition create_offsets (ver block_size data_size num_segments num_share_hashes : N) : option offsets :=
  let lim := field_limit ver in
  if (lim <=? block_size) || (lim <=? data_size) then None else
  let shs := segment_hash_size num_segments in
  let x0 := header_size ver in
  let x1 := x0 + data_size in
  let x2 := x1 + shs in
  let x3 := x2 + shs in
  let x4 := x3 + shs in
  let x5 := x4 + share_hashtree_size num_share_hashes in
  if lim <=? x5 then None else
  Some {| o_data := x0; o_plaintext_hash_tree := x1; o_crypttext_hash_tree := x2;
          o_block_hashes := x3; o_share_hashes := x4; o_uri_extension := x5 |}.

(* the nine integers of the header, in struct.pack order *)
Definition header_fields (ver block_size data_size : N) (o : offsets) : list N :=
  [ver; block_size; data_size; o_data o; o_plaintext_hash_tree o; o_crypttext_hash_tree o;
   o_block_hashes o; o_share_hashes o; o_uri_extension o].

Definition allocated_size (ver : N) (o : offsets) (uri_extension_size : N) : N :=
  o_uri_extension o + field_size ver + uri_extension_size.

(* make_write_bucket_proxy: v1 unless it refuses *)
Definition make_write_bucket_proxy (block_size data_size num_segments num_share_hashes : N) : option (N * offsets) :=
  match create_offsets 1 block_size data_size num_segments num_share_hashes with
  | Some o => Some (1, o)
  | None => match create_offsets 2 block_size data_size num_segments num_share_hashes with
            | Some o => Some (2, o)
            | None => None
            end
  end.

(* put_block / Share block position *)
Definition block_offset (o : offsets) (block_size segnum : N) : N := o_data o + segnum * block_size.

(* ---- download side ------------------------------------------------------ *)
Record dl_sizes := mk_dl {
  d_tail_segment_size : N; d_tail_segment_padded : N; d_num_segments : N;
  d_block_size : N; d_tail_block_size : N }.

(* DownloadNode._calculate_sizes *)
Definition calculate_sizes (size k segment_size : N) : dl_sizes :=
  let tail := if size mod segment_size =? 0 then segment_size else size mod segment_size in
  let padded := next_multiple tail k in
  {| d_tail_segment_size := tail; d_tail_segment_padded := padded;
     d_num_segments := div_ceil size segment_size;
     d_block_size := segment_size / k; d_tail_block_size := padded / k |}.

(* DownloadNode._build_guessed_tables *)
Definition guessed_segment_size (size k max_seg : N) : N := next_multiple (N.min size max_seg) k.

(* DownloadNode.read: size = max(0, min(size, filesize - offset)); None = whole file.
   Python integers: filesize - offset may be negative, max(0, .) then gives 0,
   which is what truncated subtraction yields here. *)
Definition read_clip (file_size offset : N) (size : option N) : N :=
  match size with
  | None => file_size - offset
  | Some s => N.min s (file_size - offset)
  end.

(* spans.overlap *)
Definition overlap (s0 l0 s1 l1 : N) : option (N * N) :=
  let left := N.max s0 s1 in
  let right := N.min (s0 + l0) (s1 + l1) in
  if left <? right then Some (left, right - left) else None.

(* what node.get_segment(i) delivers once the UEB is known: (start, length) *)
Definition seg_start (segsize i : N) : N := i * segsize.
Definition seg_len (file_size segsize i : N) : N :=
  let tail := if file_size mod segsize =? 0 then segsize else file_size mod segsize in
  if i =? div_ceil file_size segsize - 1 then tail else segsize.

Record seg_write := mk_write { w_segnum : N; w_off : N; w_len : N }.

Inductive seg_result :=
| SegDone (writes : list seg_write)
| SegError            (* WrongSegmentError / BadSegmentNumberError reaching _error *)
| SegFuel.

(* Segmentation._fetch_next / _got_segment / _retry_bad_segment.  `known` =
   node.segment_size is not None; while unknown the wanted segment number is
   computed from the guess, the segment that comes back is cut with the real
   size, and one retry is allowed. *)
Fixpoint segmentation_loop (fuel : nat) (file_size segsize guess : N) (known : bool)
         (offset size : N) (acc : list seg_write) : seg_result :=
  if size =? 0 then SegDone (rev acc) else
  match fuel with
  | O => SegFuel
  | S f =>
    let ss := if known then segsize else guess in
    let wanted := if offset =? 0 then 0 else offset / ss in
    if div_ceil file_size segsize <=? wanted then
      (* BadSegmentNumberError from get_segment *)
      if known then SegError else segmentation_loop f file_size segsize guess true offset size acc
    else
      let start := seg_start segsize wanted in
      let len := seg_len file_size segsize wanted in
      match overlap start len offset size with
      | Some (o0, o1) =>
        if o0 =? offset then
          let off_in := offset - start in
          let dlen := N.min o1 (len - off_in) in       (* len(segment[off_in:off_in+o1]) *)
          segmentation_loop f file_size segsize guess true (offset + dlen) (size - dlen)
                            (mk_write wanted off_in dlen :: acc)
        else if known then SegError else segmentation_loop f file_size segsize guess true offset size acc
      | None => if known then SegError else segmentation_loop f file_size segsize guess true offset size acc
      end
  end.

(* DownloadNode.read + Segmentation for one read(offset, size) *)
Definition read_plan (file_size segsize guess : N) (offset : N) (size : option N) : seg_result :=
  let sz := read_clip file_size offset size in
  segmentation_loop (S (S (N.to_nat (div_ceil file_size segsize)))) file_size segsize guess false offset sz [].

(* ---- bytes ---------------------------------------------------------------- *)
Definition slice {A} (off len : nat) (l : list A) : list A := firstn len (skipn off l).

Fixpoint chunks {A} (cnt sz : nat) (l : list A) : list (list A) :=
  match cnt with
  | O => []
  | S c => firstn sz l :: chunks c sz (skipn sz l)
  end.

Definition pad_to (len : nat) (l : list N) : list N := l ++ repeat 0 (len - length l).

(* the segment get_segment(i) returns, as a slice of the ciphertext *)
Definition seg_at (ct : list N) (segsize i : N) : list N :=
  slice (N.to_nat (i * segsize)) (N.to_nat segsize) ct.

(* what the consumer receives for a plan, given a source of segments *)
Definition apply_writes (segment : N -> list N) (ws : list seg_write) : list N :=
  concat (map (fun w => slice (N.to_nat (w_off w)) (N.to_nat (w_len w)) (segment (w_segnum w))) ws).

Definition nrange (n : N) : list N := map N.of_nat (seq 0 (N.to_nat n)).

Section DataPath.
  (* erasure code: k pieces -> n blocks; k (share number, block) pairs -> k pieces *)
  Variable enc : N -> N -> list (list N) -> list (list N).
  Variable dec : N -> N -> list (N * list N) -> list (list N).

  (* Encoder._encode_segment + _gather_data for one read of k*bs bytes: the
     (possibly short, tail only) data is zero-padded to k*bs and cut in k pieces *)
  Definition encode_segment (k n : N) (bs : nat) (data : list N) : list (list N) :=
    enc k n (chunks (N.to_nat k) bs (pad_to (N.to_nat k * bs) data)).

  (* Encoder.start: num_segments-1 full segments, then the tail, reading the
     ciphertext sequentially *)
  Fixpoint encode_segments (nseg : nat) (k n : N) (bs tbs : nat) (ct : list N) : list (list (list N)) :=
    match nseg with
    | O => []
    | S O => [encode_segment k n tbs (firstn (N.to_nat k * tbs) ct)]
    | S m => encode_segment k n bs (firstn (N.to_nat k * bs) ct)
             :: encode_segments m k n bs tbs (skipn (N.to_nat k * bs) ct)
    end.

  (* data section of share j: its block of every segment, in order (put_block) *)
  Definition share_data (segs : list (list (list N))) (j : nat) : list N :=
    concat (map (fun blocks => nth j blocks []) segs).

  Definition upload_shares (size k n segsize : N) (ct : list N) : list (list N) :=
    let p := encoder_params size k segsize in
    let segs := encode_segments (N.to_nat (e_num_segments p)) k n
                                (N.to_nat (e_block_size p)) (N.to_nat (e_tail_block_size p)) ct in
    map (share_data segs) (seq 0 (N.to_nat n)).

  (* Share: block `segnum` of a share's data section *)
  Definition share_block (d : dl_sizes) (share : list N) (segnum : N) : list N :=
    slice (N.to_nat (segnum * d_block_size d))
          (N.to_nat (if segnum =? d_num_segments d - 1 then d_tail_block_size d else d_block_size d))
          share.

  (* DownloadNode._decode_blocks with the blocks of the share numbers `picks` *)
  Definition decode_segment (size k n segsize : N) (shares : list (list N)) (segnum : N) (picks : list N) : list N :=
    let d := calculate_sizes size k segsize in
    let blocks := map (fun j => (j, share_block d (nth (N.to_nat j) shares []) segnum)) picks in
    let seg := concat (dec k n blocks) in
    if segnum =? d_num_segments d - 1 then firstn (N.to_nat (d_tail_segment_size d)) seg else seg.

  (* whole ciphertext, segment by segment, with a per-segment choice of shares *)
  Definition download_ciphertext (size k n segsize : N) (shares : list (list N)) (picks : N -> list N) : list N :=
    concat (map (fun i => decode_segment size k n segsize shares i (picks i))
                (nrange (d_num_segments (calculate_sizes size k segsize)))).
End DataPath.

(* ---- AES-CTR positioning --------------------------------------------------- *)
Section CTR.
  (* keystream byte at absolute byte position p: byte (p mod 16) of E_key(p / 16),
     the counter being the 128-bit big-endian block number *)
  Variable ksbyte : N -> N.

  (* a cipher object is its position; process = XOR with the keystream from there *)
  Fixpoint ctr_process (pos : N) (data : list N) : list N :=
    match data with
    | [] => []
    | b :: r => N.lxor b (ksbyte pos) :: ctr_process (pos + 1) r
    end.
  Definition ctr_create (iv_block : N) : N := 16 * iv_block.
  Definition ctr_advance (pos : N) (data : list N) : N := pos + N.of_nat (length data).

  (* successive encrypt_data/decrypt_data calls on one cipher object *)
  Fixpoint ctr_process_chunks (pos : N) (chunks : list (list N)) : list (list N) :=
    match chunks with
    | [] => []
    | c :: r => ctr_process pos c :: ctr_process_chunks (ctr_advance pos c) r
    end.

  (* DecryptingConsumer.__init__: iv = offset // 16, then offset % 16 zero bytes are processed *)
  Definition decrypting_consumer_init (offset : N) : N :=
    let offset_big := offset / 16 in
    let offset_small := offset mod 16 in
    ctr_advance (ctr_create offset_big) (repeat 0 (N.to_nat offset_small)).

  (* DecryptingConsumer fed the ciphertext writes of one read(offset, ...) *)
  Definition decrypting_consumer (offset : N) (writes : list (list N)) : list N :=
    concat (ctr_process_chunks (decrypting_consumer_init offset) writes).

  (* EncryptAnUploadable: one encryptor from position 0 over the plaintext chunks *)
  Definition encrypt_upload (chunks : list (list N)) : list N := concat (ctr_process_chunks (ctr_create 0) chunks).
End CTR.

(* ---- the whole pipe ----------------------------------------------------------- *)
Section EndToEnd.
  Variable enc : N -> N -> list (list N) -> list (list N).
  Variable dec : N -> N -> list (N * list N) -> list (list N).
  Variable ksbyte : N -> N.

  (* read(offset, size) of the file uploaded from `data`: encrypt, encode into
     shares, plan the segments, decode each wanted segment from the shares
     picks(segnum), cut, decrypt from `offset` *)
  Definition read_file (k n max_seg guess : N) (data : list N) (picks : N -> list N)
             (offset : N) (size : option N) : option (list N) :=
    let fsize := N.of_nat (length data) in
    let segsize := upload_segsize max_seg fsize k in
    let ct := encrypt_upload ksbyte [data] in
    let shares := upload_shares enc fsize k n segsize ct in
    match read_plan fsize segsize guess offset size with
    | SegDone ws =>
      let segment i := decode_segment dec fsize k n segsize shares i (picks i) in
      Some (decrypting_consumer ksbyte offset
              (map (fun w => slice (N.to_nat (w_off w)) (N.to_nat (w_len w)) (segment (w_segnum w))) ws))
    | _ => None
    end.
End EndToEnd.
