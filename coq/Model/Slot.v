(* Model of storage/server.py: slot_testv_and_readv_and_writev and its helpers
   (_collect_mutable_shares_for_storage_index, _evaluate_test_vectors,
   _evaluate_read_vectors, _evaluate_write_vectors incl. the size validation,
   _make_lease_info, _add_or_renew_leases, _allocate_slot_share), slot_readv,
   add_lease, renew_lease, over a bucket directory: share number -> file bytes.
   Definitions only; proofs in Proofs/Slot*.v.

   The bucket is kept sorted by share number (os.listdir order is unspecified and
   every API-level result is a dict).  The request's test_and_write_vectors is a
   dict: a list of entries with distinct share numbers, in insertion order (the
   order in which the real code walks it). *)
From Coq Require Import List NArith Bool.
From Verif Require Import Lib.Hex Gen.MutConsts Model.MutContainer Model.Lease.
Import ListNotations.
Local Open Scope N_scope.

Definition bucket := list (N * file).

Fixpoint blookup (b : bucket) (n : N) : option file :=
  match b with
  | [] => None
  | (m, f) :: r => if n =? m then Some f else blookup r n
  end.

Fixpoint bset (b : bucket) (n : N) (f : file) : bucket :=
  match b with
  | [] => [(n, f)]
  | (m, g) :: r => if n =? m then (n, f) :: r
                   else if n <? m then (n, f) :: (m, g) :: r
                   else (m, g) :: bset r n f
  end.

Fixpoint bremove (b : bucket) (n : N) : bucket :=
  match b with
  | [] => []
  | (m, g) :: r => if n =? m then bremove r n else (m, g) :: bremove r n
  end.

Definition bput (b : bucket) (n : N) (s : share) : bucket :=
  match s with Some f => bset b n f | None => bremove b n end.

Record twv := mkTW { tw_shnum : N; tw_testv : testv; tw_datav : datav; tw_newlen : option N }.

Definition reads := list (N * list (list N)).

(* _collect_mutable_shares_for_storage_index: open every share, check the write enabler *)
Fixpoint collect_shares (b : bucket) (we : list N) : res unit :=
  match b with
  | [] => Ok tt
  | (_, f) :: r =>
      match open_container f with
      | Err e => Err e
      | Ok _ => match check_write_enabler f we with
                | Err e => Err e
                | Ok _ => collect_shares r we
                end
      end
  end.

(* _evaluate_test_vectors *)
Fixpoint eval_tests (b : bucket) (tw : list twv) : res bool :=
  match tw with
  | [] => Ok true
  | t :: r =>
      match share_test (blookup b (tw_shnum t)) (tw_testv t) with
      | Err e => Err e
      | Ok false => Ok false
      | Ok true => eval_tests b r
      end
  end.

(* _evaluate_read_vectors: every existing share, named in the request or not *)
Fixpoint eval_reads (b : bucket) (rv : readvec) : res reads :=
  match b with
  | [] => Ok []
  | (n, f) :: r =>
      match readv f rv with
      | Err e => Err e
      | Ok ds => match eval_reads r rv with Err e => Err e | Ok rs => Ok ((n, ds) :: rs) end
      end
  end.

(* the validation at the head of _evaluate_write_vectors: no vector that is going to be
   applied may exceed MAX_SIZE (vectors of a share that is being deleted are never applied) *)
Definition sizes_ok (maxsz : N) (tw : list twv) : bool :=
  forallb (fun t => is_zero (tw_newlen t) || vectors_fit maxsz (tw_datav t)) tw.

(* _evaluate_write_vectors proper: share by share in request order; an exception leaves
   the earlier shares written *)
Fixpoint apply_writes (maxsz : N) (fresh : file) (b : bucket) (tw : list twv) : bucket * option err :=
  match tw with
  | [] => (b, None)
  | t :: r =>
      let '(s', e) := share_write maxsz fresh (blookup b (tw_shnum t)) (tw_datav t) (tw_newlen t) in
      let b' := bput b (tw_shnum t) s' in
      match e with
      | Some e => (b', Some e)
      | None => apply_writes maxsz fresh b' r
      end
  end.

(* ---- what the property says the request does to one share (reference) --------------------- *)
Definition abs_bucket (b : bucket) (n : N) : option (list N) := abs_share (blookup b n).

Definition ref_apply (s : option (list N)) (dv : datav) (nl : option N) : option (list N) :=
  if is_zero nl then None
  else Some (ref_truncate (fold_left (fun a '(off, x) => ref_write a off x) dv
                                     (match s with Some d => d | None => [] end)) nl).

Definition names (tw : list twv) : list N := map tw_shnum tw.

(* all of the request's writes have been applied to b, giving b' *)
Definition all_applied (b b' : bucket) (tw : list twv) : Prop :=
  (forall t, In t tw -> abs_bucket b' (tw_shnum t) = ref_apply (abs_bucket b (tw_shnum t)) (tw_datav t) (tw_newlen t)) /\
  (forall n, ~ In n (names tw) -> abs_bucket b' n = abs_bucket b n).

Definition bucket_ok (maxsz : N) (b : bucket) : Prop :=
  forall n f, In (n, f) b -> layout_ok maxsz f = true.

(* the write enabler recorded in every share of the bucket is we *)
Definition enabler_ok (b : bucket) (we : list N) : Prop :=
  forall n f, In (n, f) b -> read_write_enabler f = Ok we.

Definition enablers_match (b : bucket) (we : list N) : bool :=
  forallb (fun nf => match read_write_enabler (snd nf) with Ok w => list_N_eqb we w | Err _ => false end) b.

(* the test vectors of the request, evaluated on the abstract pre-state *)
Definition tests_pass (b : bucket) (tw : list twv) : bool :=
  forallb (fun t => ref_check_testv (match abs_bucket b (tw_shnum t) with Some d => d | None => [] end) (tw_testv t)) tw.

(* the read vector evaluated on the abstract pre-state, for every existing share *)
Definition ref_reads (b : bucket) (rv : readvec) : list (N * list (list N)) :=
  map (fun nf => (fst nf, ref_readv (match abs_share (Some (snd nf)) with Some d => d | None => [] end) rv)) b.

Definition remaining_shares (tw : list twv) : list N :=
  map tw_shnum (filter (fun t => negb (is_zero (tw_newlen t))) tw).

Section WithHash.
Variable H : list N -> list N.

(* _add_or_renew_leases over the shares that remain after the writes *)
Fixpoint add_or_renew_on (b : bucket) (ns : list N) (avail : N) (li : lease) : bucket * option err :=
  match ns with
  | [] => (b, None)
  | n :: r =>
      match blookup b n with
      | None => add_or_renew_on b r avail li
      | Some f =>
          match mutfile_add_or_renew H f avail li with
          | Done f' => add_or_renew_on (bset b n f') r avail li
          | Raised f' e => (bset b n f', Some e)
          end
      end
  end.

(* the server: MAX_SIZE, its nodeid, get_available_space() *)
Record server := mkServer { s_maxsz : N; s_nodeid : list N; s_avail : N }.

Definition slot_tw (sv : server) (b : bucket) (we rs cs : list N) (tw : list twv) (rv : readvec)
           (renew_leases : bool) (now : N) : bucket * res (bool * reads) :=
  match collect_shares b we with
  | Err e => (b, Err e)
  | Ok _ =>
  match eval_tests b tw with
  | Err e => (b, Err e)
  | Ok good =>
  match eval_reads b rv with
  | Err e => (b, Err e)
  | Ok rd =>
      if good then
        if sizes_ok (s_maxsz sv) tw then
          match apply_writes (s_maxsz sv) (mut_header V2 (s_nodeid sv) we) b tw with
          | (b1, Some e) => (b1, Err e)
          | (b1, None) =>
              if renew_leases then
                match add_or_renew_on b1 (remaining_shares tw) (s_avail sv)
                        (make_lease_info (s_nodeid sv) rs cs now) with
                | (b2, Some e) => (b2, Err e)
                | (b2, None) => (b2, Ok (true, rd))
                end
              else (b1, Ok (true, rd))
          end
        else (b, Err EDataTooLarge)
      else (b, Ok (false, rd))
  end end end.

(* the preconditions of the C24 statements: header fields and timestamps fit their formats,
   secrets and node id have the protocol's lengths, the request is a dict, the bucket is well-formed *)
Definition request_ok (sv : server) (b : bucket) (rs cs : list N) (tw : list twv) (now : N) : Prop :=
  468 + s_maxsz sv < 2 ^ 64 /\ bucket_ok (s_maxsz sv) b /\ NoDup (names tw) /\
  length rs = 32%nat /\ length cs = 32%nat /\ length (s_nodeid sv) = 20%nat /\ (forall s, length (H s) = 32%nat) /\
  now + DEFAULT_RENEWAL_TIME < 2 ^ 32.

(* the same request without the size validation: the behaviour before the fix, kept to
   state the finding (Proofs/Slot.v slot_tw_unvalidated_not_atomic) *)
Definition slot_tw_unvalidated (sv : server) (b : bucket) (we : list N) (tw : list twv) (rv : readvec)
  : bucket * res (bool * reads) :=
  match collect_shares b we with
  | Err e => (b, Err e)
  | Ok _ =>
  match eval_tests b tw with
  | Err e => (b, Err e)
  | Ok good =>
  match eval_reads b rv with
  | Err e => (b, Err e)
  | Ok rd =>
      if good then
        match apply_writes (s_maxsz sv) (mut_header V2 (s_nodeid sv) we) b tw with
        | (b1, Some e) => (b1, Err e)
        | (b1, None) => (b1, Ok (true, rd))
        end
      else (b, Ok (false, rd))
  end end end.

(* slot_readv *)
Fixpoint slot_readv (b : bucket) (shares : list N) (rv : readvec) : res reads :=
  match b with
  | [] => Ok []
  | (n, f) :: r =>
      if existsb (N.eqb n) shares || match shares with [] => true | _ => false end then
        match open_container f with
        | Err e => Err e
        | Ok _ =>
            match readv f rv with
            | Err e => Err e
            | Ok ds => match slot_readv r shares rv with Err e => Err e | Ok rs => Ok ((n, ds) :: rs) end
            end
        end
      else slot_readv r shares rv
  end.

(* StorageServer.add_lease / renew_lease walk the share files in os.listdir order, which
   is unspecified: `order` is that listing (it matters only when a share raises, because
   the shares before it have then been updated and the ones after it have not). *)
Fixpoint bucket_add_lease (b : bucket) (order : list N) (avail : N) (li : lease) : bucket * option err :=
  match order with
  | [] => (b, None)
  | n :: r =>
      match blookup b n with
      | None => bucket_add_lease b r avail li
      | Some f =>
          match sharefile_add_or_renew H f avail li with
          | Raised f' e => (bset b n f', Some e)
          | Done f' => bucket_add_lease (bset b n f') r avail li
          end
      end
  end.

Fixpoint bucket_renew_shares (b : bucket) (order : list N) (secret : list N) (t : N) : bucket * option err :=
  match order with
  | [] => (b, None)
  | n :: r =>
      match blookup b n with
      | None => bucket_renew_shares b r secret t
      | Some f =>
          match sharefile_renew H f secret t with
          | Raised f' e => (bset b n f', Some e)
          | Done f' => bucket_renew_shares (bset b n f') r secret t
          end
      end
  end.

(* StorageServer.allocate_buckets, the part that concerns shares the server already holds:
   EVERY held share (not only the ones the request names) is opened as an immutable ShareFile,
   then the caller's lease (owner_num as given, expiry now + 31 days) is added or renewed on
   every one of them, in listing order.  New shares are written through BucketWriters and are
   not part of this model. *)
Fixpoint bucket_open_all (b : bucket) (order : list N) : option err :=
  match order with
  | [] => None
  | n :: r => match blookup b n with
              | None => bucket_open_all b r
              | Some f => match imm_open f with Err e => Some e | Ok _ => bucket_open_all b r end
              end
  end.

Fixpoint bucket_alloc_leases (b : bucket) (order : list N) (avail : N) (li : lease) : bucket * option err :=
  match order with
  | [] => (b, None)
  | n :: r =>
      match blookup b n with
      | None => bucket_alloc_leases b r avail li
      | Some f =>
          match immfile_add_or_renew H f avail li with
          | Raised f' e => (bset b n f', Some e)
          | Done f' => bucket_alloc_leases (bset b n f') r avail li
          end
      end
  end.

Definition bucket_allocate (b : bucket) (order : list N) (avail : N) (li : lease) : bucket * option err :=
  match bucket_open_all b order with
  | Some e => (b, Some e)
  | None => bucket_alloc_leases b order avail li
  end.

(* IndexError("no such lease to renew") when there is no share file at all *)
Definition bucket_renew_lease (b : bucket) (order : list N) (secret : list N) (now : N) : bucket * option err :=
  match b with
  | [] => ([], Some EIndex)
  | _ => bucket_renew_shares b order secret (now + DEFAULT_RENEWAL_TIME)
  end.

(* ---- histories (used by the drivers) --------------------------------------------------- *)
Inductive sop :=
| STW (we rs cs : list N) (tw : list twv) (rv : readvec) (renew_leases : bool)
| SReadv (shares : list N) (rv : readvec)
| SAddLease (rs cs : list N) (order : list N)
| SRenew (rs : list N) (order : list N)
| SAlloc (owner : N) (rs cs : list N) (order : list N)
| STick (dt : N).

Inductive sobs :=
| OTW (r : res (bool * reads))
| OReadv (r : res reads)
| OLease (e : option err)
| OTick.

Definition sstep (sv : server) (st : bucket * N) (o : sop) : (bucket * N) * sobs :=
  let '(b, now) := st in
  match o with
  | STW we rs cs tw rv rn => let '(b', r) := slot_tw sv b we rs cs tw rv rn now in ((b', now), OTW r)
  | SReadv sh rv => ((b, now), OReadv (slot_readv b sh rv))
  | SAddLease rs cs order =>
      let '(b', e) := bucket_add_lease b order (s_avail sv) (make_lease_info (s_nodeid sv) rs cs now) in
      ((b', now), OLease e)
  | SRenew rs order => let '(b', e) := bucket_renew_lease b order rs now in ((b', now), OLease e)
  | SAlloc owner rs cs order =>
      let '(b', e) := bucket_allocate b order (s_avail sv)
                        (mkLease owner rs cs (now + DEFAULT_RENEWAL_TIME) (s_nodeid sv)) in
      ((b', now), OLease e)
  | STick dt => ((b, now + dt), OTick)
  end.

Fixpoint srun (sv : server) (st : bucket * N) (ops : list sop) : (bucket * N) * list sobs :=
  match ops with
  | [] => (st, [])
  | o :: r => let '(st1, x) := sstep sv st o in
              let '(st2, xs) := srun sv st1 r in (st2, x :: xs)
  end.

End WithHash.

(* ---- equality tests for the generated case files ---------------------------------------- *)
Fixpoint list_eqb {A} (eqb : A -> A -> bool) (a b : list A) : bool :=
  match a, b with
  | [], [] => true
  | x :: a', y :: b' => eqb x y && list_eqb eqb a' b'
  | _, _ => false
  end.

Definition bucket_eqb (a b : bucket) : bool :=
  list_eqb (fun x y => (fst x =? fst y) && list_N_eqb (snd x) (snd y)) a b.
Definition reads_eqb (a b : reads) : bool :=
  list_eqb (fun x y => (fst x =? fst y) && list_eqb list_N_eqb (snd x) (snd y)) a b.
Definition opt_err_eqb (a b : option err) : bool :=
  match a, b with None, None => true | Some x, Some y => err_eqb x y | _, _ => false end.
Definition sobs_eqb (a b : sobs) : bool :=
  match a, b with
  | OTW (Ok (g1, r1)), OTW (Ok (g2, r2)) => Bool.eqb g1 g2 && reads_eqb r1 r2
  | OTW (Err e1), OTW (Err e2) => err_eqb e1 e2
  | OReadv (Ok r1), OReadv (Ok r2) => reads_eqb r1 r2
  | OReadv (Err e1), OReadv (Err e2) => err_eqb e1 e2
  | OLease e1, OLease e2 => opt_err_eqb e1 e2
  | OTick, OTick => true
  | _, _ => false
  end.
Definition obs_eqb (a b : obs) : bool :=
  match a, b with
  | ObsTW (Ok x), ObsTW (Ok y) => Bool.eqb x y
  | ObsTW (Err x), ObsTW (Err y) => err_eqb x y
  | ObsRead None, ObsRead None => true
  | ObsRead (Some x), ObsRead (Some y) => list_eqb list_N_eqb x y
  | _, _ => false
  end.
Definition share_eqb (a b : share) : bool :=
  match a, b with None, None => true | Some x, Some y => list_N_eqb x y | _, _ => false end.
