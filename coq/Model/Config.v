(* C48  Model of the configuration-value parsers, statement by statement:
     src/allmydata/util/time_format.py  parse_duration, parse_date
     src/allmydata/util/abbreviate.py   parse_abbreviated_size, abbreviate_space
   over the tables of Gen/Config.v (regenerated from the source on every run).

   A Python `str` is modelled as the list of its Unicode code points (list N).
   All three regexes carry re.ASCII (pinned in Props/C48.v), so \d is [0-9],
   \s is [ \t\n\r\f\v], case folding is A-Z <-> a-z only, and every code point
   >= 128 simply fails to match: no Unicode table is needed.

   int(): on a non-empty ASCII digit string int() returns its value, except that
   CPython raises ValueError beyond sys.get_int_max_str_digits() = 4300 digits
   (leading zeros count).  That limit is modelled.

   No proofs in this file. *)
From Coq Require Import List NArith ZArith Bool String.
From Verif Require Import Lib.Hex Lib.Decimal Gen.Config.
Import ListNotations.
Local Open Scope N_scope.
Local Open Scope bool_scope.

(* ---- character classes (re.ASCII) ---- *)
Definition is_ws (c : N) : bool := ((9 <=? c) && (c <=? 13)) || (c =? 32).
Definition lower (c : N) : N := if (65 <=? c) && (c <=? 90) then c + 32 else c.
Definition upper (c : N) : N := if (97 <=? c) && (c <=? 122) then c - 32 else c.

Fixpoint span (p : N -> bool) (l : list N) : list N * list N :=
  match l with
  | [] => ([], [])
  | c :: r => if p c then let (a, b) := span p r in (c :: a, b) else ([], l)
  end.

Fixpoint drop_while (p : N -> bool) (l : list N) : list N :=
  match l with
  | [] => []
  | c :: r => if p c then drop_while p r else l
  end.

Definition rstrip (p : N -> bool) (l : list N) : list N := rev (drop_while p (rev l)).

Fixpoint lookup {A : Type} (k : list N) (t : list (list N * A)) : option A :=
  match t with
  | [] => None
  | (k', v) :: r => if list_N_eqb k k' then Some v else lookup k r
  end.

(* ---- int() on the digit group of a regex match ---- *)
Definition max_int_digits : N := 4300.
Definition py_int_digits (ds : list N) : option N :=
  if N.of_nat (List.length ds) <=? max_int_digits then undec ds else None.

(* ---- results ---- *)
Inductive presult (A : Type) : Type :=
| POk (v : A)
| PValueError          (* the documented rejection *)
| PKeyError.           (* a dict lookup missed: an undocumented crash *)
Arguments POk {A} v.
Arguments PValueError {A}.
Arguments PKeyError {A}.

(* ---- parse_duration ----
   re.match(r"^\s*(\d+)\s*(u1|u2|...)\s*$", s, IGNORECASE|ASCII); int(group 1) * time_map[group(2).lower()]
   The units contain no whitespace and the match must reach the end, so group 2
   is what remains after the digits once whitespace is trimmed on both sides. *)
Definition parse_duration (s : list N) : presult N :=
  let s1 := drop_while is_ws s in
  let (ds, r) := span is_digit s1 in
  match ds with
  | [] => PValueError
  | _ =>
    let u := rstrip is_ws (drop_while is_ws r) in
    match lookup (map lower u) duration_units with
    | None => PValueError
    | Some mult =>
      match py_int_digits ds with
      | None => PValueError
      | Some n => match mult with Some m => POk (n * m) | None => PKeyError end
      end
    end
  end.

(* ---- parse_date ----
   _date_re.fullmatch(s) for (\d{4})-(\d{2})-(\d{2}) (ASCII); datetime.date(y, m, d) validates
   (MINYEAR = 1, month 1..12, day 1..days in month); then
   int(iso_utc_time_to_seconds(s + "T00:00:00")) = calendar.timegm((y, m, d, 0, 0, 0, ...))
   = (date(y, m, 1).toordinal() - 719163 + d - 1) * 86400, with datetime's ordinal
   _days_before_year(y) + _days_before_month(y, m) + d. *)
Local Open Scope Z_scope.
Definition is_leap (y : Z) : bool := (y mod 4 =? 0) && (negb (y mod 100 =? 0) || (y mod 400 =? 0)).
Definition days_in_month (y m : Z) : Z :=
  if m =? 2 then (if is_leap y then 29 else 28)
  else if (m =? 4) || (m =? 6) || (m =? 9) || (m =? 11) then 30 else 31.
Definition days_before_year (y : Z) : Z := let y1 := y - 1 in y1 * 365 + y1 / 4 - y1 / 100 + y1 / 400.
Definition days_before_month_tab : list Z := [0; 31; 59; 90; 120; 151; 181; 212; 243; 273; 304; 334].
Definition days_before_month (y m : Z) : Z :=
  nth (Z.to_nat (m - 1)) days_before_month_tab 0 + (if (2 <? m) && is_leap y then 1 else 0).
Definition ymd2ord (y m d : Z) : Z := days_before_year y + days_before_month y m + d.
Definition epoch_ord : Z := 719163.
Definition timegm_midnight (y m d : Z) : Z := ((ymd2ord y m 1 - epoch_ord + d - 1) * 24 * 60 * 60).
Definition valid_date (y m d : Z) : bool :=
  (1 <=? y) && (y <=? 9999) && (1 <=? m) && (m <=? 12) && (1 <=? d) && (d <=? days_in_month y m).
Local Close Scope Z_scope.

Definition dval (c : N) : Z := Z.of_N (c - 48).

Definition parse_date (s : list N) : presult Z :=
  match s with
  | [y1; y2; y3; y4; h1; m1; m2; h2; d1; d2] =>
    if forallb is_digit [y1; y2; y3; y4; m1; m2; d1; d2] && (h1 =? 45) && (h2 =? 45) then
      let y := (((dval y1 * 10 + dval y2) * 10 + dval y3) * 10 + dval y4)%Z in
      let m := (dval m1 * 10 + dval m2)%Z in
      let d := (dval d1 * 10 + dval d2)%Z in
      if valid_date y m d then POk (timegm_midnight y m d) else PValueError
    else PValueError
  | _ => PValueError
  end.

(* ---- parse_abbreviated_size ----
   if s is None or s == "": return None
   m = re.match(r"^(\d+)\s*([KMGTPE]?[I]?[B]?)\Z", s, IGNORECASE|ASCII); ValueError if no match
   suffix = group(2).upper(); drop one trailing "B"; multiplier = {...}[suffix]; int(number) * multiplier *)
Inductive size_result : Type :=
| SzNone                  (* the setting is absent / empty *)
| SzOk (n : N)
| SzValueError
| SzKeyError.

Definition is_scale (c : N) : bool := existsb (N.eqb c) [75; 77; 71; 84; 80; 69].   (* K M G T P E *)
Definition strip_opt (c : N) (l : list N) : list N :=
  match l with x :: r => if x =? c then r else l | [] => [] end.
Definition strip_scale (l : list N) : list N :=
  match l with x :: r => if is_scale x then r else l | [] => [] end.
(* the three optional classes are pairwise disjoint, so the greedy reading is the only one *)
Definition size_suffix_ok (u : list N) : bool :=
  match strip_opt 66 (strip_opt 73 (strip_scale u)) with [] => true | _ => false end.
Definition drop_trailing_B (u : list N) : list N :=
  match rev u with x :: r => if x =? 66 then rev r else u | [] => [] end.

Definition parse_abbreviated_size (s : list N) : size_result :=
  match s with
  | [] => SzNone
  | _ =>
    let (ds, r) := span is_digit s in
    match ds with
    | [] => SzValueError
    | _ =>
      let sfx := map upper (drop_while is_ws r) in
      if size_suffix_ok sfx then
        match lookup (drop_trailing_B sfx) size_multipliers with
        | None => SzKeyError
        | Some mult => match py_int_digits ds with Some n => SzOk (n * mult) | None => SzValueError end
        end
      else SzValueError
    end
  end.

(* ---- abbreviate_space ----
   IEEE-754 binary64 arithmetic as the code performs it: float(s) (int -> float,
   round-half-even), / U**j (U**j is exact in binary64 for 1000**1..6 and 1024**1..6),
   "%.2f" (correctly rounded, half-even on the exact binary value).  A double is
   (m, e) meaning m * 2^e with 2^52 <= m < 2^53.  Range: no overflow / subnormals,
   i.e. 0 < s < 2^1000. *)
Definition rne_div (a b : N) : N :=      (* a / b rounded to nearest, ties to even *)
  let q := a / b in
  let r := a mod b in
  if 2 * r <? b then q else if b <? 2 * r then q + 1 else if N.even q then q else q + 1.

Definition scaled (p q : N) (e : Z) : N * N :=      (* (p / q) / 2^e as a fraction *)
  if (0 <=? e)%Z then (p, q * 2 ^ Z.to_N e) else (p * 2 ^ Z.to_N (- e), q).

Definition to_double (p q : N) : N * Z :=
  let e0 := (Z.of_N (N.log2 p) - Z.of_N (N.log2 q) - 53)%Z in
  let (a0, b0) := scaled p q e0 in
  let e := if a0 / b0 <? 2 ^ 53 then e0 else (e0 + 1)%Z in
  let (a, b) := scaled p q e in
  let m := rne_div a b in
  if m =? 2 ^ 53 then (2 ^ 52, (e + 1)%Z) else (m, e).

Definition double_div (x : N * Z) (d : N) : N * Z :=
  let (m, e) := x in
  if (0 <=? e)%Z then to_double (m * 2 ^ Z.to_N e) d else to_double m (d * 2 ^ Z.to_N (- e)).

Definition two_digits (v : N) : list N := [48 + v / 10; 48 + v mod 10].

Definition fmt_2f (x : N * Z) : list N :=
  let (m, e) := x in
  let v := if (0 <=? e)%Z then 100 * m * 2 ^ Z.to_N e else rne_div (100 * m) (2 ^ Z.to_N (- e)) in
  dec (v / 100) ++ [46] ++ two_digits (v mod 100).

(* r(count, suffix) = "%.2f %s%s" % (count, suffix, isuffix) with count = s / U**j *)
Definition abbrev_r (s U j : N) (prefix isuffix : list N) : list N :=
  fmt_2f (double_div (to_double s 1) (U ^ j)) ++ [32] ++ prefix ++ isuffix.

Fixpoint abbrev_ladder (s U : N) (isuffix : list N) (steps : list (N * N * list N)) : list N :=
  match steps with
  | [] => abbrev_r s U (fst abbrev_last) (snd abbrev_last) isuffix
  | (k, j, prefix) :: rest =>
    if s <? U ^ k then abbrev_r s U j prefix isuffix else abbrev_ladder s U isuffix rest
  end.

Definition abbreviate_space (si : bool) (s : N) : list N :=
  if s <? abbrev_small_limit then dec s ++ [32; 66]            (* "%d B" % s *)
  else abbrev_ladder s (if si then abbrev_U_si else abbrev_U_bin)
                     (if si then abbrev_isuffix_si else abbrev_isuffix_bin) abbrev_steps.

(* ================= documented meaning (hand-written from the documentation) =================
   docs/garbage-collection.rst (expire.override_lease_duration, expire.cutoff_date),
   docs/configuration.rst (reserved_space), the parse_duration docstring and the
   published answers in test_time_format.py: a month is 31 days, a year 365 days. *)
Definition spec_day : N := 24 * 60 * 60.
Definition spec_duration_units : list (list N * N) :=
  [(bytes_of_string "s", 1); (bytes_of_string "second", 1); (bytes_of_string "seconds", 1);
   (bytes_of_string "day", spec_day); (bytes_of_string "days", spec_day);
   (bytes_of_string "mo", 31 * spec_day); (bytes_of_string "month", 31 * spec_day); (bytes_of_string "months", 31 * spec_day);
   (bytes_of_string "year", 365 * spec_day); (bytes_of_string "years", 365 * spec_day)].

(* "a number, with an optional case-insensitive scale suffix [K M G T P E], optionally followed
   by B or iB; a following i indicates powers of 1024 rather than 1000" *)
Definition scale_index (c : N) : option N :=
  if c =? 75 then Some 1 else if c =? 77 then Some 2 else if c =? 71 then Some 3
  else if c =? 84 then Some 4 else if c =? 80 then Some 5 else if c =? 69 then Some 6 else None.
Inductive size_suffix : Type := Suffix (scale : option N) (binary : bool) (b : bool).   (* scale letter (upper case), "i", "B" *)
Definition suffix_text (x : size_suffix) : list N :=
  let 'Suffix sc bin b := x in
  (match sc with Some c => [c] | None => [] end) ++ (if bin then [73] else []) ++ (if b then [66] else []).
Definition suffix_wf (x : size_suffix) : bool :=
  let 'Suffix sc _ _ := x in match sc with Some c => is_scale c | None => true end.
Definition spec_multiplier (x : size_suffix) : N :=
  let 'Suffix sc bin _ := x in
  match sc with
  | None => 1
  | Some c => match scale_index c with Some k => (if bin then 1024 else 1000) ^ k | None => 1 end
  end.

(* value of a digit string (Horner), the meaning of "a number" *)
Definition digits_value (ds : list N) : N := fold_left (fun a d => a * 10 + (d - 48)) ds 0.

(* the day in the proleptic Gregorian calendar, by counting year and month lengths *)
Local Open Scope Z_scope.
Definition year_len (y : Z) : Z := if is_leap y then 366 else 365.
Fixpoint days_in_years (n : nat) : Z :=         (* total length of the years 1 .. n *)
  match n with O => 0 | S k => days_in_years k + year_len (Z.of_nat (S k)) end.
Fixpoint days_in_months (y : Z) (k : nat) : Z :=    (* total length of the months 1 .. k of year y *)
  match k with O => 0 | S j => days_in_months y j + days_in_month y (Z.of_nat (S j)) end.
Definition day_number (y m d : Z) : Z := days_in_years (Z.to_nat (y - 1)) + days_in_months y (Z.to_nat (m - 1)) + d.
(* seconds since 1970-01-01T00:00:00Z of the UTC midnight that starts the day y-m-d *)
Definition spec_utc_midnight (y m d : Z) : Z := 86400 * (day_number y m d - day_number 1970 1 1).
Local Close Scope Z_scope.

(* "YYYY-MM-DD" *)
Definition digit_of (v : Z) : N := 48 + Z.to_N v.
Definition fmt_date (y m d : Z) : list N :=
  [digit_of (y / 1000)%Z; digit_of (y / 100 mod 10)%Z; digit_of (y / 10 mod 10)%Z; digit_of (y mod 10)%Z; 45;
   digit_of (m / 10)%Z; digit_of (m mod 10)%Z; 45; digit_of (d / 10)%Z; digit_of (d mod 10)%Z].

(* ---- the documented grammars, as sets of (string, value) ---- *)
(* "a number": one or more ASCII digits; int() accepts at most max_int_digits of them *)
Definition digit_string (ds : list N) : Prop :=
  ds <> [] /\ forallb is_digit ds = true /\ N.of_nat (List.length ds) <= max_int_digits.

(* duration string: a number followed by a units suffix, optionally separated by a space;
   surrounding whitespace is tolerated (test_time_format: " 333 second "); units in any case *)
Definition duration_grammar (s : list N) (v : N) : Prop :=
  exists ws1 ds ws2 u ws3 m,
    s = ws1 ++ ds ++ ws2 ++ u ++ ws3 /\
    forallb is_ws ws1 = true /\ forallb is_ws ws2 = true /\ forallb is_ws ws3 = true /\
    digit_string ds /\
    lookup (map lower u) spec_duration_units = Some m /\
    v = digits_value ds * m.

(* size: a number, optional whitespace, an optional case-insensitive scale suffix, optional i, optional B *)
Definition size_grammar (s : list N) (v : N) : Prop :=
  exists ds ws sfx x,
    s = ds ++ ws ++ sfx /\
    digit_string ds /\ forallb is_ws ws = true /\
    suffix_wf x = true /\ map upper sfx = suffix_text x /\
    v = digits_value ds * spec_multiplier x.

(* date: YYYY-MM-DD naming a day of the (proleptic) Gregorian calendar, years 0001..9999 *)
Definition date_grammar (s : list N) (t : Z) : Prop :=
  exists (y m d : Z), valid_date y m d = true /\ s = fmt_date y m d /\ t = spec_utc_midnight y m d.

