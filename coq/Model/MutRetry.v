(* C10, "if at least k intact shares of the newest published version are reachable, the read
   succeeds": the version-selection and retry logic of MutableFileNode._download_best_version
   (as repaired in /repo 6b48610) over the ServerMap model of C11.

   Every share located by the survey carries a ghost flag gs_good: whether Retrieve can use it
   (it is exactly as published).  Shares that are not good are what the reader's checks reject
   (Props/C10.v accepted_version_signed / retrieved_plaintext_published); a share whose unsigned
   offset table was altered is filed under a version of its own (same seqnum, other vtag).

   One attempt: take best_recoverable_version of the shares not yet ruled out; Retrieve succeeds
   iff that version has k good distinct share numbers; otherwise it fails with
   NotEnoughSharesError having marked bad at least one share of that version (which ones is up
   to timing: the oracle `pick`), and the next attempt runs on the same servermap, in which
   marked shares stay out. *)
From Coq Require Import List NArith Bool.
From Verif Require Import Model.ServerMap.
Import ListNotations.
Local Open Scope N_scope.

Record gshare := { gs_share : share; gs_good : bool }.

Definition vis (l : list gshare) : servermap := map gs_share l.
Definition good_count (l : list gshare) (v : version) : N := count_shares (vis (filter gs_good l)) v.

Definition is_bad_of (v : version) (s : gshare) : bool := negb (gs_good s) && version_eqb (ver (gs_share s)) v.

Section Retry.
  Variable pick : list gshare -> version -> gshare -> bool.      (* which bad shares a failed attempt got to see *)

  Definition mark (l : list gshare) (v : version) : list gshare :=
    filter (fun s => negb (is_bad_of v s && pick l v s)) l.

  Fixpoint retry (fuel : nat) (l : list gshare) : option version :=
    match fuel with
    | O => None
    | S f =>
        match best_recoverable_version (vis l) with
        | None => None                                   (* UnrecoverableFileError: report the last failure *)
        | Some v => if vk v <=? good_count l v then Some v
                    else retry f (mark l v)
        end
    end.

  (* download_best_version: every share can be ruled out only once *)
  Definition download_best_version (l : list gshare) : option version := retry (S (length l)) l.
End Retry.
