(* Hand-written specification of Tahoe-LAFS key and secret derivations, taken
   from docs/specifications/{file-encoding,lease,mutable,dirnodes,uri}.rst and
   docs/architecture.rst -- written WITHOUT reference to hashutil.py's code
   structure: every derivation is "SHA-256d of a byte string built from
   netstrings, optionally truncated".  Gen/Hashutil.v (regenerated from the
   source) is proved equal to this in Props/C17.v. *)
From Coq Require Import List NArith Bool String.
From Verif Require Import Lib.Hex Lib.Decimal Lib.Netstring Lib.SHA256.
Import ListNotations.
Local Open Scope N_scope.

Definition B (s : string) : list N := bytes_of_string s.

(* SHA-256d (Ferguson/Schneier): the hash applied twice. *)
Definition SHA256d (m : list N) : list N := sha256 (sha256 m).
Definition first (n : nat) (d : list N) := firstn n d.

(* "sha256d tagged digest" of (tag, value): netstring(tag) ++ value *)
Definition tagged (tag val : list N) : list N := SHA256d (netstring tag ++ val).
(* "sha256d tagged pair digest" of (tag, a, b): three netstrings *)
Definition tagged_pair (tag a b : list N) : list N := SHA256d (netstring tag ++ netstring a ++ netstring b).

(* immutable files (file-encoding.rst) *)
Definition spec_storage_index (key : list N) := first 16 (tagged (B "allmydata_immutable_key_to_storage_index_v1") key).
Definition spec_block_hash d := tagged (B "allmydata_encoded_subshare_v1") d.
Definition spec_uri_extension_hash d := tagged (B "allmydata_uri_extension_v1") d.
Definition spec_plaintext_hash d := tagged (B "allmydata_plaintext_v1") d.
Definition spec_crypttext_hash d := tagged (B "allmydata_crypttext_v1") d.
Definition spec_crypttext_segment_hash d := tagged (B "allmydata_crypttext_segment_v1") d.
Definition spec_plaintext_segment_hash d := tagged (B "allmydata_plaintext_segment_v1") d.

(* convergent key: tag = fixed tag ++ netstring(secret) ++ netstring("k,n,segsize") *)
Definition spec_convergence_tag (k n segsize : N) (secret : list N) : list N :=
  B "allmydata_immutable_content_to_key_with_added_secret_v1+" ++ netstring secret
    ++ netstring (dec k ++ B "," ++ dec n ++ B "," ++ dec segsize).
Definition spec_convergence_key (k n segsize : N) (data secret : list N) : list N :=
  first 16 (tagged (spec_convergence_tag k n segsize secret) data).
Definition spec_convergence_params_ok (k n : N) : bool :=
  (1 <=? k) && (k <=? n) && (n <=? 256).

(* lease secrets (lease.rst): note the client-level digests take the lease
   secret as the *tag* and the fixed string as the value. *)
Definition spec_client_renewal_secret (lease_secret : list N) := tagged lease_secret (B "allmydata_client_renewal_secret_v1").
Definition spec_client_cancel_secret (lease_secret : list N) := tagged lease_secret (B "allmydata_client_cancel_secret_v1").
Definition spec_file_renewal_secret (crs si : list N) := tagged_pair (B "allmydata_file_renewal_secret_v1") crs si.
Definition spec_file_cancel_secret (ccs si : list N) := tagged_pair (B "allmydata_file_cancel_secret_v1") ccs si.
Definition spec_bucket_renewal_secret (frs peerid : list N) := tagged_pair (B "allmydata_bucket_renewal_secret_v1") frs peerid.
Definition spec_bucket_cancel_secret (fcs peerid : list N) := tagged_pair (B "allmydata_bucket_cancel_secret_v1") fcs peerid.
(* whole chains, lease secret -> per-server secret *)
Definition spec_renewal_secret_chain (lease_secret si peerid : list N) :=
  spec_bucket_renewal_secret (spec_file_renewal_secret (spec_client_renewal_secret lease_secret) si) peerid.
Definition spec_cancel_secret_chain (lease_secret si peerid : list N) :=
  spec_bucket_cancel_secret (spec_file_cancel_secret (spec_client_cancel_secret lease_secret) si) peerid.

(* mutable files (mutable.rst) *)
Definition spec_writekey (privkey : list N) := first 16 (tagged (B "allmydata_mutable_privkey_to_writekey_v1") privkey).
Definition spec_readkey (writekey : list N) := first 16 (tagged (B "allmydata_mutable_writekey_to_readkey_v1") writekey).
Definition spec_mutable_storage_index (readkey : list N) := first 16 (tagged (B "allmydata_mutable_readkey_to_storage_index_v1") readkey).
Definition spec_datakey (iv readkey : list N) := first 16 (tagged_pair (B "allmydata_mutable_readkey_to_datakey_v1") iv readkey).
Definition spec_fingerprint (pubkey : list N) := tagged (B "allmydata_mutable_pubkey_to_fingerprint_v1") pubkey.
Definition spec_write_enabler_master (writekey : list N) := tagged (B "allmydata_mutable_writekey_to_write_enabler_master_v1") writekey.
Definition spec_write_enabler (writekey peerid : list N) :=
  tagged_pair (B "allmydata_mutable_write_enabler_master_and_nodeid_to_write_enabler_v1") (spec_write_enabler_master writekey) peerid.
(* cap chain privkey -> writekey -> readkey -> storage index *)
Definition spec_mutable_key_chain (privkey : list N) :=
  let wk := spec_writekey privkey in let rk := spec_readkey wk in (wk, rk, spec_mutable_storage_index rk).

(* directories (dirnodes.rst) *)
Definition spec_dirnode_child_key (iv writekey : list N) := first 16 (tagged_pair (B "allmydata_mutable_writekey_and_salt_to_dirnode_child_capkey_v1") iv writekey).
Definition spec_dirnode_child_salt (rwcap : list N) := first 16 (tagged (B "allmydata_dirnode_child_rwcap_to_salt_v1") rwcap).

(* backup database, server permutation *)
Definition spec_backupdb_dirhash c := tagged (B "allmydata_backupdb_dirhash_v1") c.
Definition spec_permuted_position (peer_selection_index seed : list N) := sha1 (peer_selection_index ++ seed).
