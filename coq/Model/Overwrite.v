(* C39  Model of src/allmydata/frontends/sftpd.py : class OverwriteableFileConsumer
   (the temporary file that receives the background download of a file's old
   contents while the SFTP client already reads, writes and resizes it).

   Definitions only; proofs are in Proofs/Overwrite*.v, statements in Props/C39.v.

   Conventions
   * bytes are [list N]; all offsets, sizes and lengths are [N].
   * the temporary file is its byte list [f]; [fwrite]/[ftrunc] model
     seek+write / truncate of a Python file object.  Bytes of a "hole" (seek or
     truncate past the end) are [g i] for an arbitrary function [g] of the
     offset: 0 for tempfile.TemporaryFile, keystream garbage for sftpd's
     EncryptedTemporaryFile.  The theorems hold for every [g].
   * the heapq of overwritten intervals is the list sorted in Python's tuple
     order ((start, end) lexicographic): heappop = head, heappush = sorted insert.
   * the heapq of milestones (needed, seqnum, Deferred) is the list sorted by
     [needed], FIFO among equal keys (seqnum increases).
   * foolscap's eventual-send queue is the FIFO list [fired]; the op [Turn] runs
     one turn of that queue (the callbacks of reads whose milestone fired). *)
From Coq Require Import List NArith Bool.
Import ListNotations.
Local Open Scope N_scope.

(* ---------- lists indexed by N ---------- *)
Definition len {A} (l : list A) : N := N.of_nat (length l).
Definition take {A} (n : N) (l : list A) : list A := firstn (N.to_nat n) l.
Definition drop {A} (n : N) (l : list A) : list A := skipn (N.to_nat n) l.
Definition get {A} (l : list A) (i : N) : option A := nth_error l (N.to_nat i).
Definition zeros (n : N) : list N := repeat 0 (N.to_nat n).
(* contents of a hole covering offsets start .. start+count-1 *)
Definition gap (g : N -> N) (start count : N) : list N :=
  map (fun k => g (start + N.of_nat k)) (seq 0 (N.to_nat count)).

(* f.seek(pos); f.write(data)   (writing nothing never extends a file) *)
Definition fwrite (g : N -> N) (f : list N) (pos : N) (data : list N) : list N :=
  match data with
  | [] => f
  | _ => if len f <? pos then f ++ gap g (len f) (pos - len f) ++ data
         else take pos f ++ data ++ drop (pos + len data) f
  end.

(* f.truncate(size) : shortens, or extends with a hole *)
Definition ftrunc (g : N -> N) (f : list N) (size : N) : list N :=
  if size <=? len f then take size f else f ++ gap g (len f) (size - len f).

(* f.seek(off); f.read(n) *)
Definition fread (f : list N) (off n : N) : list N := take n (drop off f).

(* ---------- the two heaps ---------- *)
Definition ow_leb (a b : N * N) : bool :=
  (fst a <? fst b) || ((fst a =? fst b) && (snd a <=? snd b)).

Fixpoint ow_insert (x : N * N) (l : list (N * N)) : list (N * N) :=
  match l with
  | [] => [x]
  | y :: r => if ow_leb x y then x :: l else y :: ow_insert x r
  end.

(* a read waiting for the download: request id, offset, (clipped) length *)
Record rd := mkRd { rid : N; roff : N; rlen : N }.

Fixpoint ms_insert (x : N * rd) (l : list (N * rd)) : list (N * rd) :=
  match l with
  | [] => [x]
  | y :: r => if fst x <? fst y then x :: l else y :: ms_insert x r
  end.

(* ---------- consumer state ---------- *)
Record state := mkSt {
  f : list N;              (* self.f                                          *)
  cur : N;                 (* self.current_size                               *)
  dsize : N;               (* self.download_size                              *)
  dl : N;                  (* self.downloaded                                 *)
  ows : list (N * N);      (* self.overwrites                                 *)
  ms : list (N * rd);      (* self.milestones                                 *)
  fired : list rd;         (* read callbacks sitting in the eventual queue    *)
  done : bool;             (* self.done_status is not None                    *)
  closed : bool            (* self.is_closed                                  *)
}.

Definition init (d0 : N) : state := mkSt [] d0 d0 0 [] [] [] false false.

Definition set_f s x := mkSt x (cur s) (dsize s) (dl s) (ows s) (ms s) (fired s) (done s) (closed s).
Definition set_cur s x := mkSt (f s) x (dsize s) (dl s) (ows s) (ms s) (fired s) (done s) (closed s).
Definition set_dsize s x := mkSt (f s) (cur s) x (dl s) (ows s) (ms s) (fired s) (done s) (closed s).
Definition set_dl s x := mkSt (f s) (cur s) (dsize s) x (ows s) (ms s) (fired s) (done s) (closed s).
Definition set_ows s x := mkSt (f s) (cur s) (dsize s) (dl s) x (ms s) (fired s) (done s) (closed s).
Definition set_closed s x := mkSt (f s) (cur s) (dsize s) (dl s) (ows s) (ms s) (fired s) (done s) x.

(* download_done(res): only the first call counts; every waiting read is released *)
Definition download_done (s : state) : state :=
  if done s then s
  else mkSt (f s) (cur s) (dsize s) (dl s) (ows s) [] (fired s ++ map snd (ms s)) true (closed s).

(* the milestone loop of _update_downloaded: pop while next_ <= milestone *)
Fixpoint ms_split (m : N) (l : list (N * rd)) : list rd * list (N * rd) :=
  match l with
  | [] => ([], [])
  | y :: r => if m <? fst y then ([], l)
              else let '(a, b) := ms_split m r in (snd y :: a, b)
  end.

(* _update_downloaded(new_downloaded) *)
Definition milestone_of (ows : list (N * N)) (nd : N) : N :=
  match ows with
  | (st, en) :: _ => if (st <=? nd) && (nd <? en) then en else nd
  | [] => nd
  end.

Definition update_downloaded (s : state) (nd : N) : state :=
  let m := milestone_of (ows s) nd in
  let '(now, rest) := ms_split m (ms s) in
  let s1 := mkSt (f s) (cur s) (dsize s) nd (ows s) rest (fired s ++ now) (done s) (closed s) in
  match rest with
  | _ :: _ => s1                                    (* "if next_ > milestone: return" *)
  | [] => if dsize s <=? m then download_done s1 else s1
  end.

(* the inner "merge consecutive overwrites" loop: pops entries whose start is
   <= end, end := max(end, end1)   (see the note on the repaired line in Props/C39.v) *)
Fixpoint merge (en : N) (l : list (N * N)) : N * list (N * N) :=
  match l with
  | [] => (en, [])
  | (s1, e1) :: r => if en <? s1 then (en, l) else merge (N.max en e1) r
  end.

(* the same loop as it was before the repair ("end = end1"): kept only for the
   recorded example in Props/C39.v, used by nothing else *)
Fixpoint merge_unrepaired (en : N) (l : list (N * N)) : N * list (N * N) :=
  match l with
  | [] => (en, [])
  | (s1, e1) :: r => if en <? s1 then (en, l) else merge_unrepaired e1 r
  end.

(* write(data), the outer while loop.  Each iteration pops at least one heap
   entry, so |heap|+1 units of fuel always suffice (Proofs: wloop_total). *)
Fixpoint wloop (g : N -> N) (fuel : nat) (s : state) (data : list N) (next : N) : option state :=
  match fuel with
  | O => None
  | S k =>
    match ows s with
    | [] => Some (update_downloaded (set_f s (fwrite g (f s) (dl s) data)) next)
    | (st, en) :: rest =>
      if next <=? st then Some (update_downloaded (set_f s (fwrite g (f s) (dl s) data)) next)
      else
        let s1 := if dl s <? st then set_f s (fwrite g (f s) (dl s) (take (st - dl s) data)) else s in
        let '(en', rest') := merge en rest in
        if next <=? en' then
          Some (update_downloaded (set_ows s1 (ow_insert (next, en') rest')) next)
        else if dl s <=? en' then
          wloop g k (update_downloaded (set_ows s1 rest') en') (drop (en' - dl s) data) next
        else wloop g k (set_ows s1 rest') data next
    end
  end.

Definition write (g : N -> N) (s : state) (data : list N) : option state :=
  if closed s then Some s
  else if dsize s <=? dl s then Some s
  else
    let next := dl s + len data in
    let data' := if dsize s <? next then take (dsize s - dl s) data else data in
    wloop g (S (length (ows s))) s data' next.

(* overwrite(offset, data) on an open consumer *)
Definition overwrite (g : N -> N) (s : state) (off : N) (data : list N) : state :=
  let '(f1, start) :=
    if cur s <? off then (fwrite g (f s) (cur s) (zeros (off - cur s)), cur s)
    else (f s, off) in
  let f2 := fwrite g f1 off data in
  let en := off + len data in
  let s1 := set_cur (set_f s f2) (N.max (cur s) en) in
  if dl s <? en then set_ows s1 (ow_insert (start, en) (ows s)) else s1.

(* set_current_size(size) on an open consumer *)
Definition set_current_size (g : N -> N) (s : state) (size : N) : state :=
  let s1 := if (size <? cur s) || (size <? dl s) then set_f s (ftrunc g (f s) size) else s in
  let s2 := if cur s1 <? size then overwrite g s1 (cur s1) (zeros (size - cur s1)) else s1 in
  let s3 := set_cur s2 size in
  let s4 := if size <? dsize s3 then set_dsize s3 size else s3 in
  if dsize s4 <=? dl s4 then download_done s4 else s4.

(* ---------- reads ---------- *)
Inductive rres := RData (b : list N) | REof | RFail.

(* _reached_in_read: runs when the read's Deferred fires *)
Definition do_read (s : state) (r : rd) : rres :=
  if closed s then RFail                                   (* seek on a closed file raises *)
  else if cur s <? roff r + rlen r then RFail              (* _assert(current_size >= offset+length) *)
  else RData (fread (f s) (roff r) (rlen r)).

Inductive read_outcome := Now (r : rres) | Wait (s : state).

Definition read (s : state) (id off length : N) : read_outcome :=
  if closed s then Now RFail                               (* raises SFTPError *)
  else if cur s <=? off then Now REof
  else
    let length' := if cur s <? off + length then cur s - off else length in
    let needed := N.min (off + length') (dsize s) in
    let r := mkRd id off length' in
    if done s then Now (do_read s r)                       (* defer.execute: synchronous *)
    else if needed <=? dl s then Now (do_read s r)         (* defer.succeed: synchronous *)
    else Wait (mkSt (f s) (cur s) (dsize s) (dl s) (ows s) (ms_insert (needed, r) (ms s)) (fired s) (done s) (closed s)).

(* close() *)
Definition close (s : state) : state := download_done (set_closed s true).

(* ---------- the reference: client operations applied in order ---------- *)
Definition ref_write (r : list N) (off : N) (data : list N) : list N :=
  let r1 := if len r <? off then r ++ zeros (off - len r) else r in
  take off r1 ++ data ++ drop (off + len data) r1.

Definition ref_resize (r : list N) (size : N) : list N :=
  if size <=? len r then take size r else r ++ zeros (size - len r).

Definition ref_read (r : list N) (off length : N) : rres :=
  if len r <=? off then REof else RData (take length (drop off r)).

(* ---------- histories ---------- *)
Inductive op :=
| Chunk (n : N)                         (* the downloader calls write() with the next n bytes of O *)
| Overwrite (off : N) (data : list N)   (* client write *)
| SetSize (size : N)                    (* client truncate / extend *)
| Read (off length : N)                 (* client read; request ids count the Reads of the history from 0 *)
| Turn                                  (* one turn of the eventual-send queue *)
| TurnOne                               (* only the oldest event of the queue runs (events are FIFO) *)
| Finish                                (* download_done("download finished") *)
| Close.                                (* consumer.close() *)

Record cfg := mkCfg {
  st : state;
  pos : N;                      (* ghost: stream position of the download *)
  ref : list N;                 (* ghost: reference contents *)
  nid : N;                      (* next request id *)
  outs : list (N * rres);       (* completed reads, in completion order *)
  exps : list (N * rres)        (* ghost: (id, reference answer at the time the read was issued) *)
}.

Definition init_cfg (O : list N) (d0 : N) : cfg := mkCfg (init d0) 0 (take d0 O) 0 [] [].

Definition step (g : N -> N) (O : list N) (c : cfg) (o : op) : option cfg :=
  let s := st c in
  match o with
  | Chunk n =>
      let data := take n (drop (pos c) O) in
      match write g s data with
      | Some s' => Some (mkCfg s' (pos c + len data) (ref c) (nid c) (outs c) (exps c))
      | None => None
      end
  | Overwrite off data =>
      if closed s then Some c                              (* raises; nothing changes *)
      else Some (mkCfg (overwrite g s off data) (pos c) (ref_write (ref c) off data) (nid c) (outs c) (exps c))
  | SetSize size =>
      if closed s then Some c                              (* raises or changes nothing *)
      else Some (mkCfg (set_current_size g s size) (pos c) (ref_resize (ref c) size) (nid c) (outs c) (exps c))
  | Read off length =>
      let id := nid c in
      let e := (id, ref_read (ref c) off length) in
      match read s id off length with
      | Now r => Some (mkCfg s (pos c) (ref c) (id + 1) (outs c ++ [(id, r)]) (exps c ++ [e]))
      | Wait s' => Some (mkCfg s' (pos c) (ref c) (id + 1) (outs c) (exps c ++ [e]))
      end
  | Turn =>
      let res := map (fun r => (rid r, do_read s r)) (fired s) in
      Some (mkCfg (mkSt (f s) (cur s) (dsize s) (dl s) (ows s) (ms s) [] (done s) (closed s))
                  (pos c) (ref c) (nid c) (outs c ++ res) (exps c))
  | TurnOne =>
      match fired s with
      | [] => Some c
      | r :: rest =>
          Some (mkCfg (mkSt (f s) (cur s) (dsize s) (dl s) (ows s) (ms s) rest (done s) (closed s))
                      (pos c) (ref c) (nid c) (outs c ++ [(rid r, do_read s r)]) (exps c))
      end
  | Finish => Some (mkCfg (download_done s) (pos c) (ref c) (nid c) (outs c) (exps c))
  | Close =>
      if closed s then Some c
      else Some (mkCfg (close s) (pos c) (ref c) (nid c) (outs c) (exps c))
  end.

Fixpoint run_from (g : N -> N) (O : list N) (c : cfg) (l : list op) : option cfg :=
  match l with
  | [] => Some c
  | o :: r => match step g O c o with Some c' => run_from g O c' r | None => None end
  end.

Definition run (g : N -> N) (O : list N) (d0 : N) (l : list op) : option cfg :=
  run_from g O (init_cfg O d0) l.

(* ---------- admissible histories ---------- *)
(* The downloader reports success (Finish) only after it has delivered all d0
   bytes.  [finish_ok] checks that along the run. *)
Fixpoint finish_ok_from (g : N -> N) (O : list N) (d0 : N) (c : cfg) (l : list op) : bool :=
  match l with
  | [] => true
  | o :: r =>
      (match o with Finish => d0 <=? pos c | _ => true end) &&
      match step g O c o with Some c' => finish_ok_from g O d0 c' r | None => false end
  end.
Definition finish_ok g O d0 l := finish_ok_from g O d0 (init_cfg O d0) l.

(* The contract in the docstring of OverwriteableFileConsumer.read: "The caller
   must perform no more overwrites until the Deferred has fired" - no client
   write or size change while a read is outstanding (waiting for its milestone
   or sitting in the eventual queue). *)
Definition quiescent (s : state) : bool :=
  match ms s, fired s with [], [] => true | _, _ => false end.

Fixpoint contract_ok_from (g : N -> N) (O : list N) (c : cfg) (l : list op) : bool :=
  match l with
  | [] => true
  | o :: r =>
      (match o with
       | Overwrite _ _ | SetSize _ => quiescent (st c) || closed (st c)
       | _ => true end) &&
      match step g O c o with Some c' => contract_ok_from g O c' r | None => false end
  end.
Definition contract_ok g O d0 l := contract_ok_from g O (init_cfg O d0) l.

(* ---------- vocabulary of the invariant (DESIGN.md A.4) ---------- *)
(* offset i lies in an interval of the overwrite heap *)
Definition inow (l : list (N * N)) (i : N) : Prop :=
  exists st en, In (st, en) l /\ st <= i < en.
Definition cov (d : N) (l : list (N * N)) (i : N) : Prop := i < d \/ inow l i.
(* "covered": already downloaded, or overwritten by the client and still on the heap *)
Definition covered (s : state) (i : N) : Prop := cov (dl s) (ows s) i.

(* operations that are not client mutations: the download side, reads, queue turns *)
Definition download_side (o : op) : bool :=
  match o with Chunk _ | Turn | TurnOne | Finish | Read _ _ => true | _ => false end.

(* ---------- what the driver compares with the implementation ---------- *)
Definition zero_hole : N -> N := fun _ => 0.

Fixpoint list_eqb {A} (e : A -> A -> bool) (a b : list A) : bool :=
  match a, b with
  | [], [] => true
  | x :: a', y :: b' => e x y && list_eqb e a' b'
  | _, _ => false
  end.

Definition rres_eqb (a b : rres) : bool :=
  match a, b with
  | RData x, RData y => list_eqb N.eqb x y
  | REof, REof => true
  | RFail, RFail => true
  | _, _ => false
  end.

Definition pair_eqb {A B} (ea : A -> A -> bool) (eb : B -> B -> bool) (a b : A * B) : bool :=
  ea (fst a) (fst b) && eb (snd a) (snd b).

(* per-op trace of the scalar state: (current_size, download_size, downloaded, done, #milestones) *)
Definition snap (s : state) : N * N * N * bool * N :=
  (cur s, dsize s, dl s, done s, len (ms s)).

(* the run together with its trace, in one pass (same steps as [run_from]) *)
Fixpoint run_trace_from (g : N -> N) (O : list N) (c : cfg) (l : list op)
         (acc : list (N * N * N * bool * N)) : option (cfg * list (N * N * N * bool * N)) :=
  match l with
  | [] => Some (c, rev acc)
  | o :: r => match step g O c o with
              | Some c' => run_trace_from g O c' r (snap (st c') :: acc)
              | None => None
              end
  end.

Definition snap_eqb (a b : N * N * N * bool * N) : bool :=
  let '(a1, a2, a3, a4, a5) := a in
  let '(b1, b2, b3, b4, b5) := b in
  (a1 =? b1) && (a2 =? b2) && (a3 =? b3) && Bool.eqb a4 b4 && (a5 =? b5).

(* [file] = Some bytes: compare the whole temporary file (plain temp file, hole = 0);
   None: the run used EncryptedTemporaryFile, whose holes are not reproducible. *)
Definition check_case (O : list N) (d0 : N) (l : list op)
           (x_outs : list (N * rres)) (x_trace : list (N * N * N * bool * N))
           (x_file : option (list N)) (x_ows : list (N * N)) (x_closed : bool) (x_ref : option (list N)) : bool :=
  match run_trace_from zero_hole O (init_cfg O d0) l [] with
  | None => false
  | Some (c, tr) =>
      list_eqb (pair_eqb N.eqb rres_eqb) (outs c) x_outs
      && list_eqb snap_eqb tr x_trace
      && match x_file with Some b => list_eqb N.eqb (f (st c)) b | None => true end
      && list_eqb (pair_eqb N.eqb N.eqb) (ows (st c)) x_ows
      && Bool.eqb (closed (st c)) x_closed
      && match x_ref with Some b => list_eqb N.eqb (ref c) b | None => true end
  end.
