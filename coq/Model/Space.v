(* Model of storage space accounting:
     src/allmydata/util/fileutil.py    get_disk_stats (the Unix branch: os.statvfs) / get_available_space
     src/allmydata/storage/server.py   StorageServer.get_available_space (readonly_storage, reserved_space),
                                       allocate_buckets accounting (via Model/ImmStore.v allocate),
                                       allocated_size, bucket_writer_closed
   together with a disk on which only this server stores data.

   No proofs here (Proofs/Space*.v).

   Disk model (the simulated disk of the C28 driver follows the same rule):
   * [dk_capacity] bytes are free for a non-privileged user while the store is empty;
   * a closed share consumes its data length (which is its allocated size); an upload in progress
     consumes the number of distinct byte positions written so far; an aborted upload consumes nothing;
   * statvfs reports f_bavail = floor(free / f_frsize);
   * the 12-byte container header and the 72-byte lease records are NOT counted: the accounting
     in allocate_buckets is in terms of allocated (data) sizes, which is what the property speaks of. *)
From Coq Require Import List NArith ZArith Bool.
From Verif Require Import Model.ImmStore.
Import ListNotations.
Local Open Scope N_scope.

Record config := mkConfig {
  cf_readonly : bool;       (* [storage]readonly *)
  cf_reserved : N           (* [storage]reserved_space *)
}.

Inductive stat_mode :=
| StatOk                    (* os.statvfs works *)
| StatFails                 (* os.statvfs raises OSError (EnvironmentError) *)
| StatMissing.              (* platform without statvfs: AttributeError *)

Record disk := mkDisk {
  dk_capacity : N;
  dk_frsize : N;            (* f_frsize *)
  dk_mode : stat_mode
}.

(* fileutil.get_disk_stats(...)['avail'] = max(f_frsize * f_bavail - reserved_space, 0) *)
Definition disk_stats_avail (frsize bavail reserved : N) : N :=
  Z.to_N (Z.max (Z.of_N (frsize * bavail) - Z.of_N reserved) 0).

(* fileutil.get_available_space *)
Definition fileutil_available_space (mode : stat_mode) (frsize bavail reserved : N) : option N :=
  match mode with
  | StatOk => Some (disk_stats_avail frsize bavail reserved)
  | StatMissing => None
  | StatFails => Some 0
  end.

(* number of distinct positions below [size] covered by the written-range map *)
Fixpoint seqN (start : N) (n : nat) : list N :=
  match n with
  | O => []
  | S n' => start :: seqN (start + 1) n'
  end.

Definition covered_count (size : N) (l : ranges) : N :=
  N.of_nat (length (filter (covered l) (seqN 0 (N.to_nat size)))).

Definition slot_used (v : slot) : N :=
  match v with
  | Absent => 0
  | Incoming w => covered_count (w_size w) (w_ranges w)
  | Final _ data => blen data
  end.

(* what in-progress uploads may still write *)
Definition slot_outstanding (v : slot) : N :=
  match v with
  | Incoming w => w_size w - covered_count (w_size w) (w_ranges w)
  | _ => 0
  end.

Definition used (s : store) : N := sum_slots slot_used (st_slots s).
Definition outstanding (s : store) : N := sum_slots slot_outstanding (st_slots s).

Definition free (dk : disk) (s : store) : N := dk_capacity dk - used s.

Definition bavail (dk : disk) (s : store) : N := free dk s / dk_frsize dk.

(* StorageServer.get_available_space *)
Definition get_available_space (cfg : config) (dk : disk) (s : store) : option N :=
  if cf_readonly cfg then Some 0
  else fileutil_available_space (dk_mode dk) (dk_frsize dk) (bavail dk s) (cf_reserved cfg).

(* An ImmStore operation executed by a server with this configuration on this disk: the [avail]
   argument of an allocation is what get_available_space() returns in the current state. *)
Definition close_env (cfg : config) (dk : disk) (s : store) (o : op) : op :=
  match o with
  | OAlloc si shs size canary _ => OAlloc si shs size canary (get_available_space cfg dk s)
  | _ => o
  end.

Definition sstep (cfg : config) (dk : disk) (s : store) (o : op) : store * res :=
  step (cf_readonly cfg) s (close_env cfg dk s o).

Fixpoint srun_from (cfg : config) (dk : disk) (s : store) (ops : list op) : store * list event :=
  match ops with
  | [] => (s, [])
  | o :: rest =>
      match sstep cfg dk s o with
      | (s', r) => match srun_from cfg dk s' rest with (s'', tr) => (s'', (close_env cfg dk s o, r) :: tr) end
      end
  end.

Definition srun (cfg : config) (dk : disk) (ops : list op) : store * list event :=
  srun_from cfg dk init ops.

(* ------------------------------------------------------------ comparison with the implementation *)
(* after every operation: the answer, allocated_size(), get_available_space() *)
Fixpoint sobserve_from (cfg : config) (dk : disk) (s : store) (ops : list op) : list (res * N * option N) :=
  match ops with
  | [] => []
  | o :: rest =>
      match sstep cfg dk s o with
      | (s', r) => (r, allocated_size s', get_available_space cfg dk s') :: sobserve_from cfg dk s' rest
      end
  end.

Definition optN_eqb (a b : option N) : bool :=
  match a, b with
  | None, None => true
  | Some x, Some y => x =? y
  | _, _ => false
  end.

Fixpoint sobs_eqb (a b : list (res * N * option N)) : bool :=
  match a, b with
  | [], [] => true
  | (r, n, v) :: a', (r', n', v') :: b' => res_eqb r r' && (n =? n') && optN_eqb v v' && sobs_eqb a' b'
  | _, _ => false
  end.

Definition check_space_history (cfg : config) (dk : disk) (ops : list op) (expected : list (res * N * option N)) : bool :=
  sobs_eqb (sobserve_from cfg dk init ops) expected.
