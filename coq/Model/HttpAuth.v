(* Model of the authorisation layer of the HTTP storage server
   (src/allmydata/storage/http_server.py: _extract_secrets, _authorization_decorator,
   _authorized_route, UploadsInProgress and the three secret-sensitive handlers;
   storage/http_common.py: Secrets, swissnum_auth_header).  The route table and the
   `secret` type are Gen/Routes.v (regenerated from the source on every run); the
   hand-modelled definitions are pinned there by AST fingerprint.

   Header values are Python `str`: lists of code points (list N).  A header value that
   is not valid UTF-8 never becomes a `str` (twisted's Headers.getRawHeaders raises
   UnicodeDecodeError): it is `None` here.

   No proofs in this file. *)
From Coq Require Import List NArith Bool String.
From Verif Require Import Lib.Hex Gen.Routes.
Import ListNotations.
Local Open Scope N_scope.
Local Open Scope bool_scope.

(* ---------------------------------------------------------------------------
   base64 (python's base64.b64encode / b64decode(validate=False), CPython 3.12
   binascii.a2b_base64 in non-strict mode).  Library behaviour, compared with the
   real functions by the driver on every run. *)

Definition b64_alphabet : list N :=
  bytes_of_string "ABCDEFGHIJKLMNOPQRSTUVWXYZabcdefghijklmnopqrstuvwxyz0123456789+/".

Definition b64char (v : N) : N := nth (N.to_nat v) b64_alphabet 61.

Fixpoint b64encode (b : list N) : list N :=
  match b with
  | [] => []
  | [x] => [b64char (x / 4); b64char ((x mod 4) * 16); 61; 61]
  | [x; y] => [b64char (x / 4); b64char ((x mod 4) * 16 + y / 16); b64char ((y mod 16) * 4); 61]
  | x :: y :: z :: r =>
      b64char (x / 4) :: b64char ((x mod 4) * 16 + y / 16)
        :: b64char ((y mod 16) * 4 + z / 64) :: b64char (z mod 64) :: b64encode r
  end.

Definition b64val (c : N) : option N :=
  if (65 <=? c) && (c <=? 90) then Some (c - 65)
  else if (97 <=? c) && (c <=? 122) then Some (c - 71)
  else if (48 <=? c) && (c <=? 57) then Some (c + 4)
  else if c =? 43 then Some 62
  else if c =? 47 then Some 63
  else None.

(* binascii.a2b_base64, strict_mode = 0: characters outside the alphabet are skipped;
   '=' counts as padding only once two characters of the quad are in; a completed pad
   sequence stops the parse; a dangling quad is an error (None). *)
Fixpoint b64_loop (s : list N) (quad leftc pads : N) (acc : list N) : option (list N) :=
  match s with
  | [] => if quad =? 0 then Some (rev acc) else None
  | ch :: r =>
      if ch =? 61 then
        if 2 <=? quad then
          if 4 <=? quad + (pads + 1) then Some (rev acc)
          else b64_loop r quad leftc (pads + 1) acc
        else b64_loop r quad leftc pads acc
      else
        match b64val ch with
        | None => b64_loop r quad leftc pads acc
        | Some v =>
            if quad =? 0 then b64_loop r 1 v 0 acc
            else if quad =? 1 then b64_loop r 2 (v mod 16) 0 ((leftc * 4 + v / 16) :: acc)
            else if quad =? 2 then b64_loop r 3 (v mod 4) 0 ((leftc * 16 + v / 4) :: acc)
            else b64_loop r 0 0 0 ((leftc * 64 + v) :: acc)
        end
  end.

(* base64.b64decode(<str>): non-ASCII -> ValueError; then the lenient decoder.
   None = ValueError / binascii.Error. *)
Definition b64decode (s : list N) : option (list N) :=
  if existsb (fun c => 128 <=? c) s then None else b64_loop s 0 0 0 [].

(* ---------------------------------------------------------------------------
   str.strip() and str.split(" ", 1) *)

Definition is_space (c : N) : bool :=
  ((9 <=? c) && (c <=? 13)) || ((28 <=? c) && (c <=? 32)) || (c =? 133) || (c =? 160)
  || (c =? 5760) || ((8192 <=? c) && (c <=? 8202)) || (c =? 8232) || (c =? 8233)
  || (c =? 8239) || (c =? 8287) || (c =? 12288).

Fixpoint lstrip (s : list N) : list N :=
  match s with
  | [] => []
  | c :: r => if is_space c then lstrip r else s
  end.

Definition strip (s : list N) : list N := rev (lstrip (rev (lstrip s))).

(* header_value.split(" ", 1) unpacked into two names: None = ValueError (no space) *)
Fixpoint split_space (s : list N) : option (list N * list N) :=
  match s with
  | [] => None
  | c :: r =>
      if c =? 32 then Some ([], r)
      else match split_space r with
           | Some (a, b) => Some (c :: a, b)
           | None => None
           end
  end.

(* ---------------------------------------------------------------------------
   _extract_secrets *)

Definition find_secret (key : list N) : option secret :=
  find (fun k => list_N_eqb (secret_name k) key) all_secrets.

(* python dict with insertion order; assignment to an existing key keeps its position *)
Definition sdict := list (secret * list N).

Fixpoint dict_set (d : sdict) (k : secret) (v : list N) : sdict :=
  match d with
  | [] => [(k, v)]
  | (k', v') :: r => if secret_eqb k k' then (k', v) :: r else (k', v') :: dict_set r k v
  end.

Fixpoint dict_get (d : sdict) (k : secret) : option (list N) :=
  match d with
  | [] => None
  | (k', v) :: r => if secret_eqb k k' then Some v else dict_get r k
  end.

Definition dict_keys (d : sdict) : list secret := map fst d.

Definition secret_mem (k : secret) (l : list secret) : bool := existsb (secret_eqb k) l.

(* result.keys() != required_secrets : comparison of a keys view with a set *)
Definition keys_eq (d : sdict) (required : list secret) : bool :=
  forallb (fun k => secret_mem k required) (dict_keys d)
  && forallb (fun k => secret_mem k (dict_keys d)) required.

Inductive extract_err : Set :=
| BadHeaderValues      (* ValueError / KeyError: no space, unknown kind, undecodable base64 *)
| FailedDecode         (* decoded to b"" *)
| LeaseLength          (* lease secret that is not 32 bytes *)
| WrongSecretSet.      (* result.keys() != required_secrets *)

Definition is_lease (k : secret) : bool := secret_eqb k S_LEASE_CANCEL || secret_eqb k S_LEASE_RENEW.

Definition blen (b : list N) : N := N.of_nat (List.length b).

Definition parse_header (h : list N) : extract_err + (secret * list N) :=
  match split_space (strip h) with
  | None => inl BadHeaderValues
  | Some (k, v) =>
      match find_secret k with
      | None => inl BadHeaderValues
      | Some key =>
          match b64decode v with
          | None => inl BadHeaderValues
          | Some value =>
              match value with
              | [] => inl FailedDecode
              | _ => if is_lease key && negb (blen value =? 32) then inl LeaseLength
                     else inr (key, value)
              end
          end
      end
  end.

Fixpoint extract_loop (hs : list (list N)) (d : sdict) : extract_err + sdict :=
  match hs with
  | [] => inr d
  | h :: r =>
      match parse_header h with
      | inl e => inl e
      | inr (k, v) => extract_loop r (dict_set d k v)
      end
  end.

Definition extract_secrets (hs : list (list N)) (required : list secret) : extract_err + sdict :=
  match extract_loop hs [] with
  | inl e => inl e
  | inr d => if keys_eq d required then inr d else inl WrongSecretSet
  end.

(* ---------------------------------------------------------------------------
   _authorization_decorator *)

Definition swissnum_auth_header (swissnum : list N) : list N :=
  bytes_of_string "Tahoe-LAFS " ++ b64encode swissnum.

(* hashutil.timing_safe_compare: equality *)
Definition timing_safe_compare (a b : list N) : bool := list_N_eqb a b.

Record request : Set := mk_request {
  rq_auth : list (option (list N));     (* every Authorization value, in order; None = not UTF-8 *)
  rq_xauth : list (option (list N))     (* every X-Tahoe-Authorization value, in order *)
}.

Fixpoint all_some {A} (l : list (option A)) : option (list A) :=
  match l with
  | [] => Some []
  | None :: _ => None
  | Some a :: r => match all_some r with Some r' => Some (a :: r') | None => None end
  end.

(* getRawHeaders("Authorization", [""])[0]: decoding every value happens before [0] *)
Definition auth_header (rq : request) : option (list N) :=
  match all_some (rq_auth rq) with
  | None => None
  | Some [] => Some []
  | Some (a :: _) => Some a
  end.

Inductive reject_reason : Set :=
| BadAuthorizationHeader       (* 400: Authorization is not UTF-8 *)
| WrongAuthorizationHeader     (* 401 *)
| XAuthNotText                 (* 500: an X-Tahoe-Authorization value is not UTF-8 (uncaught) *)
| ClientSecrets (e : extract_err).   (* 400 *)

Definition reject_code (r : reject_reason) : N :=
  match r with
  | BadAuthorizationHeader => 400
  | WrongAuthorizationHeader => 401
  | XAuthNotText => 500
  | ClientSecrets _ => 400
  end.

Inductive outcome : Set :=
| Reject (why : reject_reason)
| Invoke (secrets : sdict).       (* f(self, request, secrets, ...) is called *)

(* The comparison is between auth_header.encode("utf-8") and an ASCII byte string; a
   str with a code point >= 128 encodes to a byte >= 128, so comparing code points with
   the expected bytes decides the same thing. *)
Definition authorize (swissnum : list N) (required : list secret) (rq : request) : outcome :=
  match auth_header rq with
  | None => Reject BadAuthorizationHeader
  | Some a =>
      if negb (timing_safe_compare a (swissnum_auth_header swissnum)) then Reject WrongAuthorizationHeader
      else match all_some (rq_xauth rq) with
           | None => Reject XAuthNotText
           | Some hs =>
               match extract_secrets hs required with
               | inl e => Reject (ClientSecrets e)
               | inr d => Invoke d
               end
           end
  end.

(* ---------------------------------------------------------------------------
   UploadsInProgress: (storage index, share number) -> upload secret.  The real
   structure keeps `shares` and `upload_secrets` per storage index with identical key
   sets (add_write_bucket / remove_write_bucket set and pop both). *)

Definition upkey := (list N * N)%type.
Definition uploads := list (upkey * list N).

Definition upkey_eqb (a b : upkey) : bool := list_N_eqb (fst a) (fst b) && (snd a =? snd b).

Fixpoint up_lookup (u : uploads) (k : upkey) : option (list N) :=
  match u with
  | [] => None
  | (k', s) :: r => if upkey_eqb k k' then Some s else up_lookup r k
  end.

Definition up_remove (u : uploads) (k : upkey) : uploads :=
  filter (fun e => negb (upkey_eqb k (fst e))) u.

Definition up_add (u : uploads) (k : upkey) (s : list N) : uploads := (k, s) :: up_remove u k.

(* validate_upload_secret: true = no exception *)
Definition validate_upload_secret (u : uploads) (k : upkey) (s : list N) : bool :=
  match up_lookup u k with
  | Some s' => timing_safe_compare s' s
  | None => true
  end.

(* get_write_bucket: inl code = _HTTPError(code) *)
Definition get_write_bucket (u : uploads) (k : upkey) (s : list N) : N + unit :=
  if negb (validate_upload_secret u k s) then inl 401
  else match up_lookup u k with
       | None => inl 404
       | Some _ => inr tt
       end.

(* ---------------------------------------------------------------------------
   Handlers, parametric in the storage backend.  B is the state of StorageServer +
   BucketWriters, R what the business logic answers. *)

Inductive response (R : Type) : Type :=
| HStatus (code : N)          (* empty / fixed-text body: nothing from the server's state *)
| HBusiness (r : R).
Arguments HStatus {R}.
Arguments HBusiness {R}.

Section Handlers.
  Variable B R RTW : Type.
  (* bucket.write(...)/close(): new backend, answer, and whether the bucket closed
     (remove_write_bucket is called through the close handler) *)
  Variable bucket_write : B -> upkey -> N -> list N -> B * R * bool.
  Variable bucket_abort : B -> upkey -> B.
  Variable already_uploaded : B -> upkey -> bool.
  (* StorageServer.slot_testv_and_readv_and_writev; None = BadWriteEnablerError *)
  Variable backend_rtw : B -> list N -> (list N * list N * list N) -> RTW -> option (B * R).

  Definition hstate := (uploads * B)%type.

  Inductive action : Type :=
  | AWrite (k : upkey) (content_range_ok : bool) (offset : N) (body : list N)
  | AAbort (k : upkey)
  | ARtw (si : list N) (req : RTW)
  | AOther (f : sdict -> hstate -> hstate * response R).   (* any other handler *)

  (* HTTPServer.write_share_data *)
  Definition h_write (d : sdict) (k : upkey) (cr_ok : bool) (off : N) (body : list N) (st : hstate)
    : hstate * response R :=
    if negb cr_ok then (st, HStatus 416)
    else match dict_get d S_UPLOAD with
         | None => (st, HStatus 500)      (* KeyError; unreachable: S_UPLOAD is required *)
         | Some s =>
             match get_write_bucket (fst st) k s with
             | inl c => (st, HStatus c)
             | inr _ =>
                 let '(b', r, closed) := bucket_write (snd st) k off body in
                 ((if closed then up_remove (fst st) k else fst st, b'), HBusiness r)
             end
         end.

  (* HTTPServer.abort_share_upload *)
  Definition h_abort (d : sdict) (k : upkey) (st : hstate) : hstate * response R :=
    match dict_get d S_UPLOAD with
    | None => (st, HStatus 500)
    | Some s =>
        match get_write_bucket (fst st) k s with
        | inl c =>
            if (c =? 404) && already_uploaded (snd st) k then (st, HStatus 405) else (st, HStatus c)
        | inr _ => ((up_remove (fst st) k, bucket_abort (snd st) k), HStatus 200)
        end
    end.

  (* HTTPServer.mutable_read_test_write *)
  Definition h_rtw (d : sdict) (si : list N) (req : RTW) (st : hstate) : hstate * response R :=
    match dict_get d S_WRITE_ENABLER, dict_get d S_LEASE_RENEW, dict_get d S_LEASE_CANCEL with
    | Some we, Some lr, Some lc =>
        match backend_rtw (snd st) si (we, lr, lc) req with
        | None => (st, HStatus 401)
        | Some (b', r) => ((fst st, b'), HBusiness r)
        end
    | _, _, _ => (st, HStatus 500)
    end.

  Definition run_action (d : sdict) (a : action) (st : hstate) : hstate * response R :=
    match a with
    | AWrite k cr off body => h_write d k cr off body st
    | AAbort k => h_abort d k st
    | ARtw si req => h_rtw d si req st
    | AOther f => f d st
    end.

  (* one request through `_authorization_decorator(required_secrets)(handler)` *)
  Definition serve (swissnum : list N) (required : list secret) (rq : request) (a : action) (st : hstate)
    : hstate * response R :=
    match authorize swissnum required rq with
    | Reject why => (st, HStatus (reject_code why))
    | Invoke d => run_action d a st
    end.
End Handlers.

Arguments AWrite {B R RTW}.
Arguments AAbort {B R RTW}.
Arguments ARtw {B R RTW}.
Arguments AOther {B R RTW}.

(* ---------------------------------------------------------------------------
   The route table *)

Definition find_route (name : string) : option route :=
  find (fun r => String.eqb (r_name r) name) routes.

Definition secret_set_eqb (a b : list secret) : bool :=
  forallb (fun k => secret_mem k b) a && forallb (fun k => secret_mem k a) b.

Definition route_ok (r : route) : bool :=
  r_authorised r && secret_set_eqb (r_uses r) (r_required r).

(* ---------------------------------------------------------------------------
   What the driver compares with the implementation: the status decided by the
   authorisation machinery (decorator, upload-secret check, write-enabler check), or
   None when the request is authorised and the business logic decides. *)

Inductive target : Set :=
| TWrite (k : upkey) (content_range_ok : bool)
| TAbort (k : upkey) (uploaded : bool)
| TRtw (body_ok : bool) (slot_enabler : option (list N))
    (* the CBOR body is decoded first (400); then the write enabler of the existing shares; None: no share there yet *)
| TPlain.

Definition auth_status (swissnum : list N) (required : list secret) (u : uploads) (rq : request) (t : target)
  : option N :=
  match authorize swissnum required rq with
  | Reject why => Some (reject_code why)
  | Invoke d =>
      match t with
      | TWrite k cr =>
          if negb cr then Some 416
          else match dict_get d S_UPLOAD with
               | None => Some 500
               | Some s => match get_write_bucket u k s with inl c => Some c | inr _ => None end
               end
      | TAbort k uploaded =>
          match dict_get d S_UPLOAD with
          | None => Some 500
          | Some s => match get_write_bucket u k s with
                      | inl c => if (c =? 404) && uploaded then Some 405 else Some c
                      | inr _ => None
                      end
          end
      | TRtw false _ => Some 400
      | TRtw true None => None
      | TRtw true (Some we) =>
          (* delegated: MutableShareFile.check_write_enabler (C24) refuses a different enabler *)
          match dict_get d S_WRITE_ENABLER with
          | None => Some 500
          | Some w => if timing_safe_compare we w then None else Some 401
          end
      | TPlain => None
      end
  end.

(* model status against the status the server answered; None = authorised, the business
   logic decides (never 401; 400 only for a body it cannot decode) *)
Definition status_agrees (m : option N) (s : N) (body_ok : bool) : bool :=
  match m with
  | Some c => c =? s
  | None => negb (s =? 401) && (negb body_ok || negb (s =? 400))
  end.

(* result of _extract_secrets as the driver sees it *)
Definition extract_class (hs : list (list N)) (required : list secret) : N :=
  match extract_secrets hs required with
  | inr _ => 0
  | inl BadHeaderValues => 1
  | inl FailedDecode => 2
  | inl LeaseLength => 3
  | inl WrongSecretSet => 4
  end.

Fixpoint sdict_eqb (a b : sdict) : bool :=
  match a, b with
  | [], [] => true
  | (k, v) :: a', (k', v') :: b' => secret_eqb k k' && list_N_eqb v v' && sdict_eqb a' b'
  | _, _ => false
  end.

Definition extract_ok_eqb (hs : list (list N)) (required : list secret) (expected : sdict) : bool :=
  match extract_secrets hs required with
  | inr d => sdict_eqb d expected
  | inl _ => false
  end.

Definition option_list_eqb (a b : option (list N)) : bool :=
  match a, b with
  | Some x, Some y => list_N_eqb x y
  | None, None => true
  | _, _ => false
  end.

Definition option_N_eqb (a b : option N) : bool :=
  match a, b with
  | Some x, Some y => x =? y
  | None, None => true
  | _, _ => false
  end.

(* ---------------------------------------------------------------------------
   Specification vocabulary used by the theorem statements (Props/C30.v) *)

(* the value of the LAST header that parses to kind k (acc = value so far) *)
Fixpoint last_of (k : secret) (hs : list (list N)) (acc : option (list N)) : option (list N) :=
  match hs with
  | [] => acc
  | h :: r =>
      match parse_header h with
      | inr (k', v) => if secret_eqb k k' then last_of k r (Some v) else last_of k r acc
      | inl _ => last_of k r acc
      end
  end.

(* the secret of kind k a request effectively presents *)
Definition effective_secret (rq : request) (k : secret) : option (list N) :=
  match all_some (rq_xauth rq) with
  | Some hs => last_of k hs None
  | None => None
  end.

Definition is_reject_status (c : N) : Prop := c = 400 \/ c = 401 \/ c = 416 \/ c = 500.

(* does the route called `name` require secret k? *)
Definition needs (name : string) (k : secret) : bool :=
  match find_route name with
  | Some r => secret_mem k (r_required r)
  | None => false
  end.

Definition handler_pin (name : string) : string :=
  match find_route name with Some r => r_pin r | None => EmptyString end.

(* constants of the examples in Props/C30.v *)
Definition ex_sw : list N := bytes_of_string "abcd".
Definition ex_good_auth : option (list N) := Some (bytes_of_string "Tahoe-LAFS YWJjZA==").
Definition ex_upload_hdr : option (list N) := Some (bytes_of_string "upload-secret dXV1dXV1dXU=").   (* b"uuuuuuuu" *)


Definition is_byte (x : N) : Prop := x < 256.
