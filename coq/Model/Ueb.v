(* allmydata.uri.pack_extension / unpack_extension (URI extension block).

   A dict is an association list in insertion order; [dict_set] is
   `d[key] = value` (an existing key keeps its place).  Keys are the UTF-8
   bytes of the str keys (unpack_extension does str(key, "utf-8"), which
   raises UnicodeDecodeError on anything [utf8_valid] rejects).  Values are
   bytes or, for the keys in Gen.CodecConsts.ueb_int_keys, Python ints.

   unpack is parameterised by the reader of the length numeral, the reader of
   the integer-valued fields and a check on each key:
     [ueb_unpack]         int(), int(), no check            -- the code in /repo
     [ueb_unpack_strict]  strict readers; keys must match the regex that
                          pack_extension asserts and be strictly increasing
   Negative lengths follow Python's slice semantics ([ueb_cut]).

   The final loop `for intkey in (...): if intkey in d: d[intkey] = int(d[intkey])`
   is modelled as one pass over the dict (the keys of a dict are distinct and
   every failure is a ValueError, so the order of conversion is unobservable). *)
From Coq Require Import List NArith ZArith Bool.
From Verif Require Import Lib.Decimal Lib.Hex Lib.Netstring Model.PyResult Model.PyInt Model.NetstringCodec Gen.CodecConsts.
Import ListNotations.
Local Open Scope N_scope.

Inductive uval := UBytes (s : list N) | UInt (z : Z).
Definition udict := list (list N * uval).

Fixpoint dict_get (d : udict) (k : list N) : option uval :=
  match d with
  | [] => None
  | (k', v) :: r => if list_N_eqb k' k then Some v else dict_get r k
  end.

Fixpoint dict_set (d : udict) (k : list N) (v : uval) : udict :=
  match d with
  | [] => [(k, v)]
  | (k', v') :: r => if list_N_eqb k' k then (k', v) :: r else (k', v') :: dict_set r k v
  end.

Fixpoint mem_key (k : list N) (l : list (list N)) : bool :=
  match l with
  | [] => false
  | x :: r => list_N_eqb x k || mem_key k r
  end.

(* ---- UTF-8 (strict: no overlong forms, no surrogates, at most U+10FFFF) ---- *)
Definition utf8_cont (b : N) : bool := (128 <=? b) && (b <=? 191).

Fixpoint utf8_valid (l : list N) : bool :=
  match l with
  | [] => true
  | b0 :: r =>
    if b0 <? 128 then utf8_valid r
    else if (194 <=? b0) && (b0 <=? 223) then
      match r with
      | b1 :: r1 => utf8_cont b1 && utf8_valid r1
      | _ => false
      end
    else if (224 <=? b0) && (b0 <=? 239) then
      match r with
      | b1 :: b2 :: r2 =>
        (if b0 =? 224 then (160 <=? b1) && (b1 <=? 191)
         else if b0 =? 237 then (128 <=? b1) && (b1 <=? 159)
         else utf8_cont b1) && utf8_cont b2 && utf8_valid r2
      | _ => false
      end
    else if (240 <=? b0) && (b0 <=? 244) then
      match r with
      | b1 :: b2 :: b3 :: r3 =>
        (if b0 =? 240 then (144 <=? b1) && (b1 <=? 191)
         else if b0 =? 244 then (128 <=? b1) && (b1 <=? 143)
         else utf8_cont b1) && utf8_cont b2 && utf8_cont b3 && utf8_valid r3
      | _ => false
      end
    else false
  end.

(* ---- pack_extension ---- *)

(* [a-zA-Z_\-] *)
Definition ueb_key_char (b : N) : bool :=
  ((97 <=? b) && (b <=? 122)) || ((65 <=? b) && (b <=? 90)) || (b =? 95) || (b =? 45).

(* re.match(br'^[a-zA-Z_\-]+$', k): `$` also matches just before a final newline *)
Definition ueb_key_ok (k : list N) : bool :=
  let body := match rev k with
              | 10 :: r => rev r
              | _ => k
              end in
  match body with
  | [] => false
  | _ => forallb ueb_key_char body
  end.

Definition ueb_val_bytes (v : uval) : list N :=
  match v with
  | UBytes s => s
  | UInt z => dec_Z z                                  (* b"%d" % value *)
  end.

Definition ueb_entry (e : list N * uval) : list N :=
  fst e ++ 58 :: netstring (ueb_val_bytes (snd e)).   (* k + b':' + netstring(value) *)

Fixpoint lex_ltb (a b : list N) : bool :=
  match a, b with
  | [], [] => false
  | [], _ :: _ => true
  | _ :: _, [] => false
  | x :: a', y :: b' => if x <? y then true else if y <? x then false else lex_ltb a' b'
  end.

Fixpoint insert_entry (e : list N * uval) (l : udict) : udict :=
  match l with
  | [] => [e]
  | h :: t => if lex_ltb (fst h) (fst e) then h :: insert_entry e t else e :: l
  end.

Definition sort_entries (d : udict) : udict := fold_right insert_entry [] d.

(* None = AssertionError (a key does not match the regex) *)
Definition ueb_pack (d : udict) : option (list N) :=
  if forallb (fun e => ueb_key_ok (fst e)) d
  then Some (concat (map ueb_entry (sort_entries d)))
  else None.

(* ---- unpack_extension ---- *)

(* value = data[:length]; assert data[length:length+1] == b','; data = data[length+1:]
   with Python's treatment of a negative length *)
Definition ueb_cut (z : Z) (data : list N) : option (list N * list N) :=
  let len := Z.of_nat (length data) in
  let idx := if (0 <=? z)%Z then Some z
             else if (z =? -1)%Z then None
             else if (0 <=? len + z)%Z then Some (len + z)%Z else None in
  match idx with
  | None => None
  | Some i =>
    if (i <? len)%Z then
      let n := Z.to_nat i in
      match skipn n data with
      | c :: rest => if c =? 44 then Some (firstn n data, rest) else None
      | [] => None
      end
    else None
  end.

Fixpoint ueb_loop (rdlen : list N -> option Z) (keychk : udict -> list N -> bool)
         (fuel : nat) (data : list N) (d : udict) : result udict :=
  match fuel with
  | O => Err EFuel
  | S f =>
    match data with
    | [] => Ok d                                       (* while data: *)
    | _ =>
      match find_byte 58 data with                     (* colon = data.index(b':') *)
      | None => Err EValue
      | Some (key, data1) =>
        match find_byte 58 data1 with
        | None => Err EValue
        | Some (number, data2) =>
          match rdlen number with                      (* length = int(number) *)
          | None => Err EValue
          | Some z =>
            match ueb_cut z data2 with
            | None => Err EAssert
            | Some (value, data3) =>
              if utf8_valid key then                   (* str(key, "utf-8") *)
                if keychk d key then ueb_loop rdlen keychk f data3 (dict_set d key (UBytes value))
                else Err EStrict
              else Err EUnicode
            end
          end
        end
      end
    end
  end.

Fixpoint ueb_convert (rdint : list N -> option Z) (d : udict) : result udict :=
  match d with
  | [] => Ok []
  | (k, v) :: r =>
    match ueb_convert rdint r with
    | Err e => Err e
    | Ok r' =>
      if mem_key k ueb_int_keys then
        match v with
        | UBytes s => match rdint s with
                      | Some z => Ok ((k, UInt z) :: r')
                      | None => Err EValue
                      end
        | UInt _ => Err EType
        end
      else Ok ((k, v) :: r')
    end
  end.

Definition ueb_unpack_with rdlen rdint keychk (data : list N) : result udict :=
  match ueb_loop rdlen keychk (S (length data)) data [] with
  | Err e => Err e
  | Ok d => ueb_convert rdint d
  end.

Definition ueb_unpack := ueb_unpack_with py_int py_int (fun _ _ => true).

Definition strict_keychk (d : udict) (k : list N) : bool :=
  ueb_key_ok k && forallb (fun e => lex_ltb (fst e) k) d.

Definition ueb_unpack_strict := ueb_unpack_with strict_nat strict_int strict_keychk.

(* Dicts that pack_extension/unpack_extension round-trip: distinct keys matching
   the regex; integer values exactly under the integer-valued keys. *)
Fixpoint keys_distinct (d : udict) : bool :=
  match d with
  | [] => true
  | (k, _) :: r => negb (mem_key k (map fst r)) && keys_distinct r
  end.

Definition ueb_typed (e : list N * uval) : bool :=
  match snd e with
  | UInt _ => mem_key (fst e) ueb_int_keys
  | UBytes _ => negb (mem_key (fst e) ueb_int_keys)
  end.

Definition ueb_wf (d : udict) : bool :=
  keys_distinct d && forallb (fun e => ueb_key_ok (fst e)) d && forallb ueb_typed d.

(* ---- comparison helpers for the correspondence (dict order is not compared) ---- *)
Definition uval_eqb (a b : uval) : bool :=
  match a, b with
  | UBytes s, UBytes t => list_N_eqb s t
  | UInt x, UInt y => (x =? y)%Z
  | _, _ => false
  end.

Definition dict_sub (a b : udict) : bool :=
  forallb (fun e => match dict_get b (fst e) with Some v => uval_eqb v (snd e) | None => false end) a.

Definition dict_equiv (a b : udict) : bool :=
  Nat.eqb (length a) (length b) && dict_sub a b && dict_sub b a.

Definition ueb_result_eqb (r exp : result udict) : bool :=
  match r, exp with
  | Ok a, Ok b => dict_equiv a b
  | Err e, Err e' => err_eqb e e'
  | _, _ => false
  end.

Definition opt_bytes_eqb (a b : option (list N)) : bool :=
  match a, b with
  | Some x, Some y => list_N_eqb x y
  | None, None => true
  | _, _ => false
  end.
