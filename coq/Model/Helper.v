(* C44  Helper-assisted uploads: immutable/offloaded.py (Helper, CHKUploadHelper, CHKCiphertextFetcher,
   CHKCheckerAndUEBFetcher) and immutable/upload.py (AssistedUploader, RemoteEncryptedUploadable).
   No proofs here (Proofs/Helper.v).

   Bytes are `list N`.  The encoder (zfec + hash trees + UEB) is an abstract deterministic function of
   (ciphertext, parameters) -- Section variables `encode` / `ueb_hash`: the helper runs the same
   CHKUploader.start_encrypted over the ciphertext file it fetched as a direct upload runs over the
   ciphertext it produces (C01 is about the encoder itself).  Peer selection is not modelled: the
   theorem is about share contents and caps, not placement. *)
From Coq Require Import List NArith Arith Bool.
Import ListNotations.

Definition bytes := list N.

Definition slice (b : bytes) (off len : nat) : bytes := firstn len (skipn off b).

(* ------------------------------------------------------------------------------------------------ *)
(* 1. the client side of the transfer: RemoteEncryptedUploadable                                     *)

Record reader : Set := mk_reader {
  rd_offset : nat;      (* self._offset: next ciphertext byte the wrapped EncryptAnUploadable will produce *)
  rd_sent : nat;        (* self._bytes_sent *)
  rd_calls : nat        (* remote_read_encrypted calls served *)
}.

Definition fresh_reader : reader := mk_reader 0 0 0.

(* remote_read_encrypted(offset, length): no seeking backwards; skipping forwards reads (and hashes)
   the skipped plaintext; the data are the ciphertext bytes [offset, offset+length) clipped at EOF *)
Definition remote_read_encrypted (ct : bytes) (r : reader) (offset len : nat) : option (bytes * reader) :=
  if offset <? rd_offset r then None
  else let data := slice ct offset len in
       Some (data, mk_reader (offset + length data) (rd_sent r + length data) (S (rd_calls r))).

(* ------------------------------------------------------------------------------------------------ *)
(* 2. the helper side: CHKCiphertextFetcher                                                          *)

Inductive fetch_step_result : Set :=
| FDone                         (* fetch_size == 0: "all done" *)
| FRead (offset len : nat)      (* self.call("read_encrypted", self._have, fetch_size) *)
| FBad.                         (* more bytes on disk than the file has: needed < 0, the read is refused *)

(* _fetch: needed = expected_size - have; fetch_size = min(needed, CHUNK_SIZE) *)
Definition fetch_step (size have chunk : nat) : fetch_step_result :=
  if size <? have then FBad
  else let fetch_size := Nat.min (size - have) chunk in
       if fetch_size =? 0 then FDone else FRead have fetch_size.

Inductive fetch_result : Set :=
| Complete (file : bytes)       (* the loop finished: incoming file renamed to the encoding file *)
| Interrupted (file : bytes)    (* the transfer stopped: this is what the incoming file holds *)
| Refused (file : bytes).       (* a read was refused *)

(* _start_reading / _loop: `have` = size of the incoming file (opened for append); one chunk size per
   round (`cs`): the code uses the constant CHUNK_SIZE, the theorem holds for every chunking; the
   transfer is cut when the schedule runs out *)
Fixpoint fetch_loop (cs : list nat) (ct : bytes) (r : reader) (file : bytes) : fetch_result * reader :=
  match fetch_step (length ct) (length file) (match cs with c :: _ => c | [] => 1 end) with
  | FDone => (Complete file, r)
  | FBad => (Refused file, r)
  | FRead off len =>
      match cs with
      | [] => (Interrupted file, r)
      | _ :: cs' =>
          match remote_read_encrypted ct r off len with
          | None => (Refused file, r)
          | Some (data, r') => fetch_loop cs' ct r' (file ++ data)
          end
      end
  end.

(* the (offset, length) requests a fetch makes: what the driver observes on the wire *)
Fixpoint fetch_requests (fuel : nat) (size have chunk : nat) : list (nat * nat) :=
  match fuel with
  | O => []
  | S f => match fetch_step size have chunk with
           | FRead off len => (off, len) :: fetch_requests f size (have + len) chunk
           | _ => []
           end
  end.

(* ------------------------------------------------------------------------------------------------ *)
(* 3. encoding and caps                                                                              *)

Record params : Set := mk_params { p_k : nat; p_n : nat; p_segsize : nat }.

Record chk_cap : Set := mk_chk_cap { cap_key : bytes; cap_ueb_hash : bytes; cap_k : nat; cap_n : nat; cap_size : nat }.

(* what the helper sends back: HelperUploadResults.uri_extension_hash and the four fields of
   uri_extension_data that AssistedUploader._build_verifycap asserts on *)
Record helper_results : Set := mk_hur {
  hur_ueb_hash : bytes; hur_k : nat; hur_n : nat; hur_segsize : nat; hur_size : nat;
  hur_pushed : nat; hur_fetched : nat
}.

Section Upload.
  Variable encode : bytes -> params -> list bytes.      (* share number -> share contents *)
  Variable ueb_hash : bytes -> params -> bytes.         (* hash of the URI extension block of that encoding *)

  (* Uploader.upload without helper: CHKUploader.start(EncryptAnUploadable), then the read cap from the key *)
  Definition direct_upload (key ct : bytes) (p : params) : list bytes * chk_cap :=
    (encode ct p, mk_chk_cap key (ueb_hash ct p) (p_k p) (p_n p) (length ct)).

  (* CHKUploadHelper: start_encrypted(LocalCiphertextReader(encoding file)); the parameters are asked from
     the client's reader (LocalCiphertextReader.get_all_encoding_parameters = self.call(...)) *)
  Definition helper_encode (file : bytes) (p : params) (fetched : nat) : list bytes * helper_results :=
    (encode file p, mk_hur (ueb_hash file p) (p_k p) (p_n p) (p_segsize p) (length file) (p_n p) fetched).

  (* AssistedUploader._build_verifycap: four asserts, then the verify cap from the client's own numbers;
     Uploader.upload adds the key *)
  Definition build_cap (key : bytes) (size : nat) (p : params) (h : helper_results) : option chk_cap :=
    if (hur_k h =? p_k p) && (hur_n h =? p_n p) && (hur_segsize h =? p_segsize p) && (hur_size h =? size)
    then Some (mk_chk_cap key (hur_ueb_hash h) (p_k p) (p_n p) size) else None.

  (* one helper-assisted upload session over a possibly non-empty incoming file:
     (what became of the transfer, shares and cap if it went through, read_encrypted calls served) *)
  Definition assisted_session (key ct : bytes) (p : params) (cs : list nat) (incoming : bytes)
    : fetch_result * option (list bytes * chk_cap) * nat :=
    match fetch_loop cs ct fresh_reader incoming with
    | (Complete file, r) =>
        let '(shares, h) := helper_encode file p (rd_sent r) in
        (Complete file, match build_cap key (length ct) p h with Some c => Some (shares, c) | None => None end, rd_calls r)
    | (other, r) => (other, None, rd_calls r)
    end.

  (* ---------------------------------------------------------------------------------------------- *)
  (* 4. already present: CHKCheckerAndUEBFetcher + Helper.remote_upload_chk + AssistedUploader         *)

  Record ueb_info : Set := mk_ueb { u_hash : bytes; u_k : nat; u_n : nat; u_segsize : nat; u_size : nat }.

  (* check(): `found` = share numbers reported by get_buckets of all servers, `ueb` = the URI extension
     read from one of the shares (None: no share, or the read failed); "found < total -> False" *)
  Definition chk_check (found : list nat) (ueb : option ueb_info) : option ueb_info :=
    match ueb with
    | None => None
    | Some u => if length (nodup Nat.eq_dec found) <? u_n u then None else Some u
    end.

  Inductive helper_answer : Set :=
  | AlreadyPresent (h : helper_results)     (* (hur, None) *)
  | NeedUpload.                             (* (None, upload helper) *)

  (* remote_upload_chk: an active upload for the storage index wins, else the check decides *)
  Definition upload_chk (active : bool) (found : list nat) (ueb : option ueb_info) : helper_answer :=
    if active then NeedUpload
    else match chk_check found ueb with
         | Some u => AlreadyPresent (mk_hur (u_hash u) (u_k u) (u_n u) (u_segsize u) (u_size u) 0 0)
         | None => NeedUpload
         end.

  (* AssistedUploader._contacted_helper: without an upload helper no RemoteEncryptedUploadable is even
     created; result: the cap and the number of read_encrypted calls served *)
  Definition client_upload (key ct : bytes) (p : params) (cs : list nat) (incoming : bytes)
             (active : bool) (found : list nat) (ueb : option ueb_info) : option chk_cap * nat :=
    match upload_chk active found ueb with
    | AlreadyPresent h => (build_cap key (length ct) p h, 0)
    | NeedUpload =>
        match assisted_session key ct p cs incoming with
        | (_, Some (_, c), reads) => (Some c, reads)
        | (_, None, reads) => (None, reads)
        end
    end.
End Upload.
