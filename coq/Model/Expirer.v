(* Model of the lease expiry decision: storage/expirer.py
   LeaseCheckingCrawler.process_share / process_bucket, the lease accessors of
   storage/lease.py it uses, cancel_lease of storage/immutable.py and
   storage/mutable.py as far as the lease list and the unlink are concerned, and
   the mapping from the [storage] expire.* options to the crawler's parameters
   (client.py _Client.get_anonymous_storage_server + LeaseCheckingCrawler.__init__).
   No proofs here.

   Times are integer seconds (the driver's clock is integral; lease expiration
   times are stored as 32-bit integers).  Cancel secrets are abstracted to
   numbers: the code only compares them for equality. *)
From Coq Require Import List ZArith NArith Bool Arith.
From Verif Require Import Gen.CrawlConsts Model.Crawler.
Import ListNotations.
Local Open Scope Z_scope.

Inductive sharetype := Immutable | Mutable.

Record lease := mk_lease {
  l_expiration : Z;     (* LeaseInfo._expiration_time *)
  l_cancel : N          (* identity of the cancel secret *)
}.

Inductive mode :=
| ModeAge (override : option Z)    (* expire.mode = age, expire.override_lease_duration *)
| ModeCutoff (cutoff : Z).         (* expire.mode = cutoff-date, expire.cutoff_date *)

Record policy := mk_policy {
  p_enabled : bool;       (* expire.enabled *)
  p_mode : mode;
  p_immutable : bool;     (* "immutable" in sharetypes_to_expire *)
  p_mutable : bool        (* "mutable" in sharetypes_to_expire *)
}.

(* LeaseInfo.get_grant_renew_time_time: `self._expiration_time - 31*24*60*60` *)
Definition grant_renew_time (l : lease) : Z := l_expiration l - grant_renew_offset.

(* LeaseInfo.get_age: `time.time() - self.get_grant_renew_time_time()` *)
Definition lease_age (now : Z) (l : lease) : Z := now - grant_renew_time l.

Definition type_enabled (pol : policy) (t : sharetype) : bool :=
  match t with Immutable => p_immutable pol | Mutable => p_mutable pol end.

(* process_share, body of `for li in sf.get_leases()`: the `expired` flag *)
Definition lease_expired (pol : policy) (now : Z) (t : sharetype) (l : lease) : bool :=
  (match p_mode pol with
   | ModeAge o =>
       let age_limit := match o with
                        | Some d => d
                        | None => l_expiration l - grant_renew_time l
                        end in
       age_limit <? lease_age now l                (* `if age > age_limit` *)
   | ModeCutoff d => grant_renew_time l <? d        (* `if grant_renew_time < self.cutoff_date` *)
   end) && type_enabled pol t.                      (* `if sharetype not in self.sharetypes_to_expire: expired = False` *)

(* `if original_expiration_time > now: num_valid_leases_original += 1` *)
Definition lease_valid_original (now : Z) (l : lease) : bool := now <? l_expiration l.

(* A share file: present with its lease list (in file order), unlinked, or
   unreadable: a numerically named file whose container cannot be parsed
   (unknown version or magic, or shorter than the container header), for which
   get_share_file / get_leases raise UnknownImmutableContainerVersionError,
   UnknownMutableContainerVersionError or struct.error. *)
Inductive file_state := Present (ls : list lease) | Gone | Unreadable.

(* ShareFile.cancel_lease / MutableShareFile.cancel_lease: every lease whose
   cancel secret matches is removed; no match raises IndexError; when no lease
   remains the file is unlinked; on an unlinked file open() raises.  None = an
   exception leaves cancel_lease. *)
Definition cancel_lease (secret : N) (st : file_state) : option file_state :=
  match st with
  | Gone => None
  | Unreadable => None
  | Present ls =>
      if existsb (fun l => N.eqb (l_cancel l) secret) ls then
        match filter (fun l => negb (N.eqb (l_cancel l) secret)) ls with
        | [] => Some Gone
        | rest => Some (Present rest)
        end
      else None
  end.

(* `for li in expired_leases_configured: sf.cancel_lease(li.cancel_secret)`;
   the flag says an exception propagated (the loop stops there). *)
Fixpoint cancel_all (secrets : list N) (st : file_state) : file_state * bool :=
  match secrets with
  | [] => (st, false)
  | s :: r =>
      match cancel_lease s st with
      | Some st' => cancel_all r st'
      | None => (st, true)
      end
  end.

Record share_result := mk_result {
  sr_state : file_state;      (* the file afterwards *)
  sr_raised : bool;           (* an exception left process_share *)
  sr_keep_original : bool;    (* would_keep_share[0] == 1 *)
  sr_keep_configured : bool;  (* would_keep_share[1] == 1 *)
  sr_keep_actual : bool       (* would_keep_share[2] == 1 *)
}.

Definition process_share (pol : policy) (now : Z) (t : sharetype) (ls : list lease) : share_result :=
  let expired := filter (lease_expired pol now t) ls in
  let num_valid_original := length (filter (lease_valid_original now) ls) in
  let num_valid_configured := (length ls - length expired)%nat in
  let '(st, raised) :=
    if p_enabled pol then cancel_all (map l_cancel expired) (Present ls) else (Present ls, false) in
  mk_result st raised
    (negb (Nat.eqb num_valid_original 0))
    (negb (Nat.eqb num_valid_configured 0))
    (negb (Nat.eqb num_valid_configured 0 && p_enabled pol)).

(* A bucket directory: share number, container type, file state; in the order
   os.listdir returns the share files.  Unlinked files are not listed. *)
Definition bucket := list (N * sharetype * file_state).

(* process_bucket as far as the share files are concerned; the flag says an
   exception left process_bucket (it catches only the container-version errors
   and struct.error), which also ends the crawler's slice. *)
Fixpoint process_bucket (pol : policy) (now : Z) (bk : bucket) : bucket * bool :=
  match bk with
  | [] => ([], false)
  | (n, t, Gone) :: r =>
      let '(r', c) := process_bucket pol now r in ((n, t, Gone) :: r', c)
  | (n, t, Unreadable) :: r =>
      (* the three exception classes are caught: the share is appended to
         state["cycle-to-date"]["corrupt-shares"], the file is left alone and
         the loop goes on *)
      let '(r', c) := process_bucket pol now r in ((n, t, Unreadable) :: r', c)
  | (n, t, Present ls) :: r =>
      let res := process_share pol now t ls in
      if sr_raised res then ((n, t, sr_state res) :: r, true)
      else let '(r', c) := process_bucket pol now r in ((n, t, sr_state res) :: r', c)
  end.

(* share numbers process_bucket appends to corrupt-shares (None: it raised) *)
Fixpoint corrupt_shares (pol : policy) (now : Z) (bk : bucket) : option (list N) :=
  match bk with
  | [] => Some []
  | (n, t, Gone) :: r => corrupt_shares pol now r
  | (n, t, Unreadable) :: r => option_map (cons n) (corrupt_shares pol now r)
  | (n, t, Present ls) :: r =>
      if sr_raised (process_share pol now t ls) then None else corrupt_shares pol now r
  end.

(* The crawl applied to one bucket directory (prefix index i, name b): every
   process_bucket call of the crawler's log for that bucket runs the decision at
   the time the clock shows at that event. *)
Fixpoint replay (pol : policy) (clock : nat -> Z) (k : nat) (i : nat) (b : name)
         (tr : list event) (bk : bucket) : bucket :=
  match tr with
  | [] => bk
  | e :: r =>
      let bk' := match e with
                 | EProc _ i' b' =>
                     if Nat.eqb i i' && name_eqb b b' then fst (process_bucket pol (clock k) bk) else bk
                 | _ => bk
                 end in
      replay pol clock (S k) i b r bk'
  end.

(* ---- the rule of the property, stated on its own ---- *)

(* a lease's last renewal time and nominal duration *)
Definition renewal_time (l : lease) : Z := grant_renew_time l.
Definition nominal_duration (l : lease) : Z := l_expiration l - grant_renew_time l.

(* "age mode: last renewal plus the lease duration, or the override duration,
   is in the past; cutoff mode: last renewal before the cutoff date" *)
Definition expired_by_rule (m : mode) (now : Z) (l : lease) : Prop :=
  match m with
  | ModeAge None => renewal_time l + nominal_duration l < now
  | ModeAge (Some d) => renewal_time l + d < now
  | ModeCutoff d => renewal_time l < d
  end.

Definition expired_by_ruleb (m : mode) (now : Z) (l : lease) : bool :=
  match m with
  | ModeAge None => renewal_time l + nominal_duration l <? now
  | ModeAge (Some d) => renewal_time l + d <? now
  | ModeCutoff d => renewal_time l <? d
  end.

(* ---- configuration ---- *)

Inductive cfg_mode := CfgAge | CfgCutoff | CfgOther.   (* the string given as expire.mode *)

(* the [storage] section as far as expiry goes; None = key absent.  Durations
   and dates are already parsed (util/time_format.py parse_duration, parse_date: C48). *)
Record config := mk_config {
  c_enabled : option bool;
  c_mode : option cfg_mode;
  c_override : option Z;
  c_cutoff : option Z;
  c_immutable : option bool;
  c_mutable : option bool
}.

Definition dflt (d : bool) (o : option bool) : bool := match o with Some b => b | None => d end.

(* None: the node refuses to start (MissingConfigEntry / ValueError) *)
Definition policy_of_config (c : config) : option policy :=
  let enabled := dflt false (c_enabled c) in
  let mode := match c_mode c with
              | Some m => Some m
              | None => if enabled then None else Some CfgAge
              end in
  match mode with
  | None => None
  | Some CfgOther => None
  | Some CfgAge => Some (mk_policy enabled (ModeAge (c_override c)) (dflt true (c_immutable c)) (dflt true (c_mutable c)))
  | Some CfgCutoff =>
      match c_cutoff c with
      | None => None
      | Some d => Some (mk_policy enabled (ModeCutoff d) (dflt true (c_immutable c)) (dflt true (c_mutable c)))
      end
  end.

(* ---- comparison helpers for the driver ---- *)

Definition lease_eqb (a b : lease) : bool := Z.eqb (l_expiration a) (l_expiration b) && N.eqb (l_cancel a) (l_cancel b).

Fixpoint leases_eqb (a b : list lease) : bool :=
  match a, b with
  | [], [] => true
  | x :: a', y :: b' => lease_eqb x y && leases_eqb a' b'
  | _, _ => false
  end.

Definition file_state_eqb (a b : file_state) : bool :=
  match a, b with
  | Gone, Gone => true
  | Present x, Present y => leases_eqb x y
  | Unreadable, Unreadable => true
  | _, _ => false
  end.

Definition result_eqb (r : share_result) (st : file_state) (raised ko kc ka : bool) : bool :=
  file_state_eqb (sr_state r) st && Bool.eqb (sr_raised r) raised &&
  (raised || (Bool.eqb (sr_keep_original r) ko && Bool.eqb (sr_keep_configured r) kc && Bool.eqb (sr_keep_actual r) ka)).

Definition mode_eqb (a b : mode) : bool :=
  match a, b with
  | ModeAge None, ModeAge None => true
  | ModeAge (Some x), ModeAge (Some y) => Z.eqb x y
  | ModeCutoff x, ModeCutoff y => Z.eqb x y
  | _, _ => false
  end.

Definition policy_eqb (a b : policy) : bool :=
  Bool.eqb (p_enabled a) (p_enabled b) && mode_eqb (p_mode a) (p_mode b) &&
  Bool.eqb (p_immutable a) (p_immutable b) && Bool.eqb (p_mutable a) (p_mutable b).

Definition opt_policy_eqb (a b : option policy) : bool :=
  match a, b with
  | None, None => true
  | Some x, Some y => policy_eqb x y
  | _, _ => false
  end.

(* driver terms: one crawl cycle over a list of shares (type, leases before,
   observed file state after) with the observed space-recovered share counters
   (original-shares, configured-shares, actual-shares), for cycles in which
   nothing raised; and a single share on which process_share raised. *)
Definition count_if {A} (f : A -> bool) (l : list A) : N := N.of_nat (length (filter f l)).

Definition cycle_agrees (pol : policy) (now : Z) (xs : list (sharetype * list lease * file_state))
           (n_original n_configured n_actual : N) : bool :=
  let rs := map (fun x => match x with (t, ls, st) => (process_share pol now t ls, st) end) xs in
  forallb (fun r => negb (sr_raised (fst r)) && file_state_eqb (sr_state (fst r)) (snd r)) rs &&
  N.eqb (count_if (fun r => negb (sr_keep_original (fst r))) rs) n_original &&
  N.eqb (count_if (fun r => negb (sr_keep_configured (fst r))) rs) n_configured &&
  N.eqb (count_if (fun r => negb (sr_keep_actual (fst r))) rs) n_actual.

Definition raise_agrees (pol : policy) (now : Z) (t : sharetype) (ls : list lease) (st : file_state) : bool :=
  let r := process_share pol now t ls in
  sr_raised r && file_state_eqb (sr_state r) st.

(* driver term: one process_bucket call on a bucket with good and damaged share
   files: the files afterwards, no exception, and the corrupt-shares entries *)
Fixpoint bucket_eqb (a b : bucket) : bool :=
  match a, b with
  | [], [] => true
  | (n, _, x) :: a', (m, _, y) :: b' => N.eqb n m && file_state_eqb x y && bucket_eqb a' b'
  | _, _ => false
  end.

Fixpoint list_N_eqb' (a b : list N) : bool :=
  match a, b with
  | [], [] => true
  | x :: a', y :: b' => N.eqb x y && list_N_eqb' a' b'
  | _, _ => false
  end.

Definition bucket_agrees (pol : policy) (now : Z) (bk after : bucket) (corrupt : list N) : bool :=
  let r := process_bucket pol now bk in
  negb (snd r) && bucket_eqb (fst r) after &&
  match corrupt_shares pol now bk with Some l => list_N_eqb' l corrupt | None => false end.
