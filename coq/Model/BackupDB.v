(* C42  Model of src/allmydata/scripts/backupdb.py (BackupDB_v2, FileResult,
   DirectoryResult) as it is in /repo now.

   SQLite tables are finite maps (association lists, one row per primary key):
     local_files : path    -> (size, mtime, ctime, fileid)
     caps        : fileid  -> filecap      (filecap UNIQUE, fileid AUTOINCREMENT)
     last_upload : fileid  -> (last_uploaded, last_checked)
     directories : dirhash -> (dircap, last_uploaded, last_checked)
   Everything the code reads from its environment is an explicit input of the
   operation: the os.stat() result (size, mtime, ctime), time.time() (`now`),
   random.random() (`rnd`/65536).  Byte strings are `list N`.

   No proofs here (Proofs/BackupDB*.v). *)
From Coq Require Import List NArith ZArith Bool.
From Verif Require Import Lib.Hex Lib.Decimal Lib.Netstring Lib.SHA256 Lib.HashPrim Gen.Hashutil.
Import ListNotations.
Local Open Scope N_scope.
Local Open Scope bool_scope.

Definition bytes := list N.

(* ---- association lists --------------------------------------------------- *)
Section Assoc.
  Context {K V : Type}.
  Variable keqb : K -> K -> bool.

  Fixpoint alookup (k : K) (l : list (K * V)) : option V :=
    match l with
    | [] => None
    | (k', v) :: r => if keqb k k' then Some v else alookup k r
    end.

  (* INSERT, or UPDATE ... WHERE key=? when the row exists (REPLACE INTO for
     a primary key has the same effect on the map) *)
  Fixpoint aset (k : K) (v : V) (l : list (K * V)) : list (K * V) :=
    match l with
    | [] => [(k, v)]
    | (k', v') :: r => if keqb k k' then (k', v) :: r else (k', v') :: aset k v r
    end.

  (* DELETE ... WHERE key=? *)
  Fixpoint adel (k : K) (l : list (K * V)) : list (K * V) :=
    match l with
    | [] => []
    | (k', v') :: r => if keqb k k' then adel k r else (k', v') :: adel k r
    end.
End Assoc.

(* ---- byte-string order (Python bytes / list comparison) ------------------ *)
Fixpoint bytes_ltb (a b : bytes) : bool :=
  match a, b with
  | [], [] => false
  | [], _ :: _ => true
  | _ :: _, [] => false
  | x :: a', y :: b' => if x <? y then true else if y <? x then false else bytes_ltb a' b'
  end.

(* entries are the Python lists [name_utf8, cap]; list comparison is
   lexicographic: names first, caps only between equal names *)
Definition entry_ltb (e1 e2 : bytes * bytes) : bool :=
  if bytes_ltb (fst e1) (fst e2) then true
  else if bytes_ltb (fst e2) (fst e1) then false
  else bytes_ltb (snd e1) (snd e2).

Fixpoint insert_entry (e : bytes * bytes) (l : list (bytes * bytes)) : list (bytes * bytes) :=
  match l with
  | [] => [e]
  | x :: r => if entry_ltb x e then x :: insert_entry e r else e :: l
  end.

(* entries.sort() *)
Definition sort_entries (l : list (bytes * bytes)) : list (bytes * bytes) :=
  fold_right insert_entry [] l.

(* b"".join([netstring(name_utf8)+netstring(cap) for (name_utf8,cap) in entries]) *)
Fixpoint join_entries (l : list (bytes * bytes)) : bytes :=
  match l with
  | [] => []
  | (name, cap) :: r => netstring name ++ netstring cap ++ join_entries r
  end.

(* the pre-image of the directory hash: contents is the dict name -> cap given
   as its item list (names are the UTF-8 encodings; a dict has distinct keys) *)
Definition dir_data (contents : list (bytes * bytes)) : bytes :=
  join_entries (sort_entries contents).

(* ---- allmydata.util.base32.b2a: RFC 3548 lower case, no padding ---------- *)
Definition b32_char (v : N) : N := if v <? 26 then 97 + v else 24 + v.   (* a-z, 2-7 *)

(* big-endian bits of a byte string *)
Fixpoint byte_bits (k : nat) (b : N) : list bool :=
  match k with
  | O => []
  | S k' => N.testbit b (N.of_nat k') :: byte_bits k' b
  end.
Definition bits_of (s : bytes) : list bool := flat_map (byte_bits 8) s.

Fixpoint bits_val (l : list bool) (acc : N) : N :=
  match l with
  | [] => acc
  | b :: r => bits_val r (2 * acc + (if b then 1 else 0))
  end.

(* quintets, the last one padded with zero bits; fuel = number of bits *)
Fixpoint quintets (fuel : nat) (l : list bool) : list N :=
  match fuel with
  | O => []
  | S f =>
    match l with
    | [] => []
    | _ => b32_char (bits_val (firstn 5 (l ++ [false; false; false; false])) 0) :: quintets f (skipn 5 l)
    end
  end.

Definition b2a (s : bytes) : bytes := let bs := bits_of s in quintets (length bs) bs.

(* ---- the database -------------------------------------------------------- *)
Definition file_row := (N * N * N * N)%type.          (* size, mtime, ctime, fileid *)
Definition upload_row := (N * N)%type.                (* last_uploaded, last_checked *)
Definition dir_row := (bytes * N * N)%type.           (* dircap, last_uploaded, last_checked *)

Record db := mkDB {
  local_files : list (bytes * file_row);
  caps : list (N * bytes);
  next_fileid : N;                                    (* AUTOINCREMENT counter *)
  last_upload : list (N * upload_row);
  directories : list (bytes * dir_row)
}.

Definition empty_db : db := mkDB [] [] 1 [] [].

Definition set_local_files (d : db) x := mkDB x (caps d) (next_fileid d) (last_upload d) (directories d).
Definition set_last_upload (d : db) x := mkDB (local_files d) (caps d) (next_fileid d) x (directories d).
Definition set_directories (d : db) x := mkDB (local_files d) (caps d) (next_fileid d) (last_upload d) x.

(* ---- should_check -------------------------------------------------------- *)
Definition DAY : Z := (24 * 60 * 60)%Z.
Definition MONTH : Z := (30 * DAY)%Z.
Definition NO_CHECK_BEFORE : Z := (1 * MONTH)%Z.
Definition ALWAYS_CHECK_AFTER : Z := (2 * MONTH)%Z.

(* age = now - last_checked
   probability = (age - NO_CHECK_BEFORE) / (ALWAYS_CHECK_AFTER - NO_CHECK_BEFORE)
   probability = min(max(probability, 0.0), 1.0)
   should_check = bool(random.random() < probability)       random() = rnd / 65536
   (exact rational comparison; for integer times and a 16-bit random fraction
   the float computation cannot round across the comparison) *)
Definition should_check (now last_checked rnd : N) : bool :=
  let age := (Z.of_N now - Z.of_N last_checked)%Z in
  let num := (age - NO_CHECK_BEFORE)%Z in
  let den := (ALWAYS_CHECK_AFTER - NO_CHECK_BEFORE)%Z in
  if (num <=? 0)%Z then false
  else if (den <=? num)%Z then (rnd <? 65536)
  else (Z.of_N rnd * den <? num * 65536)%Z.

(* ---- FileResult ---------------------------------------------------------- *)
Record file_result := mkFR {
  fr_filecap : option bytes;
  fr_should_check : bool;
  fr_path : bytes;
  fr_mtime : N;
  fr_ctime : N;
  fr_size : N
}.

(* Python truthiness of the stored cap: `if self.filecap: return self.filecap; return False` *)
Definition truthy_cap (c : option bytes) : option bytes :=
  match c with
  | Some [] => None
  | _ => c
  end.

Definition was_uploaded (r : file_result) : option bytes := truthy_cap (fr_filecap r).
Definition fr_should_check_p (r : file_result) : bool := fr_should_check r.

(* check_file(path, use_timestamps); `path` is already absolute and normalised
   (abspath_expanduser_unicode is not modelled); size/mtime/ctime = os.stat(path) *)
Definition check_file (d : db) (path : bytes) (use_timestamps : bool)
           (size mtime ctime now rnd : N) : db * file_result :=
  match alookup list_N_eqb path (local_files d) with
  | None => (d, mkFR None false path mtime ctime size)
  | Some (last_size, last_mtime, last_ctime, last_fileid) =>
    let row2 :=
      match alookup N.eqb last_fileid (caps d), alookup N.eqb last_fileid (last_upload d) with
      | Some filecap, Some (_, last_checked) => Some (filecap, last_checked)
      | _, _ => None
      end in
    let changed := negb (last_size =? size) || negb use_timestamps
                   || negb (last_mtime =? mtime) || negb (last_ctime =? ctime) in
    match row2 with
    | Some (filecap, last_checked) =>
      if changed
      then (set_local_files d (adel list_N_eqb path (local_files d)),
            mkFR None false path mtime ctime size)
      else (d, mkFR (Some filecap) (should_check now last_checked rnd) path mtime ctime size)
    | None =>
      (set_local_files d (adel list_N_eqb path (local_files d)),
       mkFR None false path mtime ctime size)
    end
  end.

Fixpoint find_fileid (filecap : bytes) (l : list (N * bytes)) : option N :=
  match l with
  | [] => None
  | (i, c) :: r => if list_N_eqb filecap c then Some i else find_fileid filecap r
  end.

(* INSERT INTO caps (ignored when the cap is already there), then SELECT fileid *)
Definition get_or_allocate_fileid_for_cap (d : db) (filecap : bytes) : db * N :=
  match find_fileid filecap (caps d) with
  | Some i => (d, i)
  | None =>
    let i := next_fileid d in
    (mkDB (local_files d) (caps d ++ [(i, filecap)]) (i + 1) (last_upload d) (directories d), i)
  end.

Definition did_upload_file (d : db) (filecap path : bytes) (mtime ctime size now : N) : db :=
  let '(d1, fileid) := get_or_allocate_fileid_for_cap d filecap in
  let d2 := set_last_upload d1 (aset N.eqb fileid (now, now) (last_upload d1)) in
  set_local_files d2 (aset list_N_eqb path (size, mtime, ctime, fileid) (local_files d2)).

(* FileResult.did_upload(filecap) *)
Definition fr_did_upload (d : db) (r : file_result) (filecap : bytes) (now : N) : db :=
  did_upload_file d filecap (fr_path r) (fr_mtime r) (fr_ctime r) (fr_size r) now.

Definition did_check_file_healthy (d : db) (filecap : bytes) (now : N) : db :=
  let '(d1, fileid) := get_or_allocate_fileid_for_cap d filecap in
  match alookup N.eqb fileid (last_upload d1) with
  | Some (lu, _) => set_last_upload d1 (aset N.eqb fileid (lu, now) (last_upload d1))
  | None => d1
  end.

(* ---- DirectoryResult ----------------------------------------------------- *)
Record dir_result := mkDR {
  dr_dirhash : bytes;
  dr_dircap : option bytes;
  dr_should_check : bool
}.

Definition was_created (r : dir_result) : option bytes := truthy_cap (dr_dircap r).

Section WithDirKey.
  (* dirkey data = base32.b2a(backupdb_dirhash(data)) in the real code *)
  Variable dirkey : bytes -> bytes.

  Definition check_directory (d : db) (contents : list (bytes * bytes)) (now rnd : N) : dir_result :=
    let dirhash_s := dirkey (dir_data contents) in
    match alookup list_N_eqb dirhash_s (directories d) with
    | None => mkDR dirhash_s None false
    | Some (dircap, _, last_checked) =>
      mkDR dirhash_s (Some dircap) (should_check now last_checked rnd)
    end.
End WithDirKey.

Definition real_dirkey (data : bytes) : bytes := b2a (backupdb_dirhash data).

(* REPLACE INTO directories VALUES (dirhash, dircap, now, now) *)
Definition did_create_directory (d : db) (dircap dirhash : bytes) (now : N) : db :=
  set_directories d (aset list_N_eqb dirhash (dircap, now, now) (directories d)).

(* UPDATE directories SET last_checked=? WHERE dircap=? *)
Definition did_check_directory_healthy (d : db) (dircap : bytes) (now : N) : db :=
  set_directories d
    (map (fun '(h, (c, lu, lc)) => if list_N_eqb c dircap then (h, (c, lu, now)) else (h, (c, lu, lc)))
         (directories d)).

(* ---- histories ----------------------------------------------------------- *)
Inductive op :=
| OCheckFile (path : bytes) (use_timestamps : bool) (size mtime ctime now rnd : N)
| ODidUpload (filecap path : bytes) (mtime ctime size now : N)
| ODidCheckFileHealthy (filecap : bytes) (now : N)
| OCheckDir (contents : list (bytes * bytes)) (now rnd : N)
| ODidCreateDir (dircap : bytes) (contents : list (bytes * bytes)) (now : N)   (* r = check_directory(contents); r.did_create(dircap) *)
| ODidCreateDirRaw (dircap dirhash : bytes) (now : N)                          (* did_create_directory called directly *)
| ODidCheckDirHealthy (dircap : bytes) (now : N).

(* what the caller sees *)
Inductive obs :=
| ObsFile (was_up : option bytes) (should_chk : bool) (path : bytes) (mtime ctime size : N)
| ObsDir (dirhash : bytes) (was_cr : option bytes) (should_chk : bool)
| ObsNone.

Section RunWithDirKey.
  Variable dirkey : bytes -> bytes.

  Definition step (d : db) (o : op) : db * obs :=
    match o with
    | OCheckFile path ts size mtime ctime now rnd =>
      let '(d', r) := check_file d path ts size mtime ctime now rnd in
      (d', ObsFile (was_uploaded r) (fr_should_check r) (fr_path r) (fr_mtime r) (fr_ctime r) (fr_size r))
    | ODidUpload filecap path mtime ctime size now =>
      (did_upload_file d filecap path mtime ctime size now, ObsNone)
    | ODidCheckFileHealthy filecap now => (did_check_file_healthy d filecap now, ObsNone)
    | OCheckDir contents now rnd =>
      let r := check_directory dirkey d contents now rnd in
      (d, ObsDir (dr_dirhash r) (was_created r) (dr_should_check r))
    | ODidCreateDir dircap contents now =>
      (did_create_directory d dircap (dirkey (dir_data contents)) now, ObsNone)
    | ODidCreateDirRaw dircap dirhash now => (did_create_directory d dircap dirhash now, ObsNone)
    | ODidCheckDirHealthy dircap now => (did_check_directory_healthy d dircap now, ObsNone)
    end.

  Fixpoint run (d : db) (h : list op) : db :=
    match h with
    | [] => d
    | o :: r => run (fst (step d o)) r
    end.

  Fixpoint run_obs (d : db) (h : list op) : list obs :=
    match h with
    | [] => []
    | o :: r => let '(d', ob) := step d o in ob :: run_obs d' r
    end.
End RunWithDirKey.

(* ---- comparison helpers for the driver ----------------------------------- *)
Definition opt_bytes_eqb (a b : option bytes) : bool :=
  match a, b with
  | None, None => true
  | Some x, Some y => list_N_eqb x y
  | _, _ => false
  end.

Definition obs_eqb (a b : obs) : bool :=
  match a, b with
  | ObsFile w s p m c z, ObsFile w' s' p' m' c' z' =>
    opt_bytes_eqb w w' && Bool.eqb s s' && list_N_eqb p p' && (m =? m') && (c =? c') && (z =? z')
  | ObsDir h w s, ObsDir h' w' s' => list_N_eqb h h' && opt_bytes_eqb w w' && Bool.eqb s s'
  | ObsNone, ObsNone => true
  | _, _ => false
  end.

Fixpoint obs_list_eqb (a b : list obs) : bool :=
  match a, b with
  | [], [] => true
  | x :: a', y :: b' => obs_eqb x y && obs_list_eqb a' b'
  | _, _ => false
  end.

(* table dump of the SQLite file against the model's maps: same number of rows
   and every dumped row found under its key *)
Definition file_row_eqb (a b : file_row) : bool :=
  let '(s, m, c, i) := a in let '(s', m', c', i') := b in (s =? s') && (m =? m') && (c =? c') && (i =? i').
Definition upload_row_eqb (a b : upload_row) : bool := (fst a =? fst b) && (snd a =? snd b).
Definition dir_row_eqb (a b : dir_row) : bool :=
  let '(c, u, k) := a in let '(c', u', k') := b in list_N_eqb c c' && (u =? u') && (k =? k').

Definition table_matches {K V} (keqb : K -> K -> bool) (veqb : V -> V -> bool)
           (tbl dump : list (K * V)) : bool :=
  (N.of_nat (length tbl) =? N.of_nat (length dump)) &&
  forallb (fun kv => match alookup keqb (fst kv) tbl with Some v => veqb v (snd kv) | None => false end) dump.

Definition db_matches (d : db) (lf : list (bytes * file_row)) (cp : list (N * bytes))
           (lu : list (N * upload_row)) (dirs : list (bytes * dir_row)) : bool :=
  table_matches list_N_eqb file_row_eqb (local_files d) lf &&
  table_matches N.eqb list_N_eqb (caps d) cp &&
  table_matches N.eqb upload_row_eqb (last_upload d) lu &&
  table_matches list_N_eqb dir_row_eqb (directories d) dirs.

(* ---- specification vocabulary (used in the statements of Props/C42.v) ----- *)
(* Histories are in chronological order.  What the most recent did_upload_file
   for `path` recorded: (filecap, size, mtime, ctime). *)
Definition upd_last_upload (path : bytes) (acc : option (bytes * N * N * N)) (o : op) :=
  match o with
  | ODidUpload filecap p mtime ctime size _ =>
    if list_N_eqb p path then Some (filecap, size, mtime, ctime) else acc
  | _ => acc
  end.
Definition last_upload_of (h : list op) (path : bytes) : option (bytes * N * N * N) :=
  fold_left (upd_last_upload path) h None.

(* two dicts have exactly the same name-to-cap items: their sorted item lists are equal *)
Fixpoint entries_eqb (a b : list (bytes * bytes)) : bool :=
  match a, b with
  | [], [] => true
  | (n1, c1) :: a', (n2, c2) :: b' => list_N_eqb n1 n2 && list_N_eqb c1 c2 && entries_eqb a' b'
  | _, _ => false
  end.
Definition same_contentsb (c1 c2 : list (bytes * bytes)) : bool :=
  entries_eqb (sort_entries c1) (sort_entries c2).

(* the dircap recorded by the most recent r.did_create(dircap) whose
   DirectoryResult r came from check_directory on exactly these contents *)
Definition upd_last_create (contents : list (bytes * bytes)) (acc : option bytes) (o : op) :=
  match o with
  | ODidCreateDir dircap c' _ => if same_contentsb c' contents then Some dircap else acc
  | _ => acc
  end.
Definition last_create_for (h : list op) (contents : list (bytes * bytes)) : option bytes :=
  fold_left (upd_last_create contents) h None.

(* the backup tool only records directories through the DirectoryResult *)
Definition no_raw_create (h : list op) : Prop :=
  forall dircap dirhash now, ~ In (ODidCreateDirRaw dircap dirhash now) h.

(* one pass: final database and all observations (driver) *)
Fixpoint run_all (dirkey : bytes -> bytes) (d : db) (h : list op) : db * list obs :=
  match h with
  | [] => (d, [])
  | o :: r =>
    let '(d', ob) := step dirkey d o in
    let '(df, obs) := run_all dirkey d' r in
    (df, ob :: obs)
  end.

Definition history_matches (h : list op) (expected : list obs)
           (lf : list (bytes * file_row)) (cp : list (N * bytes))
           (lu : list (N * upload_row)) (dirs : list (bytes * dir_row)) : bool :=
  let '(d, obs) := run_all real_dirkey empty_db h in
  obs_list_eqb obs expected && db_matches d lf cp lu dirs.
