(* Model of src/allmydata/storage/crawler.py, class ShareCrawler: the part that
   decides which buckets a time slice visits, what is written by save_state and
   what a restarted process reads back with load_state.  No proofs here.

   Reading guide (line numbers of the pinned source):
     ShareCrawler.start_slice            -> run_slice   (try/except, final save_state)
     ShareCrawler.start_current_prefix   -> run_slice (cycle start / cycle end) + prefix_loop
     ShareCrawler.process_prefixdir      -> process_prefixdir
     ShareCrawler.save_state/load_state  -> pstate, ESave, load
   Time: the code asks `time.time() >= start_slice + self.cpu_slice` after every
   processed bucket and after every finished prefix directory.  The answers are
   the slice's tick list (consumed left to right; an exhausted list answers
   "not yet", so the slice runs to the end of the cycle).  Any sequence of
   answers is allowed, so every interruption pattern is covered.
   Kill: the process dies after the first k events of a slice; what survives is
   the last state written by save_state (ESave) within those k events, or the
   state on disk when the slice began.  Every completed slice ends with
   save_state, hence between slices the disk holds exactly `ms_p`. *)
From Coq Require Import List NArith Bool Arith.
Import ListNotations.

(* Bucket and prefix directory names: ASCII strings as byte lists; Python's
   `bucket <= last_complete` on str is the lexicographic order on code points. *)
Definition name := list N.

Fixpoint name_leb (a b : name) : bool :=
  match a, b with
  | [], _ => true
  | _ :: _, [] => false
  | x :: a', y :: b' =>
      if N.ltb x y then true else if N.eqb x y then name_leb a' b' else false
  end.

Definition name_ltb (a b : name) : bool := negb (name_leb b a).

Fixpoint is_prefix (p b : name) : bool :=
  match p, b with
  | [], _ => true
  | _ :: _, [] => false
  | x :: p', y :: b' => N.eqb x y && is_prefix p' b'
  end.

(* buckets.sort() *)
Fixpoint insert (x : name) (l : list name) : list name :=
  match l with
  | [] => [x]
  | y :: r => if name_leb x y then x :: y :: r else y :: insert x r
  end.

Fixpoint isort (l : list name) : list name :=
  match l with
  | [] => []
  | x :: r => insert x (isort r)
  end.

(* What save_state writes (the crawler's own keys of self.state).
   ps_next = last_complete_prefix_index + 1; 0 stands for
   "last-complete-prefix": null, n+1 for the name prefixes[n]. *)
Record pstate := mk_pstate {
  ps_last_finished : option N;   (* "last-cycle-finished" *)
  ps_current : option N;         (* "current-cycle" *)
  ps_next : nat;                 (* "last-complete-prefix" as index + 1 *)
  ps_lcb : option name           (* "last-complete-bucket" *)
}.

(* In memory: the state dict plus last_complete_prefix_index (both in ms_p) and
   self.bucket_cache = (prefix index or None, sorted listing). *)
Record mstate := mk_mstate {
  ms_p : pstate;
  ms_cache : option nat * list name
}.

(* load_state when no state file exists *)
Definition init_pstate : pstate := mk_pstate None None 0 None.

(* __init__ + load_state of a fresh process *)
Definition load (p : pstate) : mstate := mk_mstate p (None, []).

Inductive event :=
| EStarted (c : N)                       (* started_cycle(c) *)
| EProc (c : N) (i : nat) (b : name)     (* process_bucket(c, prefixes[i], _, b) *)
| EPrefixDone (c : N) (i : nat)          (* finished_prefix(c, prefixes[i]) *)
| EFinished (c : N)                      (* finished_cycle(c) *)
| ESave (p : pstate).                    (* save_state() wrote p *)

Definition tick (o : list bool) : bool * list bool :=
  match o with
  | [] => (false, [])
  | b :: r => (b, r)
  end.

(* `last_complete is not None and bucket <= last_complete` *)
Definition skips (lcb : option name) (b : name) : bool :=
  match lcb with
  | Some l => name_leb b l
  | None => false
  end.

(* process_prefixdir: events, new last-complete-bucket, remaining ticks,
   TimeSliceExceeded raised? *)
Fixpoint process_prefixdir (c : N) (i : nat) (buckets : list name) (lcb : option name) (o : list bool)
  : list event * option name * list bool * bool :=
  match buckets with
  | [] => ([], lcb, o, false)
  | b :: rest =>
      if skips lcb b then process_prefixdir c i rest lcb o
      else
        let '(up, o') := tick o in
        if up then ([EProc c i b], Some b, o', true)
        else
          let '(ev, lcb', o'', x) := process_prefixdir c i rest (Some b) o' in
          (EProc c i b :: ev, lcb', o'', x)
  end.

Definition cache_hit (cache : option nat * list name) (i : nat) : bool :=
  match fst cache with
  | Some j => Nat.eqb i j
  | None => false
  end.

(* os.listdir(prefixdir) of prefix number i (EnvironmentError => []) *)
Definition listing (dirs : list (list name)) (i : nat) : list name := nth i dirs [].

(* the `for i in range(self.last_complete_prefix_index+1, len(self.prefixes))`
   loop; idxs is that range.  Result: events, next prefix index
   (last_complete_prefix_index + 1), last-complete-bucket, bucket cache,
   TimeSliceExceeded raised? *)
Fixpoint prefix_loop (dirs : list (list name)) (c : N) (idxs : list nat) (next : nat)
         (lcb : option name) (cache : option nat * list name) (o : list bool)
  : list event * nat * option name * (option nat * list name) * bool :=
  match idxs with
  | [] => ([], next, lcb, cache, false)
  | i :: rest =>
      let buckets := if cache_hit cache i then snd cache else isort (listing dirs i) in
      let cache1 := if cache_hit cache i then cache else (Some i, buckets) in
      let '(ev, lcb1, o1, x) := process_prefixdir c i buckets lcb o in
      if x then (ev, next, lcb1, cache1, true)
      else
        let '(up, o2) := tick o1 in
        if up then (ev ++ [EPrefixDone c i], S i, lcb1, cache1, true)
        else
          let '(ev2, next2, lcb2, cache2, x2) := prefix_loop dirs c rest (S i) lcb1 cache1 o2 in
          (ev ++ EPrefixDone c i :: ev2, next2, lcb2, cache2, x2)
  end.

(* One start_slice() call (without the timer bookkeeping after save_state). *)
Definition run_slice (dirs : list (list name)) (m : mstate) (o : list bool) : list event * mstate :=
  let p := ms_p m in
  let '(c, started) :=
    match ps_current p with
    | Some c => (c, [])
    | None =>
        let c := match ps_last_finished p with None => 0%N | Some l => (l + 1)%N end in
        (c, [EStarted c])
    end in
  let '(evs, next', lcb', cache', exceeded) :=
    prefix_loop dirs c (seq (ps_next p) (length dirs - ps_next p)) (ps_next p) (ps_lcb p) (ms_cache m) o in
  if exceeded then
    let p' := mk_pstate (ps_last_finished p) (Some c) next' lcb' in
    (started ++ evs ++ [ESave p'], mk_mstate p' cache')
  else
    let p' := mk_pstate (Some c) None 0 None in
    (started ++ evs ++ [EFinished c; ESave p'; ESave p'], mk_mstate p' cache').

Record slice_spec := mk_slice {
  sl_ticks : list bool;        (* answers to "is the time slice used up?" *)
  sl_kill : option nat         (* Some k: the process is killed after k events of this slice *)
}.

Fixpoint last_save (evs : list event) (d : pstate) : pstate :=
  match evs with
  | [] => d
  | ESave p :: r => last_save r p
  | _ :: r => last_save r d
  end.

(* save_state is not one step of the machine: _LeaseStateSerializer.save writes
   the new state into a sibling ".tmp" file and then renames it over the state
   file (fileutil.move_into_place).  FILE-SYSTEM HYPOTHESIS of this model: the
   rename is atomic, so a process that dies (or runs out of disk space) inside
   save_state leaves the state file with its previous content (KeptOld: it
   died before the rename) or with the new content (GotNew: after it), never
   with anything else.  In the event log the two outcomes are "killed before
   the ESave event" and "killed right after it": a crash inside the save that
   would have been event number k+1 of the slice is the kill point k or k+1. *)
Inductive torn_save := KeptOld | GotNew.

Definition crash_in_save (k : nat) (t : torn_save) : option nat :=
  Some (match t with KeptOld => k | GotNew => S k end).

Definition do_slice (dirs : list (list name)) (m : mstate) (s : slice_spec) : list event * mstate :=
  let '(evs, m') := run_slice dirs m (sl_ticks s) in
  match sl_kill s with
  | None => (evs, m')
  | Some k =>
      let evs' := firstn k evs in
      (evs', load (last_save evs' (ms_p m)))
  end.

Fixpoint run (dirs : list (list name)) (m : mstate) (specs : list slice_spec) : list event * mstate :=
  match specs with
  | [] => ([], m)
  | s :: r =>
      let '(e1, m1) := do_slice dirs m s in
      let '(e2, m2) := run dirs m1 r in
      (e1 ++ e2, m2)
  end.

(* ---- observation helpers used by the statements and by the driver ---- *)

Fixpoint finished_cycles (tr : list event) : list N :=
  match tr with
  | [] => []
  | EFinished c :: r => c :: finished_cycles r
  | _ :: r => finished_cycles r
  end.

Fixpoint saved_states (tr : list event) : list pstate :=
  match tr with
  | [] => []
  | ESave p :: r => p :: saved_states r
  | _ :: r => saved_states r
  end.

Definition is_proc (e : event) : bool :=
  match e with EProc _ _ _ => true | _ => false end.

(* number of completed cycles recorded in a saved state: "last-cycle-finished" + 1 *)
Definition completed_cycles (p : pstate) : N :=
  match ps_last_finished p with None => 0%N | Some l => (l + 1)%N end.

(* every element equals its predecessor or exceeds it by one *)
Fixpoint steps_by_0_or_1 (prev : N) (l : list N) : Prop :=
  match l with
  | [] => True
  | x :: r => (x = prev \/ x = (prev + 1)%N) /\ steps_by_0_or_1 x r
  end.

(* cycle numbers passed to finished_cycle: start at 0, never skip a number *)
Definition cycle_numbers_ok (l : list N) : Prop :=
  match l with
  | [] => True
  | x :: r => x = 0%N /\ steps_by_0_or_1 x r
  end.

Fixpoint last_or (l : list N) (d : N) : N :=
  match l with
  | [] => d
  | x :: r => last_or r x
  end.

(* The storage directory the crawler walks, as far as the crawler is concerned:
   one listing per prefix directory (in os.listdir order), no name twice in a
   directory, and every name begins with the name of its prefix directory
   (storage_index_to_dir puts bucket `sia` into `sia[:2]/sia`). *)
Definition wf_dirs (prefixes : list name) (dirs : list (list name)) : Prop :=
  length dirs = length prefixes /\
  (forall i, NoDup (nth i dirs [])) /\
  (forall i b, In b (nth i dirs []) -> is_prefix (nth i prefixes []) b = true).

(* directory contents given sparsely: (prefix index, names as listed) *)
Fixpoint mk_dirs_from (k n : nat) (assoc : list (nat * list name)) : list (list name) :=
  match n with
  | O => []
  | S n' =>
      (match find (fun e => Nat.eqb (fst e) k) assoc with
       | Some e => snd e
       | None => []
       end) :: mk_dirs_from (S k) n' assoc
  end.
Definition mk_dirs (n : nat) (assoc : list (nat * list name)) : list (list name) := mk_dirs_from 0 n assoc.

(* comparison of observations (driver) *)
Fixpoint name_eqb (a b : name) : bool :=
  match a, b with
  | [], [] => true
  | x :: a', y :: b' => N.eqb x y && name_eqb a' b'
  | _, _ => false
  end.

Definition optN_eqb (a b : option N) : bool :=
  match a, b with
  | None, None => true
  | Some x, Some y => N.eqb x y
  | _, _ => false
  end.

Definition optname_eqb (a b : option name) : bool :=
  match a, b with
  | None, None => true
  | Some x, Some y => name_eqb x y
  | _, _ => false
  end.

Definition pstate_eqb (a b : pstate) : bool :=
  optN_eqb (ps_last_finished a) (ps_last_finished b) && optN_eqb (ps_current a) (ps_current b)
  && Nat.eqb (ps_next a) (ps_next b) && optname_eqb (ps_lcb a) (ps_lcb b).

Definition event_eqb (a b : event) : bool :=
  match a, b with
  | EStarted c, EStarted d => N.eqb c d
  | EProc c i x, EProc d j y => N.eqb c d && Nat.eqb i j && name_eqb x y
  | EPrefixDone c i, EPrefixDone d j => N.eqb c d && Nat.eqb i j
  | EFinished c, EFinished d => N.eqb c d
  | ESave p, ESave q => pstate_eqb p q
  | _, _ => false
  end.

Fixpoint events_eqb (a b : list event) : bool :=
  match a, b with
  | [], [] => true
  | x :: a', y :: b' => event_eqb x y && events_eqb a' b'
  | _, _ => false
  end.

(* What the driver compares: the event log without the finished_prefix
   notifications of prefix directories nobody watches (there are 1024). *)
Definition observe (watch : list N) (tr : list event) : list event :=
  filter (fun e => match e with
                   | EPrefixDone _ i => existsb (N.eqb (N.of_nat i)) watch
                   | _ => true
                   end) tr.

(* driver term: observed log and final state of a run *)
Definition run_agrees (n : nat) (assoc : list (nat * list name)) (specs : list slice_spec) (watch : list N)
           (expected : list event) (final : pstate) : bool :=
  let r := run (mk_dirs n assoc) (load init_pstate) specs in
  events_eqb (observe watch (fst r)) expected && pstate_eqb (ms_p (snd r)) final.

(* Histories in which the set of bucket directories changes while the crawler is
   idle between two cycles: a list of epochs, each with its directory contents
   and its slices.  The crawler state (including the one-entry listing cache of
   the same crawler object) is carried from one epoch to the next. *)
Fixpoint run_epochs (m : mstate) (eps : list (list (list name) * list slice_spec)) : list event * mstate :=
  match eps with
  | [] => ([], m)
  | (dirs, specs) :: r =>
      let '(e1, m1) := run dirs m specs in
      let '(e2, m2) := run_epochs m1 r in
      (e1 ++ e2, m2)
  end.

(* the crawler is idle (between cycles) at the end of every epoch *)
Fixpoint epochs_end_idle (m : mstate) (eps : list (list (list name) * list slice_spec)) : Prop :=
  match eps with
  | [] => True
  | (dirs, specs) :: r =>
      let m1 := snd (run dirs m specs) in
      ps_current (ms_p m1) = None /\ epochs_end_idle m1 r
  end.

Definition epochs_agree (n : nat) (eps : list (list (nat * list name) * list slice_spec)) (watch : list N)
           (expected : list event) (final : pstate) : bool :=
  let r := run_epochs (load init_pstate) (map (fun e => (mk_dirs n (fst e), snd e)) eps) in
  events_eqb (observe watch (fst r)) expected && pstate_eqb (ms_p (snd r)) final.
