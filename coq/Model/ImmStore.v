(* Model of immutable share storage:
     src/allmydata/storage/immutable.py  ShareFile.read_share_data / write_share_data,
                                         BucketWriter.__init__/write/_is_finished/close/abort/
                                         _abort_due_to_timeout/disconnected/required_ranges,
                                         BucketReader.read
     src/allmydata/storage/server.py     StorageServer.allocate_buckets / allocated_size /
                                         bucket_writer_closed / get_shares / get_buckets,
                                         FoolscapStorageServer.remote_allocate_buckets (canary)
     collections_extended.RangeMap       as used by BucketWriter (all values True)

   No proofs here (Proofs/ImmStore*.v).

   Abstractions, all stated where they matter:
   * a share is addressed by key = (storage index number, share number); the driver maps index
     numbers to 16-byte storage indexes;
   * the share-data region of a share file is a byte list of length max_size: BucketWriter.__init__
     writes the first lease record at offset 0xc+max_size, so the region exists (zero filled) from
     the start and write_share_data refuses to write past it;
   * lease records and the 12-byte header are not modelled (C25/C29);
   * a BucketWriter object is (key, writer id); ids come from a counter, so a handle that survives
     its writer (closed, aborted, timed out) is distinguishable from a later writer for the same key;
   * time is whole seconds of the injected clock (twisted Clock); a DelayedCall fires in
     Clock.advance when its time is <= the new time;
   * get_available_space() is an input of each allocate call ([avail]; None = platform without
     a disk statistics API); Model/Space.v computes it from a disk model;
   * offsets and lengths are naturals: the wire schemas (Offset/ReadSize) exclude negatives;
   * zero-length writes: collections_extended.RangeMap rejects empty ranges (ValueError before any
     change) whereas the sandbox stand-in ignores them; either way nothing changes, the model
     answers REmpty and the drivers never issue them;
   * discard_storage (a debugging switch) is not modelled. *)
From Coq Require Import List NArith ZArith Bool.
Import ListNotations.
Local Open Scope N_scope.

(* ------------------------------------------------------------------ bytes *)
Definition slice (off len : N) (l : list N) : list N :=
  firstn (N.to_nat len) (skipn (N.to_nat off) l).

Definition nthb (l : list N) (p : N) : N := nth (N.to_nat p) l 0.

Definition blen (l : list N) : N := N.of_nat (length l).

(* f.seek(off); f.write(d) inside a region that already extends to off+len d *)
Definition write_at (off : N) (d buf : list N) : list N :=
  firstn (N.to_nat off) buf ++ d ++ skipn (N.to_nat off + length d) buf.

Definition zeros (n : N) : list N := repeat 0 (N.to_nat n).

Fixpoint bytes_eqb (a b : list N) : bool :=
  match a, b with
  | [], [] => true
  | x :: a', y :: b' => (x =? y) && bytes_eqb a' b'
  | _, _ => false
  end.

(* ------------------------------------------------- RangeMap (values all True) *)
(* sorted, pairwise disjoint, non-touching, non-empty half-open intervals *)
Definition ranges := list (N * N).

(* RangeMap.set(True, a, b) for a < b: union, merging overlapping and touching intervals *)
Fixpoint rm_set (a b : N) (l : ranges) : ranges :=
  match l with
  | [] => [(a, b)]
  | (s, e) :: r =>
      if e <? a then (s, e) :: rm_set a b r
      else if b <? s then (a, b) :: (s, e) :: r
      else rm_set (N.min a s) (N.max b e) r
  end.

(* RangeMap.delete(a, b) *)
Fixpoint rm_delete (a b : N) (l : ranges) : ranges :=
  match l with
  | [] => []
  | (s, e) :: r =>
      if (e <=? a) || (b <=? s) then (s, e) :: rm_delete a b r
      else (if s <? a then [(s, a)] else []) ++ (if b <? e then [(b, e)] else []) ++ rm_delete a b r
  end.

(* RangeMap.ranges(a, b): stored intervals clipped to the query, empty ones dropped *)
Fixpoint rm_query (a b : N) (l : ranges) : ranges :=
  match l with
  | [] => []
  | (s, e) :: r =>
      let cs := N.max s a in
      let ce := N.min e b in
      if cs <? ce then (cs, ce) :: rm_query a b r else rm_query a b r
  end.

Definition covered (l : ranges) (p : N) : bool :=
  existsb (fun se => (fst se <=? p) && (p <? snd se)) l.

(* sum([mr.stop - mr.start for mr in ranges()]) *)
Fixpoint rm_total (l : ranges) : N :=
  match l with
  | [] => 0
  | (s, e) :: r => (e - s) + rm_total r
  end.

(* BucketWriter.required_ranges *)
Definition required_ranges (size : N) (written : ranges) : ranges :=
  fold_left (fun acc se => rm_delete (fst se) (snd se) acc) written
            (if 0 <? size then [(0, size)] else []).

Fixpoint ranges_eqb (a b : ranges) : bool :=
  match a, b with
  | [], [] => true
  | (s, e) :: a', (s', e') :: b' => (s =? s') && (e =? e') && ranges_eqb a' b'
  | _, _ => false
  end.

(* ------------------------------------------------------------ ShareFile *)
(* read_share_data on a file whose data region is [data] (lease offset = 0xc + length data):
     seekpos = 0xc + offset ; actuallength = max(0, min(length, lease_offset - seekpos)) *)
Definition read_share_data (data : list N) (off len : N) : list N :=
  let actual := Z.max 0 (Z.min (Z.of_N len) (Z.of_N (blen data) - Z.of_N off)) in
  if (actual =? 0)%Z then [] else slice off (Z.to_N actual) data.

(* ------------------------------------------------------------ store state *)
Definition key := (N * N)%type.

Definition key_eqb (a b : key) : bool := (fst a =? fst b) && (snd a =? snd b).

Record writer := mkWriter {
  w_id : N;                 (* identity of the BucketWriter object *)
  w_size : N;               (* _max_size *)
  w_ranges : ranges;        (* _already_written *)
  w_data : list N;          (* share-data region of the incoming file *)
  w_deadline : N;           (* time of the pending _abort_due_to_timeout call *)
  w_canary : N              (* connection whose loss aborts this writer *)
}.

Inductive slot :=
| Absent
| Incoming (w : writer)               (* file under shares/incoming, entry in _bucket_writers *)
| Final (wid : N) (data : list N).    (* file under shares/<prefix>/<si>/ written by writer wid *)

Record store := mkStore {
  st_slots : list (key * slot);
  st_next : N;              (* next writer id *)
  st_now : N                (* clock.seconds() *)
}.

Definition init : store := mkStore [] 0 0.

Fixpoint lookup (k : key) (l : list (key * slot)) : slot :=
  match l with
  | [] => Absent
  | (k', v) :: r => if key_eqb k k' then v else lookup k r
  end.

Fixpoint set_slot (k : key) (v : slot) (l : list (key * slot)) : list (key * slot) :=
  match l with
  | [] => [(k, v)]
  | (k', v') :: r => if key_eqb k k' then (k', v) :: r else (k', v') :: set_slot k v r
  end.

Definition get (s : store) (k : key) : slot := lookup k (st_slots s).

Definition with_slots (s : store) (l : list (key * slot)) : store :=
  mkStore l (st_next s) (st_now s).

Definition slot_alloc (v : slot) : N :=
  match v with Incoming w => w_size w | _ => 0 end.

Fixpoint sum_slots (f : slot -> N) (l : list (key * slot)) : N :=
  match l with
  | [] => 0
  | (_, v) :: r => f v + sum_slots f r
  end.

(* StorageServer.allocated_size: sum over _bucket_writers *)
Definition allocated_size (s : store) : N := sum_slots slot_alloc (st_slots s).

Definition TIMEOUT : N := 1800.   (* 30 * 60 *)

(* ------------------------------------------------------------ observable results *)
Inductive res :=
| RAlloc (already : list N) (accepted : list N)
| RWrote (finished : bool)
| RConflict            (* ConflictingWriteError *)
| RTooLarge            (* DataTooLargeError *)
| RStale               (* the BucketWriter is closed: AlreadyCancelled / AlreadyCalled / AssertionError *)
| REmpty               (* zero-length write, see header *)
| ROk
| RRead (d : option (list N))
| RList (l : list N)
| RRanges (l : ranges).

(* ------------------------------------------------------------ sorting share numbers *)
Fixpoint insert_sorted (x : N) (l : list N) : list N :=
  match l with
  | [] => [x]
  | y :: r => if x <=? y then x :: l else y :: insert_sorted x r
  end.

Definition sortN (l : list N) : list N := fold_right insert_sorted [] l.

(* get_shares(si): share numbers with a file in the final directory *)
Fixpoint final_shnums (si : N) (l : list (key * slot)) : list N :=
  match l with
  | [] => []
  | ((si', sh), Final _ _) :: r => if si =? si' then sh :: final_shnums si r else final_shnums si r
  | _ :: r => final_shnums si r
  end.

(* sorted(get_buckets(si).keys()) *)
Definition get_buckets (s : store) (si : N) : list N := sortN (final_shnums si (st_slots s)).

(* ------------------------------------------------------------ allocate_buckets *)
(* (not limited) or (remaining_space >= max_space_per_bucket) *)
Definition fits (remaining : option Z) (size : N) : bool :=
  match remaining with
  | None => true
  | Some r => (Z.of_N size <=? r)%Z
  end.

Definition new_writer (id size now canary : N) : writer :=
  mkWriter id size [] (zeros size) (now + TIMEOUT) canary.

(* the loop "for shnum in sharenums" ; state: slots, next id, remaining_space, accepted so far *)
Fixpoint alloc_loop (ro : bool) (si size canary now : N) (shs : list N)
         (slots : list (key * slot)) (next : N) (remaining : option Z) (acc : list N)
  : list (key * slot) * N * list N :=
  match shs with
  | [] => (slots, next, acc)
  | sh :: rest =>
      match lookup (si, sh) slots with
      | Final _ _ => alloc_loop ro si size canary now rest slots next remaining acc      (* finalhome exists *)
      | Incoming _ => alloc_loop ro si size canary now rest slots next remaining acc     (* incominghome exists *)
      | Absent =>
          if ro then alloc_loop ro si size canary now rest slots next remaining acc      (* readonly_storage *)
          else if fits remaining size then
            alloc_loop ro si size canary now rest
                       (set_slot (si, sh) (Incoming (new_writer next size now canary)) slots)
                       (next + 1)
                       (option_map (fun r => (r - Z.of_N size)%Z) remaining)
                       (acc ++ [sh])
          else alloc_loop ro si size canary now rest slots next remaining acc
      end
  end.

(* [avail] is what self.get_available_space() returned *)
Definition allocate (ro : bool) (s : store) (si : N) (shs : list N) (size canary : N) (avail : option N)
  : store * res :=
  let remaining := option_map (fun a => (Z.of_N a - Z.of_N (allocated_size s))%Z) avail in
  let already := get_buckets s si in
  match alloc_loop ro si size canary (st_now s) shs (st_slots s) (st_next s) remaining [] with
  | (slots, next, acc) => (mkStore slots next (st_now s), RAlloc already acc)
  end.

(* ------------------------------------------------------------ BucketWriter.write *)
(* the loop over _already_written.ranges(offset, end): every overlapping chunk must equal the
   corresponding part of the new data *)
Fixpoint chunks_agree (stored : list N) (off : N) (d : list N) (chunks : ranges) : bool :=
  match chunks with
  | [] => true
  | (cs, ce) :: r =>
      bytes_eqb (read_share_data stored cs (ce - cs)) (slice (cs - off) (ce - cs) d)
      && chunks_agree stored off d r
  end.

Definition write_writer (now : N) (w : writer) (off : N) (d : list N) : writer * res :=
  let e := off + blen d in
  if blen d =? 0 then (w, REmpty)
  else if negb (chunks_agree (w_data w) off d (rm_query off e (w_ranges w))) then (w, RConflict)
  else if w_size w <? e then (w, RTooLarge)
  else
    let rs := rm_set off e (w_ranges w) in
    (mkWriter (w_id w) (w_size w) rs (write_at off d (w_data w)) (now + TIMEOUT) (w_canary w),
     RWrote (rm_total rs =? w_size w)).

(* _timeout.reset(30*60) happens before the checks: also a rejected write postpones the timeout *)
Definition touch (now : N) (w : writer) : writer :=
  mkWriter (w_id w) (w_size w) (w_ranges w) (w_data w) (now + TIMEOUT) (w_canary w).

Definition write (s : store) (k : key) (wid off : N) (d : list N) : store * res :=
  match get s k with
  | Incoming w =>
      if w_id w =? wid then
        match write_writer (st_now s) w off d with
        | (w', r) =>
            let w'' := match r with RWrote _ => w' | _ => touch (st_now s) w end in
            (with_slots s (set_slot k (Incoming w'') (st_slots s)), r)
        end
      else (s, RStale)
  | _ => (s, RStale)
  end.

(* ------------------------------------------------------------ close / abort *)
Definition close (s : store) (k : key) (wid : N) : store * res :=
  match get s k with
  | Incoming w =>
      if w_id w =? wid then (with_slots s (set_slot k (Final wid (w_data w)) (st_slots s)), ROk)
      else (s, RStale)
  | _ => (s, RStale)
  end.

(* abort() on a closed writer returns without doing anything *)
Definition abort (s : store) (k : key) (wid : N) : store * res :=
  match get s k with
  | Incoming w =>
      if w_id w =? wid then (with_slots s (set_slot k Absent (st_slots s)), ROk)
      else (s, ROk)
  | _ => (s, ROk)
  end.

(* abort every in-progress writer selected by [p] *)
Definition abort_where (p : writer -> bool) (l : list (key * slot)) : list (key * slot) :=
  map (fun kv => match snd kv with
                 | Incoming w => if p w then (fst kv, Absent) else kv
                 | _ => kv
                 end) l.

(* clock.advance(dt): every pending _abort_due_to_timeout whose time has come fires *)
Definition advance (s : store) (dt : N) : store :=
  let now := st_now s + dt in
  mkStore (abort_where (fun w => w_deadline w <=? now) (st_slots s)) (st_next s) now.

(* the connection that made the allocation goes away: canary fires bw.disconnected() for each
   of its writers that has not closed (closed ones were unsubscribed by _bucket_writer_closed) *)
Definition disconnect (s : store) (c : N) : store :=
  with_slots s (abort_where (fun w => w_canary w =? c) (st_slots s)).

(* ------------------------------------------------------------ reading *)
(* get_buckets(si).get(shnum) -> BucketReader.read(offset, length) *)
Definition read (s : store) (k : key) (off len : N) : option (list N) :=
  match get s k with
  | Final _ data => Some (read_share_data data off len)
  | _ => None
  end.

(* required_ranges() of an open writer (the drivers do not ask closed ones) *)
Definition required (s : store) (k : key) (wid : N) : res :=
  match get s k with
  | Incoming w => if w_id w =? wid then RRanges (required_ranges (w_size w) (w_ranges w)) else RStale
  | _ => RStale
  end.

(* ------------------------------------------------------------ histories *)
Inductive op :=
| OAlloc (si : N) (shs : list N) (size : N) (canary : N) (avail : option N)
| OWrite (k : key) (wid : N) (off : N) (d : list N)
| OClose (k : key) (wid : N)
| OAbort (k : key) (wid : N)
| OAdvance (dt : N)
| ODisconnect (canary : N)
| ORead (k : key) (off len : N)
| OList (si : N)
| ORequired (k : key) (wid : N).    (* BucketWriter.required_ranges() of a writer still open *)

Definition step (ro : bool) (s : store) (o : op) : store * res :=
  match o with
  | OAlloc si shs size canary avail => allocate ro s si shs size canary avail
  | OWrite k wid off d => write s k wid off d
  | OClose k wid => close s k wid
  | OAbort k wid => abort s k wid
  | OAdvance dt => (advance s dt, ROk)
  | ODisconnect c => (disconnect s c, ROk)
  | ORead k off len => (s, RRead (read s k off len))
  | OList si => (s, RList (get_buckets s si))
  | ORequired k wid => (s, required s k wid)
  end.

(* a history and what each operation answered, oldest first *)
Definition event := (op * res)%type.

Fixpoint run_from (ro : bool) (s : store) (ops : list op) : store * list event :=
  match ops with
  | [] => (s, [])
  | o :: rest =>
      match step ro s o with
      | (s', r) => match run_from ro s' rest with (s'', tr) => (s'', (o, r) :: tr) end
      end
  end.

Definition run (ro : bool) (ops : list op) : store * list event := run_from ro init ops.

(* ------------------------------------------------------------ comparison with the implementation *)
Definition listN_eqb : list N -> list N -> bool := bytes_eqb.

Definition res_eqb (a b : res) : bool :=
  match a, b with
  | RAlloc x y, RAlloc x' y' => listN_eqb x x' && listN_eqb y y'
  | RWrote f, RWrote f' => Bool.eqb f f'
  | RConflict, RConflict => true
  | RTooLarge, RTooLarge => true
  | RStale, RStale => true
  | REmpty, REmpty => true
  | ROk, ROk => true
  | RRead None, RRead None => true
  | RRead (Some x), RRead (Some y) => listN_eqb x y
  | RList x, RList y => listN_eqb x y
  | RRanges x, RRanges y => ranges_eqb x y
  | _, _ => false
  end.

(* what the driver observes after every operation: the answer and StorageServer.allocated_size() *)
Fixpoint observe_from (ro : bool) (s : store) (ops : list op) : list (res * N) :=
  match ops with
  | [] => []
  | o :: rest => match step ro s o with (s', r) => (r, allocated_size s') :: observe_from ro s' rest end
  end.

Fixpoint obs_eqb (a b : list (res * N)) : bool :=
  match a, b with
  | [], [] => true
  | (r, n) :: a', (r', n') :: b' => res_eqb r r' && (n =? n') && obs_eqb a' b'
  | _, _ => false
  end.

Definition check_history (ro : bool) (ops : list op) (expected : list (res * N)) : bool :=
  obs_eqb (observe_from ro init ops) expected.
