(* C11: allmydata.mutable.servermap.ServerMap version bookkeeping, the
   MODE_READ / MODE_ANYTHING / MODE_CHECK part of ServermapUpdater._check_for_done,
   and Publish's choice of the new sequence number.

   A version id (verinfo) is the tuple (seqnum, root_hash, IV, segsize,
   datalength, k, N, prefix, offsets); Python orders these tuples
   lexicographically.  The model keeps seqnum, k and one number `vtag` standing
   for all the remaining fields (root hash first): two verinfos are equal iff
   seqnum, k and vtag are equal, and they are ordered by (seqnum, vtag).
   The servermap's _known_shares dict is a list of ((server, shnum), version)
   with at most one entry per key. *)
From Coq Require Import List NArith Bool.
Import ListNotations.
Local Open Scope N_scope.

Record version := { seq : N; vtag : N; vk : N }.

Definition version_eqb (a b : version) : bool :=
  (seq a =? seq b) && (vtag a =? vtag b) && (vk a =? vk b).

(* tuple order on (seqnum, root_hash, ...) *)
Definition version_ltb (a b : version) : bool :=
  (seq a <? seq b) || ((seq a =? seq b) && (vtag a <? vtag b)).
Definition version_leb (a b : version) : bool := version_ltb a b || ((seq a =? seq b) && (vtag a =? vtag b)).

Record share := { srv : N; shnum : N; ver : version }.
Definition servermap := list share.

Fixpoint mem_N (x : N) (l : list N) : bool :=
  match l with [] => false | y :: r => (x =? y) || mem_N x r end.
Fixpoint mem_ver (v : version) (l : list version) : bool :=
  match l with [] => false | y :: r => version_eqb v y || mem_ver v r end.

Fixpoint dedup_N (l : list N) : list N :=
  match l with
  | [] => []
  | x :: r => if mem_N x r then dedup_N r else x :: dedup_N r
  end.
Fixpoint dedup_ver (l : list version) : list version :=
  match l with
  | [] => []
  | x :: r => if mem_ver x r then dedup_ver r else x :: dedup_ver r
  end.

(* make_versionmap / shares_available: distinct share numbers seen for a version *)
Definition shnums_of (m : servermap) (v : version) : list N :=
  dedup_N (map shnum (filter (fun s => version_eqb (ver s) v) m)).
Definition count_shares (m : servermap) (v : version) : N := N.of_nat (length (shnums_of m v)).
Definition versions (m : servermap) : list version := dedup_ver (map ver m).

Definition is_recoverable (m : servermap) (v : version) : bool := vk v <=? count_shares m v.
Definition recoverable_versions (m : servermap) : list version := filter (is_recoverable m) (versions m).
Definition unrecoverable_versions (m : servermap) : list version :=
  filter (fun v => negb (is_recoverable m v)) (versions m).

Fixpoint max_version (l : list version) : option version :=
  match l with
  | [] => None
  | v :: r => match max_version r with
              | None => Some v
              | Some w => if version_ltb w v then Some v else Some w
              end
  end.

(* recoverable.sort(); recoverable[-1] *)
Definition best_recoverable_version (m : servermap) : option version := max_version (recoverable_versions m).

Fixpoint max_N (l : list N) : N := match l with [] => 0 | x :: r => N.max x (max_N r) end.

(* seqnums.append(0); max(seqnums) *)
Definition highest_seqnum (m : servermap) : N := max_N (map seq (versions m)).

(* Publish: self._new_seqnum = self._servermap.highest_seqnum() + 1 *)
Definition new_seqnum (m : servermap) : N := highest_seqnum m + 1.

(* unrecoverable versions with a seqnum above every recoverable one; the code
   starts from highest_recoverable_seqnum = -1, so with no recoverable version
   every unrecoverable one counts (even seqnum 0). *)
Definition highest_recoverable_seq (m : servermap) : option N :=
  match recoverable_versions m with
  | [] => None
  | l => Some (max_N (map seq l))
  end.
Definition unrecoverable_newer_versions (m : servermap) : list version :=
  filter (fun v => match highest_recoverable_seq m with
                   | None => true
                   | Some h => h <? seq v
                   end) (unrecoverable_versions m).

(* needs_merge: two recoverable versions share a seqnum *)
Fixpoint count_seq (s : N) (l : list version) : nat :=
  match l with [] => O | v :: r => if seq v =? s then S (count_seq s r) else count_seq s r end.
Definition needs_merge (m : servermap) : bool :=
  existsb (fun v => Nat.ltb 1 (count_seq (seq v) (recoverable_versions m))) (recoverable_versions m).

(* ---- ServermapUpdater._check_for_done (all modes except the MODE_WRITE scan) ---- *)
Inductive mode := MODE_CHECK | MODE_ANYTHING | MODE_READ | MODE_REPAIR.
Inductive verdict := Wait | Done | More.   (* return / self._done() / self._send_more_queries(..) *)

Record updater := {
  running : bool;
  must_query : bool;            (* self._must_query non-empty *)
  outstanding : bool;           (* self._queries_outstanding non-empty *)
  extra : bool;                 (* self.extra_servers non-empty *)
  completed : N;                (* self._queries_completed *)
  to_query : N                  (* self.num_servers_to_query *)
}.

Definition check_for_done (md : mode) (u : updater) (m : servermap) : verdict :=
  if negb (running u) then Wait
  else if must_query u then Wait
  else if negb (outstanding u) && negb (extra u) then Done
  else
    match md with
    | MODE_ANYTHING =>
        match recoverable_versions m with [] => More | _ => Done end
    | MODE_CHECK | MODE_REPAIR => Done
    | MODE_READ =>
        if completed u <? to_query u then More
        else match max_version (recoverable_versions m) with
             | None => More
             | Some hr =>
                 if existsb (fun v => seq hr <? seq v) (unrecoverable_versions m) then More else Done
             end
    end.

(* decidable equalities for the correspondence *)
Fixpoint vers_subset (a b : list version) : bool :=
  match a with [] => true | v :: r => mem_ver v b && vers_subset r b end.
Definition vers_seteq (a b : list version) : bool := vers_subset a b && vers_subset b a.
Definition optver_eqb (a b : option version) : bool :=
  match a, b with
  | None, None => true
  | Some x, Some y => version_eqb x y
  | _, _ => false
  end.
Definition verdict_eqb (a b : verdict) : bool :=
  match a, b with Wait, Wait => true | Done, Done => true | More, More => true | _, _ => false end.
