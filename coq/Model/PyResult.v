(* Outcome of a modelled Python call: a value, or the class of the exception
   it raises.  EFuel marks exhaustion of the explicit fuel of a modelled loop
   (proved unreachable for the fuel the models use); EStrict is raised only by
   the strict reader variants used to state the converse theorems, never by a
   model of the real code. *)
Inductive err := EValue | EAssert | EIndex | EUnicode | EStruct | EType | EFuel | EStrict.

Inductive result (A : Type) : Type :=
| Ok (a : A)
| Err (e : err).
Arguments Ok {A} a.
Arguments Err {A} e.

Definition is_ok {A} (r : result A) : bool := match r with Ok _ => true | Err _ => false end.

Definition err_eqb (a b : err) : bool :=
  match a, b with
  | EValue, EValue | EAssert, EAssert | EIndex, EIndex | EUnicode, EUnicode
  | EStruct, EStruct | EType, EType | EFuel, EFuel | EStrict, EStrict => true
  | _, _ => false
  end.
