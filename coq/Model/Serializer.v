(* C13: MutableFileNode._do_serialized (src/allmydata/mutable/filenode.py).

   self._serializer is ONE long-lived Twisted Deferred.  Each request appends
   three callbacks to it:
       addCallback(lambda _: cb(args...))        -- "Start o"
       addBoth(lambda res: eventually(d.callback, res))   -- "Deliver o"
       addErrback(log.err)                      -- "LogErr"
   A Deferred runs its callback list strictly in order; when a callback
   returns an unfired Deferred the chain PAUSES until that inner Deferred
   fires, then continues with its result.  The model below is that mechanism:
   the pending callback list, the paused flag with the operation being waited
   for, and the current result (success/failure).  Events from the outside
   are requests and completions of the running operation; the model emits a
   trace of Started / Finished / Delivered events. *)
From Coq Require Import List NArith Bool.
Import ListNotations.
Local Open Scope N_scope.

Definition opid := N.

Inductive res := Ok | Fail.

(* how an operation behaves when started: it finishes synchronously with a
   result, or returns an unfired Deferred (completed later by the environment) *)
Inductive behaviour := Sync (r : res) | Async.

Inductive cb := Start (o : opid) (b : behaviour) | Deliver (o : opid) | LogErr.

Inductive event :=
| Started (o : opid)
| Finished (o : opid) (r : res)
| Delivered (o : opid) (r : res).   (* eventually(d.callback, res) scheduled for the caller *)

Record st := {
  pending : list cb;          (* callbacks not yet run, in order *)
  waiting : option opid;      (* Some o: chain paused on o's Deferred *)
  current : res;              (* current result of the chain *)
  trace : list event          (* newest first *)
}.

Definition init : st := {| pending := []; waiting := None; current := Ok; trace := [] |}.

(* Run callbacks until the list is empty or one pauses the chain.  Structural
   recursion on the callback list. *)
Fixpoint run (cbs : list cb) (cur : res) (tr : list event) : st :=
  match cbs with
  | [] => {| pending := []; waiting := None; current := cur; trace := tr |}
  | Start o b :: rest =>
      match cur with
      | Fail => run rest Fail tr            (* addCallback is skipped on failure *)
      | Ok =>
        match b with
        | Sync r => run rest r (Finished o r :: Started o :: tr)
        | Async => {| pending := rest; waiting := Some o; current := Ok; trace := Started o :: tr |}
        end
      end
  | Deliver o :: rest => run rest Ok (Delivered o cur :: tr)   (* addBoth; lambda returns None *)
  | LogErr :: rest => run rest Ok tr                          (* errback consumes a failure; no-op on success *)
  end.

Inductive input :=
| Request (o : opid) (b : behaviour)     (* node._do_serialized(cb) *)
| Complete (r : res).                    (* the running operation's Deferred fires *)

Definition step (s : st) (i : input) : st :=
  match i with
  | Request o b =>
      let cbs := pending s ++ [Start o b; Deliver o; LogErr] in
      match waiting s with
      | Some _ => {| pending := cbs; waiting := waiting s; current := current s; trace := trace s |}
      | None => run cbs (current s) (trace s)
      end
  | Complete r =>
      match waiting s with
      | Some o => run (pending s) r (Finished o r :: trace s)
      | None => s                          (* nothing running: spurious completion ignored *)
      end
  end.

Definition exec (inputs : list input) : st := fold_left step inputs init.

(* chronological trace *)
Definition events (s : st) : list event := rev (trace s).

(* ---- observations used by the theorems and by the correspondence ---- *)

Fixpoint started_ids (l : list event) : list opid :=
  match l with
  | [] => []
  | Started o :: r => o :: started_ids r
  | _ :: r => started_ids r
  end.

Fixpoint requested_ids (l : list input) : list opid :=
  match l with
  | [] => []
  | Request o _ :: r => o :: requested_ids r
  | _ :: r => requested_ids r
  end.

(* well-bracketed: Started o is immediately (ignoring Delivered) followed by
   Finished o before any other Started: no two operations overlap. *)
Fixpoint nonoverlap (running : option opid) (l : list event) : bool :=
  match l with
  | [] => true
  | Started o :: r => match running with None => nonoverlap (Some o) r | Some _ => false end
  | Finished o _ :: r => match running with Some o' => (o =? o') && nonoverlap None r | None => false end
  | Delivered _ _ :: r => nonoverlap running r
  end.

Fixpoint delivered (l : list event) : list (opid * res) :=
  match l with
  | [] => []
  | Delivered o r :: t => (o, r) :: delivered t
  | _ :: t => delivered t
  end.

Fixpoint finished (l : list event) : list (opid * res) :=
  match l with
  | [] => []
  | Finished o r :: t => (o, r) :: finished t
  | _ :: t => finished t
  end.

(* decidable equality of traces, for the correspondence with the implementation *)
Definition res_eqb (a b : res) : bool :=
  match a, b with Ok, Ok => true | Fail, Fail => true | _, _ => false end.
Definition event_eqb (a b : event) : bool :=
  match a, b with
  | Started o, Started o' => o =? o'
  | Finished o r, Finished o' r' => (o =? o') && res_eqb r r'
  | Delivered o r, Delivered o' r' => (o =? o') && res_eqb r r'
  | _, _ => false
  end.
Fixpoint events_eqb (a b : list event) : bool :=
  match a, b with
  | [], [] => true
  | x :: a', y :: b' => event_eqb x y && events_eqb a' b'
  | _, _ => false
  end.

(* ---- sequential read-modify-write on top of the serializer ----
   A modify operation reads the contents when it starts and writes
   f(contents) when it finishes successfully; a failed one writes nothing. *)
Section Modify.
  Variable content : Type.
  Variable modifier : opid -> content -> content.

  (* replay a trace against a store: at Finished o Ok the store becomes
     modifier o (value read at Started o) *)
  Fixpoint replay (l : list event) (store : content) (read : option content) : content :=
    match l with
    | [] => store
    | Started o :: r => replay r store (Some store)
    | Finished o Ok :: r =>
        match read with
        | Some v => replay r (modifier o v) None
        | None => replay r store None
        end
    | Finished o Fail :: r => replay r store None
    | Delivered _ _ :: r => replay r store read
    end.

  (* the specification: apply the modifiers of the successful operations in order *)
  Fixpoint apply_ok (l : list (opid * res)) (store : content) : content :=
    match l with
    | [] => store
    | (o, Ok) :: r => apply_ok r (modifier o store)
    | (_, Fail) :: r => apply_ok r store
    end.
End Modify.

(* ---- node cache (nodemaker.NodeMaker.create_from_cap): memo key -> node id ---- *)
Definition cache := list (list N * N).       (* cap string (memo key) -> node identity *)

Fixpoint cache_lookup (c : cache) (k : list N) : option N :=
  match c with
  | [] => None
  | (k', v) :: r => if (fix eqb (a b : list N) : bool :=
                          match a, b with
                          | [], [] => true
                          | x :: a', y :: b' => (x =? y) && eqb a' b'
                          | _, _ => false
                          end) k k' then Some v else cache_lookup r k
  end.

(* create_from_cap: return the cached node or allocate identity `fresh` *)
Definition create_from_cap (c : cache) (k : list N) (fresh : N) : cache * N :=
  match cache_lookup c k with
  | Some v => (c, v)
  | None => ((k, fresh) :: c, fresh)
  end.
