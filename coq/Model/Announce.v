(* Model of the introducer client's handling of inbound announcements (C34):

     introducer/common.py   unsign_from_foolscap(ann_t)
     introducer/client.py   IntroducerClient.got_announcements (the batch loop),
                            _process_announcement, _deliver_announcements
     introducer/server.py   IntroducerService._publish (same acceptance rule, no
                            subscription filter, no description checks)

   unsign_from_foolscap, in the order of the code:
       (msg, sig_vs, claimed_key_vs) = ann_t                      ValueError/TypeError if not a triple
       if not sig_vs or not claimed_key_vs: raise UnknownKeyError
       if not sig_vs.startswith(b"v0-"):    raise UnknownKeyError
       if not claimed_key_vs.startswith(b"v0-"): raise UnknownKeyError
       claimed_key = verifying_key_from_string(b"pub-" + claimed_key_vs)   AssertionError (base32) / ValueError (length)
       sig_bytes = base32.a2b(remove_prefix(sig_vs, b"v0-"))               AssertionError
       verify_signature(claimed_key, sig_bytes, msg)                       BadSignature
       key_vs = remove_prefix(string_from_verifying_key(claimed_key), b"pub-")   (canonical spelling of the verified key)
       ann = json.loads(msg.decode("utf-8"))                               ValueError
       return (ann, key_vs)

   got_announcements: every element of the batch is unsigned and processed on
   its own; any exception raised for one element is logged and the loop goes on.

   Abstract (Section variables): the signature scheme, the parsing of a "v0-..."
   key string into a key and back, and JSON decoding of the message.  The
   announcement is reduced to what the code reads: service name, whether the
   nickname / FURL members let the description code run, the "seqnum" member,
   and an identity for the whole dictionary (dict equality). *)
From Coq Require Import List NArith ZArith Bool.
From Verif Require Import Lib.Sig.
Import ListNotations.
Local Open Scope N_scope.

(* the "seqnum" member of the JSON object *)
Inductive seqval : Type :=
| SAbsent                 (* no such member *)
| SInt (z : Z)            (* a Python int (JSON integer, or true/false = 1/0) *)
| SHalf (z : Z)           (* a float strictly between z and z+1 *)
| SOther.                 (* string, null, list, object: ordering against an int raises TypeError *)

Record ann : Type := {
  a_service : N;          (* str(ann["service-name"]) *)
  a_desc_ok : bool;       (* nickname is a string and anonymous-storage-FURL (if present) parses: no exception before the index is built *)
  a_seq : seqval;
  a_body : N              (* identity of the whole dictionary *)
}.

Inductive ann_json : Type :=
| AJMalformed             (* JSON, but not an object with a "service-name" member: ann["service-name"] raises *)
| AJ (a : ann).

Definition seqval_eqb (x y : seqval) : bool :=
  match x, y with
  | SAbsent, SAbsent | SOther, SOther => true
  | SInt a, SInt b | SHalf a, SHalf b => (a =? b)%Z
  | _, _ => false
  end.

Definition ann_eqb (x y : ann) : bool :=
  (a_service x =? a_service y) && Bool.eqb (a_desc_ok x) (a_desc_ok y) &&
  seqval_eqb (a_seq x) (a_seq y) && (a_body x =? a_body y).

(* why an announcement was not stored / how it was stored *)
Inductive verdict : Type :=
| RNotTriple | RUnknownKey | RMalformedKey | RMalformedSig | RBadSignature | RNotJSON    (* unsign_from_foolscap raised *)
| PRaise                  (* _process_announcement raised (KeyError/TypeError/AttributeError/AssertionError) *)
| PWrongService | PDuplicate | PNoValidSeq | PTooOld
| PNew | PUpdate.

Definition verdict_eqb (x y : verdict) : bool :=
  match x, y with
  | RNotTriple, RNotTriple | RUnknownKey, RUnknownKey | RMalformedKey, RMalformedKey
  | RMalformedSig, RMalformedSig | RBadSignature, RBadSignature | RNotJSON, RNotJSON
  | PRaise, PRaise | PWrongService, PWrongService | PDuplicate, PDuplicate
  | PNoValidSeq, PNoValidSeq | PTooOld, PTooOld | PNew, PNew | PUpdate, PUpdate => true
  | _, _ => false
  end.

Definition stores (v : verdict) : bool :=
  match v with PNew | PUpdate => true | _ => false end.

Section Announce.
  Variables pubkey keystr msg sig : Type.
  Variable verify : pubkey -> msg -> sig -> bool.
  Variable parse_key : keystr -> option pubkey.     (* None: verifying_key_from_string raises *)
  Variable canon : pubkey -> keystr.                (* "v0-" ++ base32(key bytes) *)
  Variable decode : msg -> option ann_json.         (* None: not UTF-8 / not JSON *)
  Variable keystr_eqb : keystr -> keystr -> bool.

  (* the signature / key slot of the triple: falsy (None, b"", 0, [], ...) / bytes without the v0- prefix /
     a truthy value that is not bytes (number, list, dict, True, text: .startswith raises AttributeError or
     TypeError) / v0- text that is not base32 / decodes *)
  Inductive sigfield : Type := SfEmpty | SfNoV0 | SfNotBytes | SfBadBase32 | SfOk (s : sig).
  Inductive keyfield : Type := KfEmpty | KfNoV0 | KfNotBytes | KfOk (ks : keystr).
  Inductive wire : Type := WNotTriple | WTriple (m : msg) (s : sigfield) (k : keyfield).

  Definition unsign_from_foolscap (w : wire) : verdict + (ann_json * keystr) :=
    match w with
    | WNotTriple => inl RNotTriple
    | WTriple m s k =>
        match s, k with
        | SfEmpty, _ | _, KfEmpty => inl RUnknownKey
        | SfNoV0, _ => inl RUnknownKey
        | SfNotBytes, _ => inl RMalformedSig                 (* sig_vs.startswith raises *)
        | _, KfNoV0 => inl RUnknownKey
        | _, KfNotBytes => inl RMalformedKey                 (* claimed_key_vs.startswith raises *)
        | s, KfOk ks =>
            match parse_key ks with
            | None => inl RMalformedKey
            | Some key =>
                match s with
                | SfOk sg =>
                    if verify key m sg then
                      match decode m with
                      | None => inl RNotJSON
                      | Some j => inr (j, canon key)
                      end
                    else inl RBadSignature
                | _ => inl RMalformedSig
                end
            end
        end
    end.

  (* _inbound_announcements: index (service name, key string) -> announcement *)
  Definition index : Type := (N * keystr)%type.
  Definition index_eqb (i j : index) : bool := (fst i =? fst j) && keystr_eqb (snd i) (snd j).
  Definition store : Type := list (index * ann).

  Fixpoint lookup (st : store) (i : index) : option ann :=
    match st with
    | [] => None
    | (j, a) :: r => if index_eqb i j then Some a else lookup r i
    end.

  Fixpoint update (st : store) (i : index) (a : ann) : store :=
    match st with
    | [] => [(i, a)]
    | (j, b) :: r => if index_eqb i j then (j, a) :: r else (j, b) :: update r i a
    end.

  (* "must beat previous sequence number to replace" *)
  Definition seq_check (old new : seqval) : verdict :=
    match old with
    | SAbsent => PUpdate                                   (* "seqnum" not in old: replace *)
    | _ =>
        match new with
        | SInt n =>
            match old with
            | SInt o | SHalf o => if (n <=? o)%Z then PTooOld else PUpdate
            | _ => PRaise                                  (* int <= str/None/list: TypeError *)
            end
        | _ => PNoValidSeq                                 (* absent or not an int *)
        end
    end.

  (* client = true: IntroducerClient._process_announcement; false: IntroducerService._publish *)
  Definition process (client : bool) (subscribed : N -> bool) (st : store) (j : ann_json) (ks : keystr) : verdict :=
    match j with
    | AJMalformed => PRaise
    | AJ a =>
        if client && negb (subscribed (a_service a)) then PWrongService
        else if client && negb (a_desc_ok a) then PRaise
        else
          match lookup st (a_service a, ks) with
          | None => PNew
          | Some old => if ann_eqb old a then PDuplicate else seq_check (a_seq old) (a_seq a)
          end
    end.

  Record state : Type := { st_store : store; st_delivered : list (keystr * ann) }.

  (* one element of the batch: unsign, process, store + deliver; anything that
     raises is logged and leaves the state alone *)
  Definition step (client : bool) (subscribed : N -> bool) (st : state) (w : wire) : state * verdict :=
    match unsign_from_foolscap w with
    | inl r => (st, r)
    | inr (j, ks) =>
        let v := process client subscribed (st_store st) j ks in
        match j with
        | AJ a =>
            if stores v then
              ({| st_store := update (st_store st) (a_service a, ks) a;
                  st_delivered := st_delivered st ++ [(ks, a)] |}, v)
            else (st, v)
        | AJMalformed => (st, v)
        end
    end.

  Fixpoint got_announcements (client : bool) (subscribed : N -> bool) (st : state) (batch : list wire) : state * list verdict :=
    match batch with
    | [] => (st, [])
    | w :: r =>
        let (st1, v) := step client subscribed st w in
        let (st2, vs) := got_announcements client subscribed st1 r in
        (st2, v :: vs)
    end.

  Fixpoint run_stream (client : bool) (subscribed : N -> bool) (st : state) (batches : list (list wire)) : state * list (list verdict) :=
    match batches with
    | [] => (st, [])
    | b :: r =>
        let (st1, vs) := got_announcements client subscribed st b in
        let (st2, vss) := run_stream client subscribed st1 r in
        (st2, vs :: vss)
    end.

  Definition empty_state : state := {| st_store := []; st_delivered := [] |}.

  (* The connection to the introducer may be lost and re-established between batches
     (IntroducerClient._disconnected / _got_versioned_introducer): _publisher and _subscriptions are
     reset, _inbound_announcements -- the table of accepted sequence numbers -- is NOT touched. *)
  Inductive event : Type := EBatch (ws : list wire) | EReconnect.

  Definition on_reconnect (st : state) : state := st.

  Fixpoint run_events (client : bool) (subscribed : N -> bool) (st : state) (evs : list event) : state * list (list verdict) :=
    match evs with
    | [] => (st, [])
    | EBatch b :: r =>
        let (st1, vs) := got_announcements client subscribed st b in
        let (st2, vss) := run_events client subscribed st1 r in
        (st2, vs :: vss)
    | EReconnect :: r => run_events client subscribed (on_reconnect st) r
    end.

  (* subscribe_to(service_name, cb) by a late subscriber: it is told, for every index of that service,
     the key and the announcement currently held there -- each key with ITS announcement *)
  Definition backlog (st : state) (svc : N) : list (keystr * ann) :=
    map (fun p => (snd (fst p), snd p)) (filter (fun p => fst (fst p) =? svc) (st_store st)).

  Fixpoint batches_of (evs : list event) : list (list wire) :=
    match evs with
    | [] => []
    | EBatch b :: r => b :: batches_of r
    | EReconnect :: r => batches_of r
    end.
End Announce.

Arguments SfEmpty {sig}.
Arguments SfNoV0 {sig}.
Arguments SfNotBytes {sig}.
Arguments SfBadBase32 {sig}.
Arguments SfOk {sig} s.
Arguments KfEmpty {keystr}.
Arguments KfNoV0 {keystr}.
Arguments KfNotBytes {keystr}.
Arguments KfOk {keystr} ks.
Arguments WNotTriple {keystr msg sig}.
Arguments WTriple {keystr msg sig} m s k.
Arguments unsign_from_foolscap {pubkey keystr msg sig} verify parse_key canon decode w.
Arguments lookup {keystr} keystr_eqb st i.
Arguments update {keystr} keystr_eqb st i a.
Arguments process {keystr} keystr_eqb client subscribed st j ks.
Arguments st_store {keystr} s.
Arguments st_delivered {keystr} s.
Arguments Build_state {keystr} _ _.
Arguments step {pubkey keystr msg sig} verify parse_key canon decode keystr_eqb client subscribed st w.
Arguments got_announcements {pubkey keystr msg sig} verify parse_key canon decode keystr_eqb client subscribed st batch.
Arguments run_stream {pubkey keystr msg sig} verify parse_key canon decode keystr_eqb client subscribed st batches.
Arguments empty_state {keystr}.
Arguments EBatch {keystr msg sig} ws.
Arguments EReconnect {keystr msg sig}.
Arguments run_events {pubkey keystr msg sig} verify parse_key canon decode keystr_eqb client subscribed st evs.
Arguments batches_of {keystr msg sig} evs.
Arguments backlog {keystr} st svc.

(* ---- executable symbolic instance ----
   keys are numbered; a key string is (key id, spelling): spelling 0 is the
   canonical base32 text, other spellings differ in the unused trailing bits of
   the last character and are accepted iff the base32 layer accepts them
   (`alias_ok`, observed from allmydata.util.base32 by the driver); key id 0
   stands for a string that does not decode to a key at all. *)
Definition sym_keystr : Type := (N * N)%type.
Definition sym_keystr_eqb (a b : sym_keystr) : bool := (fst a =? fst b) && (snd a =? snd b).
Definition sym_parse_key (alias_ok : bool) (ks : sym_keystr) : option N :=
  if fst ks =? 0 then None
  else if snd ks =? 0 then Some (fst ks)
  else if alias_ok then Some (fst ks) else None.
Definition sym_canon (k : N) : sym_keystr := (k, 0).

Definition sym_ann_table := list (N * option ann_json).
Fixpoint sym_ann_decode (tbl : sym_ann_table) (m : N) : option ann_json :=
  match tbl with
  | [] => None
  | (m', d) :: r => if m =? m' then d else sym_ann_decode r m
  end.

Definition sym_wire : Type := wire sym_keystr N sym_sig.

Definition sym_run (alias_ok : bool) (tbl : sym_ann_table) (client : bool) (subs : list N) (batches : list (list sym_wire))
  : state sym_keystr * list (list verdict) :=
  run_stream sym_verify (sym_parse_key alias_ok) sym_canon (sym_ann_decode tbl) sym_keystr_eqb
             client (fun s => existsb (N.eqb s) subs) empty_state batches.

Definition sym_run_events (alias_ok : bool) (tbl : sym_ann_table) (client : bool) (subs : list N)
           (evs : list (event sym_keystr N sym_sig)) : state sym_keystr * list (list verdict) :=
  run_events sym_verify (sym_parse_key alias_ok) sym_canon (sym_ann_decode tbl) sym_keystr_eqb
             client (fun s => existsb (N.eqb s) subs) empty_state evs.

(* observables compared with the implementation *)
Definition delivered_ids (st : state sym_keystr) : list (N * N * N) :=
  map (fun p => (fst (fst p), snd (fst p), a_body (snd p))) (st_delivered st).
Definition stored_ids (st : state sym_keystr) : list (N * N * N * N) :=
  map (fun p => (fst (fst p), fst (snd (fst p)), snd (snd (fst p)), a_body (snd p))) (st_store st).

Definition backlog_ids (st : state sym_keystr) (svc : N) : list (N * N * N) :=
  map (fun p => (fst (fst p), snd (fst p), a_body (snd p))) (backlog st svc).
Definition triple_in (q : N * N * N) (l : list (N * N * N)) : bool :=
  existsb (fun r => match q, r with (a, b, c), (a', b', c') => (a =? a') && (b =? b') && (c =? c') end) l.
Definition triples_seteq (a b : list (N * N * N)) : bool :=
  (length a =? length b)%nat && forallb (fun q => triple_in q b) a && forallb (fun q => triple_in q a) b.

Fixpoint triples_eqb (a b : list (N * N * N)) : bool :=
  match a, b with
  | [], [] => true
  | (x1, x2, x3) :: a', (y1, y2, y3) :: b' => (x1 =? y1) && (x2 =? y2) && (x3 =? y3) && triples_eqb a' b'
  | _, _ => false
  end.

Definition quad_in (q : N * N * N * N) (l : list (N * N * N * N)) : bool :=
  existsb (fun r => match q, r with (a, b, c, d), (a', b', c', d') => (a =? a') && (b =? b') && (c =? c') && (d =? d') end) l.
Definition quads_seteq (a b : list (N * N * N * N)) : bool :=
  forallb (fun q => quad_in q b) a && forallb (fun q => quad_in q a) b.

Fixpoint verdicts_eqb (a b : list verdict) : bool :=
  match a, b with
  | [], [] => true
  | x :: a', y :: b' => verdict_eqb x y && verdicts_eqb a' b'
  | _, _ => false
  end.

Definition count_verdict (v : verdict) (vss : list (list verdict)) : N :=
  N.of_nat (length (filter (verdict_eqb v) (concat vss))).

(* coarse view of unsign_from_foolscap for the driver: (class, key id, spelling)
   class 0 = UnknownKeyError, 1 = BadSignature, 2 = any other exception, 3 = returned *)
Definition sym_unsign (alias_ok : bool) (tbl : sym_ann_table) (w : sym_wire) : N * N * N :=
  match unsign_from_foolscap sym_verify (sym_parse_key alias_ok) sym_canon (sym_ann_decode tbl) w with
  | inl RUnknownKey => (0, 0, 0)
  | inl RBadSignature => (1, 0, 0)
  | inl _ => (2, 0, 0)
  | inr (_, ks) => (3, fst ks, snd ks)
  end.

Definition triple_eqb (a b : N * N * N) : bool :=
  match a, b with (x1, x2, x3), (y1, y2, y3) => (x1 =? y1) && (x2 =? y2) && (x3 =? y3) end.
