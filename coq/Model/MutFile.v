(* Executable model of what one writer's operations do to the bytes of a mutable file.

   Mirrors, statement by statement where it matters (src/allmydata/mutable):
     pyutil.mathutil                 div_ceil, next_multiple
     publish.py  Publish.setup_encoding_parameters    segment size, number of segments, tail
                                     segment size, starting segment, end segment
                 Publish.publish / push_segment / _encode_segment   (reads of one segment each,
                                     `assert len(data) == segsize`, zero padding of the FEC input)
                 Publish.update      (datalength = max(version[4], data.get_size()), only the
                                     segments starting_segment..end_segment are written)
                 MutableData.read    (BytesIO.read)
                 TransformingUploadable.__init__/get_size/read
     filenode.py MutableFileVersion._update, _do_modify_update, _do_update_update,
                 _decode_and_decrypt_segments, _build_uploadable_and_finish, _modify_once,
                 _overwrite, read/_read
     retrieve.py Retrieve.download, _start_download (precondition), _setup_encoding_parameters,
                 _decode_blocks._process (trimming to the tail data size), _set_segment, decode

   Abstraction.  A published version is (format, k, segment size, data length, segments);
   a stored segment is what the k primary blocks of that segment concatenate to, i.e. the
   plaintext segment followed by the zero padding that _encode_segment adds to make the FEC
   input a multiple of k (AES-CTR, zfec, salts, the hash trees and the signature are per-segment
   bijections / integrity data and are not modelled here; C10/C47 cover them, the grid
   correspondence ties this abstraction to the real code).  An in-place update leaves the stored
   segments it does not push untouched, because MDMFSlotWriteProxy.put_block writes block
   `segnum` at an offset that depends only on segnum and the (unchanged) block size.

   Numbers are `nat` (files in executable cases are small; the theorems hold for all nat).
   Python's `//` and `%` raise ZeroDivisionError on a zero divisor; every place where the real
   code can divide by zero is guarded explicitly below (returning None = the operation fails),
   and the theorems carry k >= 1 and max segment size >= 1.
   `None` always means: the real call raises / the Deferred errbacks.
   No proofs in this file. *)
From Coq Require Import List Arith NArith Bool.
From Verif Require Import Lib.Hex.
Import ListNotations.

Definition bytes := list N.

(* Python s[a:b] for 0 <= a, 0 <= b (clipping at len(s); empty when b <= a) *)
Definition slice (a b : nat) (s : bytes) : bytes := firstn (b - a) (skipn a s).

(* ---- pyutil.mathutil (callers guarantee d > 0) --------------------------- *)
Definition div_ceil (n d : nat) : nat := n / d + (if n mod d =? 0 then 0 else 1).
Definition next_multiple (n k : nat) : nat := div_ceil n k * k.

(* ---- 1. byte-string semantics of the operations -------------------------- *)
(* _do_modify_update.m :  new = old[:start]; new += data; new += old[rest:]   (Python slices clip) *)
Definition splice (old data : bytes) (offset : nat) : bytes :=
  firstn offset old ++ data ++ skipn (offset + length data) old.

(* Reference semantics, byte by byte: what `ref[offset:offset+len(data)] = data` does to a
   bytearray when offset <= len(ref). *)
Definition spec_update_len (old data : bytes) (offset : nat) : nat := Nat.max (length old) (offset + length data).
Definition spec_update_byte (old data : bytes) (offset i : nat) : N :=
  if (offset <=? i) && (i <? offset + length data) then nth (i - offset) data 0%N else nth i old 0%N.

Inductive op :=
| OpOverwrite (new : bytes)
| OpModify (m : bytes -> option bytes)      (* the modifier; None = "return None" (no change) *)
| OpUpdate (data : bytes) (offset : nat).

Definition apply_spec (cur : bytes) (o : op) : bytes :=
  match o with
  | OpOverwrite new => new
  | OpModify m => match m cur with Some new => new | None => cur end
  | OpUpdate data offset => splice cur data offset
  end.

Definition run_spec (init : bytes) (ops : list op) : bytes := fold_left apply_spec ops init.

(* precondition of update (MDMF asserts it, the interface documents offset = size as append) *)
Definition op_ok (cur : bytes) (o : op) : Prop :=
  match o with OpUpdate _ offset => offset <= length cur | _ => True end.

Fixpoint history_ok (cur : bytes) (ops : list op) : Prop :=
  match ops with
  | [] => True
  | o :: r => op_ok cur o /\ history_ok (apply_spec cur o) r
  end.

(* ---- 2. versions --------------------------------------------------------- *)
Record mfile := mk_mfile {
  mf_sdmf : bool;        (* verinfo[2] (the SDMF IV) is non-empty *)
  mf_k : nat;            (* verinfo[5] *)
  mf_segsize : nat;      (* verinfo[3] *)
  mf_len : nat;          (* verinfo[4] datalength *)
  mf_segs : list bytes   (* stored segments (plaintext segment ++ FEC zero padding) *)
}.

(* _encode_segment: k pieces of fec.get_block_size() = div_ceil(len, k) bytes, the last ones
   zero padded; the decoder returns their concatenation *)
Definition pad (k : nat) (seg : bytes) : bytes := seg ++ repeat 0%N (next_multiple (length seg) k - length seg).

(* ---- Publish.setup_encoding_parameters ----------------------------------- *)
Record enc := mk_enc {
  e_seg : nat;     (* self.segment_size *)
  e_num : nat;     (* self.num_segments *)
  e_start : nat;   (* self.starting_segment *)
  e_tail : nat;    (* self.tail_segment_size *)
  e_end1 : nat     (* self.end_segment + 1   (end_segment is -1 when nothing is to be pushed) *)
}.

(* data_size = self.data.get_size().  The branch `data.get_size() != datalength` divides by
   segment_size; it is only reached from Publish.update (MDMF, segment_size > 0). *)
Definition setup_encoding_parameters (sdmf : bool) (maxseg k datalength data_size offset : nat) : enc :=
  let segment_size := next_multiple (if sdmf then datalength else maxseg) k in
  let num := if segment_size =? 0 then 0 else div_ceil datalength segment_size in
  let start := if segment_size =? 0 then 0 else offset / segment_size in
  let tail0 := if negb (segment_size =? 0) && negb (datalength =? 0) then datalength mod segment_size else 0 in
  let tail := if (tail0 =? 0) && negb (segment_size =? 0) then segment_size else tail0 in
  let end1 :=
    if data_size =? datalength then num                                  (* end_segment = num_segments - 1 *)
    else let e1 := data_size / segment_size + 1 in                       (* end_segment = end // segment_size *)
         if data_size mod segment_size =? 0 then e1 - 1 else e1 in       (* if end % segment_size == 0: -= 1 *)
  mk_enc segment_size num start tail end1.

(* _encode_segment: which size is read for segment segnum *)
Definition seg_read_size (p : enc) (segnum : nat) : nat :=
  if segnum + 1 =? e_num p then e_tail p else e_seg p.

(* ---- whole-file publish (MutableData source) ------------------------------ *)
(* MutableData.read(length) at position pos: BytesIO.read *)
Definition md_read (data : bytes) (pos len : nat) : bytes := slice pos (pos + len) data.

(* push_segment loop: n segments starting at segnum; None = `assert len(data) == segsize` fails *)
Fixpoint push_md (n segnum : nat) (p : enc) (data : bytes) (pos : nat) : option (list bytes) :=
  match n with
  | 0 => Some []
  | S n' =>
      let want := seg_read_size p segnum in
      let d := md_read data pos want in
      if length d =? want then
        match push_md n' (S segnum) p data (pos + length d) with
        | Some r => Some (d :: r)
        | None => None
        end
      else None
  end.

(* Publish.publish for format sdmf/mdmf, k required shares (k >= 1), DEFAULT_MUTABLE_MAX_SEGMENT_SIZE = maxseg *)
Definition publish (sdmf : bool) (maxseg k : nat) (data : bytes) : option mfile :=
  if k =? 0 then None else
  let p := setup_encoding_parameters sdmf maxseg k (length data) (length data) 0 in
  if sdmf && negb (e_num p <=? 1) then None else                         (* assert num_segments in (0, 1) *)
  match push_md (e_end1 p - e_start p) (e_start p) p data 0 with
  | Some segs => Some (mk_mfile sdmf k (e_seg p) (length data) (map (pad k) segs))
  | None => None
  end.

(* ---- Retrieve ------------------------------------------------------------- *)
(* _setup_encoding_parameters: (num_segments, tail_data_size) *)
Definition retr_num (f : mfile) : nat :=
  if (mf_len f =? 0) || (mf_segsize f =? 0) then 0 else div_ceil (mf_len f) (mf_segsize f).
Definition retr_tail_data (f : mfile) : nat :=
  let t := if (mf_len f =? 0) || (mf_segsize f =? 0) then 0 else mf_len f mod mf_segsize f in
  if t =? 0 then mf_segsize f else t.

(* _decode_blocks._process: the decoded buffers trimmed to size_to_use *)
Definition decoded_segment (f : mfile) (segnum : nat) : bytes :=
  let size_to_use := if segnum + 1 =? retr_num f then retr_tail_data f else mf_segsize f in
  firstn size_to_use (nth segnum (mf_segs f) []).

(* _set_segment for segment `cur` of a read (offset, size) spanning segments start..last *)
Definition set_segment (segsize offset size start last cur : nat) (segment : bytes) : bytes :=
  let s1 := if cur =? last then
              let wanted := (offset + size) mod segsize in
              if wanted =? 0 then segment else firstn wanted segment
            else segment in
  if cur =? start then skipn (offset mod segsize) s1 else s1.

(* MutableFileVersion.read(consumer, offset, size) -> Retrieve.download: the bytes written to the
   consumer.  size = None means "to the end". *)
Definition retrieve_read (f : mfile) (offset : nat) (size : option nat) : option bytes :=
  match (match size with
         | Some s => Some s
         | None => if mf_len f <? offset then None (* size < 0: _start_download precondition *)
                   else Some (mf_len f - offset)
         end) with
  | None => None
  | Some sz =>
    if sz =? 0 then Some []                                              (* short-circuit: _done() *)
    else if negb ((offset <? mf_len f) && (offset + sz <=? mf_len f)) then None    (* precondition *)
    else
      let seg := mf_segsize f in
      let start := if offset =? 0 then 0 else offset / seg in
      let last := (offset + sz - 1) / seg in
      if negb (start <=? retr_num f) || negb (last <? retr_num f) then None        (* the two _assert *)
      else Some (concat (map (fun cur => set_segment seg offset sz start last cur (decoded_segment f cur))
                             (seq start (last + 1 - start))))
  end.

Definition read_all (f : mfile) : option bytes := retrieve_read f 0 None.

(* ---- TransformingUploadable ------------------------------------------------ *)
Record tu := mk_tu {
  tu_new : bytes;     (* the wrapped uploadable's data *)
  tu_off : nat;       (* _offset *)
  tu_segsz : nat;     (* _segment_size *)
  tu_start : bytes;   (* _start: old plaintext of the start segment *)
  tu_end : bytes;     (* _end: old plaintext of the end segment *)
  tu_rm : nat;        (* _read_marker *)
  tu_pos : nat        (* _newdata.pos() *)
}.

Definition tu_init (data : bytes) (offset segsize : nat) (s e : bytes) : tu := mk_tu data offset segsize s e 0 0.
Definition tu_fso (t : tu) : nat := tu_off t mod tu_segsz t.            (* _first_segment_offset *)
Definition tu_size (t : tu) : nat := tu_off t + length (tu_new t).       (* get_size *)

(* read(length).  Python's signed tests `old_data_length > 0` (= fso - read_marker) and
   `old_end_length > 0` (= length - remaining new data) are the two `<?` below; inside the
   branches the subtractions are exact. *)
Definition tu_read (t : tu) (len0 : nat) : bytes * tu :=
  let fso := tu_fso t in
  let '(old_start_data, odl, len1) :=
    if tu_rm t <? fso then
      let odl0 := fso - tu_rm t in
      let odl := if len0 <? odl0 then len0 else odl0 in                 (* if old_data_length > length *)
      (slice (tu_rm t) (odl + tu_rm t) (tu_start t), odl, len0 - odl)
    else ([], 0, len0) in
  let remaining := length (tu_new t) - tu_pos t in
  let '(old_end_data, len2) :=
    if remaining <? len1 then
      let oel := len1 - remaining in
      let odo := (len1 - oel + odl) mod tu_segsz t in                    (* old_data_offset *)
      (slice odo (odo + oel) (tu_end t), len1 - oel)
    else ([], len1) in
  let new_data := md_read (tu_new t) (tu_pos t) len2 in
  let out := old_start_data ++ new_data ++ old_end_data in
  (out, mk_tu (tu_new t) (tu_off t) (tu_segsz t) (tu_start t) (tu_end t)
              (tu_rm t + length out) (tu_pos t + length new_data)).

(* a sequence of reads (used by the correspondence with the real class) *)
Fixpoint tu_reads (t : tu) (lens : list nat) : list bytes :=
  match lens with
  | [] => []
  | l :: r => let '(d, t') := tu_read t l in d :: tu_reads t' r
  end.

(* push_segment loop over a TransformingUploadable *)
Fixpoint push_tu (n segnum : nat) (p : enc) (t : tu) : option (list bytes) :=
  match n with
  | 0 => Some []
  | S n' =>
      let want := seg_read_size p segnum in
      let '(d, t') := tu_read t want in
      if length d =? want then
        match push_tu n' (S segnum) p t' with
        | Some r => Some (d :: r)
        | None => None
        end
      else None
  end.

(* ---- MutableFileVersion operations ----------------------------------------- *)
Definition do_overwrite (maxseg : nat) (f : mfile) (new : bytes) : option mfile :=
  publish (mf_sdmf f) maxseg (mf_k f) new.

(* _modify_once (first attempt, no UncoordinatedWriteError: one writer) *)
Definition do_modify (maxseg : nat) (f : mfile) (m : bytes -> option bytes) : option mfile :=
  match read_all f with
  | None => None
  | Some old =>
      match m old with
      | None => Some f
      | Some new => if list_N_eqb new old then Some f else publish (mf_sdmf f) maxseg (mf_k f) new
      end
  end.

(* _do_update_update: which old segments are fetched.  For offset + len(data) = 0 the code asks for
   segment -1 (the bytes before the share data); no segment is pushed in that case, so what it
   decodes to is never read; the model fetches segment 0 there. *)
Definition update_end_segment (old_size segsize offset dlen : nat) : nat :=
  if offset + dlen <? old_size then (offset + dlen - 1) / segsize else offset / segsize.

(* MDMF in-place path: _do_update_update, _decode_and_decrypt_segments,
   _build_uploadable_and_finish, Publish.update.
   Power-of-two boundary: update()'s docstring says the file is re-encoded when the segment count
   crosses a power of two; the code does not do that (_update computes both counts only for a log
   message).  Publish.update takes the old block-hash leaves, appends None up to the new
   num_segments, every pushed segment overwrites its leaf and HashTree rebuilds the tree with the
   new shape, so the data path is the same on both sides of the boundary (the grid cases cross
   1, 2, 4 and 8 segments). *)
Definition update_in_place (maxseg : nat) (f : mfile) (data : bytes) (offset : nat) : option mfile :=
  let old_size := mf_len f in
  let segsize := mf_segsize f in
  if negb (offset <=? old_size) then None                                  (* assert offset <= self.get_size() *)
  else
    let start_segment := offset / segsize in
    let end_segment := update_end_segment old_size segsize offset (length data) in
    if negb (start_segment <? retr_num f) then None                        (* no such segment: the fetch fails *)
    else
      let t := tu_init data offset segsize (decoded_segment f start_segment) (decoded_segment f end_segment) in
      let datalength := if old_size <? tu_size t then tu_size t else old_size in
      let p := setup_encoding_parameters false maxseg (mf_k f) datalength (tu_size t) offset in
      match push_tu (e_end1 p - e_start p) (e_start p) p t with
      | None => None
      | Some pushed =>
          Some (mk_mfile false (mf_k f) (e_seg p) datalength
                         (firstn (e_start p) (mf_segs f) ++ map (pad (mf_k f)) pushed ++ skipn (e_end1 p) (mf_segs f)))
      end.

(* MutableFileVersion._update *)
Definition do_update (maxseg : nat) (f : mfile) (data : bytes) (offset : nat) : option mfile :=
  if mf_sdmf f then do_modify maxseg f (fun old => Some (splice old data offset))
  else
    let old_size := mf_len f in
    let segment_size := mf_segsize f in
    if segment_size =? 0 then None else                                    (* div_ceil(old_size, 0) *)
    let num_old_segments := div_ceil old_size segment_size in
    if (offset =? old_size) && (offset / segment_size =? num_old_segments)
    then do_modify maxseg f (fun old => Some (splice old data offset))
    else update_in_place maxseg f data offset.

Definition apply_impl (maxseg : nat) (f : mfile) (o : op) : option mfile :=
  match o with
  | OpOverwrite new => do_overwrite maxseg f new
  | OpModify m => do_modify maxseg f m
  | OpUpdate data offset => do_update maxseg f data offset
  end.

Fixpoint run_impl (maxseg : nat) (f : mfile) (ops : list op) : option mfile :=
  match ops with
  | [] => Some f
  | o :: r => match apply_impl maxseg f o with Some f' => run_impl maxseg f' r | None => None end
  end.

(* ---- what it means for a version to hold a byte string (used in the theorem statements) ---- *)
Fixpoint chunks_n (n seg : nat) (d : bytes) : list bytes :=
  match n with
  | 0 => []
  | S n' => firstn seg d :: chunks_n n' seg (skipn seg d)
  end.
(* the segments of d: div_ceil(len, seg) pieces of seg bytes, the last one shorter *)
Definition chunks (seg : nat) (d : bytes) : list bytes :=
  if seg =? 0 then [] else chunks_n (div_ceil (length d) seg) seg d.

Definition seg_size_of (sdmf : bool) (maxseg k len : nat) : nat := next_multiple (if sdmf then len else maxseg) k.

Definition represents (sdmf : bool) (maxseg k : nat) (f : mfile) (d : bytes) : Prop :=
  mf_sdmf f = sdmf /\ mf_k f = k /\ mf_segsize f = seg_size_of sdmf maxseg k (length d) /\ mf_len f = length d /\
  mf_segs f = map (pad k) (chunks (mf_segsize f) d).

(* the bytes a TransformingUploadable serves when it is read the way Publish reads it:
   old start segment up to the offset, the new data, and m bytes of the old end segment from
   where the new data ends *)
Definition tu_region (data s e : bytes) (offset segsize m : nat) : bytes :=
  firstn (offset mod segsize) s ++ data ++ firstn m (skipn ((offset mod segsize + length data) mod segsize) e).

(* ---- helpers for executable cases ------------------------------------------ *)
Definition opt_bytes_eqb (a b : option bytes) : bool :=
  match a, b with
  | Some x, Some y => list_N_eqb x y
  | None, None => true
  | _, _ => false
  end.

Fixpoint list_bytes_eqb (a b : list bytes) : bool :=
  match a, b with
  | [], [] => true
  | x :: a', y :: b' => list_N_eqb x y && list_bytes_eqb a' b'
  | _, _ => false
  end.

Definition enc_eqb (p : enc) (seg num start tail end1 : nat) : bool :=
  (e_seg p =? seg) && (e_num p =? num) && (e_start p =? start) && (e_tail p =? tail) && (e_end1 p =? end1).
