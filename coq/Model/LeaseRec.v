(* Lease records (storage/lease.py LeaseInfo.to_*/from_*_data) and share
   container headers (storage/immutable_schema.py, storage/immutable.py,
   storage/mutable_schema.py, storage/mutable.py).  Every format, field order,
   size and offset comes from Gen/Structs.v, regenerated from the source. *)
From Coq Require Import List NArith Bool.
From Verif Require Import Lib.Hex Lib.Decimal Lib.Bytes Lib.HashPrim Gen.Structs Gen.Hashutil.
Import ListNotations.
Local Open Scope N_scope.

(* ---- LeaseInfo ---- *)
Record lease := mk_lease {
  l_owner : N;
  l_renew : list N;
  l_cancel : list N;
  l_expiration : N;
  l_nodeid : option (list N)
}.

(* struct.pack(IMMUTABLE_FORMAT, owner_num, renew_secret, cancel_secret, int(expiration_time)) *)
Definition lease_to_immutable (l : lease) : option (list N) :=
  struct_pack lease_IMMUTABLE_FORMAT
    [VInt (l_owner l); VBytes (l_renew l); VBytes (l_cancel l); VInt (l_expiration l)].

(* cls(nodeid=None, **dict(zip(names, struct.unpack(IMMUTABLE_FORMAT, data)))) *)
Definition lease_from_immutable (data : list N) : option lease :=
  match struct_unpack lease_IMMUTABLE_FORMAT data with
  | Some [VInt o; VBytes r; VBytes c; VInt e] => Some (mk_lease o r c e None)
  | _ => None
  end.

(* struct.pack(MUTABLE_FORMAT, owner_num, int(expiration_time), renew_secret, cancel_secret, nodeid);
   nodeid None is a struct.error *)
Definition lease_to_mutable (l : lease) : option (list N) :=
  match l_nodeid l with
  | None => None
  | Some nid =>
    struct_pack lease_MUTABLE_FORMAT
      [VInt (l_owner l); VInt (l_expiration l); VBytes (l_renew l); VBytes (l_cancel l); VBytes nid]
  end.

Definition lease_from_mutable (data : list N) : option lease :=
  match struct_unpack lease_MUTABLE_FORMAT data with
  | Some [VInt o; VInt e; VBytes r; VBytes c; VBytes nid] =>
    if Nat.eqb (length nid) 20 then Some (mk_lease o r c e (Some nid)) else None   (* attrs validator *)
  | _ => None
  end.

(* the values the two record formats represent exactly *)
Definition lease_fits (l : lease) : bool :=
  (l_owner l <? 2 ^ 32) && (l_expiration l <? 2 ^ 32) &&
  Nat.eqb (length (l_renew l)) 32 && Nat.eqb (length (l_cancel l)) 32.

Definition lease_fits_immutable (l : lease) : bool :=
  lease_fits l && match l_nodeid l with None => true | Some _ => false end.

Definition lease_fits_mutable (l : lease) : bool :=
  lease_fits l && match l_nodeid l with Some nid => Nat.eqb (length nid) 20 | None => false end.

Definition opt_list_eqb (a b : option (list N)) : bool :=
  match a, b with
  | Some x, Some y => list_N_eqb x y
  | None, None => true
  | _, _ => false
  end.

Definition lease_eqb (a b : lease) : bool :=
  (l_owner a =? l_owner b) && list_N_eqb (l_renew a) (l_renew b) && list_N_eqb (l_cancel a) (l_cancel b)
  && (l_expiration a =? l_expiration b) && opt_list_eqb (l_nodeid a) (l_nodeid b).

Definition opt_lease_eqb (a b : option lease) : bool :=
  match a, b with
  | Some x, Some y => lease_eqb x y
  | None, None => true
  | _, _ => false
  end.

(* ---- immutable share file header ---- *)

(* immutable_schema._Schema.header(max_size) *)
Definition imm_header (version max_size : N) : option (list N) :=
  struct_pack ischema_header_format (ischema_header_values version max_size).

Fixpoint mem_N (x : N) (l : list N) : bool :=
  match l with
  | [] => false
  | y :: r => (y =? x) || mem_N x r
  end.

(* ShareFile.__init__ (create=False): (version, unused, num_leases) = struct.unpack(">LLL", f.read(0xc));
   schema_from_version(version) is None -> UnknownImmutableContainerVersionError *)
Definition imm_header_parse (data : list N) : option (N * N * N) :=
  match struct_unpack immutable_header_read_format data with
  | Some [VInt v; VInt u; VInt n] => if mem_N v ischema_versions then Some (v, u, n) else None
  | _ => None
  end.

(* ---- mutable share file header ---- *)

(* mutable_schema._magic(version) *)
Definition mut_magic (version : N) : list N :=
  let human := mschema_magic_prefix ++ dec version ++ mschema_magic_suffix in
  human ++ (if version =? 1 then mschema_magic_v1_random
            else tagged_hash mschema_magic_tag human (Some mschema_magic_truncate_to)).

(* mutable_schema._header(magic, _EXTRA_LEASE_OFFSET, nodeid, write_enabler) *)
Definition mut_header (version : N) (nodeid write_enabler : list N) : option (list N) :=
  match struct_pack mschema_fixed_header_format
          (mschema_fixed_header_values (mut_magic version) mschema_EXTRA_LEASE_OFFSET nodeid write_enabler),
        struct_pack mschema_extra_lease_count_format [VInt 0] with
  | Some fixed, Some count => Some (fixed ++ repeat 0 (N.to_nat mschema_blank_leases_size) ++ count)
  | _, _ => None
  end.

Fixpoint prefix_eqb (p l : list N) : bool :=
  match p, l with
  | [], _ => true
  | x :: p', y :: l' => (x =? y) && prefix_eqb p' l'
  | _ :: _, [] => false
  end.

(* schema_from_header: the first schema whose magic is a prefix of the header *)
Fixpoint mut_schema_from_header (versions : list N) (header : list N) : option N :=
  match versions with
  | [] => None
  | v :: r => if prefix_eqb (mut_magic v) header then Some v else mut_schema_from_header r header
  end.

Record mut_hdr := mk_mut_hdr {
  mh_version : N;
  mh_nodeid : list N;
  mh_write_enabler : list N;
  mh_data_length : N;
  mh_extra_lease_offset : N
}.

(* MutableShareFile.__init__ + _read_write_enabler_and_nodeid + _read_data_length +
   _read_extra_lease_offset on the first HEADER_SIZE bytes of the file *)
Definition mut_header_parse (data : list N) : option mut_hdr :=
  match mut_schema_from_header mschema_versions data with
  | None => None                                        (* UnknownMutableContainerVersionError *)
  | Some v =>
    match struct_unpack mutable_header_read_format data with
    | Some [VBytes _; VBytes nid; VBytes we; VInt dl; VInt elo] => Some (mk_mut_hdr v nid we dl elo)
    | _ => None
    end
  end.

(* the fields read individually at their offsets *)
Definition read_field_at (off : N) (w : nat) (data : list N) : N :=
  be_value 256 (firstn w (skipn (N.to_nat off) data)).
Definition mut_read_data_length (file : list N) : N := read_field_at mutable_DATA_LENGTH_OFFSET 8 file.
Definition mut_read_extra_lease_offset (file : list N) : N := read_field_at mutable_EXTRA_LEASE_OFFSET 8 file.

Definition mut_hdr_eqb (a b : mut_hdr) : bool :=
  (mh_version a =? mh_version b) && list_N_eqb (mh_nodeid a) (mh_nodeid b)
  && list_N_eqb (mh_write_enabler a) (mh_write_enabler b)
  && (mh_data_length a =? mh_data_length b) && (mh_extra_lease_offset a =? mh_extra_lease_offset b).

Definition opt_mut_hdr_eqb (a b : option mut_hdr) : bool :=
  match a, b with
  | Some x, Some y => mut_hdr_eqb x y
  | None, None => true
  | _, _ => false
  end.

Definition opt_triple_eqb (a b : option (N * N * N)) : bool :=
  match a, b with
  | Some (x, y, z), Some (x', y', z') => (x =? x') && (y =? y') && (z =? z')
  | None, None => true
  | _, _ => false
  end.
