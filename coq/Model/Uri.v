(* Executable model of src/allmydata/uri.py (capability strings), written for
   the code as it stands after the `fix:` commits recorded in
   known_findings.jsonl (regexes end in \Z, CHK-Verifier anchored, NUMBER
   canonical, directory verifier caps return self from get_verify_cap).

   Structure mirrors the Python:
     cls.STRING_RE.search(uri)   -> regex_match   (groups = raw substrings)
     base32.a2b / int            -> build         (conversions, may raise)
     _DirectoryBaseURI           -> dir_init_from_string / dir_to_string
     from_string                 -> from_string   (alleged prefixes, dispatch
                                                   chain in source order, flags)
   The character classes come from Gen/Uri.v; the regex source strings, the
   dispatch table and the per-class tables of Gen/Uri.v are compared with
   `re_of_kind`, `dispatch_rendered`, `classes_rendered`, `flags_rendered` below
   in Props/C15.v and C16.v (so the formats this parser interprets are the ones
   the source regexes spell).  No proofs here. *)
From Coq Require Import String Ascii List NArith PeanoNat Bool.
From Verif Require Import Lib.Hex Lib.Decimal Lib.Netstring Lib.SHA256 Lib.HashPrim Gen.Hashutil Gen.Uri Model.UriBase32.
Import ListNotations.
Local Open Scope N_scope.

(* ------------------------------------------------------------------ caps *)
Inductive filecap :=
| CHK (key ueb : bytes) (k n size : N)            (* CHKFileURI *)
| CHKVerifier (si ueb : bytes) (k n size : N)     (* CHKFileVerifierURI *)
| LIT (data : bytes)                              (* LiteralFileURI *)
| SSK (writekey fingerprint : bytes)              (* WriteableSSKFileURI *)
| SSKRO (readkey fingerprint : bytes)             (* ReadonlySSKFileURI *)
| SSKVerifier (si fingerprint : bytes)            (* SSKVerifierURI *)
| MDMF (writekey fingerprint : bytes)             (* WriteableMDMFFileURI *)
| MDMFRO (readkey fingerprint : bytes)            (* ReadonlyMDMFFileURI *)
| MDMFVerifier (si fingerprint : bytes).          (* MDMFVerifierURI *)

Inductive fkind := KCHK | KCHKV | KLIT | KSSK | KSSKRO | KSSKV | KMDMF | KMDMFRO | KMDMFV.

Definition kind_of (f : filecap) : fkind :=
  match f with
  | CHK _ _ _ _ _ => KCHK | CHKVerifier _ _ _ _ _ => KCHKV | LIT _ => KLIT
  | SSK _ _ => KSSK | SSKRO _ _ => KSSKRO | SSKVerifier _ _ => KSSKV
  | MDMF _ _ => KMDMF | MDMFRO _ _ => KMDMFRO | MDMFVerifier _ _ => KMDMFV
  end.

Definition all_kinds : list fkind := [KCHK; KCHKV; KLIT; KSSK; KSSKRO; KSSKV; KMDMF; KMDMFRO; KMDMFV].

(* error recorded in an UnknownURI (or UnknownNode) *)
Inductive uerr := ENone | EBadURI | EMustBeDeepImmutable | EMustBeReadonly | EMustNotBeUnknownRW.

(* A directory cap (_DirectoryBaseURI subclass) wraps the file cap of its
   INNER_URI_CLASS; every file kind has exactly one wrapper class. *)
Inductive cap :=
| CFile (f : filecap)
| CDir (f : filecap)
| CUnknown (s : bytes) (e : uerr).                (* UnknownURI(uri, error) *)

Definition known (c : cap) : bool := match c with CUnknown _ _ => false | _ => true end.

Definition B (s : string) : bytes := bytes_of_string s.

Definition file_prefix_s (k : fkind) : string :=
  match k with
  | KCHK => "URI:CHK:" | KCHKV => "URI:CHK-Verifier:" | KLIT => "URI:LIT:"
  | KSSK => "URI:SSK:" | KSSKRO => "URI:SSK-RO:" | KSSKV => "URI:SSK-Verifier:"
  | KMDMF => "URI:MDMF:" | KMDMFRO => "URI:MDMF-RO:" | KMDMFV => "URI:MDMF-Verifier:"
  end.

Definition dir_prefix_s (k : fkind) : string :=
  match k with
  | KCHK => "URI:DIR2-CHK:" | KCHKV => "URI:DIR2-CHK-Verifier:" | KLIT => "URI:DIR2-LIT:"
  | KSSK => "URI:DIR2:" | KSSKRO => "URI:DIR2-RO:" | KSSKV => "URI:DIR2-Verifier:"
  | KMDMF => "URI:DIR2-MDMF:" | KMDMFRO => "URI:DIR2-MDMF-RO:" | KMDMFV => "URI:DIR2-MDMF-Verifier:"
  end.

Definition file_class (k : fkind) : string :=
  match k with
  | KCHK => "CHKFileURI" | KCHKV => "CHKFileVerifierURI" | KLIT => "LiteralFileURI"
  | KSSK => "WriteableSSKFileURI" | KSSKRO => "ReadonlySSKFileURI" | KSSKV => "SSKVerifierURI"
  | KMDMF => "WriteableMDMFFileURI" | KMDMFRO => "ReadonlyMDMFFileURI" | KMDMFV => "MDMFVerifierURI"
  end.

Definition dir_class (k : fkind) : string :=
  match k with
  | KCHK => "ImmutableDirectoryURI" | KCHKV => "ImmutableDirectoryURIVerifier" | KLIT => "LiteralDirectoryURI"
  | KSSK => "DirectoryURI" | KSSKRO => "ReadonlyDirectoryURI" | KSSKV => "DirectoryURIVerifier"
  | KMDMF => "MDMFDirectoryURI" | KMDMFRO => "ReadonlyMDMFDirectoryURI" | KMDMFV => "MDMFDirectoryURIVerifier"
  end.

Definition cap_prefix_s (dir : bool) (k : fkind) : string := if dir then dir_prefix_s k else file_prefix_s k.
Definition cap_class (dir : bool) (k : fkind) : string := if dir then dir_class k else file_class k.
Definition file_prefix (k : fkind) : bytes := B (file_prefix_s k).
Definition dir_prefix (k : fkind) : bytes := B (dir_prefix_s k).
Definition cap_prefix (dir : bool) (k : fkind) : bytes := B (cap_prefix_s dir k).

(* ------------------------------------------------------------- printing *)
Definition colon : N := 58.

Fixpoint join_colon (gs : list bytes) : bytes :=
  match gs with
  | [] => []
  | [g] => g
  | g :: r => g ++ colon :: join_colon r
  end.

(* the substituted values of the b'...%s:%s:%d...' templates, in order *)
Definition groups_of (f : filecap) : list bytes :=
  match f with
  | CHK key ueb k n size => [b2a key; b2a ueb; dec k; dec n; dec size]
  | CHKVerifier si ueb k n size => [b2a si; b2a ueb; dec k; dec n; dec size]
  | LIT data => [b2a data]
  | SSK wk fp => [b2a wk; b2a fp]
  | SSKRO rk fp => [b2a rk; b2a fp]
  | SSKVerifier si fp => [b2a si; b2a fp]
  | MDMF wk fp => [b2a wk; b2a fp]
  | MDMFRO rk fp => [b2a rk; b2a fp]
  | MDMFVerifier si fp => [b2a si; b2a fp]
  end.

Definition file_body (f : filecap) : bytes := join_colon (groups_of f).
Definition file_to_string (f : filecap) : bytes := file_prefix (kind_of f) ++ file_body f.

Fixpoint strip_prefix (p s : bytes) : option bytes :=
  match p with
  | [] => Some s
  | x :: p' => match s with
               | [] => None
               | c :: s' => if c =? x then strip_prefix p' s' else None
               end
  end.

Definition starts_with (p s : bytes) : bool :=
  match strip_prefix p s with Some _ => true | None => false end.

(* _DirectoryBaseURI.to_string: re.match(INNER.BASE_STRING, fnuri); assert mo;
   BASE_STRING + fnuri[mo.end():].  None = the assertion fails (never, for a
   wrapper built around a cap of its INNER_URI_CLASS). *)
Definition dir_to_string_opt (f : filecap) : option bytes :=
  match strip_prefix (file_prefix (kind_of f)) (file_to_string f) with
  | Some bits => Some (dir_prefix (kind_of f) ++ bits)
  | None => None
  end.

Definition dir_to_string (f : filecap) : bytes :=
  match dir_to_string_opt f with Some s => s | None => [] end.

Definition to_string (c : cap) : bytes :=
  match c with
  | CFile f => file_to_string f
  | CDir f => dir_to_string f
  | CUnknown s _ => s
  end.

(* -------------------------------------------------------------- formats *)
Inductive field := F128 | F256 | FNUM | FANY.
Inductive ending := EndZ | EndColonOrZ.

Definition fields_of_kind (k : fkind) : list field :=
  match k with
  | KCHK | KCHKV => [F128; F256; FNUM; FNUM; FNUM]
  | KLIT => [FANY]
  | _ => [F128; F256]
  end.

Definition ending_of_kind (k : fkind) : ending :=
  match k with
  | KMDMF | KMDMFRO | KMDMFV => EndColonOrZ
  | _ => EndZ
  end.

(* [C]{n}[last] : n characters of the alphabet, then one of class `lastcls` *)
Definition match_b32 (n : nat) (lastcls : bytes) (s : bytes) : option (bytes * bytes) :=
  let g := firstn (S n) s in
  if (length g =? S n)%nat && forallb is_b32char (firstn n g) && mem (last g 0) lastcls
  then Some (g, skipn (S n) s) else None.

Fixpoint span (f : N -> bool) (s : bytes) : bytes * bytes :=
  match s with
  | [] => ([], [])
  | c :: r => if f c then let '(a, b) := span f r in (c :: a, b) else ([], s)
  end.

(* NUMBER = (0|[1-9][0-9]* ) followed by ':' or \Z: the maximal digit run, canonical *)
Definition match_number (s : bytes) : option (bytes * bytes) :=
  let '(d, r) := span is_digit s in
  if canonical_dec d then Some (d, r) else None.

(* ((?:C{8})*(?:|C C3|C{3}C1|C{4}C4|C{6}C2)) followed by \Z: the maximal run of
   alphabet characters, whose length mod 8 selects the tail alternative.  (A
   shorter run could satisfy the group alone but is then followed by an
   alphabet character, not by the end of the string.) *)
Definition anybytes_tail_ok (g : bytes) : bool :=
  match (length g mod 8)%nat with
  | 0%nat => true
  | 2%nat => mem (last g 0) cls_3bits
  | 4%nat => mem (last g 0) cls_1bits
  | 5%nat => mem (last g 0) cls_4bits
  | 7%nat => mem (last g 0) cls_2bits
  | _ => false
  end.

Definition match_anybytes (s : bytes) : option (bytes * bytes) :=
  let '(g, r) := span is_b32char s in
  if anybytes_tail_ok g then Some (g, r) else None.

Definition match_field (f : field) (s : bytes) : option (bytes * bytes) :=
  match f with
  | F128 => match_b32 25 cls_3bits s
  | F256 => match_b32 51 cls_1bits s
  | FNUM => match_number s
  | FANY => match_anybytes s
  end.

(* fields separated by ':' *)
Fixpoint match_fields (fs : list field) (s : bytes) : option (list bytes * bytes) :=
  match fs with
  | [] => Some ([], s)
  | f :: fs' =>
    match match_field f s with
    | None => None
    | Some (g, r) =>
      match fs' with
      | [] => Some ([g], r)
      | _ :: _ =>
        match r with
        | c :: r' =>
          if c =? colon then
            match match_fields fs' r' with
            | Some (gs, r'') => Some (g :: gs, r'')
            | None => None
            end
          else None
        | [] => None
        end
      end
    end
  end.

Definition end_ok (e : ending) (rest : bytes) : bool :=
  match e, rest with
  | _, [] => true                                   (* \Z *)
  | EndColonOrZ, c :: _ => c =? colon               (* (:|\Z) *)
  | EndZ, _ :: _ => false
  end.

(* cls.STRING_RE.search(uri): the pattern starts with ^ (no MULTILINE), so only
   position 0 can match; returns the groups *)
Definition regex_match (k : fkind) (s : bytes) : option (list bytes) :=
  match strip_prefix (file_prefix k) s with
  | None => None
  | Some r =>
    match match_fields (fields_of_kind k) r with
    | Some (gs, rest) => if end_ok (ending_of_kind k) rest then Some gs else None
    | None => None
    end
  end.

(* ---------------------------------------------------------- conversions *)
Inductive parsed :=
| PKnown (f : filecap)
| PBad                      (* BadURIError *)
| PValueError               (* int(): more than 4300 digits *)
| PAssertion.               (* base32.a2b precondition *)

Definition int_max_str_digits : nat := 4300.

(* int(group): the group is all digits (regex); CPython refuses more than
   sys.get_int_max_str_digits() = 4300 of them *)
Definition py_int (g : bytes) : option N :=
  if (int_max_str_digits <? length g)%nat then None else undec g.

Definition a2b_checked (g : bytes) : option bytes :=
  if could_be_base32_encoded g then Some (a2b g) else None.

(* cls(base32.a2b(mo.group(1)), ..., int(mo.group(5))): arguments are evaluated
   left to right, the first exception propagates *)
Definition build (k : fkind) (gs : list bytes) : parsed :=
  match k, gs with
  | KCHK, [g1; g2; g3; g4; g5] | KCHKV, [g1; g2; g3; g4; g5] =>
    match a2b_checked g1 with None => PAssertion | Some a =>
    match a2b_checked g2 with None => PAssertion | Some b =>
    match py_int g3 with None => PValueError | Some kk =>
    match py_int g4 with None => PValueError | Some nn =>
    match py_int g5 with None => PValueError | Some sz =>
      PKnown (match k with KCHK => CHK a b kk nn sz | _ => CHKVerifier a b kk nn sz end)
    end end end end end
  | KLIT, [g1] =>
    match a2b_checked g1 with None => PAssertion | Some a => PKnown (LIT a) end
  | KSSK, [g1; g2] | KSSKRO, [g1; g2] | KSSKV, [g1; g2]
  | KMDMF, [g1; g2] | KMDMFRO, [g1; g2] | KMDMFV, [g1; g2] =>
    match a2b_checked g1 with None => PAssertion | Some a =>
    match a2b_checked g2 with None => PAssertion | Some b =>
      PKnown (match k with
              | KSSK => SSK a b | KSSKRO => SSKRO a b | KSSKV => SSKVerifier a b
              | KMDMF => MDMF a b | KMDMFRO => MDMFRO a b | _ => MDMFVerifier a b
              end)
    end end
  | _, _ => PBad
  end.

Definition init_from_string (k : fkind) (s : bytes) : parsed :=
  match regex_match k s with
  | None => PBad
  | Some gs => build k gs
  end.

(* _DirectoryBaseURI.init_from_string: BASE_STRING_RE = '^' + BASE_STRING;
   INNER.init_from_string(INNER.BASE_STRING + uri[mo.end():]) *)
Definition dir_init_from_string (k : fkind) (s : bytes) : parsed :=
  match strip_prefix (dir_prefix k) s with
  | None => PBad
  | Some bits => init_from_string k (file_prefix k ++ bits)
  end.

Definition cap_init_from_string (dir : bool) (k : fkind) (s : bytes) : parsed :=
  if dir then dir_init_from_string k s else init_from_string k s.

Definition mk_cap (dir : bool) (f : filecap) : cap := if dir then CDir f else CFile f.

(* ---------------------------------------------------------- from_string *)
Inductive guard := GNone | GWriteable | GMutable.

(* the if/elif chain of from_string, in source order *)
Definition dispatch : list (bool * fkind * guard) :=
  [ (false, KCHK, GNone); (false, KCHKV, GNone); (false, KLIT, GNone);
    (false, KSSK, GWriteable); (false, KSSKRO, GMutable); (false, KSSKV, GNone);
    (false, KMDMF, GWriteable); (false, KMDMFRO, GMutable); (false, KMDMFV, GNone);
    (true, KSSK, GWriteable); (true, KSSKRO, GMutable); (true, KSSKV, GNone);
    (true, KCHK, GNone); (true, KCHKV, GNone); (true, KLIT, GNone);
    (true, KMDMF, GWriteable); (true, KMDMFRO, GMutable); (true, KMDMFV, GNone) ].

Definition entry_prefix (e : bool * fkind * guard) : bytes :=
  let '(dir, k, _) := e in cap_prefix dir k.

Definition guard_ok (g : guard) (can_be_mutable can_be_writeable : bool) : bool :=
  match g with GNone => true | GWriteable => can_be_writeable | GMutable => can_be_mutable end.

Definition ro_prefix : bytes := B ALLEGED_READONLY_PREFIX.
Definition imm_prefix : bytes := B ALLEGED_IMMUTABLE_PREFIX.
Definition future_writeable : bytes := B "x-tahoe-future-test-writeable:".
Definition future_mutable : bytes := B "x-tahoe-future-test-mutable:".

Inductive outcome :=
| Ok (c : cap)
| RaisesValueError          (* escapes from_string: only BadURIError is caught *)
| RaisesAssertion.

(* "Prefer to report the most specific constraint." *)
Definition constraint_error (can_be_mutable : bool) : uerr :=
  if can_be_mutable then EMustBeReadonly else EMustBeDeepImmutable.

(* (can_be_mutable, can_be_writeable, s) after the alleged-prefix step *)
Definition strip_alleged (deep_immutable : bool) (u : bytes) : bool * bool * bytes :=
  let c0 := negb deep_immutable in
  match strip_prefix imm_prefix u with
  | Some s => (false, false, s)
  | None =>
    match strip_prefix ro_prefix u with
    | Some s => (c0, false, s)
    | None => (c0, c0, u)
    end
  end.

Definition from_string (deep_immutable : bool) (u : bytes) : outcome :=
  let '(cbm, cbw, s) := strip_alleged deep_immutable u in
  match find (fun e => starts_with (entry_prefix e) s) dispatch with
  | Some (dir, k, g) =>
    if guard_ok g cbm cbw then
      match cap_init_from_string dir k s with
      | PKnown f => Ok (mk_cap dir f)
      | PBad => Ok (CUnknown u EBadURI)
      | PValueError => RaisesValueError
      | PAssertion => RaisesAssertion
      end
    else Ok (CUnknown u (constraint_error cbm))
  | None =>
    if (starts_with future_writeable s && negb cbw) || (starts_with future_mutable s && negb cbm)
    then Ok (CUnknown u (constraint_error cbm))
    else Ok (CUnknown u ENone)
  end.

(* the three spellings from_string accepts in front of a cap: none, "ro.", "imm." *)
Definition alleged_prefixes : list bytes := [[]; ro_prefix; imm_prefix].

(* from_string_dirnode / _filenode / _mutable_filenode / _verifier(s, **kwargs):
   u = from_string(s, **kwargs); _assert(I<...>URI.providedBy(u)); return u *)
Inductive iface := IDirnodeURI | IFileURI | IMutableFileURI | IVerifierURI.

Definition provides (i : iface) (c : cap) : bool :=
  match i, c with
  | IDirnodeURI, CDir _ => true
  | IFileURI, CFile (CHK _ _ _ _ _ | LIT _) => true
  | IMutableFileURI, CFile (SSK _ _ | SSKRO _ _ | MDMF _ _ | MDMFRO _ _) => true
  | IVerifierURI, (CFile f | CDir f) =>
    match f with CHKVerifier _ _ _ _ _ | SSKVerifier _ _ | MDMFVerifier _ _ => true | _ => false end
  | _, _ => false
  end.

Definition typed_from_string (i : iface) (deep_immutable : bool) (u : bytes) : outcome :=
  match from_string deep_immutable u with
  | Ok c => if provides i c then Ok c else RaisesAssertion
  | o => o
  end.

(* ------------------------------------------------ flags and attenuation *)
Definition is_readonly_k (k : fkind) : bool :=
  match k with KSSK | KMDMF => false | _ => true end.

Definition is_mutable_k (k : fkind) : bool :=
  match k with KSSK | KSSKRO | KMDMF | KMDMFRO => true | _ => false end.

Definition is_readonly_f (f : filecap) : bool := is_readonly_k (kind_of f).
Definition is_mutable_f (f : filecap) : bool := is_mutable_k (kind_of f).

(* WriteableSSKFileURI.__init__: self.readkey = ssk_readkey_hash(writekey) *)
Definition get_readonly_f (f : filecap) : filecap :=
  match f with
  | SSK wk fp => SSKRO (ssk_readkey_hash wk) fp
  | MDMF wk fp => MDMFRO (ssk_readkey_hash wk) fp
  | _ => f
  end.

(* get_verify_cap; None for LIT *)
Definition get_verify_f (f : filecap) : option filecap :=
  match f with
  | CHK key ueb k n size => Some (CHKVerifier (storage_index_hash key) ueb k n size)
  | CHKVerifier _ _ _ _ _ => Some f
  | LIT _ => None
  | SSK wk fp => Some (SSKVerifier (ssk_storage_index_hash (ssk_readkey_hash wk)) fp)
  | SSKRO rk fp => Some (SSKVerifier (ssk_storage_index_hash rk) fp)
  | SSKVerifier _ _ => Some f
  | MDMF wk fp => Some (MDMFVerifier (ssk_storage_index_hash (ssk_readkey_hash wk)) fp)
  | MDMFRO rk fp => Some (MDMFVerifier (ssk_storage_index_hash rk) fp)
  | MDMFVerifier _ _ => Some f
  end.

Definition storage_index_f (f : filecap) : option bytes :=
  match f with
  | CHK key _ _ _ _ => Some (storage_index_hash key)
  | CHKVerifier si _ _ _ _ => Some si
  | LIT _ => None
  | SSK wk _ | MDMF wk _ => Some (ssk_storage_index_hash (ssk_readkey_hash wk))
  | SSKRO rk _ | MDMFRO rk _ => Some (ssk_storage_index_hash rk)
  | SSKVerifier si _ | MDMFVerifier si _ => Some si
  end.

(* what binds the cap to the content: fingerprint of the public key, or the
   UEB hash with the encoding parameters *)
Definition integrity_f (f : filecap) : option (bytes * list N) :=
  match f with
  | CHK _ ueb k n size | CHKVerifier _ ueb k n size => Some (ueb, [k; n; size])
  | LIT _ => None
  | SSK _ fp | SSKRO _ fp | SSKVerifier _ fp | MDMF _ fp | MDMFRO _ fp | MDMFVerifier _ fp => Some (fp, [])
  end.

Definition writekey_f (f : filecap) : option bytes :=
  match f with SSK wk _ | MDMF wk _ => Some wk | _ => None end.

(* the read (decryption) secret held in the object *)
Definition readkey_f (f : filecap) : option bytes :=
  match f with
  | CHK key _ _ _ _ => Some key
  | LIT d => Some d
  | SSK wk _ | MDMF wk _ => Some (ssk_readkey_hash wk)
  | SSKRO rk _ | MDMFRO rk _ => Some rk
  | _ => None
  end.

Definition inner (c : cap) : option filecap :=
  match c with CFile f | CDir f => Some f | CUnknown _ _ => None end.

(* kinds whose regex ends in (:|\Z): an extension may follow *)
Definition is_mdmf (c : cap) : bool :=
  match inner c with
  | Some f => match ending_of_kind (kind_of f) with EndColonOrZ => true | EndZ => false end
  | None => false
  end.

(* None: UnknownURI has no is_readonly/is_mutable *)
Definition is_readonly (c : cap) : option bool := option_map is_readonly_f (inner c).
Definition is_mutable (c : cap) : option bool := option_map is_mutable_f (inner c).

(* UnknownURI.get_readonly() and get_verify_cap() return None *)
Definition get_readonly (c : cap) : option cap :=
  match c with
  | CFile f => Some (CFile (get_readonly_f f))
  | CDir f => Some (CDir (get_readonly_f f))
  | CUnknown _ _ => None
  end.

Definition get_verify_cap (c : cap) : option cap :=
  match c with
  | CFile f => option_map CFile (get_verify_f f)
  | CDir f => option_map CDir (get_verify_f f)
  | CUnknown _ _ => None
  end.

Definition storage_index (c : cap) : option bytes :=
  match inner c with Some f => storage_index_f f | None => None end.
Definition integrity (c : cap) : option (bytes * list N) :=
  match inner c with Some f => integrity_f f | None => None end.
Definition writekey_of (c : cap) : option bytes :=
  match inner c with Some f => writekey_f f | None => None end.
Definition readkey_of (c : cap) : option bytes :=
  match inner c with Some f => readkey_f f | None => None end.

(* ---------------------------------------------------- well-formed caps *)
(* What the constructors are given when the program builds caps itself: keys
   and storage indexes of 16 octets, hashes/fingerprints of 32, non-negative
   ints that `%d` can render (at most 4300 digits). *)
Definition wf_key (b : bytes) : bool := (length b =? 16)%nat && wf_bytes b.
Definition wf_hash (b : bytes) : bool := (length b =? 32)%nat && wf_bytes b.
Definition wf_num (n : N) : bool := (length (dec n) <=? int_max_str_digits)%nat.

Definition wf_filecap (f : filecap) : bool :=
  match f with
  | CHK a b k n s | CHKVerifier a b k n s => wf_key a && wf_hash b && wf_num k && wf_num n && wf_num s
  | LIT d => wf_bytes d
  | SSK a b | SSKRO a b | SSKVerifier a b | MDMF a b | MDMFRO a b | MDMFVerifier a b => wf_key a && wf_hash b
  end.

Definition wf_cap (c : cap) : bool :=
  match c with CFile f | CDir f => wf_filecap f | CUnknown _ _ => false end.

(* ----------------------------- rendering, compared with Gen/Uri.v tables *)
Local Open Scope string_scope.

Definition re_of_field (f : field) : string :=
  match f with
  | F128 => "(" ++ BASE32CHAR_re ++ "{25}" ++ BASE32CHAR_3bits_re ++ ")"
  | F256 => "(" ++ BASE32CHAR_re ++ "{51}" ++ BASE32CHAR_1bits_re ++ ")"
  | FNUM => "(0|[1-9][0-9]*)"
  | FANY => "((?:" ++ BASE32CHAR_re ++ "{8})*(?:|"
            ++ BASE32CHAR_re ++ BASE32CHAR_3bits_re ++ "|"
            ++ BASE32CHAR_re ++ "{3}" ++ BASE32CHAR_1bits_re ++ "|"
            ++ BASE32CHAR_re ++ "{4}" ++ BASE32CHAR_4bits_re ++ "|"
            ++ BASE32CHAR_re ++ "{6}" ++ BASE32CHAR_2bits_re ++ "))"
  end.

Fixpoint re_of_fields (fs : list field) : string :=
  match fs with
  | [] => ""
  | [f] => re_of_field f
  | f :: r => re_of_field f ++ ":" ++ re_of_fields r
  end.

Definition re_of_ending (e : ending) : string :=
  match e with EndZ => "\Z" | EndColonOrZ => "(:|\Z)" end.

(* the regex source this model's parser for kind k implements *)
Definition re_of_kind (k : fkind) : string :=
  "^" ++ file_prefix_s k ++ re_of_fields (fields_of_kind k) ++ re_of_ending (ending_of_kind k).

Definition classes_rendered : list (string * string * string * string) :=
  map (fun k => (file_class k, file_prefix_s k, re_of_kind k, "")) all_kinds
  ++ map (fun k => (dir_class k, dir_prefix_s k, "", file_class k)) [KSSK; KSSKRO; KCHK; KLIT; KMDMF; KMDMFRO; KMDMFV; KSSKV; KCHKV].

Definition guard_name (g : guard) : string :=
  match g with GNone => "" | GWriteable => "can_be_writeable" | GMutable => "can_be_mutable" end.

Definition dispatch_rendered : list (string * string * string) :=
  map (fun e => let '(dir, k, g) := e in (cap_prefix_s dir k, cap_class dir k, guard_name g)) dispatch.

Definition ro_kind (k : fkind) : fkind :=
  match k with KSSK => KSSKRO | KMDMF => KMDMFRO | _ => k end.
Definition verify_kind (k : fkind) : option fkind :=
  match k with
  | KCHK | KCHKV => Some KCHKV | KLIT => None
  | KSSK | KSSKRO | KSSKV => Some KSSKV
  | KMDMF | KMDMFRO | KMDMFV => Some KMDMFV
  end.

Definition fkind_eqb (a b : fkind) : bool :=
  match a, b with
  | KCHK, KCHK | KCHKV, KCHKV | KLIT, KLIT | KSSK, KSSK | KSSKRO, KSSKRO | KSSKV, KSSKV
  | KMDMF, KMDMF | KMDMFRO, KMDMFRO | KMDMFV, KMDMFV => true
  | _, _ => false
  end.

Definition flags_row (dir : bool) (k : fkind) : string * bool * bool * string * string :=
  (cap_class dir k, is_readonly_k k, is_mutable_k k,
   (if fkind_eqb (ro_kind k) k then "self" else cap_class dir (ro_kind k)),
   (match verify_kind k with
    | None => "None"
    | Some v => if fkind_eqb v k then "self" else cap_class dir v
    end)).

Definition flags_rendered : list (string * bool * bool * string * string) :=
  map (flags_row false) all_kinds
  ++ map (flags_row true) [KSSK; KSSKRO; KCHK; KLIT; KMDMF; KMDMFRO; KMDMFV; KSSKV; KCHKV].

(* wrap_dirnode_cap: which file caps a DirectoryNode can be built around *)
Definition wrap_rendered : list (string * string) :=
  map (fun k => (file_class k, dir_class k)) [KSSK; KSSKRO; KCHK; KLIT; KMDMF; KMDMFRO].

(* ------------------------------- decidable equality (used by the drivers) *)
Local Open Scope bool_scope.
Definition uerr_eqb (a b : uerr) : bool :=
  match a, b with
  | ENone, ENone | EBadURI, EBadURI | EMustBeDeepImmutable, EMustBeDeepImmutable
  | EMustBeReadonly, EMustBeReadonly | EMustNotBeUnknownRW, EMustNotBeUnknownRW => true
  | _, _ => false
  end.

Definition filecap_eqb (a b : filecap) : bool :=
  match a, b with
  | CHK a1 a2 a3 a4 a5, CHK b1 b2 b3 b4 b5
  | CHKVerifier a1 a2 a3 a4 a5, CHKVerifier b1 b2 b3 b4 b5 =>
    list_N_eqb a1 b1 && list_N_eqb a2 b2 && (a3 =? b3)%N && (a4 =? b4)%N && (a5 =? b5)%N
  | LIT a1, LIT b1 => list_N_eqb a1 b1
  | SSK a1 a2, SSK b1 b2 | SSKRO a1 a2, SSKRO b1 b2 | SSKVerifier a1 a2, SSKVerifier b1 b2
  | MDMF a1 a2, MDMF b1 b2 | MDMFRO a1 a2, MDMFRO b1 b2 | MDMFVerifier a1 a2, MDMFVerifier b1 b2 =>
    list_N_eqb a1 b1 && list_N_eqb a2 b2
  | _, _ => false
  end.

Definition cap_eqb (a b : cap) : bool :=
  match a, b with
  | CFile x, CFile y | CDir x, CDir y => filecap_eqb x y
  | CUnknown s e, CUnknown t f => list_N_eqb s t && uerr_eqb e f
  | _, _ => false
  end.

Definition outcome_eqb (a b : outcome) : bool :=
  match a, b with
  | Ok x, Ok y => cap_eqb x y
  | RaisesValueError, RaisesValueError | RaisesAssertion, RaisesAssertion => true
  | _, _ => false
  end.

Definition opt_eqb {A} (eqb : A -> A -> bool) (a b : option A) : bool :=
  match a, b with
  | Some x, Some y => eqb x y
  | None, None => true
  | _, _ => false
  end.
