(* allmydata.util.netstring.split_netstring(data, numstrings, position=0,
   required_trailer=None), statement by statement.  The reader of the length
   numeral is a parameter: [split_netstring] uses Python's int() (Model/PyInt.v),
   [split_netstring_strict] the strict reader that accepts only what
   b"%d" % len(s) prints.  Exceptions are modelled by class:
     data.index(b":") fails, int() fails, "ran out of netstrings",
       "leftover data"                         -> EValue  (ValueError)
     assert len(string) == length, assert data[position] == b","  -> EAssert
     data[position] past the end               -> EIndex  (IndexError)        *)
From Coq Require Import List NArith ZArith Bool.
From Verif Require Import Lib.Decimal Lib.Hex Lib.Netstring Model.PyResult Model.PyInt.
Import ListNotations.
Local Open Scope N_scope.

(* (before, after) the first occurrence of c *)
Fixpoint find_byte (c : N) (l : list N) : option (list N * list N) :=
  match l with
  | [] => None
  | b :: r => if b =? c then Some ([], r)
              else match find_byte c r with
                   | Some (x, y) => Some (b :: x, y)
                   | None => None
                   end
  end.

Definition skipn_N (n : N) (l : list N) : list N :=
  if blen l <? n then [] else skipn (N.to_nat n) l.

(* the while loop; rest = data[position:] *)
Fixpoint split_loop (rd : list N -> option Z) (fuel : nat) (rest : list N) (pos numstrings : N)
         (acc : list (list N)) : result (list (list N) * N * list N) :=
  match fuel with
  | O => Err EFuel
  | S f =>
    match rest with
    | [] => Ok (acc, pos, rest)                       (* while position < len(data) *)
    | _ =>
      match find_byte 58 rest with                    (* colon = data.index(b":", position) *)
      | None => Err EValue
      | Some (numeral, after) =>
        match rd numeral with                         (* length = int(data[position:colon]) *)
        | None => Err EValue
        | Some z =>
          if (z <? 0)%Z then Err EAssert              (* len(string) == length cannot hold *)
          else
            let n := Z.to_N z in
            if blen after <? n then Err EAssert       (* assert len(string) == length *)
            else
              let str := firstn (N.to_nat n) after in
              match skipn (N.to_nat n) after with
              | [] => Err EIndex                      (* data[position] *)
              | c :: rest' =>
                if c =? 44 then
                  let acc' := acc ++ [str] in
                  let pos' := pos + blen numeral + 1 + n + 1 in
                  if N.of_nat (length acc') =? numstrings then Ok (acc', pos', rest')   (* break *)
                  else split_loop rd f rest' pos' numstrings acc'
                else Err EAssert
              end
        end
      end
    end
  end.

Definition split_netstring_with (rd : list N -> option Z) (data : list N) (numstrings position : N)
           (trailer : option (list N)) : result (list (list N) * N) :=
  match split_loop rd (S (length data)) (skipn_N position data) position numstrings [] with
  | Err e => Err e
  | Ok (els, pos, rest) =>
    if N.of_nat (length els) <? numstrings then Err EValue         (* ran out of netstrings *)
    else match trailer with
         | None => Ok (els, pos)
         | Some t => if list_N_eqb rest t then Ok (els, pos + blen t) else Err EValue
         end
  end.

Definition split_netstring := split_netstring_with py_int.
Definition split_netstring_strict := split_netstring_with strict_nat.

(* comparison helpers for the correspondence *)
Fixpoint list_list_N_eqb (a b : list (list N)) : bool :=
  match a, b with
  | [], [] => true
  | x :: a', y :: b' => list_N_eqb x y && list_list_N_eqb a' b'
  | _, _ => false
  end.

Definition split_result_eqb (r : result (list (list N) * N)) (exp : result (list (list N) * N)) : bool :=
  match r, exp with
  | Ok (l, p), Ok (l', p') => list_list_N_eqb l l' && (p =? p')
  | Err e, Err e' => err_eqb e e'
  | _, _ => false
  end.
