(* Model of the validation an immutable download performs before it believes a byte.

   Mirrors, in the order the code performs it:
     immutable/downloader/share.py   Share._get_satisfaction and its _satisfy_* methods
                                     (_satisfy_offsets, _satisfy_UEB, _satisfy_share_hash_tree,
                                     set_block_hash_root, _satisfy_block_hash_tree,
                                     _satisfy_ciphertext_hash_tree, _satisfy_data_block),
                                     CommonShare (one block hash tree per share NUMBER)
     immutable/downloader/node.py    DownloadNode.validate_and_store_UEB / _parse_and_store_UEB,
                                     process_share_hashes, _decode_blocks, _check_ciphertext_hash
     immutable/downloader/fetcher.py SegmentFetcher (k validated blocks of distinct share numbers)
     immutable/downloader/segmentation.py  through Model/ImmFile.read_plan
     immutable/encode.py             what the uploader puts into a share (hash trees, share hash
                                     chain, UEB) -- the "genuine" file
   The Merkle trees are the model of hashtree.py owned by C35 (Model/HashTree.v): every
   set_hashes/needed_hashes below IS that model, with its arbitrary set.pop() order.

   Abstraction.  A share is what the downloader reads out of it: version, offset table,
   the UEB bytes, the (number, hash) pairs of the share hash chain, block-hash-tree and
   crypttext-hash-tree nodes by index, blocks by segment number.  `None`/missing = the bytes
   are not there (short read).  Where in the file those bytes were found (the offset table
   decides) is the harness's business; an adversary controls every field, and a server that
   changes its answers is a different `share` value on every call.  Hashes are an abstract
   type H (32-byte strings); the UEB as stored is an abstract type UB with a parser.
   The share NUMBER is whatever the server says (the key of its get_buckets answer).

   No proofs in this file. *)
From Coq Require Import List ZArith NArith Bool.
From Verif Require Import Gen.ImmConsts Model.HashTree Model.ImmFile.
Import ListNotations.
Local Open Scope Z_scope.

Inductive verr :=
| EHash (e : err)          (* BadHashError / NotEnoughHashesError (IndexError, Crash: the loop's
                              `except BaseException`) from a hash tree: Share._fail, share abandoned *)
| ELayout                  (* LayoutInvalid: share abandoned *)
| EUnavailable             (* DataUnavailable, or _satisfy_* never satisfied: the bytes are not there *)
| ECrash                   (* AssertionError / KeyError / ZeroDivisionError inside Share.loop: _fail(Failure()) *)
| EBadSegnum               (* state=BADSEGNUM *)
| ECorruptBlock (e : err)  (* state=CORRUPT: block hash mismatch; the share stays alive *)
| EBadCiphertext (e : err) (* BadCiphertextHashError: the read fails *)
| ENotEnoughShares.        (* NotEnoughSharesError / NoSharesError *)

Definition verr_class (e : verr) : N :=
  match e with
  | EHash _ => 1 | ELayout => 2 | EUnavailable => 3 | ECrash => 4 | EBadSegnum => 5
  | ECorruptBlock _ => 6 | EBadCiphertext _ => 7 | ENotEnoughShares => 8
  end%N.

(* dict(pairs): a later pair with the same key replaces the value, the key keeps its place *)
Fixpoint dict_set {A} (k : Z) (v : A) (d : list (Z * A)) : list (Z * A) :=
  match d with
  | [] => [(k, v)]
  | (k', v') :: r => if k =? k' then (k, v) :: r else (k', v') :: dict_set k v r
  end.
Definition pydict {A} (l : list (Z * A)) : list (Z * A) :=
  fold_left (fun d kv => dict_set (fst kv) (snd kv) d) l [].

Fixpoint zassoc {A} (k : Z) (d : list (Z * A)) : option A :=
  match d with
  | [] => None
  | (k', v) :: r => if k =? k' then Some v else zassoc k r
  end.

(* the fields of a URI extension block that downloader and verifier look at
   (uri.unpack_extension); optional ones are None when the key is absent *)
Record ueb (H : Type) := mkUeb {
  u_segment_size : N;
  u_crypttext_root : H;
  u_share_root : H;
  u_codec_ok : bool;                          (* 'codec_name' absent or b"crs" *)
  u_codec_params : option (N * N * N);        (* segment size, k, N *)
  u_tail_codec_params : option (N * N * N);
  u_num_segments : option N;
  u_size : option N;
  u_needed_shares : option N;
  u_total_shares : option N;
  u_crypttext_hash_len : option N }.          (* len(d['crypttext_hash']) *)
Arguments mkUeb {H}. Arguments u_segment_size {H}. Arguments u_crypttext_root {H}. Arguments u_share_root {H}.
Arguments u_codec_ok {H}. Arguments u_codec_params {H}. Arguments u_tail_codec_params {H}.
Arguments u_num_segments {H}. Arguments u_size {H}. Arguments u_needed_shares {H}. Arguments u_total_shares {H}.
Arguments u_crypttext_hash_len {H}.

(* the capability: read key (not used by ciphertext validation), UEB hash, k, N, size *)
Record cap (H : Type) := mkCap { c_key : list N; c_ueb_hash : H; c_k : N; c_n : N; c_size : N }.
Arguments mkCap {H}. Arguments c_key {H}. Arguments c_ueb_hash {H}. Arguments c_k {H}. Arguments c_n {H}. Arguments c_size {H}.

(* what the downloader reads out of one share *)
Record share (H UB : Type) := mkShare {
  s_version : N;
  s_off : offsets;                           (* the six offset-table fields *)
  s_ueb : option UB;                         (* the UEB bytes; None = cannot be read *)
  s_share_hashes : option (list (Z * H));    (* the (hashnum, hash) pairs of [share_hashes, uri_extension); None = short *)
  s_block_hashes : list (Z * H);             (* block hash tree node -> value, where readable *)
  s_ct_hashes : list (Z * H);                (* crypttext hash tree node -> value, where readable *)
  s_blocks : list (Z * list N) }.            (* segment number -> block of the expected length, where readable *)
Arguments mkShare {H UB}. Arguments s_version {H UB}. Arguments s_off {H UB}. Arguments s_ueb {H UB}.
Arguments s_share_hashes {H UB}. Arguments s_block_hashes {H UB}. Arguments s_ct_hashes {H UB}. Arguments s_blocks {H UB}.

(* download node state: DownloadNode.segment_size (None until a UEB validated),
   share_hash_tree, ciphertext_hash_tree, and the CommonShare block hash trees by share number *)
Record dnode (H : Type) := mkDn {
  dn_segsize : option N;
  dn_sht : tree H;
  dn_cht : tree H;
  dn_bht : list (Z * tree H) }.
Arguments mkDn {H}. Arguments dn_segsize {H}. Arguments dn_sht {H}. Arguments dn_cht {H}. Arguments dn_bht {H}.

Inductive gres := GBlock (b : list N) | GErr (e : verr).

Section ImmVerify.
  Variable H : Type.
  Variable H_eqb : H -> H -> bool.
  Variable pair_hash : H -> H -> H.          (* hashtree.pair_hash *)
  Variable truthy : H -> bool.               (* `if self[i]:` *)
  Variable empty_leaf : Z -> H.              (* hashtree.empty_leaf_hash *)
  Variable block_hash : list N -> H.         (* hashutil.block_hash *)
  Variable seg_hash : list N -> H.           (* hashutil.crypttext_segment_hash *)
  Variable UB : Type.                        (* UEB byte strings *)
  Variable ueb_hash : UB -> H.               (* hashutil.uri_extension_hash *)
  Variable parse_ueb : UB -> option (ueb H). (* uri.unpack_extension + the required keys; None = it raises *)
  Variable dec : N -> N -> list (N * list N) -> list (list N).   (* CRSDecoder.decode *)

  Notation set_hashes := (set_hashes H H_eqb pair_hash truthy).
  Notation needed_hashes := (needed_hashes H).

  Definition fresh_tree (num_leaves : Z) : tree H := iht_init H num_leaves.

  (* DownloadNode.__init__ *)
  Definition node_init (c : cap H) : dnode H := mkDn None (fresh_tree (Z.of_N (c_n c))) [] [].

  Definition node_sizes (c : cap H) (ss : N) : dl_sizes := calculate_sizes (c_size c) (c_k c) ss.
  Definition node_nseg (c : cap H) (ss : N) : Z := Z.of_N (d_num_segments (node_sizes c ss)).

  (* tree.set_hashes({0: h}) *)
  Definition seed_root (num_leaves : Z) (T : tree H) (h : H) (ord : list Z) : outcome H :=
    set_hashes (first_leaf_num num_leaves) T [(0, h)] [] ord.

  (* DownloadNode.validate_and_store_UEB + _parse_and_store_UEB.  The UEB's own
     needed_shares/total_shares/size are ignored (the cap is authoritative). *)
  Definition store_ueb (c : cap H) (dn : dnode H) (b : UB) (ord1 ord2 : list Z) : dnode H + verr :=
    if negb (H_eqb (ueb_hash b) (c_ueb_hash c)) then inr (EHash BadHashError)
    else match parse_ueb b with
    | None => inr ECrash
    | Some u =>
      let ss := u_segment_size u in
      (* _calculate_sizes: `assert segment_size % k == 0` (ZeroDivisionError for 0) *)
      if ((ss =? 0) || (c_k c =? 0) || negb (ss mod c_k c =? 0))%N then inr ECrash
      else
        let nseg := node_nseg c ss in
        match seed_root nseg (fresh_tree nseg) (u_crypttext_root u) ord1 with
        | Rejected _ e _ => inr (EHash e)
        | Accepted _ cht =>
          match seed_root (Z.of_N (c_n c)) (dn_sht dn) (u_share_root u) ord2 with
          | Rejected _ e _ => inr (EHash e)
          | Accepted _ sht => inl (mkDn (Some ss) sht cht [])
          end
        end
    end.

  (* Share._satisfy_offsets *)
  Definition check_offsets (sh : share H UB) : option verr :=
    if negb ((s_version sh =? 1) || (s_version sh =? 2))%N then Some ELayout else
    let o := s_off sh in
    let shs := Z.of_N (o_uri_extension o) - Z.of_N (o_share_hashes o) in
    if (shs <? 0) || negb (shs mod (2 + Z.of_N HASH_SIZE) =? 0) then Some ELayout else
    let bhs := Z.of_N (o_share_hashes o) - Z.of_N (o_block_hashes o) in
    if (bhs <? 0) || negb (bhs mod Z.of_N HASH_SIZE =? 0) then Some ELayout else None.

  (* hashes[hashnum] = received.get(...) for hashnum in needed; None = "missing some hashes" *)
  Fixpoint gather (src : list (Z * H)) (keys : list Z) : option (list (Z * H)) :=
    match keys with
    | [] => Some []
    | k :: r =>
      match zassoc k src, gather src r with
      | Some h, Some l => Some ((k, h) :: l)
      | _, _ => None
      end
    end.

  Fixpoint bht_get (l : list (Z * tree H)) (s : Z) : option (tree H) :=
    match l with
    | [] => None
    | (s', T) :: r => if s =? s' then Some T else bht_get r s
    end.
  Definition bht_put (l : list (Z * tree H)) (s : Z) (T : tree H) : list (Z * tree H) := dict_set s T l.

  (* a stage leaves a (possibly advanced) node and maybe an error *)
  Definition stage := (dnode H * option verr)%type.

  (* _satisfy_UEB, when not node.have_UEB *)
  Definition stage_ueb (c : cap H) (dn : dnode H) (sh : share H UB) (ords : nat -> list Z) : stage :=
    match dn_segsize dn with
    | Some _ => (dn, None)
    | None =>
      match s_ueb sh with
      | None => (dn, Some EUnavailable)
      | Some b =>
        match store_ueb c dn b (ords 0%nat) (ords 1%nat) with
        | inl dn' => (dn', None)
        | inr e => (dn, Some e)
        end
      end
    end.

  (* `if share_hash_tree.needed_hashes(shnum): _satisfy_share_hash_tree()` with
     DownloadNode.process_share_hashes *)
  Definition stage_share_hashes (c : cap H) (dn : dnode H) (shnum : Z) (sh : share H UB) (ords : nat -> list Z) : stage :=
    let fl := first_leaf_num (Z.of_N (c_n c)) in
    match needed_hashes fl (dn_sht dn) shnum false with
    | None => (dn, Some (EHash IndexError))
    | Some [] => (dn, None)
    | Some _ =>
      match s_share_hashes sh with
      | None | Some [] => (dn, Some EUnavailable)       (* `if not hashdata: return False`, for ever *)
      | Some l =>
        let d := pydict l in
        if existsb (fun kv => zlen (dn_sht dn) <=? fst kv) d then (dn, Some (EHash BadHashError))
        else match set_hashes fl (dn_sht dn) d [] (ords 2%nat) with
             | Accepted _ T => (mkDn (dn_segsize dn) T (dn_cht dn) (dn_bht dn), None)
             | Rejected _ e T => (mkDn (dn_segsize dn) T (dn_cht dn) (dn_bht dn), Some (EHash e))
             end
      end
    end.

  (* the CommonShare of a share number (created with the authoritative num_segments) *)
  Definition common_bht (dn : dnode H) (nseg shnum : Z) : tree H :=
    match bht_get (dn_bht dn) shnum with Some T => T | None => fresh_tree nseg end.

  (* `if commonshare.need_block_hash_root(): set_block_hash_root(share_hash_tree.get_leaf(shnum))` *)
  Definition stage_block_root (c : cap H) (dn : dnode H) (nseg shnum : Z) (ords : nat -> list Z) : stage :=
    let T := common_bht dn nseg shnum in
    if is_truthy H truthy (match get T 0 with Some v => v | None => None end) then (dn, None)
    else
      match get (dn_sht dn) (first_leaf_num (Z.of_N (c_n c)) + shnum) with
      | Some (Some h) =>
        match seed_root nseg T h (ords 3%nat) with
        | Accepted _ T' => (mkDn (dn_segsize dn) (dn_sht dn) (dn_cht dn) (bht_put (dn_bht dn) shnum T'), None)
        | Rejected _ e T' => (mkDn (dn_segsize dn) (dn_sht dn) (dn_cht dn) (bht_put (dn_bht dn) shnum T'), Some (EHash e))
        end
      | Some None => (dn, Some ECrash)          (* set_hashes({0: None}): `assert isinstance(h, bytes)` *)
      | None => (dn, Some (EHash IndexError))
      end.

  (* _satisfy_block_hash_tree(get_needed_block_hashes(segnum)) *)
  Definition stage_block_hashes (dn : dnode H) (nseg shnum segnum : Z) (sh : share H UB) (ords : nat -> list Z) : stage :=
    let T := common_bht dn nseg shnum in
    let fl := first_leaf_num nseg in
    match needed_hashes fl T segnum true with
    | None => (dn, Some (EHash IndexError))
    | Some [] => (dn, None)
    | Some nd =>
      match gather (s_block_hashes sh) nd with
      | None => (dn, Some EUnavailable)
      | Some hs =>
        match set_hashes fl T hs [] (ords 4%nat) with
        | Accepted _ T' => (mkDn (dn_segsize dn) (dn_sht dn) (dn_cht dn) (bht_put (dn_bht dn) shnum T'), None)
        | Rejected _ e T' => (mkDn (dn_segsize dn) (dn_sht dn) (dn_cht dn) (bht_put (dn_bht dn) shnum T'), Some (EHash e))
        end
      end
    end.

  (* _satisfy_ciphertext_hash_tree(node.get_needed_ciphertext_hashes(segnum)) *)
  Definition stage_ct_hashes (dn : dnode H) (nseg segnum : Z) (sh : share H UB) (ords : nat -> list Z) : stage :=
    let fl := first_leaf_num nseg in
    match needed_hashes fl (dn_cht dn) segnum true with
    | None => (dn, Some (EHash IndexError))
    | Some [] => (dn, None)
    | Some nd =>
      match gather (s_ct_hashes sh) nd with
      | None => (dn, Some EUnavailable)
      | Some hs =>
        match set_hashes fl (dn_cht dn) hs [] (ords 5%nat) with
        | Accepted _ T' => (mkDn (dn_segsize dn) (dn_sht dn) T' (dn_bht dn), None)
        | Rejected _ e T' => (mkDn (dn_segsize dn) (dn_sht dn) T' (dn_bht dn), Some (EHash e))
        end
      end
    end.

  (* _satisfy_data_block: CommonShare.check_block *)
  Definition stage_block (dn : dnode H) (nseg shnum segnum : Z) (sh : share H UB) (ords : nat -> list Z) : dnode H * gres :=
    match zassoc segnum (s_blocks sh) with
    | None => (dn, GErr EUnavailable)
    | Some b =>
      let T := common_bht dn nseg shnum in
      match set_hashes (first_leaf_num nseg) T [] [(segnum, block_hash b)] (ords 6%nat) with
      | Accepted _ T' => (mkDn (dn_segsize dn) (dn_sht dn) (dn_cht dn) (bht_put (dn_bht dn) shnum T'), GBlock b)
      | Rejected _ e T' => (mkDn (dn_segsize dn) (dn_sht dn) (dn_cht dn) (bht_put (dn_bht dn) shnum T'), GErr (ECorruptBlock e))
      end
    end.

  Definition and_then (r : stage) (f : dnode H -> dnode H * gres) : dnode H * gres :=
    match r with
    | (dn, Some e) => (dn, GErr e)
    | (dn, None) => f dn
    end.

  (* Share.get_block(segnum) followed to its verdict: _get_satisfaction, top to bottom *)
  Definition get_block (c : cap H) (dn : dnode H) (shnum segnum : Z) (sh : share H UB) (ords : nat -> list Z)
    : dnode H * gres :=
    match check_offsets sh with
    | Some e => (dn, GErr e)
    | None =>
      and_then (stage_ueb c dn sh ords) (fun dn1 =>
        match dn_segsize dn1 with
        | None => (dn1, GErr ECrash)
        | Some ss =>
          let nseg := node_nseg c ss in
          if (segnum <? 0) || (nseg <=? segnum) then (dn1, GErr EBadSegnum) else
          and_then (stage_share_hashes c dn1 shnum sh ords) (fun dn2 =>
          and_then (stage_block_root c dn2 nseg shnum ords) (fun dn3 =>
          and_then (stage_block_hashes dn3 nseg shnum segnum sh ords) (fun dn4 =>
          and_then (stage_ct_hashes dn4 nseg segnum sh ords) (fun dn5 =>
          stage_block dn5 nseg shnum segnum sh ords))))
        end)
    end.

  (* DownloadNode._decode_blocks + _check_ciphertext_hash on whatever blocks the fetcher hands over *)
  Definition decode_and_check (c : cap H) (dn : dnode H) (segnum : Z) (blocks : list (N * list N)) (ord : list Z)
    : dnode H * (list N + verr) :=
    match dn_segsize dn with
    | None => (dn, inr ECrash)
    | Some ss =>
      let d := node_sizes c ss in
      let nseg := Z.of_N (d_num_segments d) in
      let seg := concat (dec (c_k c) (c_n c) blocks) in
      let segment := if segnum =? nseg - 1 then firstn (N.to_nat (d_tail_segment_size d)) seg else seg in
      match set_hashes (first_leaf_num nseg) (dn_cht dn) [] [(segnum, seg_hash segment)] ord with
      | Accepted _ T' => (mkDn (dn_segsize dn) (dn_sht dn) T' (dn_bht dn), inl segment)
      | Rejected _ e T' => (mkDn (dn_segsize dn) (dn_sht dn) T' (dn_bht dn), inr (EBadCiphertext e))
      end
    end.

  (* SegmentFetcher for one segment: the shares tried, in the order their verdicts arrive
     (any order, any share number, any contents, the same share number several times);
     validated blocks are kept by share number until k are there. *)
  Fixpoint collect_blocks (c : cap H) (dn : dnode H) (segnum : Z) (tries : list (Z * share H UB * (nat -> list Z)))
           (have : list (Z * list N)) : dnode H * list (Z * list N) :=
    if (Z.of_N (c_k c) <=? zlen have) then (dn, have) else
    match tries with
    | [] => (dn, have)
    | (shnum, sh, ords) :: r =>
      match zassoc shnum have with
      | Some _ => collect_blocks c dn segnum r have          (* "don't request data we already have" *)
      | None =>
        match get_block c dn shnum segnum sh ords with
        | (dn', GBlock b) => collect_blocks c dn' segnum r (have ++ [(shnum, b)])
        | (dn', GErr _) => collect_blocks c dn' segnum r have
        end
      end
    end.

  (* DownloadNode.get_segment(segnum) *)
  Definition fetch_segment (c : cap H) (dn : dnode H) (segnum : Z) (tries : list (Z * share H UB * (nat -> list Z))) (ord : list Z)
    : dnode H * (list N + verr) :=
    match collect_blocks c dn segnum tries [] with
    | (dn', have) =>
      if zlen have <? Z.of_N (c_k c) then (dn', inr ENotEnoughShares)
      else decode_and_check c dn' segnum (map (fun p => (Z.to_N (fst p), snd p)) have) ord
    end.

  (* Segmentation: the planned writes are served in order; the first failing segment ends the
     read with that error.  Returns the chunks handed to consumer.write and the error, None = the
     read completed. *)
  Fixpoint serve (c : cap H) (dn : dnode H) (ws : list seg_write)
           (script : N -> list (Z * share H UB * (nat -> list Z)) * list Z) : list (list N) * option verr :=
    match ws with
    | [] => ([], None)
    | w :: r =>
      let (tries, ord) := script (w_segnum w) in
      match fetch_segment c dn (Z.of_N (w_segnum w)) tries ord with
      | (dn', inl segment) =>
        let (chunks, res) := serve c dn' r script in
        (slice (N.to_nat (w_off w)) (N.to_nat (w_len w)) segment :: chunks, res)
      | (_, inr e) => ([], Some e)
      end
    end.

  (* ---- the genuine file (immutable/encode.py) ------------------------------------------------ *)
  (* an encoded file: parameters, the ciphertext segments (tail unpadded) and, for every
     segment, the N blocks the erasure coder produced *)
  Record efile := mkEf {
    ef_k : N; ef_n : N; ef_size : N; ef_segsize : N;
    ef_segs : list (list N);
    ef_blocks : list (list (list N)) }.

  Definition gblock (f : efile) (shnum segnum : Z) : list N :=
    nth (Z.to_nat shnum) (nth (Z.to_nat segnum) (ef_blocks f) []) [].
  Definition gsegment (f : efile) (segnum : Z) : list N := nth (Z.to_nat segnum) (ef_segs f) [].

  Definition mk_tree (leaves : list H) : list H := hash_tree H pair_hash empty_leaf leaves.
  (* send_one_block_hash_tree *)
  Definition g_bht (f : efile) (shnum : Z) : list H :=
    mk_tree (map (fun blocks => block_hash (nth (Z.to_nat shnum) blocks [])) (ef_blocks f)).
  (* send_all_share_hash_trees: leaves are the block hash tree roots *)
  Definition g_sht (f : efile) : list H :=
    mk_tree (map (fun i => nth 0 (g_bht f (Z.of_nat i)) (empty_leaf 0)) (seq 0 (N.to_nat (ef_n f)))).
  (* send_crypttext_hash_tree_to_all_shareholders *)
  Definition g_cht (f : efile) : list H := mk_tree (map seg_hash (ef_segs f)).

  Definition node_of (t : list H) (j : Z) : H := nth (Z.to_nat j) t (empty_leaf 0).

  (* Encoder: uri_extension_data *)
  Definition g_ueb (f : efile) : ueb H :=
    let d := calculate_sizes (ef_size f) (ef_k f) (ef_segsize f) in
    mkUeb (ef_segsize f) (node_of (g_cht f) 0) (node_of (g_sht f) 0) true
          (Some (ef_segsize f, ef_k f, ef_n f)) (Some (d_tail_segment_padded d, ef_k f, ef_n f))
          (Some (d_num_segments d)) (Some (ef_size f)) (Some (ef_k f)) (Some (ef_n f)) (Some 32%N).

  Variable ser_ueb : ueb H -> UB.            (* uri.pack_extension *)

  Definition g_cap (key : list N) (f : efile) : cap H :=
    mkCap key (ueb_hash (ser_ueb (g_ueb f))) (ef_k f) (ef_n f) (ef_size f).

  Definition index_all (t : list H) : list (Z * H) :=
    map (fun j => (Z.of_nat j, nth j t (empty_leaf 0))) (seq 0 (length t)).

  (* the share the uploader writes for share number i, as the downloader reads it back
     (layout.make_write_bucket_proxy: version 1 unless a field needs 8 bytes) *)
  Definition g_share (f : efile) (ver : N) (o : offsets) (i : Z) : share H UB :=
    let n := Z.of_N (ef_n f) in
    let chain := match HashTree.needed_for (zlen (g_sht f)) (first_leaf_num n + i) with
                 | Some nf => zadd (first_leaf_num n + i) nf
                 | None => []
                 end in
    mkShare ver o (Some (ser_ueb (g_ueb f)))
            (Some (map (fun j => (j, node_of (g_sht f) j)) chain))
            (index_all (g_bht f i)) (index_all (g_cht f))
            (map (fun j => (Z.of_nat j, gblock f i (Z.of_nat j))) (seq 0 (length (ef_blocks f)))).

  (* Encoder: segments of the ciphertext and their blocks *)
  Variable enc : N -> N -> list (list N) -> list (list N).     (* CRSEncoder.encode *)
  Definition encode_file (k n segsize : N) (ct : list N) : efile :=
    let size := N.of_nat (length ct) in
    let p := encoder_params size k segsize in
    mkEf k n size segsize
         (map (fun j => seg_at ct segsize j) (nrange (e_num_segments p)))
         (encode_segments enc (N.to_nat (e_num_segments p)) k n
                          (N.to_nat (e_block_size p)) (N.to_nat (e_tail_block_size p)) ct).
End ImmVerify.

(* ---- executable instance: symbolic hashes ------------------------------------------------------ *)
(* a free term algebra: distinct constructors for the differently tagged hashes, so every
   injectivity/separation hypothesis of the theorems holds by construction; HJunk n is any
   other 32-byte string *)
Inductive hs :=
| HBlock (d : list N)
| HSeg (d : list N)
| HUeb (croot sroot : hs) (nums : list N)
| HUebJ (z : Z)
| HPair (a b : hs)
| HPad (i : Z)
| HJunk (n : Z).

Fixpoint ln_eqb (a b : list N) : bool :=
  match a, b with
  | [], [] => true
  | x :: r, y :: s => (x =? y)%N && ln_eqb r s
  | _, _ => false
  end.

Fixpoint hs_eqb (a b : hs) : bool :=
  match a, b with
  | HBlock x, HBlock y => ln_eqb x y
  | HSeg x, HSeg y => ln_eqb x y
  | HUeb c1 s1 n1, HUeb c2 s2 n2 => hs_eqb c1 c2 && hs_eqb s1 s2 && ln_eqb n1 n2
  | HUebJ x, HUebJ y => x =? y
  | HPair a1 a2, HPair b1 b2 => hs_eqb a1 b1 && hs_eqb a2 b2
  | HPad x, HPad y => x =? y
  | HJunk x, HJunk y => x =? y
  | _, _ => false
  end.

(* UEB byte strings of the instance: a well-formed one is its parsed content (pack_extension is
   injective on it), anything else is junk number z (its parse is never looked at: the hash
   comparison comes first) *)
Inductive ub := UbOk (u : ueb hs) | UbJunk (z : Z).

Definition optn (o : option N) : list N := match o with None => [0%N] | Some x => [1%N; x] end.
Definition opt3 (o : option (N * N * N)) : list N :=
  match o with None => [0%N] | Some (a, b, c) => [1%N; a; b; c] end.
Definition ueb_nums (u : ueb hs) : list N :=
  [u_segment_size u; if u_codec_ok u then 1%N else 0%N] ++ opt3 (u_codec_params u) ++ opt3 (u_tail_codec_params u)
  ++ optn (u_num_segments u) ++ optn (u_size u) ++ optn (u_needed_shares u) ++ optn (u_total_shares u)
  ++ optn (u_crypttext_hash_len u).
Definition sym_ueb_hash (b : ub) : hs :=
  match b with
  | UbOk u => HUeb (u_crypttext_root u) (u_share_root u) (ueb_nums u)
  | UbJunk z => HUebJ z
  end.
Definition sym_parse_ueb (b : ub) : option (ueb hs) :=
  match b with UbOk u => Some u | UbJunk _ => None end.

Definition sym_truthy (h : hs) : bool := true.

(* replication "erasure code" of the instance (k = 1): every block is the segment *)
Definition rep1_dec (k n : N) (blocks : list (N * list N)) : list (list N) :=
  match blocks with [] => [] | (_, b) :: _ => [b] end.

Definition sym_node_init := node_init hs.
Definition sym_get_block := get_block hs hs_eqb HPair sym_truthy HBlock ub sym_ueb_hash sym_parse_ueb.
Definition sym_decode_and_check dec := decode_and_check hs hs_eqb HPair sym_truthy HSeg dec.
Definition sym_fetch_segment dec := fetch_segment hs hs_eqb HPair sym_truthy HBlock HSeg ub sym_ueb_hash sym_parse_ueb dec.
Definition sym_serve dec := serve hs hs_eqb HPair sym_truthy HBlock HSeg ub sym_ueb_hash sym_parse_ueb dec.
Definition sym_g_bht := g_bht hs HPair HPad HBlock.
Definition sym_g_sht := g_sht hs HPair HPad HBlock.
Definition sym_g_cht := g_cht hs HPair HPad HSeg.
Definition sym_g_ueb := g_ueb hs HPair HPad HBlock HSeg.
Definition sym_g_cap := g_cap hs HPair HPad HBlock HSeg ub sym_ueb_hash UbOk.
Definition sym_g_share := g_share hs HPair HPad HBlock HSeg ub UbOk.

Definition gres_class (r : gres) : N := match r with GBlock _ => 0%N | GErr e => verr_class e end.
Definition res_class (r : option verr) : N := match r with None => 0%N | Some e => verr_class e end.

(* ---- helpers for the harness (comparisons, a table-driven decoder) ------------------------------- *)
Fixpoint nblocks_eqb (a b : list (N * list N)) : bool :=
  match a, b with
  | [], [] => true
  | (i, x) :: r, (j, y) :: s => (i =? j)%N && ln_eqb x y && nblocks_eqb r s
  | _, _ => false
  end.

(* CRSDecoder.decode as a finite table: the harness lists, for the block sets the real decoder can be
   handed in the case at hand, the (padded) segment the real zfec produced; anything else decodes to
   nothing (and then fails the crypttext hash check) *)
Fixpoint table_dec (tbl : list (list (N * list N) * list N)) (k n : N) (blocks : list (N * list N)) : list (list N) :=
  match tbl with
  | [] => []
  | (key, seg) :: r => if nblocks_eqb key blocks then [seg] else table_dec r k n blocks
  end.

Definition hpairs_sub (a b : list (Z * hs)) : bool :=
  forallb (fun p => match zassoc (fst p) b with Some h => hs_eqb h (snd p) | None => false end) a.
Definition hpairs_eqb (a b : list (Z * hs)) : bool := hpairs_sub a b && hpairs_sub b a.
Definition ub_eqb (a b : ub) : bool := hs_eqb (sym_ueb_hash a) (sym_ueb_hash b).
Definition off_eqb (a b : offsets) : bool :=
  (o_data a =? o_data b)%N && (o_plaintext_hash_tree a =? o_plaintext_hash_tree b)%N &&
  (o_crypttext_hash_tree a =? o_crypttext_hash_tree b)%N && (o_block_hashes a =? o_block_hashes b)%N &&
  (o_share_hashes a =? o_share_hashes b)%N && (o_uri_extension a =? o_uri_extension b)%N.
Definition zblocks_sub (a b : list (Z * list N)) : bool :=
  forallb (fun p => match zassoc (fst p) b with Some d => ln_eqb d (snd p) | None => false end) a.
Definition share_eqb (a b : share hs ub) : bool :=
  (s_version a =? s_version b)%N && off_eqb (s_off a) (s_off b) &&
  match s_ueb a, s_ueb b with Some x, Some y => ub_eqb x y | None, None => true | _, _ => false end &&
  match s_share_hashes a, s_share_hashes b with Some x, Some y => hpairs_eqb x y | None, None => true | _, _ => false end &&
  hpairs_eqb (s_block_hashes a) (s_block_hashes b) && hpairs_eqb (s_ct_hashes a) (s_ct_hashes b) &&
  zblocks_sub (s_blocks a) (s_blocks b) && zblocks_sub (s_blocks b) (s_blocks a).

Definition optn_eqb (a b : option N) : bool :=
  match a, b with Some x, Some y => (x =? y)%N | None, None => true | _, _ => false end.
Definition opt3_eqb (a b : option (N * N * N)) : bool :=
  match a, b with
  | Some (a1, a2, a3), Some (b1, b2, b3) => (a1 =? b1)%N && (a2 =? b2)%N && (a3 =? b3)%N
  | None, None => true
  | _, _ => false
  end.
Definition ueb_eqb (a b : ueb hs) : bool :=
  (u_segment_size a =? u_segment_size b)%N && hs_eqb (u_crypttext_root a) (u_crypttext_root b) &&
  hs_eqb (u_share_root a) (u_share_root b) && Bool.eqb (u_codec_ok a) (u_codec_ok b) &&
  opt3_eqb (u_codec_params a) (u_codec_params b) && opt3_eqb (u_tail_codec_params a) (u_tail_codec_params b) &&
  optn_eqb (u_num_segments a) (u_num_segments b) && optn_eqb (u_size a) (u_size b) &&
  optn_eqb (u_needed_shares a) (u_needed_shares b) && optn_eqb (u_total_shares a) (u_total_shares b) &&
  optn_eqb (u_crypttext_hash_len a) (u_crypttext_hash_len b).
