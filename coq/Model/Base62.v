(* allmydata.util.base62: b2a (= b2a_l(os, len(os)*8) + its assert) and
   a2b (= a2b_l(cs, num_octets_that_encode_to_this_many_chars(len(cs))*8)).

   b2a_l: value = big-endian integer of os, numvalues = 256^len(os);
          while numvalues > 0: emit value % 62; value //= 62; numvalues //= 62
          (most significant digit first after the final reversal), through
          v2ctranstable.
   a2b_l: translate through c2vtranstable -- bytes.translate leaves a byte that
          is not in the alphabet UNCHANGED, so such a byte contributes its own
          value as a "digit" --, value = sum c_i 62^i, then the k low-order
          octets of value where k = log_floor(62^len(cs), 256); higher-order
          bits are dropped.
   log_floor (pyutil.mathutil) is the loop p=1;k=0; while p<=n: p*=b;k+=1; return k-1.
   Loops carry explicit fuel; None = fuel exhausted or (b2a) AssertionError.
   Proofs/CodecsBase62.v shows neither happens. *)
From Coq Require Import List NArith Bool.
From Verif Require Import Lib.Hex Lib.Bytes Model.Base32 Gen.CodecConsts.
Import ListNotations.
Local Open Scope N_scope.

Definition b62_char (v : N) : N := nth (N.to_nat v) base62_chars 0.
Definition b62_c2v (c : N) : N :=
  match index_of c base62_chars 0 with
  | Some v => v
  | None => c
  end.

(* the digit loop of b2a_l; consing gives the big-endian order directly *)
Fixpoint b62_loop (fuel : nat) (value numvalues : N) (acc : list N) : option (list N) :=
  match fuel with
  | O => None
  | S f => if numvalues =? 0 then Some acc
           else b62_loop f (value / 62) (numvalues / 62) (value mod 62 :: acc)
  end.

Fixpoint log_floor_loop (fuel : nat) (p k n b : N) : option N :=
  match fuel with
  | O => None
  | S f => if p <=? n then log_floor_loop f (p * b) (k + 1) n b else Some (k - 1)
  end.

(* pyutil.mathutil.log_floor(n, 256); the loop runs floor(log256 n) + 1 times for n >= 1 *)
Definition log_floor_256 (n : N) : option N :=
  log_floor_loop (N.to_nat (N.log2 n / 8) + 2) 1 0 n 256.

(* num_octets_that_encode_to_this_many_chars *)
Definition b62_num_octets (numcs : N) : option N := log_floor_256 (62 ^ numcs).

Definition b62_b2a (os : list N) : option (list N) :=
  let numvalues := 256 ^ N.of_nat (length os) in
  match b62_loop (S (N.to_nat (N.size numvalues))) (be_value 256 os) numvalues [] with
  | None => None
  | Some digits =>
    let cs := map b62_char digits in
    match b62_num_octets (N.of_nat (length cs)) with
    | Some k => if k =? N.of_nat (length os) then Some cs else None    (* the assert *)
    | None => None
    end
  end.

Definition b62_a2b (cs : list N) : option (list N) :=
  let value := be_value 62 (map b62_c2v cs) in
  match b62_num_octets (N.of_nat (length cs)) with
  | Some k => Some (be_digits 256 (N.to_nat k) value)
  | None => None
  end.

(* inputs on which a2b is injective: alphabet only, no overflow, a length b2a can produce *)
Definition b62_in_alphabet (cs : list N) : bool :=
  forallb (fun c => match index_of c base62_chars 0 with Some _ => true | None => false end) cs.

Definition b62_canonical (cs : list N) : bool :=
  b62_in_alphabet cs &&
  match b62_num_octets (N.of_nat (length cs)) with
  | Some k =>
    (be_value 62 (map b62_c2v cs) <? 256 ^ k) &&
    match b62_loop (S (N.to_nat (N.size (256 ^ k)))) 0 (256 ^ k) [] with
    | Some ds => Nat.eqb (length ds) (length cs)
    | None => false
    end
  | None => false
  end.
