(* Model of server ordering and the upload-permission filter (C32):

     storage_client.py  StorageFarmBroker.get_servers_for_psi(peer_selection_index, for_upload)
         connected_servers = self.get_connected_servers()               (a frozenset: NO order)
         preferred_servers = frozenset(s for s in connected_servers if s.get_longname() in self.preferred_peers)
         if for_upload:
             connected_servers = [srv for srv in connected_servers if srv.upload_permitted()]
         def _permuted(server):
             seed = server.get_permutation_seed()
             is_unpreferred = server not in preferred_servers
             return (is_unpreferred, permute_server_hash(peer_selection_index, seed))
         return sorted(connected_servers, key=_permuted)

     immutable/upload.py  Tahoe2ServerSelector.get_shareholders
         all_servers = storage_broker.get_servers_for_psi(storage_index, for_upload=True)
         if not all_servers: raise NoServersError
         ... self._create_trackers(all_servers[:(2 * total_shares)], ...)

     mutable/publish.py  Publish.update_goal  (placement of homeless shares)

   `sorted` is a stable sort on the key tuple (bool, bytes): False < True, bytes
   compare lexicographically.  The enumeration order of the frozenset is the
   list `connected` here; the theorems say when it does not matter.
   permute_server_hash comes from Gen/Hashutil.v (regenerated from hashutil.py):
   SHA-1 of peer_selection_index ++ seed. *)
From Coq Require Import List NArith Bool.
From Verif Require Import Lib.Hex Lib.SHA256 Gen.Hashutil Model.GridManager.
Import ListNotations.
Local Open Scope N_scope.

(* Python bytes `<=` *)
Fixpoint bytes_leb (a b : list N) : bool :=
  match a, b with
  | [], _ => true
  | _ :: _, [] => false
  | x :: a', y :: b' => if x <? y then true else if y <? x then false else bytes_leb a' b'
  end.

(* Python tuple `<=` on (bool, bytes) *)
Definition skey : Type := (bool * list N)%type.
Definition key_leb (k1 k2 : skey) : bool :=
  match fst k1, fst k2 with
  | false, true => true
  | true, false => false
  | _, _ => bytes_leb (snd k1) (snd k2)
  end.

(* sorted(xs, key=f): keys are computed once per element, the sort is stable *)
Section SortBy.
  Variables K A : Type.
  Variable leb : K -> K -> bool.

  Fixpoint insert_by (x : K * A) (l : list (K * A)) : list (K * A) :=
    match l with
    | [] => [x]
    | y :: r => if leb (fst x) (fst y) then x :: l else y :: insert_by x r
    end.

  Definition sort_by (l : list (K * A)) : list (K * A) := fold_right insert_by [] l.

  Definition sorted_by_key (f : A -> K) (l : list A) : list A :=
    map snd (sort_by (map (fun a => (f a, a)) l)).
End SortBy.

Arguments insert_by {K A} leb x l.
Arguments sort_by {K A} leb l.
Arguments sorted_by_key {K A} leb f l.

Section Permute.
  Variable server : Type.
  Variable seed : server -> list N.            (* get_permutation_seed() *)
  Variable preferred : server -> bool.         (* get_longname() in preferred_peers *)
  Variable permitted : server -> outcome.      (* upload_permitted(): True / False / raises *)

  Definition permuted (psi : list N) (s : server) : skey :=
    (negb (preferred s), permute_server_hash psi (seed s)).

  Definition is_permit (o : outcome) : bool := outcome_eqb o Permit.
  Definition is_raise (o : outcome) : bool := outcome_eqb o Raise.

  (* the list comprehension: None when some upload_permitted() raises *)
  Definition upload_filter (connected : list server) : option (list server) :=
    if existsb (fun s => is_raise (permitted s)) connected then None
    else Some (filter (fun s => is_permit (permitted s)) connected).

  Definition get_servers_for_psi (connected : list server) (psi : list N) (for_upload : bool)
    : option (list server) :=
    if for_upload then
      match upload_filter connected with
      | None => None
      | Some l => Some (sorted_by_key key_leb (permuted psi) l)
      end
    else Some (sorted_by_key key_leb (permuted psi) connected).

  (* immutable uploader: the servers it will ever talk to for this upload *)
  Inductive candidates : Type :=
  | CRaise                           (* upload_permitted raised *)
  | CNoServers                       (* NoServersError("client gave us zero servers") *)
  | CServers (l : list server).

  Definition upload_candidates (connected : list server) (storage_index : list N) (total_shares : nat) : candidates :=
    match get_servers_for_psi connected storage_index true with
    | None => CRaise
    | Some [] => CNoServers
    | Some l => CServers (firstn (2 * total_shares) l)
    end.

  (* ---- mutable publish: Publish.update_goal ---- *)
  Variable server_eqb : server -> server -> bool.
  Variable bad : server -> bool.               (* server in self.bad_servers *)

  Definition goal : Type := list (server * N).

  Inductive goal_result : Type :=
  | GRaise                            (* upload_permitted raised *)
  | GNotEnough                        (* NotEnoughServersError("Ran out of non-bad servers ...") *)
  | GGoal (g : goal).

  Fixpoint range_N (start : N) (count : nat) : list N :=
    match count with
    | O => []
    | S c => start :: range_N (start + 1) c
    end.

  Fixpoint dedup_N (l : list N) : list N :=
    match l with
    | [] => []
    | x :: r => if existsb (N.eqb x) r then dedup_N r else x :: dedup_N r
    end.

  (* len(old_assignments.get(server, [])) : number of distinct shares the goal gives the server *)
  Definition assigned_count (g : goal) (s : server) : N :=
    N.of_nat (length (dedup_N (map snd (filter (fun p => server_eqb (fst p) s) g)))).

  (* (count, i) compared as Python tuples; i is unique, so serverid/server never decide *)
  Definition entry_leb (a b : N * N) : bool :=
    if fst a <? fst b then true else if fst b <? fst a then false else snd a <=? snd b.

  (* the enumerate loop: None when upload_permitted raises on a non-bad server *)
  Fixpoint goal_entries (g : goal) (i : N) (l : list server) : option (list ((N * N) * server)) :=
    match l with
    | [] => Some []
    | s :: r =>
        if bad s then goal_entries g (i + 1) r
        else match permitted s with
             | Raise => None
             | Deny => goal_entries g (i + 1) r
             | Permit =>
                 match goal_entries g (i + 1) r with
                 | None => None
                 | Some e => Some (((assigned_count g s, i), s) :: e)
                 end
             end
    end.

  (* round-robin over serverlist, starting at position i *)
  Fixpoint place (serverlist : list server) (i : nat) (homeless : list N) : goal :=
    match homeless with
    | [] => []
    | sh :: r =>
        match nth_error serverlist i with
        | None => []                                   (* unreachable: i < length serverlist *)
        | Some s => (s, sh) :: place serverlist (if Nat.leb (length serverlist) (S i) then O else S i) r
        end
    end.

  Definition update_goal (full_serverlist : list server) (g : goal) (total_shares : nat) : goal_result :=
    let g1 := filter (fun p => negb (bad (fst p))) g in
    let homeless := filter (fun sh => negb (existsb (fun p => N.eqb (snd p) sh) g1)) (range_N 0 total_shares) in
    match homeless with
    | [] => GGoal g1
    | _ :: _ =>
        match goal_entries g1 0 full_serverlist with
        | None => GRaise
        | Some entries =>
            match map snd (sort_by entry_leb entries) with
            | [] => GNotEnough
            | serverlist => GGoal (g1 ++ place serverlist O homeless)
            end
        end
    end.
End Permute.

Arguments permuted {server} seed preferred psi s.
Arguments upload_filter {server} permitted connected.
Arguments get_servers_for_psi {server} seed preferred permitted connected psi for_upload.
Arguments CRaise {server}.
Arguments CNoServers {server}.
Arguments CServers {server} l.
Arguments upload_candidates {server} seed preferred permitted connected storage_index total_shares.
Arguments GRaise {server}.
Arguments GNotEnough {server}.
Arguments GGoal {server} g.
Arguments update_goal {server} permitted server_eqb bad full_serverlist g total_shares.
Arguments place {server} serverlist i homeless.
Arguments goal_entries {server} permitted server_eqb bad g i l.
Arguments assigned_count {server} server_eqb g s.

(* ---- executable instance: a server is the record of what the model reads ---- *)
Record srv : Type := { s_id : N; s_seed : list N; s_pref : bool; s_perm : outcome; s_bad : bool }.

Definition srv_eqb (a b : srv) : bool := s_id a =? s_id b.

Definition run_get_servers (l : list srv) (psi : list N) (for_upload : bool) : option (list N) :=
  option_map (map s_id) (get_servers_for_psi s_seed s_pref s_perm l psi for_upload).

Inductive id_candidates : Type := ICRaise | ICNoServers | ICServers (l : list N).

Definition run_upload_candidates (l : list srv) (si : list N) (total_shares : nat) : id_candidates :=
  match upload_candidates s_seed s_pref s_perm l si total_shares with
  | CRaise => ICRaise
  | CNoServers => ICNoServers
  | CServers r => ICServers (map s_id r)
  end.

Inductive id_goal : Type := IGRaise | IGNotEnough | IGGoal (g : list (N * N)).

Definition run_update_goal (full : list srv) (g : list (srv * N)) (total_shares : nat) : id_goal :=
  match update_goal s_perm srv_eqb s_bad full g total_shares with
  | GRaise => IGRaise
  | GNotEnough => IGNotEnough
  | GGoal r => IGGoal (map (fun p => (s_id (fst p), snd p)) r)
  end.

(* comparisons used by the driver *)
Fixpoint list_id_eqb (a b : list N) : bool :=
  match a, b with
  | [], [] => true
  | x :: a', y :: b' => (x =? y) && list_id_eqb a' b'
  | _, _ => false
  end.

Definition opt_ids_eqb (a b : option (list N)) : bool :=
  match a, b with
  | None, None => true
  | Some x, Some y => list_id_eqb x y
  | _, _ => false
  end.

Definition cand_eqb (a b : id_candidates) : bool :=
  match a, b with
  | ICRaise, ICRaise | ICNoServers, ICNoServers => true
  | ICServers x, ICServers y => list_id_eqb x y
  | _, _ => false
  end.

Definition pair_in (p : N * N) (l : list (N * N)) : bool :=
  existsb (fun q => (fst p =? fst q) && (snd p =? snd q)) l.

(* goals are sets of (server, share number) *)
Definition goal_set_eqb (a b : list (N * N)) : bool :=
  forallb (fun p => pair_in p b) a && forallb (fun p => pair_in p a) b.

Definition id_goal_eqb (a b : id_goal) : bool :=
  match a, b with
  | IGRaise, IGRaise | IGNotEnough, IGNotEnough => true
  | IGGoal x, IGGoal y => goal_set_eqb x y
  | _, _ => false
  end.
