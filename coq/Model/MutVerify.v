(* C10: what a mutable-file reader accepts (mutable/servermap.py _try_to_set_pubkey,
   _got_signature_one_share; mutable/retrieve.py _validate_block).

   The chain of checks for a block of share `shnum`, segment `segnum`:
     1. H_fp(pubkey) = fingerprint from the cap                  (_try_to_set_pubkey)
     2. verify(pubkey, signature, prefix); prefix carries root_hash (_got_signature_one_share)
     3. block hash tree: leaf segnum = H_blk(salt ++ block), authenticated up to its root
     4. share hash tree: leaf shnum = that root, authenticated up to root_hash (_validate_block)
   Merkle authentication is modelled by the sibling path folded with `pair`; hashes are
   abstract (Section) with injectivity hypotheses; an executable symbolic instance follows. *)
From Coq Require Import List NArith Bool.
Import ListNotations.
Local Open Scope N_scope.

Section Verify.
  Variable V : Type.                       (* values: byte strings and hashes alike *)
  Variable pair : V -> V -> V.             (* hashtree pair hash *)
  Variable h_blk : V -> V -> V.            (* block_hash(salt + block) *)
  Variable h_fp : V -> V.                  (* ssk_pubkey_fingerprint_hash *)
  Variable verify : V -> V -> V -> bool.   (* verify pubkey signature message *)
  Variable prefix_of : N -> V -> V.        (* signed prefix: (seqnum, root_hash, ...) packed *)
  Variable veq : V -> V -> bool.

  (* climb from a leaf at index i with the given siblings (deepest first) *)
  Fixpoint root_from (leaf : V) (i : N) (path : list V) : V :=
    match path with
    | [] => leaf
    | sib :: rest =>
        if N.even i then root_from (pair leaf sib) (i / 2) rest
        else root_from (pair sib leaf) (i / 2) rest
    end.

  Record share := {
    s_pubkey : V; s_signature : V; s_seqnum : N; s_root_hash : V;
    s_share_path : list V;                 (* share hash chain for this share number *)
    s_block_path : N -> list V;            (* block hash tree siblings per segment *)
    s_block : N -> V; s_salt : N -> V
  }.

  Definition version_accepted (fingerprint : V) (s : share) : bool :=
    veq (h_fp (s_pubkey s)) fingerprint
    && verify (s_pubkey s) (s_signature s) (prefix_of (s_seqnum s) (s_root_hash s)).

  Definition block_accepted (s : share) (shnum segnum : N) : bool :=
    veq (root_from (root_from (h_blk (s_salt s segnum) (s_block s segnum)) segnum (s_block_path s segnum))
                   shnum (s_share_path s))
        (s_root_hash s).

  Definition read_accepts (fingerprint : V) (s : share) (shnum segnum : N) : bool :=
    version_accepted fingerprint s && block_accepted s shnum segnum.
End Verify.

(* ---- executable symbolic instance: a free term algebra, injective by construction ---- *)
Inductive sym :=
| Atom (n : N)
| SPair (a b : sym)
| SBlk (salt block : sym)
| SFp (k : sym)
| SPrefix (seqnum : N) (root : sym)
| SSig (key : N) (msg : sym).      (* a signature made with private key number `key` *)

Fixpoint sym_eqb (a b : sym) : bool :=
  match a, b with
  | Atom x, Atom y => x =? y
  | SPair a1 a2, SPair b1 b2 => sym_eqb a1 b1 && sym_eqb a2 b2
  | SBlk a1 a2, SBlk b1 b2 => sym_eqb a1 b1 && sym_eqb a2 b2
  | SFp x, SFp y => sym_eqb x y
  | SPrefix n x, SPrefix m y => (n =? m) && sym_eqb x y
  | SSig k x, SSig j y => (k =? j) && sym_eqb x y
  | _, _ => false
  end.

(* public key number k is Atom k; a signature verifies iff it was made by the matching
   private key over exactly that message *)
Definition sym_verify (pk sig msg : sym) : bool :=
  match pk, sig with
  | Atom k, SSig j m => (k =? j) && sym_eqb m msg
  | _, _ => false
  end.

Definition sym_accepts := read_accepts sym SPair SBlk SFp sym_verify SPrefix sym_eqb.
Definition sym_version_accepted := version_accepted sym SFp sym_verify SPrefix sym_eqb.
Definition sym_block_accepted := block_accepted sym SPair SBlk sym_eqb.
