(* Python's int(b) for a bytes argument with the default base 10, as far as
   acceptance goes (Objects/longobject.c: PyLong_FromString via
   _PyLong_FromBytes):

     [ASCII whitespace]* [+|-]? digit (_? digit)* [ASCII whitespace]*

   - whitespace is Py_ISSPACE: \t \n \v \f \r and space (9..13, 32);
   - a single underscore is allowed between two digits, nowhere else;
   - leading zeros are accepted ("007" = 7, "-0" = 0);
   - anything else (empty, "+", "0x10", "1.0", NUL, non-ASCII digits, ...)
     raises ValueError (None here).

   Not modelled: the interpreter-wide limit sys.get_int_max_str_digits()
   (4300 digits by default): numerals with more digits raise ValueError.  No
   length field of a byte string that fits in memory is that long.

   Also here: b"%d" % z, and the *strict* readers used to state the converse
   theorems (they accept exactly what b"%d" prints). *)
From Coq Require Import List NArith ZArith Bool.
From Verif Require Import Lib.Decimal Lib.Hex.
Import ListNotations.
Local Open Scope N_scope.

Definition is_ws (b : N) : bool := ((9 <=? b) && (b <=? 13)) || (b =? 32).

Fixpoint drop_ws (l : list N) : list N :=
  match l with
  | b :: r => if is_ws b then drop_ws r else l
  | [] => []
  end.

Inductive pyint_state := PStart | PDigit | PUnder.

(* digits with single underscores between them, then optional trailing whitespace up to the end *)
Fixpoint py_digits (l : list N) (acc : N) (s : pyint_state) : option N :=
  match l with
  | [] => match s with PDigit => Some acc | _ => None end
  | b :: r =>
    if is_digit b then py_digits r (acc * 10 + (b - 48)) PDigit
    else match s with
         | PDigit =>
           if b =? 95 then py_digits r acc PUnder
           else if is_ws b && forallb is_ws r then Some acc else None
         | _ => None
         end
  end.

Definition py_int (l : list N) : option Z :=
  match drop_ws l with
  | [] => None
  | b :: r =>
    if b =? 43 then option_map Z.of_N (py_digits r 0 PStart)
    else if b =? 45 then option_map (fun n => Z.opp (Z.of_N n)) (py_digits r 0 PStart)
    else option_map Z.of_N (py_digits (b :: r) 0 PStart)
  end.

(* b"%d" % z *)
Definition dec_Z (z : Z) : list N :=
  match z with
  | Zneg p => 45 :: dec (Npos p)
  | _ => dec (Z.to_N z)
  end.

(* Strict reader for lengths: exactly the numerals b"%d" % len(s) can produce. *)
Definition strict_nat (l : list N) : option Z :=
  if canonical_dec l then option_map Z.of_N (undec l) else None.

(* Strict reader for signed integers: canonical decimal, or '-' followed by a
   canonical decimal other than "0". *)
Definition strict_int (l : list N) : option Z :=
  match l with
  | b :: r =>
    if b =? 45
    then if canonical_dec r && negb (list_N_eqb r [48])
         then option_map (fun n => Z.opp (Z.of_N n)) (undec r) else None
    else strict_nat l
  | [] => None
  end.
