(* Executable model of src/allmydata/util/spans.py (classes Spans, DataSpans and
   the helpers overlap/adjacent).  No proofs here: see Proofs/Spans*.v.

   Conventions.  Offsets and lengths are N (the code asserts start >= 0; negative
   starts are rejected with AssertionError and are outside this model).  Bytes are
   list N.  Python list indices are nat.  `None` as a result of a mutating
   operation means "the code raises AssertionError" (either the precondition
   assert at the top of add/remove, or the representation self-check _check /
   assert_invariants at the end).  Python integers are unbounded, so are N; the
   subtractions below never go negative in the code (noted where they occur), so
   N's truncated subtraction is faithful.  *)
From Coq Require Import List NArith Bool.
Import ListNotations.
Local Open Scope N_scope.
Local Open Scope bool_scope.

Definition span := (N * N)%type.          (* (start, length) *)
Definition spans := list span.            (* Spans._spans *)

Definition is_some {A} (o : option A) : bool :=
  match o with Some _ => true | None => false end.

(* ---- module-level helpers ------------------------------------------------- *)

(* def overlap(start0, length0, start1, length1) *)
Definition overlap (s0 l0 s1 l1 : N) : option span :=
  let left := N.max s0 s1 in
  let right := N.min (s0 + l0) (s1 + l1) in
  if left <? right then Some (left, right - left) else None.

(* def adjacent(start0, length0, start1, length1) *)
Definition adjacent (s0 l0 s1 l1 : N) : bool :=
  if (s0 <? s1) && (s0 + l0 =? s1) then true
  else if (s1 <? s0) && (s1 + l1 =? s0) then true
  else false.

(* ---- list.sort() on (start, length) tuples ---------------------------------
   Python compares tuples lexicographically; the order is total and equal tuples
   are identical values, so the result of any correct sort is the same list. *)
Definition pleb (a b : span) : bool :=
  (fst a <? fst b) || ((fst a =? fst b) && (snd a <=? snd b)).

Fixpoint pinsert (x : span) (l : spans) : spans :=
  match l with
  | [] => [x]
  | y :: r => if pleb x y then x :: y :: r else y :: pinsert x r
  end.

Fixpoint psort (l : spans) : spans :=
  match l with
  | [] => []
  | x :: r => pinsert x (psort r)
  end.

Fixpoint spans_eqb (a b : spans) : bool :=
  match a, b with
  | [], [] => true
  | (x1, x2) :: a', (y1, y2) :: b' => (x1 =? y1) && (x2 =? y2) && spans_eqb a' b'
  | _, _ => false
  end.

(* ---- Spans._check ----------------------------------------------------------
   assert sorted(self._spans) == self._spans; then every start > previous end. *)
Fixpoint check_gaps (prev_end : option N) (l : spans) : bool :=
  match l with
  | [] => true
  | (a, b) :: r =>
      (match prev_end with None => true | Some e => e <? a end)
      && check_gaps (Some (a + b)) r
  end.

Definition spans_check (l : spans) : bool :=
  spans_eqb (psort l) l && check_gaps None l.

(* ---- Spans.add -------------------------------------------------------------
   The scan: for i,(s_start,s_length) in enumerate(self._spans).  Returns
   (first_overlap, last_overlap). *)
Fixpoint add_scan (start length : N) (l : spans) (i : nat)
         (first last : option nat) : option nat * option nat :=
  match l with
  | [] => (first, last)
  | (ss, sl) :: r =>
      if is_some (overlap ss sl start length) || adjacent ss sl start length
      then add_scan start length r (S i)
                    (match first with None => Some i | Some _ => first end)
                    (Some i)                                   (* continue *)
      else match first with
           | Some _ => (first, last)                           (* break *)
           | None => add_scan start length r (S i) first last
           end
  end.

Definition spans_add_raw (start length : N) (l : spans) : spans :=
  match add_scan start length l 0 None None with
  | (Some f, Some la) =>
      let '(fs, _) := nth f l (0, 0) in
      let '(ls, ll) := nth la l (0, 0) in
      let ns := N.min start fs in
      let ne := N.max (start + length) (ls + ll) in
      (* ne >= start+length > start >= ns *)
      firstn f l ++ [(ns, ne - ns)] ++ skipn (S la) l   (* _spans[f:la+1] = [newspan] *)
  | _ => psort ((start, length) :: l)                   (* insert(0, ..); sort() *)
  end.

Definition spans_add (start length : N) (l : spans) : option spans :=
  if length =? 0 then None                 (* assert length > 0 *)
  else let l' := spans_add_raw start length l in
       if spans_check l' then Some l' else None.

(* ---- Spans.remove ----------------------------------------------------------
   The loop mutates _spans[i] in place; in the "middle" case it also appends the
   right part, sorts and breaks.  Result: ((list after the loop but before the
   sort, middle?), (first_complete_overlap, last_complete_overlap)).
   The two inner asserts (new_start > s_start, new_end < s_end) hold whenever
   overlap returned a region (its length is positive), so they never fire. *)
Fixpoint remove_scan (start length : N) (l : spans) (i : nat)
         (fc lc : option nat) : (spans * bool) * (option nat * option nat) :=
  match l with
  | [] => (([], false), (fc, lc))
  | (ss, sl) :: r =>
      let se := ss + sl in
      match overlap ss sl start length with
      | None =>
          let '((r', m), x) := remove_scan start length r (S i) fc lc in
          (((ss, sl) :: r', m), x)
      | Some (os, ol) =>
          let oe := os + ol in
          if (os =? ss) && (oe =? se) then
            let '((r', m), x) :=
                remove_scan start length r (S i)
                            (match fc with None => Some i | Some _ => fc end) (Some i) in
            (((ss, sl) :: r', m), x)
          else if os =? ss then
            let '((r', m), x) := remove_scan start length r (S i) fc lc in
            (((oe, se - oe) :: r', m), x)                 (* oe <= se *)
          else if oe =? se then
            let '((r', m), x) := remove_scan start length r (S i) fc lc in
            (((ss, os - ss) :: r', m), x)                 (* os >= ss *)
          else
            (((ss, os - ss) :: r ++ [(oe, se - oe)], true), (fc, lc))   (* append; break *)
      end
  end.

Definition spans_remove_raw (start length : N) (l : spans) : spans :=
  let '((l1, middle), (fc, lc)) := remove_scan start length l 0 None None in
  let l2 := if middle then psort l1 else l1 in
  match fc, lc with
  | Some f, Some la => firstn f l2 ++ skipn (S la) l2    (* del _spans[f:la+1] *)
  | _, _ => l2
  end.

Definition spans_remove (start length : N) (l : spans) : option spans :=
  if length =? 0 then None                 (* assert length > 0 *)
  else let l' := spans_remove_raw start length l in
       if spans_check l' then Some l' else None.

(* ---- queries ---------------------------------------------------------------- *)
(* len() *)
Definition spans_len (l : spans) : N := fold_right (fun sp acc => snd sp + acc) 0 l.

(* __contains__((start, length)) *)
Fixpoint spans_contains (start length : N) (l : spans) : bool :=
  match l with
  | [] => false
  | (ss, sl) :: r =>
      match overlap start length ss sl with
      | Some (os, ol) =>
          if (os =? start) && (ol =? length) then true
          else spans_contains start length r
      | None => spans_contains start length r
      end
  end.

Definition nrange (start length : N) : list N :=
  map (fun k => start + N.of_nat k) (seq 0 (N.to_nat length)).

(* each() *)
Definition spans_each (l : spans) : list N :=
  flat_map (fun sp => nrange (fst sp) (snd sp)) l.

(* dump(): the data behind the string, [(start, start+l-1)] and len() *)
Definition spans_dump (l : spans) : N * list (N * N) :=
  (spans_len l, map (fun sp => (fst sp, fst sp + snd sp - 1)) l).

(* ---- constructors and operators --------------------------------------------- *)
Definition bind {A B} (o : option A) (f : A -> option B) : option B :=
  match o with Some a => f a | None => None end.

Definition fold_add (acc : option spans) (o : spans) : option spans :=
  fold_left (fun a sp => bind a (spans_add (fst sp) (snd sp))) o acc.

Definition fold_remove (acc : option spans) (o : spans) : option spans :=
  fold_left (fun a sp => bind a (spans_remove (fst sp) (snd sp))) o acc.

(* Spans(list_of_pairs): `elif _span_or_start:` (non-empty list), add each, _check *)
Definition spans_of_list (o : list span) : option spans :=
  fold_add (Some []) o.

(* Spans(other_spans): `elif _span_or_start:` is bool(other) = other.len() != 0 *)
Definition spans_copy (l : spans) : option spans :=
  if spans_len l =? 0 then Some [] else fold_add (Some []) l.

(* __add__, __sub__: copy self, then add/remove each span of other *)
Definition spans_union (a b : spans) : option spans := fold_add (spans_copy a) b.
Definition spans_diff (a b : spans) : option spans := fold_remove (spans_copy a) b.
(* __iadd__, __isub__: in place *)
Definition spans_iadd (a b : spans) : option spans := fold_add (Some a) b.
Definition spans_isub (a b : spans) : option spans := fold_remove (Some a) b.

(* __and__: bounds = Spans(first_start, last_start+last_length)  -- the second
   constructor argument is a *length*, so bounds is [first_start,
   first_start+last_end): wider than necessary, still a cover of self. *)
Definition spans_inter (a b : spans) : option spans :=
  match a with
  | [] => Some []
  | (fs, _) :: _ =>
      let '(ls, ll) := last a (0, 0) in
      let bounds := [(fs, ls + ll)] in
      bind (spans_diff bounds b) (fun not_other => spans_diff a not_other)
  end.

(* ========================================================================== *)
(* DataSpans                                                                    *)
(* ========================================================================== *)
Definition dspan := (N * list N)%type.     (* (start, data) *)
Definition dspans := list dspan.           (* DataSpans.spans *)

Definition nlen (d : list N) : N := N.of_nat (length d).
Definition ntake (k : N) (d : list N) : list N := firstn (N.to_nat k) d.   (* d[:k] *)
Definition ndrop (k : N) (d : list N) : list N := skipn (N.to_nat k) d.    (* d[k:] *)
(* d[-k:]  (k = 0 gives d[0:], the whole string) *)
Definition nlast (k : N) (d : list N) : list N :=
  if k =? 0 then d else ndrop (nlen d - k) d.

(* len() *)
Definition ds_len (l : dspans) : N := fold_right (fun sp acc => nlen (snd sp) + acc) 0 l.

(* get(start, length) *)
Fixpoint ds_get (start length : N) (l : dspans) : option (list N) :=
  match l with
  | [] => None                                              (* ran out of spans *)
  | (ss, sd) :: r =>
      let se := ss + nlen sd in
      if (ss <=? start) && (start <? se) then
        let offset := start - ss in
        if nlen sd <? offset + length then None             (* span falls short *)
        else Some (ntake length (ndrop offset sd))          (* s_data[offset:offset+length] *)
      else if start + length <=? ss then None               (* gone too far *)
      else ds_get start length r
  end.

(* add(start, data): the while loop.  `rest` is self.spans[i:], the part before
   index i is what has been emitted.  `end_` is computed once before the loop.
   One Python iteration = one unfolding; case A re-enters the loop on the same
   span (start = s_start afterwards), which is `body` below. *)
Fixpoint ds_add_loop (start : N) (data : list N) (end_ : N) (rest : dspans) : dspans :=
  match data with
  | [] => rest                                              (* while len(data) *)
  | _ :: _ =>
  match rest with
  | [] => [(start, data)]                                   (* append a last span *)
  | (ss, sd) :: r =>
      let body := fun (start : N) (data : list N) =>
        match data with
        | [] => (ss, sd) :: r                               (* while len(data) *)
        | _ :: _ =>
            let sl := nlen sd in
            let se := ss + sl in
            if (ss <=? start) && (start <? se) then
              if ss =? start then
                if se <=? end_ then
                  (* case C: replace this segment *)
                  (ss, ntake sl data) :: ds_add_loop (start + sl) (ndrop sl data) end_ r
                else
                  (* case B: modify the prefix, retain the suffix *)
                  (ss, data ++ ndrop (nlen data) sd) :: r
              else if (ss <? start) && (end_ <? se) then
                (* case E: modify the middle *)
                let prefix_len := start - ss in
                let suffix_len := se - end_ in
                (ss, ntake prefix_len sd ++ data ++ nlast suffix_len sd) :: r
              else
                (* case D: retain the prefix, modify the suffix *)
                let prefix_len := start - ss in
                let suffix_len := sl - prefix_len in
                (ss, ntake prefix_len sd ++ ntake suffix_len data)
                  :: ds_add_loop (start + suffix_len) (ndrop suffix_len data) end_ r
            else
              (* not there yet *)
              (ss, sd) :: ds_add_loop start data end_ r
        end in
      if start <? ss then
        (* case A: insert a new span, loop with the remainder *)
        let s_len := ss - start in
        (start, ntake s_len data) :: body ss (ndrop s_len data)
      else body start data
  end
  end.

(* the merge pass: `cur` is newspans[-1] *)
Fixpoint ds_merge_from (cur : dspan) (l : dspans) : dspans :=
  match l with
  | [] => [cur]
  | (ss, sd) :: r =>
      if adjacent (fst cur) (nlen (snd cur)) ss (nlen sd)
      then ds_merge_from (fst cur, snd cur ++ sd) r
      else cur :: ds_merge_from (ss, sd) r
  end.

Definition ds_merge (l : dspans) : dspans :=
  match l with
  | [] => []
  | x :: r => ds_merge_from x r
  end.

(* assert_invariants(): as written, prev_end is never advanced, so every later
   start is compared with the end of the FIRST span only. *)
Definition ds_assert_invariants (l : dspans) : bool :=
  match l with
  | [] => true
  | (s0, d0) :: r => forallb (fun sp => s0 + nlen d0 <? fst sp) r
  end.

Definition ds_add_raw (start : N) (data : list N) (l : dspans) : dspans :=
  ds_merge (ds_add_loop start data (start + nlen data) l).

Definition ds_add (start : N) (data : list N) (l : dspans) : option dspans :=
  let l' := ds_add_raw start data l in
  if ds_assert_invariants l' then Some l' else None.

(* remove(start, length) *)
Fixpoint ds_remove (start length : N) (l : dspans) : dspans :=
  match l with
  | [] => []
  | (ss, sd) :: r =>
      let end_ := start + length in
      if end_ <=? ss then (ss, sd) :: r                      (* break *)
      else
        let sl := nlen sd in
        let se := ss + sl in
        match overlap start length ss sl with
        | None => (ss, sd) :: ds_remove start length r
        | Some (os, ol) =>
            let oe := os + ol in
            if ol =? sl then ds_remove start length r                         (* del *)
            else if os =? ss then
              (oe, ndrop (oe - os) sd) :: ds_remove start length r            (* drop prefix *)
            else if oe =? se then
              (ss, ntake (os - ss) sd) :: ds_remove start length r            (* drop suffix *)
            else
              (ss, ntake (os - ss) sd) :: (oe, nlast (se - oe) sd) :: r       (* middle; break *)
        end
  end.

(* pop(start, length): `if data:` is false for None and for b"" *)
Definition ds_pop (start length : N) (l : dspans) : option (list N) * dspans :=
  let data := ds_get start length l in
  match data with
  | Some (_ :: _) => (data, ds_remove start length l)
  | _ => (data, l)
  end.

(* get_spans() *)
Definition ds_get_spans (l : dspans) : option spans :=
  spans_of_list (map (fun sp => (fst sp, nlen (snd sp))) l).

(* ========================================================================== *)
(* Operation histories                                                          *)
(* ========================================================================== *)
Inductive sop :=
| OpAdd (s n : N)            (* x.add(s, n) *)
| OpRemove (s n : N)         (* x.remove(s, n) *)
| OpUnion (o : list span)    (* x = x + Spans(o) *)
| OpDiff (o : list span)     (* x = x - Spans(o) *)
| OpInter (o : list span)    (* x = x & Spans(o) *)
| OpIAdd (o : list span)     (* x += Spans(o) *)
| OpISub (o : list span)     (* x -= Spans(o) *)
| OpContains (s n : N).      (* (s, n) in x    -- a query, state unchanged *)

Definition sp_step (l : spans) (op : sop) : option spans :=
  match op with
  | OpAdd s n => spans_add s n l
  | OpRemove s n => spans_remove s n l
  | OpUnion o => bind (spans_of_list o) (spans_union l)
  | OpDiff o => bind (spans_of_list o) (spans_diff l)
  | OpInter o => bind (spans_of_list o) (spans_inter l)
  | OpIAdd o => bind (spans_of_list o) (spans_iadd l)
  | OpISub o => bind (spans_of_list o) (spans_isub l)
  | OpContains _ _ => Some l
  end.

Definition sp_run (ops : list sop) : option spans :=
  fold_left (fun st op => bind st (fun l => sp_step l op)) ops (Some []).

Inductive dop :=
| DAdd (s : N) (data : list N)
| DRemove (s n : N)
| DGet (s n : N)             (* query *)
| DPop (s n : N).

Definition ds_step (l : dspans) (op : dop) : option dspans :=
  match op with
  | DAdd s d => ds_add s d l
  | DRemove s n => Some (ds_remove s n l)
  | DGet _ _ => Some l
  | DPop s n => Some (snd (ds_pop s n l))
  end.

Definition ds_run (ops : list dop) : option dspans :=
  fold_left (fun st op => bind st (fun l => ds_step l op)) ops (Some []).

(* ========================================================================== *)
(* Observation traces for the differential run (harness/props/c37.py).          *)
(* A history is executed step by step; after every step the observable state is *)
(* folded into a checksum that the driver computes identically from the real    *)
(* objects.  An operation that raises leaves the model state unchanged (the     *)
(* real code asserts before mutating).                                          *)
(* ========================================================================== *)
Definition mix (h v : N) : N := N.land (h * 1000003 + v + 1) 2305843009213693951.   (* mask 2^61 - 1 *)
Definition mix_list (h : N) (vs : list N) : N := fold_left mix vs h.

Definition obs_spans (l : spans) : list N :=
  spans_len l :: N.of_nat (length l) :: flat_map (fun sp => [fst sp; snd sp]) l.

Definition b2n (b : bool) : N := if b then 1 else 0.

(* observation of one Spans step: (new state, values) *)
Definition sp_observe (l : spans) (op : sop) : spans * list N :=
  match op with
  | OpContains s n => (l, 7 :: b2n (spans_contains s n l) :: obs_spans l)
  | _ => match sp_step l op with
         | Some l' => (l', 1 :: obs_spans l')
         | None => (l, 0 :: obs_spans l)
         end
  end.

Fixpoint sp_trace_from (l : spans) (h : N) (ops : list sop) : list N :=
  match ops with
  | [] => []
  | op :: r => let '(l', vs) := sp_observe l op in
               let h' := mix_list h vs in
               h' :: sp_trace_from l' h' r
  end.

Definition sp_trace (ops : list sop) : list N := sp_trace_from [] 0 ops.
Definition sp_trace_last (ops : list sop) : N := last (sp_trace ops) 0.

Definition obs_bytes (o : option (list N)) : list N :=
  match o with
  | None => [0]
  | Some d => 1 :: nlen d :: d
  end.

Definition obs_dspans (l : dspans) : list N :=
  ds_len l :: N.of_nat (length l) :: flat_map (fun sp => fst sp :: nlen (snd sp) :: snd sp) l.

Definition ds_observe (l : dspans) (op : dop) : dspans * list N :=
  match op with
  | DGet s n => (l, 7 :: obs_bytes (ds_get s n l) ++ obs_dspans l)
  | DPop s n => let '(d, l') := ds_pop s n l in (l', 8 :: obs_bytes d ++ obs_dspans l')
  | _ => match ds_step l op with
         | Some l' => (l', 1 :: obs_dspans l')
         | None => (l, 0 :: obs_dspans l)
         end
  end.

Fixpoint ds_trace_from (l : dspans) (h : N) (ops : list dop) : list N :=
  match ops with
  | [] => []
  | op :: r => let '(l', vs) := ds_observe l op in
               let h' := mix_list h vs in
               h' :: ds_trace_from l' h' r
  end.

Definition ds_trace (ops : list dop) : list N := ds_trace_from [] 0 ops.
Definition ds_trace_last (ops : list dop) : N := last (ds_trace ops) 0.

(* get_spans() as an observation *)
Definition obs_get_spans (l : dspans) : list N :=
  match ds_get_spans l with
  | Some s => 1 :: obs_spans s
  | None => [0]
  end.

(* ========================================================================== *)
(* Sparse observation: the full state (and get_spans()) is looked at only after *)
(* every k-th step and at the end; in between only the results that the         *)
(* operations themselves return are recorded.  (A driver that queries after     *)
(* every mutation cannot notice state that survives between queries.)           *)
(* ========================================================================== *)
Definition sp_step_result (l : spans) (op : sop) : spans * list N :=
  match op with
  | OpContains s n => (l, [7; b2n (spans_contains s n l)])
  | _ => match sp_step l op with
         | Some l' => (l', [1])
         | None => (l, [0])
         end
  end.

Fixpoint sp_look_from (k c : nat) (l : spans) (h : N) (ops : list sop) : spans * N :=
  match ops with
  | [] => (l, h)
  | op :: r =>
      let '(l', vs) := sp_step_result l op in
      let h1 := mix_list h vs in
      match c with
      | O => sp_look_from k (k - 1) l' (mix_list h1 (obs_spans l')) r
      | S c' => sp_look_from k c' l' h1 r
      end
  end.

Definition sp_trace_look (k : nat) (ops : list sop) : N :=
  let '(l, h) := sp_look_from k (k - 1) [] 0 ops in mix_list h (9 :: obs_spans l).

Definition ds_step_result (l : dspans) (op : dop) : dspans * list N :=
  match op with
  | DGet s n => (l, 7 :: obs_bytes (ds_get s n l))
  | DPop s n => let '(d, l') := ds_pop s n l in (l', 8 :: obs_bytes d)
  | _ => match ds_step l op with
         | Some l' => (l', [1])
         | None => (l, [0])
         end
  end.

Definition obs_ds_full (l : dspans) : list N := obs_dspans l ++ obs_get_spans l.

Fixpoint ds_look_from (k c : nat) (l : dspans) (h : N) (ops : list dop) : dspans * N :=
  match ops with
  | [] => (l, h)
  | op :: r =>
      let '(l', vs) := ds_step_result l op in
      let h1 := mix_list h vs in
      match c with
      | O => ds_look_from k (k - 1) l' (mix_list h1 (obs_ds_full l')) r
      | S c' => ds_look_from k c' l' h1 r
      end
  end.

Definition ds_trace_look (k : nat) (ops : list dop) : N :=
  let '(l, h) := ds_look_from k (k - 1) [] 0 ops in mix_list h (9 :: obs_ds_full l).
