(* Model of src/allmydata/immutable/happiness_upload.py: share_placement,
   _calculate_mappings, _servermap_flow_graph, _flow_network, _reindex,
   _compute_maximum_graph, _convert_mappings, _extract_ids,
   _distribute_homeless_shares and the final round-robin.  The Edmonds-Karp core
   (bfs, augmenting_path_for, residual_network, the loop) is Model/Matching.v.
   The model follows the tree AFTER the two `fix:` commits recorded for C07
   (per-peer indexedShares; no `new_peers.remove`).  Executable definitions only.

   Python sets and CPython's iteration order.  The code iterates over `set`
   objects in eleven places (the peers/shares handed to each of the three
   _calculate_mappings calls, servermap[peer] inside _servermap_flow_graph,
   homeless_shares, to_distribute, peers - readonly_peers).  A set is a
   duplicate-free list here, and wherever the code iterates one the model takes
   the order from an explicit [orders] argument (one function per site, from the
   set to the list in iteration order) and only checks that the answer is a
   permutation of the set ([ordered]; None otherwise).  Theorems quantify over
   all [orders], so nothing depends on CPython's hashing.  Dicts keep insertion
   order, which the code determines; `sorted(...)` is [sortN].

   None = the Python code would raise (KeyError/IndexError/StopIteration), a
   while-loop ran out of fuel, or the [orders] argument is not a permutation. *)
From Coq Require Import List NArith ZArith Bool Arith.
From Verif Require Import Model.Matching.
Import ListNotations.

Definition smap := list (N * list N).     (* peer -> set of shares *)

(* ---------- finite sets of N as duplicate-free lists ------------------------ *)

Definition add_set (x : N) (l : list N) : list N := if memN x l then l else l ++ [x].
Definition diffN (a b : list N) : list N := filter (fun x => negb (memN x b)) a.

Definition is_perm (given set : list N) : bool :=
  nodupN given && Nat.eqb (length given) (length set) && forallb (fun x => memN x set) given.

Definition ordered (given set : list N) : option (list N) :=
  if is_perm given set then Some given else None.

Fixpoint insertN (x : N) (l : list N) : list N :=
  match l with
  | [] => [x]
  | y :: r => if N.leb x y then x :: l else y :: insertN x r
  end.
Definition sortN (l : list N) : list N := fold_right insertN [] l.

Fixpoint lookupN {A : Type} (k : N) (d : list (N * A)) : option A :=
  match d with
  | [] => None
  | (k', v) :: r => if N.eqb k k' then Some v else lookupN k r
  end.

(* d[k] = v keeping the position of an existing key (Python dict semantics) *)
Fixpoint dict_set {A : Type} (k : N) (v : A) (d : list (N * A)) : list (N * A) :=
  match d with
  | [] => [(k, v)]
  | (k', v') :: r => if N.eqb k k' then (k', v) :: r else (k', v') :: dict_set k v r
  end.

Fixpoint index_of (x : N) (l : list N) : option nat :=
  match l with
  | [] => None
  | y :: r => if N.eqb x y then Some 0 else option_map S (index_of x r)
  end.

(* ---------- iteration orders -------------------------------------------------- *)

Record phase_order : Type := {
  po_peers : list N -> list N;       (* order of the `peers` set of this _calculate_mappings call *)
  po_shares : list N -> list N;      (* order of its `shares` set *)
  po_held : N -> list N -> list N    (* order of servermap[peer] for the peers looked up in it *)
}.

Record orders : Type := {
  o_ro : phase_order;                (* phase 1: read-only servers *)
  o_ex : phase_order;                (* phase 2: existing allocations on writable servers *)
  o_new : phase_order;               (* phase 3: complete bipartite graph *)
  o_homeless : list N -> list N;     (* `for share in homeless_shares` *)
  o_todist : list N -> list N;       (* `for share in to_distribute` *)
  o_rr : list N -> list N            (* `peers - readonly_peers` in round_robin *)
}.

(* ---------- _servermap_flow_graph / _flow_network ------------------------------ *)

Fixpoint option_all {A : Type} (l : list (option A)) : option (list A) :=
  match l with
  | [] => Some []
  | None :: _ => None
  | Some a :: r => match option_all r with Some t => Some (a :: t) | None => None end
  end.

(* [share_to_index[s] for s in servermap[peer] if s in share_to_index] *)
Definition indexed_shares (base : nat) (so : list N) (held : list N) : list nat :=
  flat_map (fun s => match index_of s so with Some j => [base + j] | None => [] end) held.

Definition peer_row (po : phase_order) (base : nat) (so : list N) (svm : smap) (peer : N)
  : option (list nat) :=
  match lookupN peer svm with
  | None => Some []
  | Some held =>
      match ordered (po_held po peer held) held with
      | None => None
      | Some ho => Some (indexed_shares base so ho)
      end
  end.

Definition servermap_flow_graph (po : phase_order) (pl so : list N) (svm : smap) : option graph :=
  let np := length pl in
  let nsh := length so in
  let sink := np + nsh + 1 in
  match option_all (map (peer_row po (S np) so svm) pl) with
  | None => None
  | Some rows => Some ((seq 1 np :: rows) ++ repeat [sink] nsh ++ [[]])
  end.

Definition flow_network (np nsh : nat) : graph :=
  let sink := np + nsh + 1 in
  (seq 1 np :: repeat (seq (S np) nsh) np) ++ repeat [sink] nsh ++ [[]].

(* ---------- _compute_maximum_graph / _convert_mappings -------------------------- *)

(* `peer = residual_graph[shareIndex]; None if peer == [dim - 1] else peer[0]` *)
Definition share_result (rg : graph) (dim : nat) (si : nat) : option (option nat) :=
  match adj rg si with
  | [] => None                                   (* peer[0]: IndexError *)
  | v :: r =>
      match r with
      | [] => if Nat.eqb v (dim - 1) then Some None else Some (Some v)
      | _ => Some (Some v)
      end
  end.

Definition compute_maximum_graph (fuel : nat) (g : graph) (share_indices : list nat)
  : option (list (nat * option nat) * matrix * graph) :=
  match max_flow fuel g with
  | None => None
  | Some (f, rg) =>
      match option_all (map (share_result rg (length g)) share_indices) with
      | None => None
      | Some rs => Some (combine share_indices rs, f, rg)
      end
  end.

(* index_to_peer[peer]: KeyError unless 1 <= peer <= len(peers) *)
Definition convert_one (pl : list N) (share : N) (r : option nat) : option (N * option N) :=
  match r with
  | None => Some (share, None)
  | Some O => None
  | Some (S i) => match nth_error pl i with Some p => Some (share, Some p) | None => None end
  end.

(* What one _calculate_mappings call leaves behind: the mapping, and (for the
   optimality certificate) the peer/share orders, the final flow and residual graph. *)
Record phase_result : Type := {
  pr_mappings : list (N * option N);
  pr_peers : list N;
  pr_shares : list N;
  pr_flow : matrix;
  pr_residual : graph
}.

(* servermap = None models both `servermap=None` and a falsy (empty) dict. *)
Definition calculate_mappings (po : phase_order) (peers shares : list N) (servermap : smap)
  : option phase_result :=
  match ordered (po_peers po peers) peers, ordered (po_shares po shares) shares with
  | Some pl, Some so =>
      let np := length pl in
      let nsh := length so in
      let share_indices := seq (S np) nsh in
      let og := match servermap with
                | [] => Some (flow_network np nsh)
                | _ => servermap_flow_graph po pl so servermap
                end in
      match og with
      | None => None
      | Some g =>
          match compute_maximum_graph (S np) g share_indices with
          | None => None
          | Some (mg, f, rg) =>
              match option_all (map (fun e : N * (nat * option nat) => convert_one pl (fst e) (snd (snd e)))
                                    (combine so mg)) with
              | None => None
              | Some ms => Some {| pr_mappings := ms; pr_peers := pl; pr_shares := so;
                                   pr_flow := f; pr_residual := rg |}
              end
          end
      end
  | _, _ => None
  end.

(* ---------- _extract_ids ---------------------------------------------------------- *)

Definition used_peers_of (m : list (N * option N)) : list N :=
  fold_left (fun acc e => match snd e with Some p => add_set p acc | None => acc end) m [].
Definition used_shares_of (m : list (N * option N)) : list N :=
  fold_left (fun acc e => match snd e with Some _ => add_set (fst e) acc | None => acc end) m [].

(* ---------- _distribute_homeless_shares ------------------------------------------- *)

Definition first_holder (share : N) (wp2s : smap) : option N :=
  match find (fun e : N * list N => memN share (snd e)) wp2s with
  | Some e => Some (fst e)
  | None => None
  end.

Definition pq_less (a b : nat * N) : bool :=
  Nat.ltb (fst a) (fst b) || (Nat.eqb (fst a) (fst b) && N.ltb (snd a) (snd b)).

Fixpoint pq_min (best : nat * N) (l : list (nat * N)) : nat * N :=
  match l with
  | [] => best
  | x :: r => pq_min (if pq_less x best then x else best) r
  end.

Fixpoint pq_remove (x : nat * N) (l : list (nat * N)) : list (nat * N) :=
  match l with
  | [] => []
  | y :: r => if Nat.eqb (fst x) (fst y) && N.eqb (snd x) (snd y) then r else y :: pq_remove x r
  end.

Fixpoint distribute (shares : list N) (pq : list (nat * N)) (m : list (N * option N))
  : option (list (N * option N)) :=
  match shares with
  | [] => Some m
  | s :: r =>
      match pq with
      | [] => None                               (* PriorityQueue.get() would block *)
      | x :: rest =>
          let best := pq_min x rest in
          distribute r ((S (fst best), snd best) :: pq_remove best pq) (dict_set s (Some (snd best)) m)
      end
  end.

Definition count_mapped (peer : N) (m : list (N * option N)) : nat :=
  length (filter (fun e : N * option N => match snd e with Some p => N.eqb p peer | None => false end) m).

Definition distribute_homeless (os : orders) (m : list (N * option N)) (homeless : list N) (wp2s : smap)
  : option (list (N * option N)) :=
  let peerids := map fst wp2s in
  let shareids := fold_left (fun acc e => fold_left (fun a s => add_set s a) (snd e) acc) wp2s [] in
  (* first: renew leases *)
  let '(m1, todist) :=
    fold_left (fun (st : list (N * option N) * list N) share =>
                 let '(mm, td) := st in
                 if memN share shareids
                 then match first_holder share wp2s with
                      | Some p => (dict_set share (Some p) mm, td)
                      | None => (mm, td)
                      end
                 else (mm, add_set share td))
              homeless (m, []) in
  match peerids with
  | [] => Some m1                                  (* `if priority == {}: return` *)
  | _ =>
      match ordered (o_todist os todist) todist with
      | None => None
      | Some tdo => distribute tdo (map (fun p => (count_mapped p m1, p)) peerids) m1
      end
  end.

(* ---------- share_placement ---------------------------------------------------------- *)

Definition held_by_readonly (readonly : list N) (p2s : smap) : smap :=
  flat_map (fun peer => if memN peer readonly
                        then match lookupN peer p2s with Some shs => [(peer, shs)] | None => [] end
                        else [])
           (sortN (map fst p2s)).

Definition remaining_servermap (p2s : smap) (used_peers used_shares : list N) : smap :=
  flat_map (fun e : N * list N =>
              if memN (fst e) used_peers then []
              else match diffN (snd e) used_shares with
                   | [] => []
                   | r => [(fst e, r)]
                   end) p2s.

Definition merge_mappings (a b c : list (N * option N)) : list (N * option N) :=
  fold_left (fun d e => dict_set (fst e) (snd e) d) (a ++ b ++ c) [].

Fixpoint round_robin (rr : list N) (i : nat) (m : list (N * option N)) : option (list (N * N)) :=
  match m with
  | [] => Some []
  | (k, Some p) :: r => match round_robin rr i r with Some t => Some ((k, p) :: t) | None => None end
  | (k, None) :: r =>
      match nth_error rr (i mod (length rr)) with
      | None => None                              (* next() on an exhausted generator *)
      | Some p => match round_robin rr (S i) r with Some t => Some ((k, p) :: t) | None => None end
      end
  end.

Definition has_none (m : list (N * option N)) : bool :=
  existsb (fun e : N * option N => match snd e with None => true | Some _ => false end) m.

Record placement_state : Type := {
  ps_result : list (N * N);           (* share -> server, in the order of the returned dict *)
  ps_readonly_phase : phase_result    (* state of the read-only matching, for the certificate *)
}.

Definition share_placement_state (os : orders) (peers readonly shares : list N) (p2s : smap)
  : option placement_state :=
  let readonly_map := held_by_readonly readonly p2s in
  let readonly_shares := fold_left (fun acc e => fold_left (fun a s => add_set s a) (snd e) acc) readonly_map [] in
  match calculate_mappings (o_ro os) readonly readonly_shares readonly_map with
  | None => None
  | Some ro =>
      let used_peers := used_peers_of (pr_mappings ro) in
      let used_shares := used_shares_of (pr_mappings ro) in
      let new_peers := diffN peers used_peers in
      let new_shares := diffN shares used_shares in
      let servermap := remaining_servermap p2s used_peers used_shares in
      match calculate_mappings (o_ex os) new_peers new_shares servermap with
      | None => None
      | Some ex =>
          let existing_peers := used_peers_of (pr_mappings ex) in
          let existing_shares := used_shares_of (pr_mappings ex) in
          let new_peers3 := diffN (diffN new_peers existing_peers) used_peers in
          let new_shares3 := diffN (diffN new_shares existing_shares) used_shares in
          match calculate_mappings (o_new os) new_peers3 new_shares3 [] with
          | None => None
          | Some nw =>
              let m := merge_mappings (pr_mappings ro) (pr_mappings ex) (pr_mappings nw) in
              let homeless := fold_left (fun acc e => match snd e with None => add_set (fst e) acc | Some _ => acc end) m [] in
              let om :=
                match homeless with
                | [] => Some m
                | _ =>
                    match ordered (o_homeless os homeless) homeless with
                    | None => None
                    | Some ho =>
                        distribute_homeless os m ho
                          (filter (fun e : N * list N => negb (memN (fst e) readonly)) p2s)
                    end
                end in
              match om with
              | None => None
              | Some m' =>
                  let orr := if has_none m'
                             then ordered (o_rr os (diffN peers readonly)) (diffN peers readonly)
                             else Some [] in
                  match orr with
                  | None => None
                  | Some rr =>
                      match round_robin rr 0 m' with
                      | None => None
                      | Some res => Some {| ps_result := res; ps_readonly_phase := ro |}
                      end
                  end
              end
          end
      end
  end.

Definition share_placement (os : orders) (peers readonly shares : list N) (p2s : smap)
  : option (list (N * N)) :=
  match peers with
  | [] => Some []                                   (* `if not peers: return dict()` *)
  | _ => option_map ps_result (share_placement_state os peers readonly shares p2s)
  end.

(* ---------- the graph of the property and the boolean validator ------------------------ *)
(* Servers and the shares they may receive: a read-only server only the shares
   it holds (among `shares`), a writable server every share. *)
Definition allowed (peers readonly shares : list N) (p2s : smap) : servermap :=
  map (fun p => (p, shares)) peers ++
  map (fun r => (r, match lookupN r p2s with
                    | Some held => filter (fun s => memN s shares) held
                    | None => []
                    end)) readonly.

Definition servers_used (res : list (N * N)) : list N :=
  fold_left (fun acc e => add_set (snd e) acc) res [].

(* one share per distinct server: the first share placed on it *)
Definition witness_matching (res : list (N * N)) : list (N * N) :=
  map (fun p => (p, match find (fun e : N * N => N.eqb (snd e) p) res with
                    | Some e => fst e
                    | None => 0%N
                    end)) (servers_used res).

Definition placement_total_b (shares : list N) (res : list (N * N)) : bool :=
  forallb (fun s => memN s (map fst res)) shares.

Definition readonly_ok_b (readonly : list N) (p2s : smap) (res : list (N * N)) : bool :=
  forallb (fun e : N * N =>
             negb (memN (snd e) readonly)
             || match lookupN (snd e) p2s with Some held => memN (fst e) held | None => false end) res.

Definition servers_known_b (peers readonly : list N) (res : list (N * N)) : bool :=
  forallb (fun e : N * N => memN (snd e) peers || memN (snd e) readonly) res.

(* optimality certificate: the witness matching plus a vertex cover of the same size *)
Definition placement_valid (peers readonly shares : list N) (p2s : smap) (res : list (N * N))
           (CL CR : list N) : bool :=
  placement_total_b shares res && readonly_ok_b readonly p2s res && servers_known_b peers readonly res
  && valid_certificate (allowed peers readonly shares p2s)
                       (Z.of_nat (length (servers_used res))) (witness_matching res) CL CR.

(* The cover the algorithm's state yields: either all shares, or all writable
   servers plus the Koenig cover of the read-only matching (read-only servers the
   last BFS of phase 1 did not colour, shares it coloured). *)
Definition readonly_cover (ro : phase_result) : list N * list N :=
  match bfs (pr_residual ro) 0 with
  | None => ([], [])
  | Some tree =>
      let np := length (pr_peers ro) in
      (flat_map (fun e : nat * N => if reached tree (fst e) then [] else [snd e]) (enum_from 1 (pr_peers ro)),
       flat_map (fun e : nat * N => if reached tree (fst e) then [snd e] else []) (enum_from (S np) (pr_shares ro)))
  end.

Definition placement_certified (os : orders) (peers readonly shares : list N) (p2s : smap) : bool :=
  match peers with
  | [] => false
  | _ =>
      match share_placement_state os peers readonly shares p2s with
      | None => false
      | Some st =>
          let res := ps_result st in
          let '(cl, cr) := readonly_cover (ps_readonly_phase st) in
          placement_valid peers readonly shares p2s res [] shares
          || placement_valid peers readonly shares p2s res (peers ++ cl) (filter (fun s => memN s shares) cr)
      end
  end.

(* one admissible choice of orders: everything sorted (used in examples) *)
Definition sorted_phase : phase_order :=
  {| po_peers := sortN; po_shares := sortN; po_held := fun _ => sortN |}.
Definition sorted_orders : orders :=
  {| o_ro := sorted_phase; o_ex := sorted_phase; o_new := sorted_phase;
     o_homeless := sortN; o_todist := sortN; o_rr := sortN |}.
