(* allmydata.util.base32 as used by uri.py: b2a, a2b, could_be_base32_encoded.

   b2a(os)  = base64.b32encode(os).rstrip(b"=").lower()
   a2b(cs)  = precondition(could_be_base32_encoded(cs)); pad with "=" ; base64.b32decode(cs.upper())

   RFC 4648 base32 without padding is modelled arithmetically: the n input
   octets are the big-endian number V < 2^(8n); the encoder emits
   q = ceil(8n/5) quintets, the base-32 digits of V * 2^p with p = 5q - 8n pad
   bits (zero).  The decoder reads q quintets as a number W, drops the
   p = 5q - 8*floor(5q/8) low bits (Python's b32decode discards them without
   looking) and emits floor(5q/8) octets.  Lengths q with q mod 8 in {1,3,6} make
   Python's decoder raise; they are excluded by could_be_base32_encoded, which
   a2b checks first (an AssertionError from `precondition`).

   The alphabet, the character classes and the s8 table come from Gen/Uri.v
   (regenerated from base32.py).  No proofs here (Proofs/UriBase32.v). *)
From Coq Require Import String List NArith PeanoNat Bool.
From Verif Require Import Lib.Hex Lib.Bytes Gen.Uri.
Import ListNotations.
Local Open Scope N_scope.

Definition bytes := list N.

Definition wf_bytes (b : bytes) : bool := bytes_ok b.

Definition alphabet : bytes := bytes_of_string b32_alphabet.

Fixpoint index_of (c : N) (l : list N) : option N :=
  match l with
  | [] => None
  | x :: r => if c =? x then Some 0 else option_map N.succ (index_of c r)
  end.

Definition mem (c : N) (cls : list N) : bool := existsb (N.eqb c) cls.

Definition c2v (c : N) : option N := index_of c alphabet.
Definition c2v0 (c : N) : N := match c2v c with Some v => v | None => 0 end.
Definition v2c (v : N) : N := nth (N.to_nat v) alphabet 0.
Definition is_b32char (c : N) : bool := mem c alphabet.

(* be_digits b k v / be_value b l (Lib/Bytes.v): k base-b digits of v, most
   significant first, and back *)
Definition num_quintets (n : nat) : nat := ((8 * n + 4) / 5)%nat.
Definition num_octets (q : nat) : nat := (5 * q / 8)%nat.

Definition b2a (os : bytes) : bytes :=
  let n := length os in
  let q := num_quintets n in
  let p := (5 * q - 8 * n)%nat in
  map v2c (be_digits 32 q (be_value 256 os * 2 ^ N.of_nat p)).

(* the decoding proper (base64.b32decode after re-padding) *)
Definition a2b (cs : bytes) : bytes :=
  let q := length cs in
  let n := num_octets q in
  let p := (5 * q - 8 * n)%nat in
  be_digits 256 n (be_value 32 (map c2v0 cs) / 2 ^ N.of_nat p).

(* s8[len(s) % 8][s[-1]] and not s.translate(identity, chars) *)
Definition s8_row (i : nat) : bytes := bytes_of_string (nth i s8_table ""%string).

Definition could_be_base32_encoded (s : bytes) : bool :=
  match s with
  | [] => true
  | _ => mem (last s 0) (s8_row (length s mod 8)) && forallb is_b32char s
  end.

(* character classes of the regex fragments *)
Definition cls_4bits : bytes := bytes_of_string BASE32CHAR_4bits_set.
Definition cls_3bits : bytes := bytes_of_string BASE32CHAR_3bits_set.
Definition cls_2bits : bytes := bytes_of_string BASE32CHAR_2bits_set.
Definition cls_1bits : bytes := bytes_of_string BASE32CHAR_1bits_set.

(* class of the last character when p low bits must be zero *)
Definition cls_pad (p : nat) : bytes :=
  match p with
  | 0%nat => alphabet
  | 1%nat => cls_4bits
  | 2%nat => cls_3bits
  | 3%nat => cls_2bits
  | 4%nat => cls_1bits
  | _ => []
  end.
