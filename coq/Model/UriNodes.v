(* Executable models of
     - allmydata.unknown.UnknownNode.__init__ (which caps an unknown node keeps), C16
     - __eq__ / __ne__ / __hash__ of the capability classes (uri._BaseURI, UnknownURI) and of
       the node classes ImmutableFileNode, LiteralFileNode (_ImmutableFileNodeBase),
       MutableFileNode, DirectoryNode, CiphertextFileNode, UnknownNode, C43
   written for the method texts pinned in Gen/Uri.v (cap_identity_pins,
   node_identity_pins, unknown_code_pins).  No proofs here. *)
From Coq Require Import String List NArith PeanoNat Bool.
From Verif Require Import Lib.Hex Gen.Uri Model.UriBase32 Model.Uri.
Import ListNotations.
Local Open Scope N_scope.

(* ------------------------------------------------------------ UnknownNode *)
Record unode := { un_error : uerr; un_rw : option bytes; un_ro : option bytes }.

Inductive unode_outcome :=
| UOk (n : unode)
| URaisesValueError      (* uri.from_string(given_ro_uri) raised *)
| URaisesAssertion.

(* `given_rw_uri or None` *)
Definition or_none (o : option bytes) : option bytes :=
  match o with Some [] => None | x => x end.

Definition opaque (e : uerr) : unode_outcome := UOk {| un_error := e; un_rw := None; un_ro := None |}.

Definition is_none {A} (o : option A) : bool := match o with None => true | Some _ => false end.

(* first block of __init__: inl = opaque node with that error, inr = (given_rw, given_ro) afterwards *)
Definition unknown_phase1 (rw ro : option bytes) (deep_immutable : bool) : uerr + (option bytes * option bytes) :=
  match rw with
  | None => inr (None, ro)
  | Some w =>
    let blocked :=
      if deep_immutable then
        if starts_with imm_prefix w && is_none ro then None
        else if is_none ro then Some EMustNotBeUnknownRW
        else Some EMustBeDeepImmutable
      else None in
    match blocked with
    | Some e => inl e
    | None =>
      match ro with
      | None =>
        if negb (starts_with ro_prefix w || starts_with imm_prefix w) then inl EMustNotBeUnknownRW
        else inr (None, Some w)
      | Some r =>
        if starts_with imm_prefix r then inl EMustBeDeepImmutable else inr (Some w, Some r)
      end
    end
  end.

(* last block: strengthen the prefix of ro_uri *)
Definition unknown_phase3 (rw ro : option bytes) (deep_immutable : bool) : unode :=
  if deep_immutable then
    {| un_error := ENone; un_rw := None;
       un_ro := match ro with
                | None => None
                | Some r =>
                  if starts_with imm_prefix r then Some r
                  else match strip_prefix ro_prefix r with
                       | Some t => Some (imm_prefix ++ t)
                       | None => Some (imm_prefix ++ r)
                       end
                end |}
  else
    {| un_error := ENone; un_rw := rw;
       un_ro := match ro with
                | None => None
                | Some r => if starts_with ro_prefix r || starts_with imm_prefix r then Some r else Some (ro_prefix ++ r)
                end |}.

Definition unknown_node (given_rw given_ro : option bytes) (deep_immutable : bool) : unode_outcome :=
  match unknown_phase1 (or_none given_rw) (or_none given_ro) deep_immutable with
  | inl e => opaque e
  | inr (rw, ro) =>
    match ro with
    | None => UOk (unknown_phase3 rw ro deep_immutable)
    | Some r =>
      match from_string deep_immutable r with
      | RaisesValueError => URaisesValueError
      | RaisesAssertion => URaisesAssertion
      | Ok (CUnknown _ e) =>
        match e with
        | ENone => UOk (unknown_phase3 rw ro deep_immutable)
        | _ => opaque e
        end
      | Ok _ => UOk (unknown_phase3 rw ro deep_immutable)
      end
    end
  end.

(* strip_prefix_for_ro(ro_uri, deep_immutable) *)
Definition strip_prefix_for_ro (ro : bytes) (deep_immutable : bool) : bytes :=
  match strip_prefix imm_prefix ro with
  | Some t => if deep_immutable then t else ro
  | None => match strip_prefix ro_prefix ro with Some t => t | None => ro end
  end.

Definition unode_eqb (a b : unode) : bool :=
  uerr_eqb (un_error a) (un_error b) && opt_eqb list_N_eqb (un_rw a) (un_rw b) && opt_eqb list_N_eqb (un_ro a) (un_ro b).

Definition unode_outcome_eqb (a b : unode_outcome) : bool :=
  match a, b with
  | UOk x, UOk y => unode_eqb x y
  | URaisesValueError, URaisesValueError | URaisesAssertion, URaisesAssertion => true
  | _, _ => false
  end.

(* ---------------------------------------------------------------- identity *)
(* A Python object: its identity (id(), distinct objects have distinct ids) and its state. *)
Record capobj := { co_id : N; co_cap : cap }.

(* What Python's hash() is a function of.  hash(bytes) is a function of the
   bytes; the default object hash of the identity; hash((cls, x)) of cls and
   hash(x). *)
Inductive hkey :=
| HStr (s : bytes)
| HId (i : N)
| HTuple (cls : string) (k : hkey)
| HUnhashable.            (* __eq__ defined without __hash__: hash() raises TypeError *)

Fixpoint hkey_eqb (a b : hkey) : bool :=
  match a, b with
  | HStr s, HStr t => list_N_eqb s t
  | HId i, HId j => i =? j
  | HTuple c k, HTuple d l => String.eqb c d && hkey_eqb k l
  | HUnhashable, HUnhashable => true
  | _, _ => false
  end.

(* a == b on capability objects.  _BaseURI.__eq__: isinstance(them, _BaseURI) and
   to_string() equal.  UnknownURI defines nothing: object identity (and
   _BaseURI.__eq__(unknown) is False). *)
Definition cap_eq (a b : capobj) : bool :=
  match known (co_cap a), known (co_cap b) with
  | true, true => list_N_eqb (to_string (co_cap a)) (to_string (co_cap b))
  | false, false => co_id a =? co_id b
  | _, _ => false
  end.

Definition cap_ne (a b : capobj) : bool :=
  match known (co_cap a), known (co_cap b) with
  | true, true => negb (list_N_eqb (to_string (co_cap a)) (to_string (co_cap b)))
  | false, false => negb (co_id a =? co_id b)
  | _, _ => true
  end.

Definition cap_hash (a : capobj) : hkey :=
  if known (co_cap a) then HStr (to_string (co_cap a)) else HId (co_id a).

Inductive node :=
| NodeImmutable (id : N) (u : capobj)       (* ImmutableFileNode, self.u : CHKFileURI *)
| NodeLiteral (id : N) (u : capobj)         (* LiteralFileNode, self.u : LiteralFileURI *)
| NodeMutable (id : N) (u : capobj)         (* MutableFileNode, self._uri : (RO) SSK / MDMF *)
| NodeDirectory (id : N) (u : capobj)       (* DirectoryNode, self._uri = wrap_dirnode_cap(filenode cap) *)
| NodeCiphertext (id : N) (u : capobj)      (* CiphertextFileNode, self._verifycap : CHKFileVerifierURI *)
| NodeUnknown (id : N) (rw ro : option bytes). (* UnknownNode *)

Definition node_id (n : node) : N :=
  match n with
  | NodeImmutable i _ | NodeLiteral i _ | NodeMutable i _ | NodeDirectory i _ | NodeCiphertext i _ | NodeUnknown i _ _ => i
  end.

(* a == b.  Python evaluates type(a).__eq__(a, b); when that returns
   NotImplemented (the default object.__eq__ on distinct objects) it tries
   type(b).__eq__(b, a), and finally falls back to identity. *)
Definition node_eq (a b : node) : bool :=
  match a, b with
  | NodeImmutable _ u, NodeImmutable _ v => cap_eq u v           (* isinstance(other, ImmutableFileNode): self.u.__eq__(other.u) *)
  | NodeImmutable _ _, _ => false
  | NodeLiteral _ u, NodeLiteral _ v => cap_eq u v               (* isinstance(other, _ImmutableFileNodeBase): self.u == other.u *)
  | NodeLiteral _ _, _ => false
  | NodeMutable _ u, NodeMutable _ v => cap_eq u v               (* type(self) == type(them): self._uri == them._uri *)
  | NodeMutable _ _, _ => false
  | NodeUnknown _ rw ro, NodeUnknown _ rw' ro' => opt_eqb list_N_eqb ro' ro && opt_eqb list_N_eqb rw' rw
  | NodeUnknown _ _ _, _ => false
  | (NodeDirectory i _ | NodeCiphertext i _), (NodeDirectory j _ | NodeCiphertext j _) => i =? j   (* identity *)
  | (NodeDirectory _ _ | NodeCiphertext _ _), _ => false           (* reflected __eq__ of the other class says False *)
  end.

Definition node_ne (a b : node) : bool :=
  match a, b with
  | NodeImmutable _ u, NodeImmutable _ v => cap_ne u v           (* self.u.__ne__(other.u) *)
  | NodeImmutable _ _, _ => true
  | NodeLiteral _ _, _ | NodeMutable _ _, _ | NodeUnknown _ _ _, _ => negb (node_eq a b)   (* not self == other *)
  | (NodeDirectory _ _ | NodeCiphertext _ _), _ => negb (node_eq a b)   (* object.__ne__ inverts __eq__ *)
  end.

Definition node_hash (a : node) : hkey :=
  match a with
  | NodeImmutable _ u | NodeLiteral _ u => cap_hash u              (* self.u.__hash__() *)
  | NodeMutable _ u => HTuple "MutableFileNode" (cap_hash u)       (* hash((self.__class__, self._uri)) *)
  | NodeDirectory i _ | NodeCiphertext i _ => HId i                (* object.__hash__ *)
  | NodeUnknown _ _ _ => HUnhashable
  end.

(* the capability string(s) a node stands for: get_uri(); for UnknownNode the pair (rw_uri, ro_uri) *)
Inductive nkey := KStr (s : bytes) | KPair (rw ro : option bytes).

Definition node_key (a : node) : nkey :=
  match a with
  | NodeImmutable _ u | NodeLiteral _ u | NodeMutable _ u | NodeDirectory _ u | NodeCiphertext _ u => KStr (to_string (co_cap u))
  | NodeUnknown _ rw ro => KPair rw ro
  end.

Definition nkey_eqb (a b : nkey) : bool :=
  match a, b with
  | KStr s, KStr t => list_N_eqb s t
  | KPair a1 a2, KPair b1 b2 => opt_eqb list_N_eqb a1 b1 && opt_eqb list_N_eqb a2 b2
  | _, _ => false
  end.

(* what each node class is built around (constructor assertions) *)
Definition node_wf (a : node) : bool :=
  match a with
  | NodeImmutable _ u => match co_cap u with CFile (CHK _ _ _ _ _) => true | _ => false end
  | NodeLiteral _ u => match co_cap u with CFile (LIT _) => true | _ => false end
  | NodeMutable _ u => match co_cap u with CFile (SSK _ _ | SSKRO _ _ | MDMF _ _ | MDMFRO _ _) => true | _ => false end
  | NodeDirectory _ u =>
    match co_cap u with
    | CDir (SSK _ _ | SSKRO _ _ | CHK _ _ _ _ _ | LIT _ | MDMF _ _ | MDMFRO _ _) => true
    | _ => false
    end
  | NodeCiphertext _ u => match co_cap u with CFile (CHKVerifier _ _ _ _ _) => true | _ => false end
  | NodeUnknown _ _ _ => true
  end.

(* classes whose __eq__ compares capabilities *)
Definition compares_by_cap (a : node) : bool :=
  match a with
  | NodeImmutable _ _ | NodeLiteral _ _ | NodeMutable _ _ | NodeUnknown _ _ _ => true
  | NodeDirectory _ _ | NodeCiphertext _ _ => false
  end.

(* ------------------------------------------------ NodeMaker.create_from_cap *)
(* _create_from_single_cap builds a node around LIT, CHK, CHK-Verifier, (RO) SSK / MDMF caps and
   around the six directory wrappers of wrap_dirnode_cap; for anything else it returns None and
   create_from_cap makes an UnknownNode. *)
Definition builds_node (c : cap) : bool :=
  match c with
  | CFile (LIT _ | CHK _ _ _ _ _ | CHKVerifier _ _ _ _ _ | SSK _ _ | SSKRO _ _ | MDMF _ _ | MDMFRO _ _) => true
  | CDir (SSK _ _ | SSKRO _ _ | CHK _ _ _ _ _ | LIT _ | MDMF _ _ | MDMFRO _ _) => true
  | _ => false
  end.

Inductive made :=
| MNode (c : cap)                 (* a file / directory node around this cap *)
| MUnknown (u : unode_outcome)    (* UnknownNode(writecap, readcap, deep_immutable) *)
| MRaises.                        (* uri.from_string raised *)

(* bigcap = writecap or readcap *)
Definition bigcap (rw ro : option bytes) : option bytes :=
  match or_none rw with Some w => Some w | None => or_none ro end.

(* what create_from_cap answers with an empty cache *)
Definition create_fresh (rw ro : option bytes) (deep_immutable : bool) : made :=
  match bigcap rw ro with
  | None => MUnknown (unknown_node None None false)
  | Some s =>
    match from_string deep_immutable s with
    | Ok c => if builds_node c then MNode c else MUnknown (unknown_node rw ro deep_immutable)
    | _ => MRaises
    end
  end.

(* memokey = b"I" + bigcap if deep_immutable else b"M" + bigcap  (prefixes from Gen/Uri.v) *)
Definition memokey (deep_immutable : bool) (s : bytes) : bytes :=
  B (if deep_immutable then nodemaker_memokey_immutable else nodemaker_memokey_mutable) ++ s.

Definition node_cache := list (bytes * cap).

Fixpoint cache_lookup (k : bytes) (cache : node_cache) : option cap :=
  match cache with
  | [] => None
  | (k', c) :: r => if list_N_eqb k k' then Some c else cache_lookup k r
  end.

(* only mutable nodes are cached (ticket #1679); the WeakValueDictionary may forget entries at
   any time, which only removes elements of the list *)
Definition create_from_cap (cache : node_cache) (rw ro : option bytes) (deep_immutable : bool) : made * node_cache :=
  match bigcap rw ro with
  | None => (MUnknown (unknown_node None None false), cache)
  | Some s =>
    match cache_lookup (memokey deep_immutable s) cache with
    | Some c => (MNode c, cache)
    | None =>
      let m := create_fresh rw ro deep_immutable in
      (m, match m with
          | MNode c => match is_mutable c with Some true => (memokey deep_immutable s, c) :: cache | _ => cache end
          | _ => cache
          end)
    end
  end.

(* a cache as calls of create_from_cap leave it: every entry is what a fresh call in the
   entry's own context would build *)
Definition cache_ok (cache : node_cache) : Prop :=
  Forall (fun e => exists di s, fst e = memokey di s /\ from_string di s = Ok (snd e) /\ builds_node (snd e) = true) cache.

(* a sequence of calls on one NodeMaker (all nodes kept alive), for the differential run *)
Fixpoint run_calls (cache : node_cache) (calls : list (option bytes * option bytes * bool)) : list made :=
  match calls with
  | [] => []
  | (rw, ro, di) :: r => let '(m, cache') := create_from_cap cache rw ro di in m :: run_calls cache' r
  end.

Definition made_eqb (a b : made) : bool :=
  match a, b with
  | MNode x, MNode y => cap_eqb x y
  | MUnknown x, MUnknown y => unode_outcome_eqb x y
  | MRaises, MRaises => true
  | _, _ => false
  end.

Fixpoint made_list_eqb (a b : list made) : bool :=
  match a, b with
  | [], [] => true
  | x :: a', y :: b' => made_eqb x y && made_list_eqb a' b'
  | _, _ => false
  end.

(* ------------------------------- children stored in and read from a directory *)
(* dirnode._pack_normalized_children writes, per child,
     ro slot:  strip_prefix_for_ro(child.get_readonly_uri() or b"", deep_immutable)
     rw slot:  child.get_write_uri() or b"", encrypted under the directory's write key
   and DirectoryNode._unpack_contents reads it back as
     create_from_cap(rw.rstrip(b" ") or None, ro.rstrip(b" ") or None, deep_immutable = not self.is_mutable())
   (rw only through a writeable view of a mutable directory), drops the child when
   raise_error() raises a CapConstraintError, and, in an immutable directory, when the node
   is not is_allowed_in_immutable_directory(). *)
Fixpoint drop_spaces (s : bytes) : bytes :=
  match s with
  | c :: r => if c =? 32 then drop_spaces r else s
  | [] => []
  end.
Definition rstrip_spaces (s : bytes) : bytes := rev (drop_spaces (rev s)).

Definition is_some {A} (o : option A) : bool := match o with Some _ => true | None => false end.

(* node.get_write_uri() / get_readonly_uri() of what create_from_cap returned *)
Definition made_write_uri (m : made) : option bytes :=
  match m with
  | MNode c => match is_readonly c with Some false => Some (to_string c) | _ => None end
  | MUnknown (UOk n) => un_rw n
  | _ => None
  end.

Definition made_readonly_uri (m : made) : option bytes :=
  match m with
  | MNode c => option_map to_string (get_readonly c)
  | MUnknown (UOk n) => un_ro n
  | _ => None
  end.

Definition from_opt (o : option bytes) : bytes := match o with Some b => b | None => [] end.

(* None = the child is dropped on read-back *)
Definition dir_store_read (m : made) (deep_immutable view_writeable : bool) : option made :=
  let rw := from_opt (made_write_uri m) in
  let ro := strip_prefix_for_ro (from_opt (made_readonly_uri m)) deep_immutable in
  let rw' := if view_writeable then or_none (Some (rstrip_spaces rw)) else None in
  let ro' := or_none (Some (rstrip_spaces ro)) in
  let child := create_fresh rw' ro' deep_immutable in
  match child with
  | MNode c => if deep_immutable && (match is_mutable c with Some true => true | _ => false end) then None else Some child
  | MUnknown (UOk n) =>
    match un_error n with
    | ENone => if deep_immutable && is_some (un_rw n) then None else Some child
    | _ => None
    end
  | _ => Some child
  end.

(* how strong the allegation carried by a cap string is: 2 = imm., 1 = ro., 0 = none *)
Definition strength (r : bytes) : nat :=
  if starts_with imm_prefix r then 2%nat else if starts_with ro_prefix r then 1%nat else 0%nat.

(* DirectoryNode._create_readonly_node (links with metadata {"no-write": true}, mutable directory):
   known read-only nodes are kept; anything else is re-created from its read cap alone *)
Definition create_readonly_node (m : made) : made :=
  match m with
  | MNode c => match is_readonly c with Some true => m | _ => create_fresh None (made_readonly_uri m) false end
  | _ => create_fresh None (made_readonly_uri m) false
  end.
