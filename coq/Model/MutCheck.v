(* C14: mutable checker health rule (mutable/checker.py _make_checker_results) and the
   repairer's decision (mutable/repairer.py Repairer._got_full_servermap), over the
   ServerMap model.  The expected share count N of a version is part of its version
   id; here it is a function nOf of the (abstracted) version. *)
From Coq Require Import List NArith Bool.
From Verif Require Import Model.ServerMap.
Import ListNotations.
Local Open Scope N_scope.

Section Check.
  Variable nOf : version -> N.

  (* healthy starts True and is cleared by each of the four tests, in the code's order *)
  Definition healthy (m : servermap) : bool :=
    let rec_ := recoverable_versions m in
    let unrec := unrecoverable_versions m in
    let h1 := match unrec with [] => true | _ => false end in
    let h2 := negb (Nat.eqb (length rec_) 0) in
    let h3 := negb (Nat.ltb 1 (length rec_)) in
    let h4 := match rec_ with
              | [] => match unrec with [] => true | _ => false end
              | _ => match best_recoverable_version m with
                     | Some b => negb (count_shares m b <? nOf b)
                     | None => true
                     end
              end in
    h1 && h2 && h3 && h4.

  Definition check_recoverable (m : servermap) : bool :=
    match recoverable_versions m with [] => false | _ => true end.
End Check.

Inductive repair_outcome :=
| Unsuccessful                    (* no recoverable version: RepairResults(successful=False) *)
| MustForce                       (* MustForceRepairError *)
| RequiresWritecap                (* RepairRequiresWritecapError *)
| Republish (v : version).        (* download_version(best) then upload *)

Definition repair_decision (m : servermap) (force has_writekey : bool) : repair_outcome :=
  match best_recoverable_version m with
  | None => Unsuccessful
  | Some b =>
      if (match unrecoverable_newer_versions m with [] => false | _ => true end) && negb force then MustForce
      else if needs_merge m && negb force then MustForce
      else if negb has_writekey then RequiresWritecap
      else Republish b
  end.

(* a repair publish: N' distinct share numbers of a version carrying new_seqnum *)
Definition published (m : servermap) (v' : version) (placement : list (N * N)) : servermap :=
  map (fun p => {| srv := fst p; shnum := snd p; ver := v' |}) placement ++ m.

Definition outcome_eqb (a b : repair_outcome) : bool :=
  match a, b with
  | Unsuccessful, Unsuccessful => true
  | MustForce, MustForce => true
  | RequiresWritecap, RequiresWritecap => true
  | Republish x, Republish y => version_eqb x y
  | _, _ => false
  end.
