(* C29  Share containers survive a server crash: the model.

   Every storage operation of allmydata.storage.{immutable,mutable,server} is
   expressed as the exact list of low-level file calls the code issues, in the
   order it issues them (Lib/FileSys.v: creat, pwrite, ftruncate, rename,
   unlink; mkdir/rmdir/flush/close change no file content and are not listed).
   A crash leaves the file system in the state reached by a prefix of that
   list; a restart (StorageServer.__init__ -> _clean_incomplete) removes
   everything under shares/incoming/.

   Statement-level sources:
     immutable.py  ShareFile.__init__ / add_lease / renew_lease /
                   add_or_renew_lease / write_share_data, BucketWriter.__init__ /
                   write / close / abort
     mutable.py    MutableShareFile.create / _write_share_data /
                   _change_container_size / _write_lease_record / add_lease /
                   renew_lease / add_or_renew_lease / writev
     server.py     allocate_buckets, add_lease, renew_lease, _iter_share_files,
                   slot_testv_and_readv_and_writev, _clean_incomplete

   Not modelled (stated in the driver's META): directories, NoSpace (the disk
   has room), MAX_MUTABLE_SHARE_SIZE (sizes are far below it), BucketWriter's
   in-memory conflicting-write check, lease cancellation (not reachable
   through the server API).  A step that answers `(ops, false)` means the real
   code raises at that point: the operation stops there and the calls issued so
   far stand.

   No proofs here (Proofs/Crash*.v). *)
From Coq Require Import String.
From Coq Require Import List NArith Bool.
From Verif Require Import Lib.Hex Lib.FileSys.
Import ListNotations.
Local Open Scope N_scope.

(* ------------------------------------------------------------------ paths *)
(* shares/incoming/<si>/<shnum>  and  shares/<si>/<shnum> *)
Inductive path :=
| Incoming (si sh : N)
| Final (si sh : N).

Definition path_eqb (a b : path) : bool :=
  match a, b with
  | Incoming a1 a2, Incoming b1 b2 => (a1 =? b1) && (a2 =? b2)
  | Final a1 a2, Final b1 b2 => (a1 =? b1) && (a2 =? b2)
  | _, _ => false
  end.

Definition is_incoming (p : path) : bool :=
  match p with Incoming _ _ => true | Final _ _ => false end.

Definition state := fs path.
Definition pop := op path.
(* a low-level call, flagged `true` when a crash right after it falls between
   the two writes of the immutable ShareFile.add_lease *)
Definition lop := (pop * bool)%type.

Definition run_p (ops : list pop) (s : state) : state := run path_eqb ops s.

(* restart: StorageServer.__init__ calls _clean_incomplete = rm_dir(incoming) *)
Definition recover (s : state) : state :=
  fun p => if is_incoming p then None else s p.

(* ------------------------------------------------------- integers (struct) *)
Definition be (bs : list N) : N := fold_left (fun a b => a * 256 + b) bs 0.

Fixpoint enc (n : nat) (v : N) : list N :=
  match n with
  | O => []
  | S k => (v / 256 ^ N.of_nat k) mod 256 :: enc k v
  end.

Fixpoint chunks (fuel : nat) (n : nat) (l : list N) : list (list N) :=
  match fuel with
  | O => []
  | S k => match l with
           | [] => []
           | _ => firstn n l :: chunks k n (skipn n l)
           end
  end.

Fixpoint find_index {A} (pr : A -> bool) (l : list A) (i : N) : option (N * A) :=
  match l with
  | [] => None
  | x :: r => if pr x then Some (i, x) else find_index pr r (i + 1)
  end.

Definition unflagged {A} (l : list A) : list (A * bool) := map (fun x => (x, false)) l.

(* =============================================================== immutable *)
(* 0x00 version(4) 0x04 unused length(4) 0x08 lease count(4) 0x0c data ... leases(72 each) *)
Definition imm_version (f : file) : N := be (sub 0 4 f).
Definition imm_count (f : file) : N := be (sub 8 4 f).
Definition imm_version_ok (f : file) : bool :=
  (imm_version f =? 1) || (imm_version f =? 2).

(* ShareFile.__init__(create=False): _lease_offset = filesize - num_leases*72 *)
Definition imm_lease_offset (f : file) : N := flen f - 72 * imm_count f.

(* the header is complete, the version is known and the leases fit in the file *)
Definition imm_wf (f : file) : bool :=
  (12 <=? flen f) && imm_version_ok f && (12 + 72 * imm_count f <=? flen f).

(* read_share_data(0, everything): bytes [12, _lease_offset) *)
Definition imm_data (f : file) : list N := sub 12 (imm_lease_offset f - 12) f.

(* get_leases: num_leases records of 72 bytes from _lease_offset *)
Definition imm_leases (f : file) : list (list N) :=
  let rest := skipn (N.to_nat (imm_lease_offset f)) f in
  chunks (length rest) 72 rest.

(* lease record: owner(4) renew(32) cancel(32) expiration(4) *)
Definition imm_rec_renew (r : list N) : list N := sub 4 32 r.
Definition imm_rec_exp (r : list N) : N := be (sub 68 4 r).

(* ShareFile.renew_lease(secret, new_expire_time): first lease whose stored
   (hashed) renew secret matches; rewritten only if the new time is later.
   None = IndexError (no such lease). *)
Definition imm_renew_fops (f : file) (hs : list N) (newexp : N) : option (list fop) :=
  match find_index (fun r => list_N_eqb (imm_rec_renew r) hs) (imm_leases f) 0 with
  | Some (i, r) =>
      Some (if imm_rec_exp r <? newexp
            then [FWrite (imm_lease_offset f + 72 * i) (firstn 68 r ++ enc 4 newexp)]
            else [])
  | None => None
  end.

(* ShareFile.add_lease: the record at _lease_offset + num_leases*72, THEN the
   count at 0x08.  None = struct.pack cannot encode the new count. *)
Definition imm_add_fops (f : file) (rec : list N) : option (list (fop * bool)) :=
  if 2 ^ 32 <=? imm_count f + 1 then None
  else Some [ (FWrite (imm_lease_offset f + 72 * imm_count f) rec, true);
              (FWrite 8 (enc 4 (imm_count f + 1)), false) ].

(* ShareFile.add_or_renew_lease *)
Definition imm_add_or_renew_fops (f : file) (rec : list N) : option (list (fop * bool)) :=
  match imm_renew_fops f (imm_rec_renew rec) (imm_rec_exp rec) with
  | Some o => Some (unflagged o)
  | None => imm_add_fops f rec
  end.

(* the alternative order (count first, then the record), for the record:
   Proofs/CrashImm.v shows it is no better *)
Definition imm_add_fops_count_first (f : file) (rec : list N) : list fop :=
  [ FWrite 8 (enc 4 (imm_count f + 1));
    FWrite (imm_lease_offset f + 72 * imm_count f) rec ].

Definition imm_header (size : N) : list N :=
  enc 4 2 ++ enc 4 (N.min (2 ^ 32 - 1) size) ++ enc 4 0.

(* BucketWriter.__init__: ShareFile(create=True) writes the header, then
   add_lease with _lease_offset = max_size + 12 and a count read back as 0 *)
Definition imm_create_fops (size : N) (rec : list N) : list fop :=
  [ FWrite 0 (imm_header size);
    FWrite (size + 12) rec;
    FWrite 8 (enc 4 1) ].

Definition imm_create_ops (p : path) (size : N) (rec : list N) : list pop :=
  Create p :: map (lift p) (imm_create_fops size rec).

(* ================================================================= mutable *)
(* 0 magic(32) 32 nodeid(20) 52 write enabler(32) 84 data length(8)
   92 extra lease offset(8) 100 four lease slots(92 each) 468 data ...
   extra_lease_offset: count(4) extra leases(92 each) *)
Definition MAGIC1 : list N :=
  bytes_of_string "Tahoe mutable container v1"%string ++ [10; 117; 9; 68; 3; 142].
Definition MAGIC2 : list N :=
  bytes_of_string "Tahoe mutable container v2"%string ++ [10; 195; 85; 33; 153; 37].

Definition mut_magic_ok (f : file) : bool :=
  list_N_eqb (sub 0 32 f) MAGIC2 || list_N_eqb (sub 0 32 f) MAGIC1.

Definition mut_dl (f : file) : N := be (sub 84 8 f).
Definition mut_elo (f : file) : N := be (sub 92 8 f).
Definition mut_we (f : file) : list N := sub 52 32 f.

(* data region inside the container, extra-lease count inside the file *)
Definition mut_wf (f : file) : bool :=
  (468 + mut_dl f <=? mut_elo f) && (mut_elo f + 4 <=? flen f).

(* _read_share_data *)
Definition mut_read (f : file) (off len : N) : list N :=
  let dl := mut_dl f in
  let len' := if dl <? off + len then dl - off else len in
  if len' =? 0 then [] else sub (468 + off) len' f.

(* slot_readv [(0, everything)] *)
Definition mut_data (f : file) : list N := mut_read f 0 (mut_dl f).

(* _read_num_extra_leases; None = struct.error on a short read *)
Definition mut_num_extra (f : file) : option N :=
  let e := sub (mut_elo f) 4 f in
  if flen e =? 4 then Some (be e) else None.

(* all lease slots (4 + extra) as raw 92-byte records; None = some slot cannot
   be read in full (struct.error in _read_lease_record) *)
Definition mut_slots (f : file) : option (list (list N)) :=
  match mut_num_extra f with
  | None => None
  | Some n =>
      if (468 <=? flen f) && (mut_elo f + 4 + 92 * n <=? flen f)
      then let extra := sub (mut_elo f + 4) (92 * n) f in
           Some (chunks 4 92 (sub 100 368 f) ++ chunks (length extra) 92 extra)
      else None
  end.

(* lease record: owner(4) expiration(4) renew(32) cancel(32) nodeid(20) *)
Definition mut_rec_owner (r : list N) : N := be (sub 0 4 r).
Definition mut_rec_exp (r : list N) : N := be (sub 4 4 r).
Definition mut_rec_renew (r : list N) : list N := sub 8 32 r.

(* get_leases / _enumerate_leases: slots whose owner is not 0 *)
Definition mut_leases (f : file) : option (list (list N)) :=
  match mut_slots f with
  | None => None
  | Some sl => Some (filter (fun r => negb (mut_rec_owner r =? 0)) sl)
  end.

Definition mut_slot_offset (f : file) (i : N) : N :=
  if i <? 4 then 100 + 92 * i else mut_elo f + 4 + 92 * (i - 4).

(* _write_lease_record(f, lease_number, lease): an existing slot is one write;
   a new extra slot is the count at extra_lease_offset FIRST, then the record *)
Definition mut_write_lease_fops (f : file) (nslots i : N) (rec : list N) : list fop :=
  if i <? nslots
  then [FWrite (mut_slot_offset f i) rec]
  else [FWrite (mut_elo f) (enc 4 (nslots - 4 + 1)); FWrite (mut_slot_offset f i) rec].

Definition mut_live_match (hs : list N) (r : list N) : bool :=
  negb (mut_rec_owner r =? 0) && list_N_eqb (mut_rec_renew r) hs.

Definition mut_renewed (r : list N) (newexp : N) : list N :=
  firstn 4 r ++ enc 4 newexp ++ skipn 8 r.

(* MutableShareFile.renew_lease; None = IndexError or unreadable slots *)
Definition mut_renew_fops (f : file) (hs : list N) (newexp : N) : option (list fop) :=
  match mut_slots f with
  | None => None
  | Some sl =>
      match find_index (mut_live_match hs) sl 0 with
      | Some (i, r) =>
          Some (if mut_rec_exp r <? newexp
                then mut_write_lease_fops f (N.of_nat (List.length sl)) i (mut_renewed r newexp)
                else [])
      | None => None
      end
  end.

(* MutableShareFile.add_or_renew_lease; None = the lease slots cannot be read *)
Definition mut_add_or_renew_fops (f : file) (rec : list N) : option (list fop) :=
  match mut_slots f with
  | None => None
  | Some sl =>
      let nslots := N.of_nat (List.length sl) in
      match find_index (mut_live_match (mut_rec_renew rec)) sl 0 with
      | Some (i, r) =>
          Some (if mut_rec_exp r <? mut_rec_exp rec
                then mut_write_lease_fops f nslots i (mut_renewed r (mut_rec_exp rec))
                else [])
      | None =>
          match find_index (fun r => mut_rec_owner r =? 0) sl 0 with
          | Some (i, _) => Some (mut_write_lease_fops f nslots i rec)
          | None => Some (mut_write_lease_fops f nslots nslots rec)
          end
      end
  end.

(* _change_container_size(f, new_container_size), called only when the new
   data does not fit: zero the old extra-lease block, (flush,) write it at the
   new place, then update extra_lease_offset.  "An interrupt here will corrupt
   the leases" (comment in the code, between the first and the second write). *)
Definition mut_change_container_fops (f : file) (new_size : N) : option (list fop) :=
  match mut_num_extra f with
  | None => None
  | Some n =>
      let old := mut_elo f in
      let lsz := 4 + 92 * n in
      Some [ FWrite old (zeros lsz);
             FWrite (468 + new_size) (sub old lsz f);
             FWrite 92 (enc 8 (468 + new_size)) ]
  end.

(* _write_share_data(f, offset, data) *)
Definition mut_write_share_data_fops (f : file) (off : N) (data : list N) : option (list fop) :=
  let dl := mut_dl f in
  let len := flen data in
  if dl <=? off + len then
    match (if mut_elo f <? 468 + off + len
           then mut_change_container_fops f (off + len) else Some []) with
    | None => None
    | Some o1 =>
        Some (o1 ++ (if dl <? off then [FWrite (468 + dl) (zeros (off - dl))] else [])
                 ++ [FWrite 84 (enc 8 (off + len)); FWrite (468 + off) data])
    end
  else Some [FWrite (468 + off) data].

(* the write vectors of one writev, in order; false = an exception stopped it *)
Fixpoint mut_writev_fops (f : file) (datav : list (N * list N)) : list fop * bool :=
  match datav with
  | [] => ([], true)
  | (off, d) :: r =>
      match mut_write_share_data_fops f off d with
      | None => ([], false)
      | Some o =>
          let '(o2, ok) := mut_writev_fops (run_fops o f) r in (o ++ o2, ok)
      end
  end.

(* MutableShareFile.writev(datav, new_length) *)
Definition mut_writev_all_fops (f : file) (datav : list (N * list N)) (newlen : option N)
  : list fop * bool :=
  let '(o, ok) := mut_writev_fops f datav in
  if ok
  then (o ++ match newlen with
             | Some nl => if nl <? mut_dl (run_fops o f) then [FWrite 84 (enc 8 nl)] else []
             | None => []
             end, true)
  else (o, false).

(* mutable_schema._header for a new (v2) container *)
Definition mut_header (nodeid we : list N) : list N :=
  MAGIC2 ++ nodeid ++ we ++ enc 8 0 ++ enc 8 468 ++ zeros 368 ++ enc 4 0.

(* ======================================================= server operations *)
(* (sharenum, test vector, write vector, new_length) *)
Definition tw_entry := (N * list (N * N * list N) * list (N * list N) * option N)%type.
Definition tw_sh (e : tw_entry) : N := let '(sh, _, _, _) := e in sh.

(* BucketWriter._is_finished: the distinct byte ranges written so far (the
   RangeMap _already_written, all inside [0, size)) add up to the allocated
   size, i.e. their union is the whole share.  ranges are (offset, length). *)
Definition in_range (i : N) (r : N * N) : bool := (fst r <=? i) && (i <? fst r + snd r).
Definition covered (size : N) (ranges : list (N * N)) : bool :=
  forallb (fun i => existsb (in_range i) ranges) (map N.of_nat (seq 0 (N.to_nat size))).

(* `order` everywhere: the share numbers of the bucket in os.listdir order
   (the order in which the real code visits them) *)
Inductive sop :=
| ImmAllocate (si : N) (order shnums : list N) (size : N) (rec : list N) (renew : bool)
| ImmWrite (si sh size off : N) (data : list N)
| ImmClose (si sh : N)
| ImmAbort (si sh : N)
| ImmWriteHttp (si sh size : N) (prev : list (N * N)) (off : N) (data : list N)
| ImmCloseFailed (si sh : N)
| AddLease (si : N) (order : list N) (rec_imm rec_mut : list N)
| RenewLease (si : N) (order : list N) (hs : list N) (newexp : N)
| MutWritev (si : N) (order : list N) (nodeid we : list N) (tw : list tw_entry)
            (lease : option (list N)).

Definition step := state -> (list lop * bool).
Definition raise_ : list lop * bool := ([], false).

Fixpoint seq_steps (steps : list step) (s : state) : list lop :=
  match steps with
  | [] => []
  | st :: r =>
      let '(o, ok) := st s in
      if ok then o ++ seq_steps r (run_p (map fst o) s) else o
  end.

Definition exists_at (s : state) (p : path) : bool :=
  match s p with Some _ => true | None => false end.

Definition existing (s : state) (si : N) (order : list N) : list N :=
  filter (fun sh => exists_at s (Final si sh)) order.

Definition lift_flagged (p : path) (l : list (fop * bool)) : list lop :=
  map (fun x => (lift p (fst x), snd x)) l.

(* allocate_buckets: ShareFile(fn).add_or_renew_lease on an existing share *)
Definition imm_openable (f : file) : bool := (12 <=? flen f) && imm_version_ok f.

Definition imm_lease_step (p : path) (rec : list N) : step := fun s =>
  match s p with
  | None => ([], true)
  | Some f =>
      if imm_openable f                 (* ShareFile(fn) succeeded (checked for all shares first) *)
      then match imm_add_or_renew_fops f rec with
           | None => raise_
           | Some o => (lift_flagged p o, true)
           end
      else raise_
  end.

(* add_lease: _iter_share_files classifies the file by its first 32 bytes *)
Definition lease_step (p : path) (rec_imm rec_mut : list N) : step := fun s =>
  match s p with
  | None => ([], true)
  | Some f =>
      if mut_magic_ok f then
        match mut_add_or_renew_fops f rec_mut with
        | None => raise_
        | Some o => (unflagged (map (lift p) o), true)
        end
      else if flen (sub 0 4 f) <? 4 then raise_      (* struct.error in is_valid_header *)
      else if imm_version_ok f then
        if flen f <? 12 then raise_                    (* struct.error in ShareFile.__init__ *)
        else match imm_add_or_renew_fops f rec_imm with
             | None => raise_
             | Some o => (lift_flagged p o, true)
             end
      else ([], true)                                  (* "non-sharefile": skipped *)
  end.

(* renew_lease: sf.renew_lease raises IndexError when no lease matches *)
Definition renew_step (p : path) (hs : list N) (newexp : N) : step := fun s =>
  match s p with
  | None => ([], true)
  | Some f =>
      if mut_magic_ok f then
        match mut_renew_fops f hs newexp with
        | None => raise_
        | Some o => (unflagged (map (lift p) o), true)
        end
      else if flen (sub 0 4 f) <? 4 then raise_
      else if imm_version_ok f then
        if flen f <? 12 then raise_
        else match imm_renew_fops f hs newexp with
             | None => raise_
             | Some o => (unflagged (map (lift p) o), true)
             end
      else ([], true)
  end.

(* allocate_buckets: a BucketWriter for a share that exists neither in the
   final nor in the incoming directory *)
Definition alloc_step (si size : N) (rec : list N) (sh : N) : step := fun s =>
  if exists_at s (Final si sh) || exists_at s (Incoming si sh)
  then ([], true)
  else (unflagged (imm_create_ops (Incoming si sh) size rec), true).

Definition all_existing (s : state) (si : N) (l : list N) (pr : file -> bool) : bool :=
  forallb (fun sh => match s (Final si sh) with Some f => pr f | None => true end) l.

(* _evaluate_test_vectors for one share; a missing share reads as empty *)
Definition testv_ok (s : state) (si : N) (e : tw_entry) : bool :=
  let '(sh, testv, _, _) := e in
  match s (Final si sh) with
  | Some f => forallb (fun t => let '(off, len, spec) := t in
                                list_N_eqb (mut_read f off len) spec) testv
  | None => forallb (fun t => let '(_, _, spec) := t in list_N_eqb [] spec) testv
  end.

(* _evaluate_write_vectors for one share *)
Definition write_step (si : N) (nodeid we : list N) (e : tw_entry) : step := fun s =>
  let '(sh, _, datav, newlen) := e in
  let p := Final si sh in
  match newlen with
  | Some 0 =>
      ((if exists_at s p then unflagged [Unlink p] else []), true)
  | _ =>
      let hdr := mut_header nodeid we in
      let '(pre, f) := match s p with
                       | Some f => ([], f)
                       | None => ([Create p; WriteAt p 0 hdr], hdr)
                       end in
      let '(o, ok) := mut_writev_all_fops f datav newlen in
      (unflagged (pre ++ map (lift p) o), ok)
  end.

(* the lease renewal that follows the writes (renew_leases=True) *)
Definition mlease_step (si : N) (rec : list N) (e : tw_entry) : step := fun s =>
  let '(sh, _, _, newlen) := e in
  let p := Final si sh in
  match newlen with
  | Some 0 => ([], true)
  | _ =>
      match s p with
      | None => ([], true)
      | Some f =>
          match mut_add_or_renew_fops f rec with
          | None => raise_
          | Some o => (unflagged (map (lift p) o), true)
          end
      end
  end.

Definition mut_openable (we : list N) (f : file) : bool :=
  mut_magic_ok f && (100 <=? flen f) && list_N_eqb (mut_we f) we.

Definition ops_of (o : sop) (s : state) : list lop :=
  match o with
  | ImmAllocate si order shnums size rec renew =>
      let ex := existing s si order in
      if all_existing s si ex imm_openable
      then seq_steps ((if renew then map (fun sh => imm_lease_step (Final si sh) rec) ex else [])
                      ++ map (alloc_step si size rec) shnums) s
      else []
  | ImmWrite si sh size off data =>
      if off + flen data <=? size
      then [(WriteAt (Incoming si sh) (12 + off) data, false)] else []
  | ImmClose si sh => [(Rename (Incoming si sh) (Final si sh), false)]
  | ImmAbort si sh => [(Unlink (Incoming si sh), false)]
  | ImmCloseFailed si sh =>
      (* close() when rename(2) into the final place fails (incoming/ on another
         file system: EXDEV; any OSError): fileutil.rename retries and gives up,
         close() raises, no file is written; the share stays under incoming/ *)
      []
  | ImmWriteHttp si sh size prev off data =>
      (* HTTPServer.write_share_data: bucket.write(), and bucket.close() as soon
         as write() reports the upload finished; `prev` = ranges accepted before *)
      if off + flen data <=? size
      then (WriteAt (Incoming si sh) (12 + off) data, false)
           :: (if covered size ((off, flen data) :: prev)
               then [(Rename (Incoming si sh) (Final si sh), false)] else [])
      else []
  | AddLease si order rec_imm rec_mut =>
      seq_steps (map (fun sh => lease_step (Final si sh) rec_imm rec_mut) (existing s si order)) s
  | RenewLease si order hs newexp =>
      seq_steps (map (fun sh => renew_step (Final si sh) hs newexp) (existing s si order)) s
  | MutWritev si order nodeid we tw lease =>
      if all_existing s si (existing s si order) (mut_openable we)
         && forallb (testv_ok s si) tw
      then seq_steps (map (write_step si nodeid we) tw
                      ++ match lease with
                         | Some rec => map (mlease_step si rec) tw
                         | None => []
                         end) s
      else []
  end.

Definition plain_ops (o : sop) (s : state) : list pop := map fst (ops_of o s).

(* the paths an operation may write *)
Definition touched (o : sop) : list path :=
  match o with
  | ImmAllocate si order shnums _ _ _ => map (Final si) order ++ map (Incoming si) shnums
  | ImmWrite si sh _ _ _ => [Incoming si sh]
  | ImmClose si sh => [Incoming si sh; Final si sh]
  | ImmAbort si sh => [Incoming si sh]
  | ImmWriteHttp si sh _ _ _ _ => [Incoming si sh; Final si sh]
  | ImmCloseFailed _ _ => []
  | AddLease si order _ _ => map (Final si) order
  | RenewLease si order _ _ => map (Final si) order
  | MutWritev si _ _ _ tw _ => map (fun e => Final si (tw_sh e)) tw
  end.

(* operations that only add or renew leases on shares that exist
   (allocate_buckets in addition starts uploads under incoming/) *)
Definition lease_only (o : sop) : bool :=
  match o with
  | ImmAllocate _ _ _ _ _ _ | AddLease _ _ _ _ | RenewLease _ _ _ _ => true
  | _ => false
  end.

(* is a crash after the calls `pre` inside the immutable add_lease window? *)
Definition in_window {A} (pre : list (A * bool)) : bool :=
  match rev pre with
  | (_, true) :: _ => true
  | _ => false
  end.

Definition run_sops (l : list sop) (s : state) : state :=
  fold_left (fun s o => run_p (plain_ops o s) s) l s.

(* the low-level calls of a sequence of operations *)
Fixpoint sops_ops (l : list sop) (s : state) : list pop :=
  match l with
  | [] => []
  | o :: r => plain_ops o s ++ sops_ops r (run_p (plain_ops o s) s)
  end.

(* one whole immutable upload of a new share: allocate, writes, close *)
Definition upload_write_fops (size : N) (writes : list (N * list N)) : list fop :=
  flat_map (fun w => if fst w + flen (snd w) <=? size
                     then [FWrite (12 + fst w) (snd w)] else []) writes.

Definition upload_ops (si sh size : N) (rec : list N) (writes : list (N * list N)) : list pop :=
  Create (Incoming si sh)
  :: map (lift (Incoming si sh)) (imm_create_fops size rec ++ upload_write_fops size writes)
  ++ [Rename (Incoming si sh) (Final si sh)].

(* the same, as the server operations it consists of *)
Definition upload_sops (si sh size : N) (rec : list N) (writes : list (N * list N)) : list sop :=
  ImmAllocate si [] [sh] size rec true
  :: map (fun w => ImmWrite si sh size (fst w) (snd w)) writes
  ++ [ImmClose si sh].

(* the incoming file at the moment close() renames it *)
Definition file_at_close (size : N) (rec : list N) (writes : list (N * list N)) : file :=
  run_fops (imm_create_fops size rec ++ upload_write_fops size writes) [].

(* the same upload over the HTTP storage protocol: no explicit close; the
   bucket is closed by the write that completes the share, later writes are
   refused (the bucket is gone) *)
Fixpoint http_write_ops (si sh size : N) (prev : list (N * N)) (writes : list (N * list N))
  : list pop :=
  match writes with
  | [] => []
  | w :: r =>
      if fst w + flen (snd w) <=? size
      then WriteAt (Incoming si sh) (12 + fst w) (snd w)
           :: (if covered size ((fst w, flen (snd w)) :: prev)
               then [Rename (Incoming si sh) (Final si sh)]
               else http_write_ops si sh size ((fst w, flen (snd w)) :: prev) r)
      else http_write_ops si sh size prev r
  end.

Definition http_upload_ops (si sh size : N) (rec : list N) (writes : list (N * list N)) : list pop :=
  imm_create_ops (Incoming si sh) size rec ++ http_write_ops si sh size [] writes.

(* ... as the server operations it consists of (after the allocate) *)
Fixpoint http_sops (si sh size : N) (prev : list (N * N)) (writes : list (N * list N)) : list sop :=
  match writes with
  | [] => []
  | w :: r =>
      ImmWriteHttp si sh size prev (fst w) (snd w)
      :: (if fst w + flen (snd w) <=? size
          then (if covered size ((fst w, flen (snd w)) :: prev) then []
                else http_sops si sh size ((fst w, flen (snd w)) :: prev) r)
          else http_sops si sh size prev r)
  end.

(* accepted writes as ranges, most recent first *)
Definition write_ranges (size : N) (writes : list (N * list N)) : list (N * N) :=
  rev (flat_map (fun w => if fst w + flen (snd w) <=? size
                          then [(fst w, flen (snd w))] else []) writes).

(* what the uploader wrote, as share data *)
Definition written_data (size : N) (writes : list (N * list N)) : list N :=
  fold_left (fun d w => if fst w + flen (snd w) <=? size
                        then write_at d (fst w) (snd w) else d)
            writes (zeros size).

(* ================================================ what the public API shows *)
Inductive view :=
| VAbsent
| VBad                                               (* reading raises *)
| VImm (data : list N) (leases : list (list N))
| VMut (data : list N) (leases : option (list (list N))).  (* None: get_leases raises *)

Definition view_of (o : option file) : view :=
  match o with
  | None => VAbsent
  | Some f =>
      if mut_magic_ok f then
        (if flen f <? 100 then VBad else VMut (mut_data f) (mut_leases f))
      else if imm_wf f then VImm (imm_data f) (imm_leases f)
      else VBad
  end.

(* share data only *)
Definition data_of (o : option file) : option (list N) :=
  match view_of o with
  | VImm d _ => Some d
  | VMut d _ => Some d
  | _ => None
  end.

(* ---------------------------------------------------- decidable equalities *)
Fixpoint lists_eqb (a b : list (list N)) : bool :=
  match a, b with
  | [], [] => true
  | x :: a', y :: b' => list_N_eqb x y && lists_eqb a' b'
  | _, _ => false
  end.

Definition view_eqb (a b : view) : bool :=
  match a, b with
  | VAbsent, VAbsent => true
  | VBad, VBad => true
  | VImm d l, VImm d' l' => list_N_eqb d d' && lists_eqb l l'
  | VMut d (Some l), VMut d' (Some l') => list_N_eqb d d' && lists_eqb l l'
  | VMut d None, VMut d' None => list_N_eqb d d'
  | _, _ => false
  end.

Definition pop_eqb (a b : pop) : bool :=
  match a, b with
  | Create p, Create q => path_eqb p q
  | WriteAt p o bs, WriteAt q o' bs' => path_eqb p q && (o =? o') && list_N_eqb bs bs'
  | Truncate p n, Truncate q n' => path_eqb p q && (n =? n')
  | Rename a1 a2, Rename b1 b2 => path_eqb a1 b1 && path_eqb a2 b2
  | Unlink p, Unlink q => path_eqb p q
  | _, _ => false
  end.

Fixpoint pops_eqb (a b : list pop) : bool :=
  match a, b with
  | [], [] => true
  | x :: a', y :: b' => pop_eqb x y && pops_eqb a' b'
  | _, _ => false
  end.

(* ------------------------------------------ checks evaluated by the driver *)
(* the calls the real code issued for `o` after history `hist` *)
Definition check_ops (hist : list sop) (o : sop) (log : list pop) : bool :=
  pops_eqb (plain_ops o (run_sops hist empty_fs)) log.

(* the state the public API shows after a crash that let k calls complete,
   followed by a restart *)
Definition check_state (hist : list sop) (o : sop) (k : nat) (obs : list (path * view)) : bool :=
  let s := run_sops hist empty_fs in
  let s' := recover (run_p (firstn k (plain_ops o s)) s) in
  forallb (fun pv => view_eqb (view_of (s' (fst pv))) (snd pv)) obs.

(* is prefix k of `o` an add_lease window point? *)
Definition check_window (hist : list sop) (o : sop) (k : nat) : bool :=
  in_window (firstn k (ops_of o (run_sops hist empty_fs))).

Definition check_states (hist : list sop) (o : sop) (obs : list (nat * list (path * view))) : bool :=
  let s := run_sops hist empty_fs in
  let ops := plain_ops o s in
  forallb (fun kv =>
             let s' := recover (run_p (firstn (fst kv) ops) s) in
             forallb (fun pv => view_eqb (view_of (s' (fst pv))) (snd pv)) (snd kv)) obs.

(* ------------------------------------------- the add_lease refutation witness *)
(* A 5-byte immutable share ("hello") uploaded with one lease, then
   StorageServer.add_lease with a new secret.  The records are the bytes the
   real code writes for the driver's fixed secrets and clock (the driver replays
   this history on every run and compares). *)
Definition wit_rec0 : list N :=
  unhex "00000000d0f36d5582cfc24173a9c006878eb92e4628603073f73a7691bbf4e14e0d1989e8faf22fcfa7aff12cdba04ce1b662b72e6f32cdbc8662e4a4432ae94470bd96003820c0".
Definition wit_rec1 : list N :=
  unhex "000000017217e6fffc07a03c5075fa0047e95958e484353522df809cb3a3ff98db5f828da3d122c1c81bce6deb8606de94ba4aceafe012f0fc4985263e989030fb689cd5003820c0".
Definition wit_rec1m : list N :=
  unhex "00000001003820c07217e6fffc07a03c5075fa0047e95958e484353522df809cb3a3ff98db5f828da3d122c1c81bce6deb8606de94ba4aceafe012f0fc4985263e989030fb689cd51111111111111111111111111111111111111111".
Definition wit_hist : list sop :=
  [ ImmAllocate 0 [] [0] 5 wit_rec0 true;
    ImmWrite 0 0 5 0 (unhex "68656c6c6f");
    ImmClose 0 0 ].
Definition wit_op : sop := AddLease 0 [0] wit_rec1 wit_rec1m.
Definition wit_state : state := run_sops wit_hist empty_fs.

(* ------------------ mutable witnesses (share being written / lease-written) *)
(* synthetic 92-byte mutable lease records: owner 1, expiration 1000, renew
   secret = 32 bytes x, nodeid 17.. *)
Definition syn_rec (x : N) : list N :=
  enc 4 1 ++ enc 4 1000 ++ repeat x 32 ++ repeat 0 32 ++ repeat 17 20.
Definition syn_rec_imm (x : N) : list N :=
  enc 4 1 ++ repeat x 32 ++ repeat 0 32 ++ enc 4 1000.
Definition mw_nodeid : list N := repeat 17 20.
Definition mw_we : list N := repeat 224 32.
(* a 10-byte mutable share with six leases (four header slots + two extra) *)
Definition mw_hist : list sop :=
  [ MutWritev 2 [] mw_nodeid mw_we [(0, [], [(0, repeat 120 10)], None)] (Some (syn_rec 1));
    AddLease 2 [0] (syn_rec_imm 2) (syn_rec 2);
    AddLease 2 [0] (syn_rec_imm 3) (syn_rec 3);
    AddLease 2 [0] (syn_rec_imm 4) (syn_rec 4);
    AddLease 2 [0] (syn_rec_imm 5) (syn_rec 5);
    AddLease 2 [0] (syn_rec_imm 6) (syn_rec 6) ].
Definition mw_state : state := run_sops mw_hist empty_fs.
(* a write past the container end: _change_container_size moves the extra leases *)
Definition mw_grow : sop :=
  MutWritev 2 [0] mw_nodeid mw_we [(0, [], [(30, repeat 122 5)], None)] None.
(* a seventh lease: a new extra-lease slot (count first, then the record) *)
Definition mw_add7 : sop := AddLease 2 [0] (syn_rec_imm 7) (syn_rec 7).

Definition mut_view_after (o : sop) (k : nat) : view :=
  view_of (recover (run_p (firstn k (plain_ops o mw_state)) mw_state) (Final 2 0)).

Definition lease_count (v : view) : option nat :=
  match v with
  | VMut _ (Some l) => Some (length l)
  | VImm _ l => Some (length l)
  | _ => None
  end.

(* -------- evaluation aid for the driver: states as finite tables ----------
   The driver's workloads only name storage indexes 0..3 and share numbers 0..3.
   A state restricted to that universe is a finite table; the driver names the
   table after each operation once (`Eval vm_compute`) instead of re-running the
   whole history inside every case term. *)
Definition universe : list path :=
  flat_map (fun si => flat_map (fun sh => [Incoming si sh; Final si sh]) [0; 1; 2; 3]) [0; 1; 2; 3].

Definition snap (s : state) : list (path * file) :=
  flat_map (fun p => match s p with Some f => [(p, f)] | None => [] end) universe.

Fixpoint lookup_path (l : list (path * file)) (q : path) : option file :=
  match l with
  | [] => None
  | (p, f) :: r => if path_eqb q p then Some f else lookup_path r q
  end.

Definition state_of_table (l : list (path * file)) : state := lookup_path l.

(* the table after operation o in state s *)
Definition step_table (s : state) (o : sop) : list (path * file) :=
  snap (run_p (plain_ops o s) s).

Definition check_ops_at (s : state) (o : sop) (log : list pop) : bool :=
  pops_eqb (plain_ops o s) log.

Definition check_states_at (s : state) (o : sop) (obs : list (nat * list (path * view))) : bool :=
  let ops := plain_ops o s in
  forallb (fun kv =>
             let s' := recover (run_p (firstn (fst kv) ops) s) in
             forallb (fun pv => view_eqb (view_of (s' (fst pv))) (snd pv)) (snd kv)) obs.

Definition check_state_at (s : state) (o : sop) (k : nat) (obs : list (path * view)) : bool :=
  check_states_at s o [(k, obs)].

Definition check_window_at (s : state) (o : sop) (k : nat) : bool :=
  in_window (firstn k (ops_of o s)).
