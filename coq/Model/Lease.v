(* Model of the lease code: storage/lease.py (LeaseInfo, HashedLeaseInfo),
   lease_schema.py (CleartextLeaseSerializer = v1, HashedLeaseSerializer = v2),
   immutable.py (ShareFile lease methods), mutable.py (MutableShareFile lease
   methods), server.py (_make_lease_info, add_lease, renew_lease,
   _add_or_renew_leases), all on the bytes of the container files.
   Definitions only; proofs in Proofs/Lease*.v.

   blake2b (nacl.hash.blake2b, digest_size 32) is the section variable `H`;
   nothing is assumed about it here.  `timing_safe_compare` is equality.
   Expiration times are integers (the harness clock is integral; the real code
   stores `int(expiration_time)`).  cancel_lease (mutable) is not reachable from the client
   protocols but is used by the lease-expiry crawler; it blanks slots in place,
   so unused slots (owner 0) may sit between used ones: enumeration skips them,
   add_lease reuses the first one. *)
From Coq Require Import List NArith Bool.
From Verif Require Import Lib.Hex Gen.MutConsts Model.MutContainer.
Import ListNotations.
Local Open Scope N_scope.

Record lease := mkLease {
  l_owner : N; l_renew : list N; l_cancel : list N; l_expire : N; l_nodeid : list N }.

Definition set_expire (l : lease) (t : N) : lease :=
  mkLease (l_owner l) (l_renew l) (l_cancel l) t (l_nodeid l).

Definition lease_eqb (a b : lease) : bool :=
  (l_owner a =? l_owner b) && list_N_eqb (l_renew a) (l_renew b) && list_N_eqb (l_cancel a) (l_cancel b)
  && (l_expire a =? l_expire b) && list_N_eqb (l_nodeid a) (l_nodeid b).

(* LeaseInfo.to_mutable_data / from_mutable_data: >LL32s32s20s *)
Definition ser_mutable (l : lease) : res (list N) :=
  match pack_be 4 (l_owner l), pack_be 4 (l_expire l) with
  | Ok o, Ok e => Ok (o ++ e ++ fit 32 (l_renew l) ++ fit 32 (l_cancel l) ++ fit 20 (l_nodeid l))
  | _, _ => Err EStruct
  end.

Definition unser_mutable (r : list N) : res lease :=
  if Nat.eqb (length r) 92 then
    Ok (mkLease (unbe (pread r 0 4)) (pread r 8 32) (pread r 40 32) (unbe (pread r 4 4)) (pread r 72 20))
  else Err EStruct.

(* LeaseInfo.to_immutable_data / from_immutable_data: >L32s32sL (no nodeid) *)
Definition ser_immutable (l : lease) : res (list N) :=
  match pack_be 4 (l_owner l), pack_be 4 (l_expire l) with
  | Ok o, Ok e => Ok (o ++ fit 32 (l_renew l) ++ fit 32 (l_cancel l) ++ e)
  | _, _ => Err EStruct
  end.

Definition unser_immutable (r : list N) : res lease :=
  if Nat.eqb (length r) 72 then
    Ok (mkLease (unbe (pread r 0 4)) (pread r 4 32) (pread r 36 32) (unbe (pread r 68 4)) [])
  else Err EStruct.

(* a lease record whose fields fit the mutable record format exactly *)
Record lease_wf (l : lease) : Prop := {
  lw_owner : l_owner l < 2 ^ 32; lw_expire : l_expire l < 2 ^ 32;
  lw_renew : length (l_renew l) = 32%nat; lw_cancel : length (l_cancel l) = 32%nat;
  lw_nodeid : length (l_nodeid l) = 20%nat }.

(* same lease up to the expiry *)
Definition same_lease (a b : lease) : Prop := b = set_expire a (l_expire b).

(* slot by slot, every lease of E is still there in E', with an expiry that is not earlier *)
Definition never_shorter {A} (E E' : list (A * lease)) : Prop :=
  forall i l, In (i, l) E -> exists l', In (i, l') E' /\ same_lease l l' /\ l_expire l <= l_expire l'.

(* the same for the lease list of an immutable share (position = lease number) *)
Definition never_shorter_list (ls ls' : list lease) : Prop :=
  forall k l, nth_error ls k = Some l ->
    exists l', nth_error ls' k = Some l' /\ same_lease l l' /\ l_expire l <= l_expire l'.

Section WithHash.
Variable H : list N -> list N.     (* HashedLeaseSerializer._hash_secret *)

(* HashedLeaseSerializer._hash_lease_info *)
Definition hash_lease (l : lease) : lease :=
  mkLease (l_owner l) (H (l_renew l)) (H (l_cancel l)) (l_expire l) (l_nodeid l).

(* what a client-supplied (cleartext) LeaseInfo looks like once stored *)
Definition stored_form (v : version) (l : lease) : lease :=
  match v with V1 => l | V2 => hash_lease l end.

(* lease.is_renew_secret on a lease read back from a container of version v *)
Definition is_renew_secret (v : version) (stored : lease) (candidate : list N) : bool :=
  list_N_eqb (l_renew stored) (match v with V1 => candidate | V2 => H candidate end).

(* ---- what the property says a renewal does to one lease (used in the statements) ---- *)
Definition renewed (l : lease) (t : N) : lease := if l_expire l <? t then set_expire l t else l.

(* the first lease of an enumeration that answers to the secret *)
Definition first_match {A} (v : version) (ls : list (A * lease)) (secret : list N) : option (A * lease) :=
  find (fun il => is_renew_secret v (snd il) secret) ls.

Definition no_match (v : version) (ls : list lease) (secret : list N) : bool :=
  forallb (fun l => negb (is_renew_secret v l secret)) ls.

(* the list of leases after add_or_renew with a known secret: the first lease answering to
   the secret is renewed in place, nothing is added; None: no lease answers *)
Fixpoint renew_first (v : version) (ls : list lease) (s : list N) (t : N) : option (list lease) :=
  match ls with
  | [] => None
  | l :: r => if is_renew_secret v l s then Some (renewed l t :: r)
              else option_map (cons l) (renew_first v r s t)
  end.

(* ================= mutable containers ================================================= *)

(* _read_lease_record: None = empty slot (owner 0) *)
Definition read_lease_record (f : file) (i : N) : res (option lease) :=
  match read_lease_raw f i with
  | Err e => Err e
  | Ok r => match unser_mutable r with
            | Err e => Err e
            | Ok l => Ok (if l_owner l =? 0 then None else Some l)
            end
  end.

(* _write_lease_record: `rec` is the value of lease_serializer.serialize(lease_info),
   evaluated after the extra-lease count has been bumped *)
Definition write_lease_record (f : file) (i : N) (rec : res (list N)) : outcome :=
  match read_extra_lease_offset f with
  | Err e => Raised f e
  | Ok elo =>
  match read_num_extra_leases f with
  | Err e => Raised f e
  | Ok n =>
      let put (g : file) (off : N) : outcome :=
        match rec with Ok b => Done (pwrite g off b) | Err e => Raised g e end in
      if i <? NUM_HEADER_LEASE_SLOTS then put f (HEADER_SIZE + i * LEASE_SIZE)
      else if i - NUM_HEADER_LEASE_SLOTS <? n then put f (elo + 4 + (i - NUM_HEADER_LEASE_SLOTS) * LEASE_SIZE)
      else obind (write_num_extra_leases f (n + 1))
                 (fun g => put g (elo + 4 + (i - NUM_HEADER_LEASE_SLOTS) * LEASE_SIZE))
  end end.

(* _get_first_empty_lease_slot *)
Fixpoint first_empty_slot (f : file) (slots : list N) : res (option N) :=
  match slots with
  | [] => Ok None
  | i :: r => match read_lease_record f i with
              | Err e => Err e
              | Ok None => Ok (Some i)
              | Ok (Some _) => first_empty_slot f r
              end
  end.

(* _enumerate_leases *)
Fixpoint enumerate_leases (f : file) (slots : list N) : res (list (N * lease)) :=
  match slots with
  | [] => Ok []
  | i :: r => match read_lease_record f i with
              | Err EIndex => Ok []
              | Err e => Err e
              | Ok x => match enumerate_leases f r with
                        | Err e => Err e
                        | Ok ls => Ok (match x with Some l => (i, l) :: ls | None => ls end)
                        end
              end
  end.

Definition mut_enumerate (f : file) : res (list (N * lease)) :=
  match num_lease_slots f with Err e => Err e | Ok k => enumerate_leases f (nseq k) end.

Definition mut_get_leases (f : file) : res (list lease) :=
  match mut_enumerate f with Err e => Err e | Ok ls => Ok (map snd ls) end.

Definition mut_add_lease (v : version) (f : file) (avail : N) (li : lease) : outcome :=
  if l_owner li =? 0 then Raised f EAssert else
  match num_lease_slots f with
  | Err e => Raised f e
  | Ok k =>
      match first_empty_slot f (nseq k) with
      | Err e => Raised f e
      | Ok (Some i) => write_lease_record f i (ser_mutable (stored_form v li))
      | Ok None =>
          if avail <? LEASE_SIZE then Raised f ENoSpace
          else write_lease_record f k (ser_mutable (stored_form v li))
      end
  end.

Fixpoint renew_scan (v : version) (f : file) (ls : list (N * lease)) (secret : list N) (t : N) : outcome :=
  match ls with
  | [] => Raised f EIndex
  | (i, l) :: r =>
      if is_renew_secret v l secret then
        if l_expire l <? t then write_lease_record f i (ser_mutable (set_expire l t)) else Done f
      else renew_scan v f r secret t
  end.

(* renew_lease(renew_secret, new_expire_time, allow_backdate=False) *)
Definition mut_renew_lease (v : version) (f : file) (secret : list N) (t : N) : outcome :=
  match mut_enumerate f with
  | Err e => Raised f e
  | Ok ls => renew_scan v f ls secret t
  end.

Definition mut_add_or_renew (v : version) (f : file) (avail : N) (li : lease) : outcome :=
  if l_owner li =? 0 then Raised f EAssert else
  match mut_renew_lease v f (l_renew li) (l_expire li) with
  | Raised _ EIndex => mut_add_lease v f avail li
  | o => o
  end.

(* cancel_lease: not reachable from the client protocols, used by the lease-expiry crawler.
   Every lease answering to the cancel secret is overwritten IN PLACE by a blank record
   (owner 0; _pack_leases is a no-op), so later slots keep their numbers and an unused slot
   may sit between used ones.  When no lease remains the share file is unlinked (None). *)
Definition is_cancel_secret (v : version) (stored : lease) (candidate : list N) : bool :=
  list_N_eqb (l_cancel stored) (match v with V1 => candidate | V2 => H candidate end).

Definition blank_lease : lease := mkLease 0 (zeros 32) (zeros 32) 0 (zeros 20).

Fixpoint cancel_scan (v : version) (f : file) (ls : list (N * lease)) (cs : list N) (modified remaining : N)
  : outcome * N * N :=
  match ls with
  | [] => (Done f, modified, remaining)
  | (i, l) :: r =>
      if is_cancel_secret v l cs then
        match write_lease_record f i (ser_mutable (stored_form v blank_lease)) with
        | Done f' => cancel_scan v f' r cs (modified + 1) remaining
        | Raised f' e => (Raised f' e, modified, remaining)
        end
      else cancel_scan v f r cs modified (remaining + 1)
  end.

Definition mut_cancel_lease (v : version) (f : file) (cs : list N) : option file * option err :=
  match mut_enumerate f with
  | Err e => (Some f, Some e)
  | Ok ls =>
      match cancel_scan v f ls cs 0 0 with
      | (Raised f' e, _, _) => (Some f', Some e)
      | (Done f', modified, remaining) =>
          if modified =? 0 then (Some f', Some EIndex)
          else if remaining =? 0 then (None, None)
          else (Some f', None)
      end
  end.

Definition mutfile_cancel (f : file) (cs : list N) : option file * option err :=
  match open_container f with Err e => (Some f, Some e) | Ok v => mut_cancel_lease v f cs end.

(* the version is read from the container's own header on every open *)
Definition mutfile_add_or_renew (f : file) (avail : N) (li : lease) : outcome :=
  match open_container f with Err e => Raised f e | Ok v => mut_add_or_renew v f avail li end.
Definition mutfile_renew (f : file) (secret : list N) (t : N) : outcome :=
  match open_container f with Err e => Raised f e | Ok v => mut_renew_lease v f secret t end.
Definition mutfile_add (f : file) (avail : N) (li : lease) : outcome :=
  match open_container f with Err e => Raised f e | Ok v => mut_add_lease v f avail li end.

(* ================= immutable share files ============================================== *)
(* header: version (4), legacy data length (4), lease count (4); data; 72-byte leases *)

Definition imm_version_of (n : N) : option version :=
  if n =? 2 then Some V2 else if n =? 1 then Some V1 else None.
Definition imm_version_num (v : version) : N := match v with V1 => 1 | V2 => 2 end.

(* immutable_schema._Schema.header / ShareFile(create=True) *)
Definition imm_header (v : version) (max_size : N) : file :=
  be 4 (imm_version_num v) ++ be 4 (N.min (2 ^ 32 - 1) max_size) ++ be 4 0.

(* ShareFile.__init__(create=False): (schema, lease offset) *)
Definition imm_open (f : file) : res (version * N) :=
  let h := pread f 0 12 in
  if Nat.eqb (length h) 12 then
    match imm_version_of (unbe (pread h 0 4)) with
    | None => Err EUnknownVersion
    | Some v => Ok (v, len f - unbe (pread h 8 4) * IMM_LEASE_SIZE)
    end
  else Err EStruct.

Definition imm_read_num_leases (f : file) : res N := unpack_be 4 (pread f 8 4).

Fixpoint imm_read_leases (f : file) (lo : N) (idx : list N) : res (list lease) :=
  match idx with
  | [] => Ok []
  | i :: r =>
      let data := pread f (lo + i * IMM_LEASE_SIZE) IMM_LEASE_SIZE in
      match data with
      | [] => imm_read_leases f lo r            (* `if data:` *)
      | _ => match unser_immutable data with
             | Err e => Err e
             | Ok l => match imm_read_leases f lo r with Err e => Err e | Ok ls => Ok (l :: ls) end
             end
      end
  end.

(* get_leases: the count comes from the header of the file as it is now *)
Definition imm_get_leases (f : file) (lo : N) : res (list lease) :=
  let h := pread f 0 12 in
  if Nat.eqb (length h) 12 then imm_read_leases f lo (nseq (unbe (pread h 8 4))) else Err EStruct.

Definition imm_write_lease_record (f : file) (lo i : N) (rec : res (list N)) : outcome :=
  match rec with Ok b => Done (pwrite f (lo + i * IMM_LEASE_SIZE) b) | Err e => Raised f e end.

Definition imm_add_lease (v : version) (f : file) (lo : N) (li : lease) : outcome :=
  match imm_read_num_leases f with
  | Err e => Raised f e
  | Ok n =>
      match pack_be 4 (n + 1) with
      | Err e => Raised f e
      | Ok cnt =>
          obind (imm_write_lease_record f lo n (ser_immutable (stored_form v li)))
                (fun g => Done (pwrite g 8 cnt))
      end
  end.

Fixpoint imm_renew_scan (v : version) (f : file) (lo : N) (i : N) (ls : list lease) (secret : list N) (t : N) : outcome :=
  match ls with
  | [] => Raised f EIndex
  | l :: r =>
      if is_renew_secret v l secret then
        if l_expire l <? t then imm_write_lease_record f lo i (ser_immutable (set_expire l t)) else Done f
      else imm_renew_scan v f lo (i + 1) r secret t
  end.

Definition imm_renew_lease (v : version) (f : file) (lo : N) (secret : list N) (t : N) : outcome :=
  match imm_get_leases f lo with
  | Err e => Raised f e
  | Ok ls => imm_renew_scan v f lo 0 ls secret t
  end.

Definition imm_add_or_renew (v : version) (f : file) (lo : N) (avail : N) (li : lease) : outcome :=
  match imm_renew_lease v f lo (l_renew li) (l_expire li) with
  | Raised _ EIndex => if avail <? IMM_LEASE_SIZE then Raised f ENoSpace else imm_add_lease v f lo li
  | o => o
  end.

(* a fresh ShareFile(filename) per call, as server.py _iter_share_files does *)
Definition immfile_add_or_renew (f : file) (avail : N) (li : lease) : outcome :=
  match imm_open f with Err e => Raised f e | Ok (v, lo) => imm_add_or_renew v f lo avail li end.
Definition immfile_renew (f : file) (secret : list N) (t : N) : outcome :=
  match imm_open f with Err e => Raised f e | Ok (v, lo) => imm_renew_lease v f lo secret t end.
Definition immfile_add (f : file) (li : lease) : outcome :=
  match imm_open f with Err e => Raised f e | Ok (v, lo) => imm_add_lease v f lo li end.
Definition immfile_get_leases (f : file) : res (list lease) :=
  match imm_open f with Err e => Err e | Ok (_, lo) => imm_get_leases f lo end.

(* layout invariant of an immutable share file, executable *)
Definition imm_layout_ok (f : file) : bool :=
  match imm_open f, imm_read_num_leases f with
  | Ok _, Ok n => 12 + n * IMM_LEASE_SIZE <=? len f
  | _, _ => false
  end.

Definition imm_data (f : file) : list N :=
  match imm_read_num_leases f with
  | Ok n => pread f 12 (len f - 12 - n * IMM_LEASE_SIZE)
  | Err _ => []
  end.

(* ================= server.py ============================================================ *)
(* _make_lease_info / add_lease: owner 1, expiry now + 31 days, this server's nodeid *)
Definition make_lease_info (nodeid renew cancel : list N) (now : N) : lease :=
  mkLease 1 renew cancel (now + DEFAULT_RENEWAL_TIME) nodeid.

(* _iter_share_files sniffs each file: mutable magic first, then immutable version *)
Inductive kind := KMutable | KImmutable | KOther.
Definition sniff (f : file) : kind :=
  match schema_of_header (pread f 0 32) with
  | Some _ => KMutable
  | None => match imm_version_of (unbe (pread (pread f 0 32) 0 4)) with
            | Some _ => if Nat.leb 4 (length f) then KImmutable else KOther
            | None => KOther
            end
  end.

Definition sharefile_add_or_renew (f : file) (avail : N) (li : lease) : outcome :=
  match sniff f with
  | KMutable => mutfile_add_or_renew f avail li
  | KImmutable => immfile_add_or_renew f avail li
  | KOther => Done f
  end.

Definition sharefile_renew (f : file) (secret : list N) (t : N) : outcome :=
  match sniff f with
  | KMutable => mutfile_renew f secret t
  | KImmutable => immfile_renew f secret t
  | KOther => Done f
  end.

End WithHash.
