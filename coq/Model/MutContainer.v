(* Model of src/allmydata/storage/mutable.py (MutableShareFile, EmptyShare,
   testv_compare) and mutable_schema.py (_header) at the level of the bytes of
   the container file.  Definitions only; proofs are in Proofs/MutContainer*.v.

   A file is the list of its bytes.  `pread`/`pwrite` are seek+read / seek+write
   on a regular file: a read stops at end of file, a non-empty write past the end
   leaves a hole that reads as zeros, an empty write changes nothing.

   Exceptions are values of `err`.  A mutator returns an `outcome`: the file as
   it is on disk when the call returns (`Done`) or when the exception leaves the
   function (`Raised`), because the real code writes through as it goes.

   Out of the model (stated, not silently totalised): negative offsets / lengths
   (Python `precondition(offset >= 0)` raises AssertionError; offsets here are
   N), test operators other than b"eq" (testv_compare asserts), I/O errors.
   `timing_safe_compare` is modelled as equality of the byte strings. *)
From Coq Require Import List NArith Bool.
From Verif Require Import Lib.Hex Gen.MutConsts.
Import ListNotations.
Local Open Scope N_scope.

Inductive err :=
| EDataTooLarge | EStruct | EAssert | EBadWriteEnabler | EIndex | ENoSpace | EUnknownVersion.

Inductive res (A : Type) := Ok (a : A) | Err (e : err).
Arguments Ok {A} a.
Arguments Err {A} e.

Definition err_eqb (a b : err) : bool :=
  match a, b with
  | EDataTooLarge, EDataTooLarge | EStruct, EStruct | EAssert, EAssert
  | EBadWriteEnabler, EBadWriteEnabler | EIndex, EIndex | ENoSpace, ENoSpace
  | EUnknownVersion, EUnknownVersion => true
  | _, _ => false
  end.

Definition file := list N.

Inductive outcome := Done (f : file) | Raised (f : file) (e : err).

Definition obind (o : outcome) (k : file -> outcome) : outcome :=
  match o with Done f => k f | Raised f e => Raised f e end.

Definition out_file (o : outcome) : file := match o with Done f => f | Raised f _ => f end.
Definition out_err (o : outcome) : option err := match o with Done _ => None | Raised _ e => Some e end.

(* ---- bytes ------------------------------------------------------------------ *)
Definition len (l : list N) : N := N.of_nat (length l).
Definition zeros (n : N) : list N := repeat 0 (N.to_nat n).

Definition pread (f : file) (off n : N) : list N :=
  firstn (N.to_nat n) (skipn (N.to_nat off) f).

Definition pwrite (f : file) (off : N) (d : list N) : file :=
  match d with
  | [] => f
  | _ => let o := N.to_nat off in
         firstn o f ++ repeat 0 (o - length f) ++ d ++ skipn (o + length d) f
  end.

(* struct.pack(">L"/">Q") / struct.unpack *)
Fixpoint be (n : nat) (v : N) : list N :=
  match n with O => [] | S k => be k (v / 256) ++ [v mod 256] end.
Definition unbe (l : list N) : N := fold_left (fun acc b => acc * 256 + b) l 0.

Definition pack_be (n : nat) (v : N) : res (list N) :=
  if v <? 256 ^ N.of_nat n then Ok (be n v) else Err EStruct.
Definition unpack_be (n : nat) (l : list N) : res N :=
  if Nat.eqb (length l) n then Ok (unbe l) else Err EStruct.

(* struct "<n>s": pad with NULs or truncate *)
Definition fit (n : nat) (s : list N) : list N := firstn n s ++ repeat 0 (n - length s).

(* ---- header fields ------------------------------------------------------------ *)
Definition read_data_length (f : file) : res N := unpack_be 8 (pread f DATA_LENGTH_OFFSET 8).
Definition read_extra_lease_offset (f : file) : res N := unpack_be 8 (pread f EXTRA_LEASE_OFFSET_POS 8).

Definition write_data_length (f : file) (v : N) : outcome :=
  match pack_be 8 v with Ok b => Done (pwrite f DATA_LENGTH_OFFSET b) | Err e => Raised f e end.
Definition write_extra_lease_offset (f : file) (v : N) : outcome :=
  match pack_be 8 v with Ok b => Done (pwrite f EXTRA_LEASE_OFFSET_POS b) | Err e => Raised f e end.

Definition read_num_extra_leases (f : file) : res N :=
  match read_extra_lease_offset f with
  | Err e => Err e
  | Ok elo => unpack_be 4 (pread f elo 4)
  end.

Definition write_num_extra_leases (f : file) (n : N) : outcome :=
  match read_extra_lease_offset f with
  | Err e => Raised f e
  | Ok elo => match pack_be 4 n with Ok b => Done (pwrite f elo b) | Err e => Raised f e end
  end.

(* schema_from_header: which magic the file starts with *)
Inductive version := V1 | V2.
Definition version_eqb (a b : version) : bool :=
  match a, b with V1, V1 | V2, V2 => true | _, _ => false end.
Definition magic_of (v : version) : list N := match v with V1 => MAGIC_V1 | V2 => MAGIC_V2 end.

Definition schema_of_header (h : list N) : option version :=
  if list_N_eqb (firstn 32 h) MAGIC_V2 then Some V2
  else if list_N_eqb (firstn 32 h) MAGIC_V1 then Some V1 else None.

(* MutableShareFile.__init__ on an existing file *)
Definition open_container (f : file) : res version :=
  match schema_of_header (pread f 0 HEADER_SIZE) with
  | Some v => Ok v
  | None => Err EUnknownVersion
  end.

(* mutable_schema._header / MutableShareFile.create *)
Definition mut_header (v : version) (nodeid write_enabler : list N) : file :=
  fit 32 (magic_of v) ++ fit 20 nodeid ++ fit 32 write_enabler ++ be 8 0 ++ be 8 INITIAL_EXTRA_LEASE_OFFSET
  ++ zeros (LEASE_SIZE * NUM_HEADER_LEASE_SLOTS) ++ be 4 0.

(* ---- data region --------------------------------------------------------------- *)
Definition read_share_data (f : file) (off length : N) : res (list N) :=
  match read_data_length f with
  | Err e => Err e
  | Ok dl =>
      let length' := if dl <? off + length then dl - off (* max(0, data_length-offset) *) else length in
      if length' =? 0 then Ok [] else Ok (pread f (DATA_OFFSET + off) length')
  end.

Definition change_container_size (maxsz : N) (f : file) (new_size : N) : outcome :=
  if maxsz <? new_size then Raised f EDataTooLarge else
  match read_extra_lease_offset f with
  | Err e => Raised f e
  | Ok old =>
      let new := DATA_OFFSET + new_size in
      if new <? old then Done f else
      match read_num_extra_leases f with
      | Err e => Raised f e
      | Ok n =>
          let lsz := 4 + n * LEASE_SIZE in
          let eld := pread f old lsz in
          let f1 := pwrite f old (zeros lsz) in
          let f2 := pwrite f1 new eld in
          write_extra_lease_offset f2 new
      end
  end.

Definition write_share_data (maxsz : N) (f : file) (off : N) (data : list N) : outcome :=
  let length := len data in
  match read_data_length f with
  | Err e => Raised f e
  | Ok dl =>
  match read_extra_lease_offset f with
  | Err e => Raised f e
  | Ok elo =>
      obind
        (if dl <=? off + length then
           obind (if elo <? DATA_OFFSET + off + length
                  then change_container_size maxsz f (off + length) else Done f)
             (fun f1 =>
                match read_extra_lease_offset f1 with
                | Err e => Raised f1 e
                | Ok elo1 =>
                    if elo1 <? DATA_OFFSET + off + length then Raised f1 EAssert else
                    let f2 := if dl <? off then pwrite f1 (DATA_OFFSET + dl) (zeros (off - dl)) else f1 in
                    write_data_length f2 (off + length)
                end)
         else Done f)
        (fun f3 => Done (pwrite f3 (DATA_OFFSET + off) data))
  end end.

Definition datav := list (N * list N).
Definition testv := list (N * N * list N).      (* (offset, length, specimen), operator b"eq" *)
Definition readvec := list (N * N).

Fixpoint write_vectors (maxsz : N) (f : file) (dv : datav) : outcome :=
  match dv with
  | [] => Done f
  | (off, d) :: r => obind (write_share_data maxsz f off d) (fun f' => write_vectors maxsz f' r)
  end.

Definition writev (maxsz : N) (f : file) (dv : datav) (new_length : option N) : outcome :=
  obind (write_vectors maxsz f dv) (fun f1 =>
    match new_length with
    | None => Done f1
    | Some n =>
        match read_data_length f1 with
        | Err e => Raised f1 e
        | Ok cur => if n <? cur then write_data_length f1 n else Done f1
        end
    end).

Fixpoint readv (f : file) (rv : readvec) : res (list (list N)) :=
  match rv with
  | [] => Ok []
  | (off, n) :: r =>
      match read_share_data f off n with
      | Err e => Err e
      | Ok d => match readv f r with Err e => Err e | Ok ds => Ok (d :: ds) end
      end
  end.

Fixpoint check_testv (f : file) (tv : testv) : res bool :=
  match tv with
  | [] => Ok true
  | (off, n, specimen) :: r =>
      match read_share_data f off n with
      | Err e => Err e
      | Ok d => if list_N_eqb d specimen then check_testv f r else Ok false
      end
  end.

(* EmptyShare.check_testv: every read returns b"" *)
Fixpoint empty_check_testv (tv : testv) : bool :=
  match tv with
  | [] => true
  | (_, _, specimen) :: r => if list_N_eqb [] specimen then empty_check_testv r else false
  end.

(* _read_write_enabler_and_nodeid / check_write_enabler *)
Definition read_write_enabler (f : file) : res (list N) :=
  let h := pread f 0 HEADER_SIZE in
  if Nat.eqb (length h) (N.to_nat HEADER_SIZE) then
    match schema_of_header h with
    | Some _ => Ok (pread h 52 32)
    | None => Err EAssert
    end
  else Err EStruct.

Definition check_write_enabler (f : file) (we : list N) : res unit :=
  match read_write_enabler f with
  | Err e => Err e
  | Ok real => if list_N_eqb we real then Ok tt else Err EBadWriteEnabler
  end.

(* ---- raw lease area (used by C23: data writes never touch it; parsed in Model/Lease.v) ---- *)
Definition lease_record_offset (f : file) (i : N) : res N :=
  match read_extra_lease_offset f with
  | Err e => Err e
  | Ok elo =>
      match read_num_extra_leases f with
      | Err e => Err e
      | Ok n =>
          if i <? NUM_HEADER_LEASE_SLOTS then Ok (HEADER_SIZE + i * LEASE_SIZE)
          else if i - NUM_HEADER_LEASE_SLOTS <? n then Ok (elo + 4 + (i - NUM_HEADER_LEASE_SLOTS) * LEASE_SIZE)
          else Err EIndex
      end
  end.

Definition read_lease_raw (f : file) (i : N) : res (list N) :=
  match lease_record_offset f i with
  | Err e => Err e
  | Ok off => Ok (pread f off LEASE_SIZE)
  end.

Definition num_lease_slots (f : file) : res N :=
  match read_num_extra_leases f with Err e => Err e | Ok n => Ok (NUM_HEADER_LEASE_SLOTS + n) end.

Fixpoint collect_res {A} (l : list (res A)) : res (list A) :=
  match l with
  | [] => Ok []
  | Ok a :: r => match collect_res r with Ok rs => Ok (a :: rs) | Err e => Err e end
  | Err e :: _ => Err e
  end.

Definition nseq (n : N) : list N := map N.of_nat (seq 0 (N.to_nat n)).

Definition raw_lease_records (f : file) : res (list (list N)) :=
  match num_lease_slots f with
  | Err e => Err e
  | Ok k => collect_res (map (read_lease_raw f) (nseq k))
  end.

(* ---- abstraction and layout invariant (Appendix A.5), both executable ------------- *)
Definition abs_data (f : file) : res (list N) :=
  match read_data_length f with Err e => Err e | Ok dl => Ok (pread f DATA_OFFSET dl) end.

Definition layout_ok (maxsz : N) (f : file) : bool :=
  match open_container f, read_data_length f, read_extra_lease_offset f, read_num_extra_leases f with
  | Ok _, Ok dl, Ok elo, Ok n =>
      (DATA_OFFSET + dl <=? elo) && (elo <=? DATA_OFFSET + maxsz) && (len f =? elo + 4 + n * LEASE_SIZE)
  | _, _, _, _ => false
  end.

(* every element is a byte (needed where a field read from disk is packed again) *)
Definition bytes_ok (l : list N) : Prop := Forall (fun b => b < 256) l.
Definition bytes_okb (l : list N) : bool := forallb (fun b => b <? 256) l.

(* ---- the reference: a growable byte array of bounded size ------------------------- *)
Definition ref_read (d : list N) (off n : N) : list N := pread d off n.

Definition ref_write (d : list N) (off : N) (data : list N) : list N :=
  let o := N.to_nat off in
  firstn o d ++ repeat 0 (o - length d) ++ data ++ skipn (o + length data) d.

(* vectors are applied in order; the first one that would exceed the bound raises *)
Fixpoint ref_write_vectors (maxsz : N) (d : list N) (dv : datav) : list N * option err :=
  match dv with
  | [] => (d, None)
  | (off, x) :: r =>
      if maxsz <? off + len x then (d, Some EDataTooLarge)
      else ref_write_vectors maxsz (ref_write d off x) r
  end.

Definition ref_truncate (d : list N) (new_length : option N) : list N :=
  match new_length with
  | Some n => if n <? len d then firstn (N.to_nat n) d else d
  | None => d
  end.

Definition ref_writev (maxsz : N) (d : list N) (dv : datav) (nl : option N) : list N * option err :=
  match ref_write_vectors maxsz d dv with
  | (d', None) => (ref_truncate d' nl, None)
  | r => r
  end.

Fixpoint ref_check_testv (d : list N) (tv : testv) : bool :=
  match tv with
  | [] => true
  | (off, n, specimen) :: r => if list_N_eqb (ref_read d off n) specimen then ref_check_testv d r else false
  end.

Definition ref_readv (d : list N) (rv : readvec) : list (list N) := map (fun '(off, n) => ref_read d off n) rv.

(* ---- one share as the server sees it: a missing file is an empty share ----------- *)
(* storage/server.py _evaluate_test_vectors, _evaluate_read_vectors, _evaluate_write_vectors
   restricted to one share number *)
Definition share := option file.

Definition share_ok (maxsz : N) (s : share) : Prop :=
  match s with None => True | Some f => layout_ok maxsz f = true end.

Definition share_test (s : share) (tv : testv) : res bool :=
  match s with Some f => check_testv f tv | None => Ok (empty_check_testv tv) end.

Definition share_read (s : share) (rv : readvec) : option (res (list (list N))) :=
  match s with Some f => Some (readv f rv) | None => None end.

Definition is_zero (nl : option N) : bool := match nl with Some n => n =? 0 | None => false end.

(* fresh = bytes of a newly created container (create_mutable_sharefile) *)
Definition share_write (maxsz : N) (fresh : file) (s : share) (dv : datav) (nl : option N) : share * option err :=
  if is_zero nl then (None, None)
  else
    let f := match s with Some f => f | None => fresh end in
    match writev maxsz f dv nl with
    | Done f' => (Some f', None)
    | Raised f' e => (Some f', Some e)
    end.

(* the size validation added to _evaluate_write_vectors (fix for the C24 finding):
   every vector that will be applied must fit in MAX_SIZE *)
Fixpoint vectors_fit (maxsz : N) (dv : datav) : bool :=
  match dv with
  | [] => true
  | (off, d) :: r => (off + len d <=? maxsz) && vectors_fit maxsz r
  end.

Inductive op :=
| OpTW (tv : testv) (dv : datav) (nl : option N)
| OpRead (rv : readvec).

Inductive obs :=
| ObsTW (r : res bool)
| ObsRead (r : option (list (list N))).

Definition abs_share (s : share) : option (list N) :=
  match s with
  | None => None
  | Some f => match abs_data f with Ok d => Some d | Err _ => Some [] end
  end.

(* one request of the given kind against a bucket holding just this share *)
Definition share_step (maxsz : N) (fresh : file) (s : share) (o : op) : share * obs :=
  match o with
  | OpRead rv =>
      (s, match share_read s rv with
          | None => ObsRead None
          | Some (Ok ds) => ObsRead (Some ds)
          | Some (Err e) => ObsTW (Err e)
          end)
  | OpTW tv dv nl =>
      match share_test s tv with
      | Err e => (s, ObsTW (Err e))
      | Ok false => (s, ObsTW (Ok false))
      | Ok true =>
          if negb (is_zero nl) && negb (vectors_fit maxsz dv) then (s, ObsTW (Err EDataTooLarge))
          else
            match share_write maxsz fresh s dv nl with
            | (s', None) => (s', ObsTW (Ok true))
            | (s', Some e) => (s', ObsTW (Err e))
            end
      end
  end.

Definition ref_step (maxsz : N) (s : option (list N)) (o : op) : option (list N) * obs :=
  let d := match s with Some d => d | None => [] end in
  match o with
  | OpRead rv => (s, ObsRead (match s with Some d => Some (ref_readv d rv) | None => None end))
  | OpTW tv dv nl =>
      if ref_check_testv d tv then
        if is_zero nl then (None, ObsTW (Ok true))
        else if vectors_fit maxsz dv then
          (Some (ref_truncate (fold_left (fun a '(off, x) => ref_write a off x) dv d) nl), ObsTW (Ok true))
        else (s, ObsTW (Err EDataTooLarge))
      else (s, ObsTW (Ok false))
  end.

Fixpoint run_share (maxsz : N) (fresh : file) (s : share) (ops : list op) : share * list obs :=
  match ops with
  | [] => (s, [])
  | o :: r => let '(s1, b) := share_step maxsz fresh s o in
              let '(s2, bs) := run_share maxsz fresh s1 r in (s2, b :: bs)
  end.

Fixpoint run_ref (maxsz : N) (s : option (list N)) (ops : list op) : option (list N) * list obs :=
  match ops with
  | [] => (s, [])
  | o :: r => let '(s1, b) := ref_step maxsz s o in
              let '(s2, bs) := run_ref maxsz s1 r in (s2, b :: bs)
  end.
