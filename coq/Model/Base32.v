(* allmydata.util.base32: b2a, could_be_base32_encoded, a2b.

   b2a = base64.b32encode(os).rstrip(b"=").lower(): the bits of the input, zero
   padded to a multiple of 5, five at a time, through the alphabet
   (Gen.CodecConsts.base32_chars).

   a2b first requires could_be_base32_encoded(cs) (AssertionError otherwise):
   every character is in the alphabet and the last one is allowed by the table
   s8[len(cs) % 8], which init_s8 builds as "indices that are multiples of
   2^(4 - (8*NUM_QS_TO_NUM_OS[lenmod8]) % 5)" for the legitimate lengths and as
   empty for the others.  Then base64.b32decode of the re-padded upper-cased
   string: the first 5*len/8 whole octets of the bit string; the remaining
   bits are dropped without being looked at. *)
From Coq Require Import List NArith Bool.
From Verif Require Import Lib.Hex Lib.Bytes Gen.CodecConsts.
Import ListNotations.
Local Open Scope N_scope.

Fixpoint index_of (c : N) (l : list N) (i : N) : option N :=
  match l with
  | [] => None
  | x :: r => if x =? c then Some i else index_of c r (i + 1)
  end.

Definition b32_char (v : N) : N := nth (N.to_nat v) base32_chars 0.
Definition b32_val (c : N) : option N := index_of c base32_chars 0.

Definition b32_b2a (os : list N) : list N :=
  let bits := flat_map (be_digits 2 8) os in
  let c := Nat.div (length bits + 4) 5 in
  let padded := bits ++ repeat 0 (c * 5 - length bits) in
  map (fun g => b32_char (be_value 2 g)) (groups 5 c padded).

Fixpoint map_opt {A B} (f : A -> option B) (l : list A) : option (list B) :=
  match l with
  | [] => Some []
  | x :: r => match f x, map_opt f r with
              | Some y, Some r' => Some (y :: r')
              | _, _ => None
              end
  end.

(* s8[lenmod8][chars[v]] *)
Definition b32_last_ok (lenmod8 v : N) : bool :=
  if lenmod8 =? 0 then true
  else if nth (N.to_nat lenmod8) base32_NUM_QS_LEGIT 0 =? 0 then false
  else
    let bits := nth (N.to_nat lenmod8) base32_NUM_QS_TO_NUM_OS 0 * base32_bits_per_octet in
    v mod 2 ^ (base32_s8_lsb_minuend - bits mod base32_s8_lsb_modulus) =? 0.

Definition b32_could_be (cs : list N) : bool :=
  match cs with
  | [] => true
  | _ =>
    match map_opt b32_val cs with
    | None => false
    | Some vals => b32_last_ok (N.of_nat (length cs) mod 8) (last vals 0)
    end
  end.

Definition b32_decode_vals (vals : list N) : list N :=
  let bits := flat_map (be_digits 2 5) vals in
  let n := Nat.div (length vals * 5) 8 in
  map (be_value 2) (groups 8 n bits).

(* None = AssertionError from the precondition *)
Definition b32_a2b (cs : list N) : option (list N) :=
  if b32_could_be cs then
    match map_opt b32_val cs with
    | Some vals => Some (b32_decode_vals vals)
    | None => None
    end
  else None.

(* "the bits that do not belong to any octet are zero" *)
Definition b32_trailing_zero (cs : list N) : bool :=
  match map_opt b32_val cs with
  | Some vals =>
    let bits := flat_map (be_digits 2 5) vals in
    let n := Nat.div (length vals * 5) 8 in
    forallb (fun b => b =? 0) (skipn (n * 8) bits)
  | None => false
  end.

Definition opt_list_N_eqb (a b : option (list N)) : bool :=
  match a, b with
  | Some x, Some y => list_N_eqb x y
  | None, None => true
  | _, _ => false
  end.
