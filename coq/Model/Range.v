(* C40  Model of src/allmydata/web/filenode.py FileDownloader.parse_range_header and
   FileDownloader.render (status, Content-Range, Content-Length, body) for a file whose
   contents are `data`, statement by statement, and - separately, further down - the rule of
   RFC 7233 for a byte-range request written from the RFC text.

   The Range header value reaches the code as a Python str (Request.getHeader('range')
   decodes the bytes as UTF-8; undecodable bytes = no header, filenode.py catches the error):
   a str is modelled as the list of its Unicode code points.  str.strip() and int() consult
   the interpreter's Unicode tables (Gen/PyUnicode.v, regenerated from the running interpreter).

   The response is the one on the wire: for HEAD twisted.web sends no body whatever the
   resource wrote (this part is exercised by the correspondence, not modelled further).
   No proofs in this file. *)
From Coq Require Import List NArith ZArith Bool String.
From Verif Require Import Lib.Hex Lib.Decimal Gen.PyUnicode Gen.WebRange.
Import ListNotations.
Local Open Scope N_scope.
Local Open Scope bool_scope.

(* ---- str primitives ---- *)
Fixpoint drop_while (p : N -> bool) (l : list N) : list N :=
  match l with
  | [] => []
  | c :: r => if p c then drop_while p r else l
  end.
Definition rstrip (p : N -> bool) (l : list N) : list N := rev (drop_while p (rev l)).
Definition strip (p : N -> bool) (l : list N) : list N := rstrip p (drop_while p l).

(* s.split(sep, 1) when it yields two parts; None when sep does not occur (the 2-tuple unpack raises ValueError) *)
Fixpoint split_once (sep : N) (s : list N) : option (list N * list N) :=
  match s with
  | [] => None
  | c :: r => if c =? sep then Some ([], r)
              else match split_once sep r with Some (a, b) => Some (c :: a, b) | None => None end
  end.

(* s.split(sep): one more element than separators, never empty *)
Fixpoint split_all (sep : N) (s : list N) : list (list N) :=
  match s with
  | [] => [[]]
  | c :: r => if c =? sep then [] :: split_all sep r
              else match split_all sep r with e :: es => (c :: e) :: es | [] => [[c]] end
  end.

Fixpoint traverse {A B : Type} (f : A -> option B) (l : list A) : option (list B) :=
  match l with
  | [] => Some []
  | x :: r => match f x, traverse f r with Some y, Some ys => Some (y :: ys) | _, _ => None end
  end.

(* ---- str.isspace / str.strip() ---- *)
Definition py_isspace (c : N) : bool := existsb (N.eqb c) py_space_codepoints.
Definition py_strip (s : list N) : list N := strip py_isspace s.

(* ---- int(str), base 10 (Objects/longobject.c: PyLong_FromUnicodeObject, PyLong_FromString) ----
   Code points below 127 are taken as they are; others become ' ' if isspace, their decimal
   value if a decimal digit of any script, else the conversion fails.  Then: blanks, one
   optional sign, digits with single '_' between digits, blanks, end.  More than 4300 digits:
   ValueError as well (sys.get_int_max_str_digits). *)
Inductive ichar : Type := ISpace | IDigit (d : N) | IPlus | IMinus | IUnder | IOther.

Fixpoint py_decimal_in (zeros : list N) (c : N) : option N :=
  match zeros with
  | [] => None
  | z :: r => if (z <=? c) && (c <? z + 10) then Some (c - z) else py_decimal_in r c
  end.

Definition classify (c : N) : ichar :=
  if c <? 127 then
    if is_digit c then IDigit (c - 48)
    else if ((9 <=? c) && (c <=? 13)) || (c =? 32) then ISpace
    else if c =? 43 then IPlus else if c =? 45 then IMinus else if c =? 95 then IUnder else IOther
  else if py_isspace c then ISpace
  else match py_decimal_in py_decimal_zeros c with Some d => IDigit d | None => IOther end.

Fixpoint digits_run (l : list ichar) (acc cnt : N) : N * N * list ichar :=   (* entered just after a digit *)
  match l with
  | IDigit d :: r => digits_run r (acc * 10 + d) (cnt + 1)
  | IUnder :: r' =>
    match r' with
    | IDigit d :: r => digits_run r (acc * 10 + d) (cnt + 1)
    | _ => (acc, cnt, l)
    end
  | _ => (acc, cnt, l)
  end.

Fixpoint drop_ispace (l : list ichar) : list ichar :=
  match l with ISpace :: r => drop_ispace r | _ => l end.

Definition max_int_digits : N := 4300.

Definition py_int (s : list N) : option Z :=
  let l := drop_ispace (map classify s) in
  let '(neg, l) := match l with IPlus :: r => (false, r) | IMinus :: r => (true, r) | _ => (false, l) end in
  match l with
  | IDigit d :: r =>
    let '(v, cnt, rest) := digits_run r d 1 in
    match drop_ispace rest with
    | [] => if cnt <=? max_int_digits then Some (if neg then (- Z.of_N v)%Z else Z.of_N v) else None
    | _ => None
    end
  | _ => None
  end.

(* ---- FileDownloader.parse_range_header ---- *)
Local Open Scope Z_scope.

(* parse_range(r): None = ValueError *)
Definition parse_range (filesize : Z) (r : list N) : option (Z * Z) :=
  match split_once 45 r with                      (* first, last = r.split('-', 1) *)
  | None => None
  | Some (first, last) =>
    match first with
    | [] =>                                        (* suffix-byte-range-spec *)
      match py_int last with
      | Some k => Some (filesize - k, filesize - 1)
      | None => None
      end
    | _ =>
      match py_int first with
      | None => None
      | Some f =>
        match last with
        | [] => Some (f, filesize - 1)
        | _ => match py_int last with
               | None => None
               | Some l => if l <? f then None else Some (f, l)
               end
        end
      end
    end
  end.

(* None = "the header didn't parse, ignore it" *)
Definition parse_range_header (filesize : Z) (h : list N) : option (list (Z * Z)) :=
  match split_once 61 h with                      (* units, rangeset = range_header.split('=', 1) *)
  | None => None
  | Some (units, rangeset) =>
    if list_N_eqb units range_unit
    then traverse (fun r => parse_range filesize (py_strip r)) (split_all 44 rangeset)
    else None
  end.

(* ---- FileDownloader.render ---- *)
Inductive method : Type := GET | HEAD.

Record response : Type := mkResponse {
  status : N;
  content_range : option (list N);
  content_length : N;
  body : list N
}.

Definition decZ (z : Z) : list N :=                (* str(z) *)
  if z <? 0 then 45%N :: dec (Z.to_N (- z)) else dec (Z.to_N z).

Definition slice (data : list N) (first size : Z) : list N :=    (* filenode.read(req, first, size) *)
  firstn (Z.to_nat size) (skipn (Z.to_nat first) data).

Definition wire_body (m : method) (b : list N) : list N := match m with HEAD => [] | GET => b end.

Definition internal_error : response := mkResponse 500 None 0 [].   (* an exception other than WebError *)

Definition render (m : method) (data : list N) (range_header : option (list N)) : response :=
  let filesize := Z.of_nat (List.length data) in
  let full := mkResponse 200 None (Z.to_N filesize) (wire_body m data) in
  match range_header with
  | None => full
  | Some [] => full                                (* `if rangeheader:` *)
  | Some h =>
    match parse_range_header filesize h with
    | None => full
    | Some [] => internal_error                    (* ranges[0] of an empty list *)
    | Some ((first, last) :: _) =>
      let first := Z.max 0 first in
      if filesize <=? first then
        mkResponse unsatisfiable_status
                   (Some (bytes_of_string "bytes */" ++ decZ filesize))
                   (N.of_nat (List.length unsatisfiable_text))
                   (wire_body m unsatisfiable_text)
      else
        let last := Z.min (filesize - 1) last in
        let contentsize := last - first + 1 in
        mkResponse partial_status
                   (Some (bytes_of_string "bytes " ++ decZ first ++ [45%N] ++ decZ last ++ [47%N] ++ decZ filesize))
                   (Z.to_N contentsize)
                   (wire_body m (slice data first contentsize))
    end
  end.
Local Close Scope Z_scope.

(* ======================= RFC 7233, written from the RFC =======================
   2.1  byte-ranges-specifier = bytes-unit "=" byte-range-set
        byte-range-set  = 1#( byte-range-spec / suffix-byte-range-spec )
        byte-range-spec = first-byte-pos "-" [ last-byte-pos ]      first-byte-pos = last-byte-pos = 1*DIGIT
        suffix-byte-range-spec = "-" suffix-length                  suffix-length = 1*DIGIT
        "A byte-range-spec is invalid if the last-byte-pos value is present and less than the first-byte-pos."
   RFC 7230 7 (sender form of the list rule):  1#element => element *( OWS "," OWS element ),  OWS = *( SP / HTAB )
   The unit is compared as the code does, case-sensitively ("bytes"); a header that is not in
   this grammar "cannot be parsed" and is ignored, which 3.1 always permits. *)
Inductive range_spec : Type :=
| FromTo (first last : N)       (* first-byte-pos "-" last-byte-pos *)
| From (first : N)              (* first-byte-pos "-" *)
| Suffix (len : N).             (* "-" suffix-length *)

Definition is_ows (c : N) : bool := (c =? 32) || (c =? 9).

(* 1*DIGIT *)
Definition digits_value (ds : list N) : N := fold_left (fun a d => a * 10 + (d - 48)) ds 0.
Definition pos_value (p : list N) : option N :=
  match p with [] => None | _ => if forallb is_digit p then Some (digits_value p) else None end.

Definition rfc_spec (t : list N) : option range_spec :=
  match split_once 45 t with
  | None => None
  | Some (a, b) =>
    match a, b with
    | [], _ => option_map Suffix (pos_value b)
    | _, [] => option_map From (pos_value a)
    | _, _ => match pos_value a, pos_value b with
              | Some f, Some l => if l <? f then None else Some (FromTo f l)
              | _, _ => None
              end
    end
  end.

Definition hd_not (p : N -> bool) (l : list N) : bool := match l with [] => true | c :: _ => negb (p c) end.

Definition rfc_ranges (h : list N) : option (list range_spec) :=
  match split_once 61 h with
  | None => None
  | Some (unit, set) =>
    if list_N_eqb unit (bytes_of_string "bytes") && hd_not is_ows set && hd_not is_ows (rev set)
    then traverse (fun e => rfc_spec (strip is_ows e)) (split_all 44 set)
    else None
  end.

(* 2.1 satisfiability, 4.1 / 4.2 the selected bytes, 4.4 unsatisfiable:
   "If a valid byte-range-set includes at least one byte-range-spec with a first-byte-pos that is less than the
    current length of the representation, or at least one suffix-byte-range-spec with a non-zero suffix-length,
    then the byte-range-set is satisfiable."  "if the last-byte-pos value is absent, or if the value is greater than
    or equal to the current length, the byte range is interpreted as the remainder of the representation"
   "If the selected representation is shorter than the specified suffix-length, the entire representation is used."
   For an empty representation no range selects a byte and no Content-Range "first-last/0" exists: with the
   property ("416 when the range starts at or beyond the end") that request is unsatisfiable too. *)
Inductive decision : Type :=
| Partial (first last : N)      (* 206, these bytes, inclusive *)
| Unsatisfiable                 (* 416 *)
| Whole.                        (* 200, the Range header is ignored *)

Definition rfc_decide (size : N) (r : range_spec) : decision :=
  match r with
  | FromTo f l => if f <? size then Partial f (N.min l (size - 1)) else Unsatisfiable
  | From f => if f <? size then Partial f (size - 1) else Unsatisfiable
  | Suffix k => if (k =? 0) || (size =? 0) then Unsatisfiable else Partial (size - N.min k size) (size - 1)
  end.

(* the bytes first..last of the representation *)
Definition bytes_between (data : list N) (first last : N) : list N :=
  firstn (N.to_nat (last - first + 1)) (skipn (N.to_nat first) data).

(* 4.1 / 4.2 / 4.4: status and Content-Range ("bytes first-last/complete-length", "bytes */complete-length") *)
Definition respond (m : method) (data : list N) (d : decision) : response :=
  let size := N.of_nat (List.length data) in
  match d with
  | Whole => mkResponse 200 None size (wire_body m data)
  | Partial f l =>
    mkResponse 206 (Some (bytes_of_string "bytes " ++ dec f ++ [45] ++ dec l ++ [47] ++ dec size))
               (l - f + 1) (wire_body m (bytes_between data f l))
  | Unsatisfiable =>
    mkResponse 416 (Some (bytes_of_string "bytes */" ++ dec size))
               (N.of_nat (List.length unsatisfiable_text)) (wire_body m unsatisfiable_text)
  end.

(* ---- the preconditions of the theorem: the header does not exercise the leniency of
   int() ("+1", "1_0", " 1", non-ASCII digits, more than 4300 digits ignored) or of
   str.strip() (blanks other than SP / HTAB, blanks after "=" or at the end) ---- *)
Definition int_agrees (p : list N) : bool :=
  match py_int p, pos_value p with
  | Some z, Some k => (z =? Z.of_N k)%Z
  | None, None => true
  | _, _ => false
  end.

Definition element_strict (e : list N) : bool :=
  list_N_eqb (py_strip e) (strip is_ows e) &&
  match split_once 45 (py_strip e) with
  | None => true
  | Some (a, b) => int_agrees a && int_agrees b
  end.

Definition range_strict (h : list N) : bool :=
  match split_once 61 h with
  | None => true
  | Some (unit, set) =>
    if list_N_eqb unit range_unit
    then forallb element_strict (split_all 44 set) && hd_not is_ows set && hd_not is_ows (rev set)
    else true
  end.
