(* C03 / C46: immutable/downloader/fetcher.py SegmentFetcher as a transition system,
   and immutable/downloader/finder.py ShareFinder.loop.

   One SegmentFetcher acquires k blocks for one segment.  Its methods are run by
   the eventual-send queue, one at a time; the events of the model are exactly the
   entry points:

     EAddShares l      node.got_shares / _start_new_segment -> add_shares(l)
     ENoMoreShares     node.no_more_shares -> no_more_shares()
     EActivity sh st   the Share's EventStreamObserver delivers
                       _block_request_activity(share=sh, shnum=sh._shnum, state=st)
     ELoop ns          one queued self.loop() runs; ns = the authoritative number of
                       segments if node.get_num_segments() knows it

   Outputs are the calls the fetcher makes: share.get_block (OStart), node.
   want_more_shares, node.process_blocks, node.fetch_failed.

   Shares are records (sh_id names the Python object); a block is represented by the id of the
   share that supplied it.  stop() deletes _shares/_shares_from_server/
   _active_share_map; every method of a stopped fetcher returns at once, so the
   model empties these (and the overdue map, which is never read again). *)
From Coq Require Import List NArith Bool Arith.
Import ListNotations.

Record share := mk_share { sh_id : N; sh_num : N; sh_srv : N; sh_rtt : N }.

Inductive bstate := COMPLETE | CORRUPT | DEAD | OVERDUE | BADSEGNUM.

Inductive ferr := NoSharesError | NotEnoughSharesError | BadSegmentNumberError.

Inductive fout :=
| OStart (s : share)                       (* share.get_block(segnum) + subscribe *)
| OWantMore                                (* node.want_more_shares() *)
| OProcessBlocks (blocks : list (N * N))   (* node.process_blocks(segnum, blocks): shnum -> supplying share id *)
| OFetchFailed (e : ferr).                 (* node.fetch_failed(self, Failure(e)) *)

Inductive fev :=
| EAddShares (l : list share)
| ENoMoreShares
| EActivity (s : share) (st : bstate)
| ELoop (numsegs : option N).

Record fstate := mk_f {
  f_k : nat;
  f_segnum : N;
  f_shares : list share;          (* _shares: unused, sorted by (rtt, shnum) *)
  f_from_server : list share;     (* _shares_from_server: shares with an outstanding get_block *)
  f_max_per_server : nat;         (* _max_shares_per_server *)
  f_active : list share;          (* _active_share_map: shnum -> share (key = sh_num) *)
  f_overdue : list share;         (* _overdue_share_map: shnum -> set of shares *)
  f_blocks : list (N * N);        (* _blocks: shnum -> block (supplying share id), insertion order *)
  f_no_more : bool;               (* _no_more_shares *)
  f_running : bool;               (* _running *)
  f_loops : nat                   (* eventually(self.loop) calls queued and not yet run *)
}.

Definition finit (k : nat) (segnum : N) : fstate :=
  mk_f k segnum [] [] 1 [] [] [] false true 0.

(* ---- small list helpers ------------------------------------------------------ *)
(* `is` on Share objects: sh_id names the object, so two records with one id have
   the same fields; comparing all fields makes record equality the identity test *)
Definition sid_eqb (a b : share) : bool :=
  N.eqb (sh_id a) (sh_id b) && N.eqb (sh_num a) (sh_num b) && N.eqb (sh_srv a) (sh_srv b) && N.eqb (sh_rtt a) (sh_rtt b).
Definition has_num (n : N) (l : list share) : bool := existsb (fun s => N.eqb (sh_num s) n) l.
Definition has_id (x : share) (l : list share) : bool := existsb (fun s => sid_eqb s x) l.
Definition remove_id (x : share) (l : list share) : list share := filter (fun s => negb (sid_eqb s x)) l.
(* list.remove(x): the first occurrence only *)
Fixpoint remove_first (x : share) (l : list share) : list share :=
  match l with
  | [] => []
  | y :: r => if sid_eqb y x then r else y :: remove_first x r
  end.
(* set.add *)
Definition set_add (x : share) (l : list share) : list share := if has_id x l then l else l ++ [x].
Definition remove_num (n : N) (l : list share) : list share := filter (fun s => negb (N.eqb (sh_num s) n)) l.
Definition count_srv (srv : N) (l : list share) : nat := length (filter (fun s => N.eqb (sh_srv s) srv) l).

Definition blk_has (n : N) (bl : list (N * N)) : bool := existsb (fun p => N.eqb (fst p) n) bl.
Fixpoint blk_set (n id : N) (bl : list (N * N)) : list (N * N) :=
  match bl with
  | [] => [(n, id)]
  | p :: r => if N.eqb (fst p) n then (n, id) :: r else p :: blk_set n id r
  end.

(* number of distinct values *)
Definition distinct (l : list N) : nat := length (nodup N.eq_dec l).

Definition nums (l : list share) : list N := map sh_num l.
Definition bnums (bl : list (N * N)) : list N := map fst bl.

(* list.sort(key=lambda s: (s._dyhb_rtt, s._shnum)) is stable *)
Definition key_le (a b : share) : bool :=
  if N.ltb (sh_rtt a) (sh_rtt b) then true
  else if N.eqb (sh_rtt a) (sh_rtt b) then N.leb (sh_num a) (sh_num b) else false.
Fixpoint insert_share (x : share) (l : list share) : list share :=
  match l with
  | [] => [x]
  | y :: r => if key_le x y then x :: y :: r else y :: insert_share x r
  end.
Definition sort_shares (l : list share) : list share := fold_right insert_share [] l.

(* ---- SegmentFetcher ----------------------------------------------------------- *)
Definition set_shares s v := mk_f (f_k s) (f_segnum s) v (f_from_server s) (f_max_per_server s) (f_active s) (f_overdue s) (f_blocks s) (f_no_more s) (f_running s) (f_loops s).
Definition set_loops s v := mk_f (f_k s) (f_segnum s) (f_shares s) (f_from_server s) (f_max_per_server s) (f_active s) (f_overdue s) (f_blocks s) (f_no_more s) (f_running s) v.
Definition set_no_more s := mk_f (f_k s) (f_segnum s) (f_shares s) (f_from_server s) (f_max_per_server s) (f_active s) (f_overdue s) (f_blocks s) true (f_running s) (f_loops s).
Definition bump_max s := mk_f (f_k s) (f_segnum s) (f_shares s) (f_from_server s) (S (f_max_per_server s)) (f_active s) (f_overdue s) (f_blocks s) (f_no_more s) (f_running s) (f_loops s).

(* stop(): _running = False; del _shares, _shares_from_server, _active_share_map *)
Definition stop (s : fstate) : fstate :=
  mk_f (f_k s) (f_segnum s) [] [] (f_max_per_server s) [] [] (f_blocks s) (f_no_more s) false (f_loops s).

(* _find_and_use_share: first share whose number is neither fetched nor active and
   whose server is below the per-server limit; the flag says that some share was
   passed over only because of the limit *)
Fixpoint find_share (bl : list (N * N)) (active from_server : list share) (maxps : nat)
         (l : list share) : option share * bool :=
  match l with
  | [] => (None, false)
  | sh :: r =>
    if blk_has (sh_num sh) bl then find_share bl active from_server maxps r
    else if has_num (sh_num sh) active then find_share bl active from_server maxps r
    else if maxps <=? count_srv (sh_srv sh) from_server
         then (fst (find_share bl active from_server maxps r), true)
         else (Some sh, false)
  end.

(* self._shares.remove(sh); _active_share_map[shnum] = sh; _shares_from_server.add(server, sh) *)
Definition use_share (s : fstate) (sh : share) : fstate :=
  mk_f (f_k s) (f_segnum s) (remove_first sh (f_shares s)) (set_add sh (f_from_server s)) (f_max_per_server s)
       (f_active s ++ [sh]) (f_overdue s) (f_blocks s) (f_no_more s) (f_running s) (f_loops s).

(* _ask_for_more_shares *)
Definition ask (s : fstate) : list fout := if f_no_more s then [] else [OWantMore].

Definition have_or_active (s : fstate) : nat := distinct (bnums (f_blocks s) ++ nums (f_active s)).
Definition have_active_overdue (s : fstate) : nat :=
  distinct (bnums (f_blocks s) ++ nums (f_active s) ++ nums (f_overdue s)).

(* _no_shares_error: which exception *)
Definition shares_error (s : fstate) : ferr :=
  match f_shares s, f_active s, f_overdue s, f_blocks s with
  | [], [], [], [] => NoSharesError
  | _, _, _, _ => NotEnoughSharesError
  end.

(* the `while` of _do_loop followed by the "are we done?" test *)
Fixpoint do_while (fuel : nat) (s : fstate) (outs : list fout) : option (fstate * list fout) :=
  match fuel with
  | O => None
  | S f =>
    if have_or_active s <? f_k s then
      match find_share (f_blocks s) (f_active s) (f_from_server s) (f_max_per_server s) (f_shares s) with
      | (Some sh, _) => do_while f (use_share s sh) (outs ++ [OStart sh])
      | (None, true) => do_while f (bump_max s) (outs ++ ask s)
      | (None, false) =>
        if f_no_more s then
          if have_active_overdue s <? f_k s
          then Some (stop s, outs ++ [OFetchFailed (shares_error s)])
          else Some (s, outs)
        else Some (s, outs ++ [OWantMore])
      end
    else if f_k s <=? distinct (bnums (f_blocks s))
         then Some (stop s, outs ++ [OProcessBlocks (f_blocks s)])
         else Some (s, outs)
  end.

Definition loop_fuel (s : fstate) : nat := 2 * length (f_shares s) + length (f_from_server s) + 2.

(* _do_loop *)
Definition do_loop (s : fstate) (numsegs : option N) : fstate * list fout :=
  if negb (f_running s) then (s, []) else
  let badseg := match numsegs with Some n => N.leb n (f_segnum s) | None => false end in
  if badseg then (stop s, [OFetchFailed BadSegmentNumberError]) else
  match do_while (loop_fuel s) s [] with
  | Some r => r
  | None => (s, [])            (* unreachable: Proofs/Fetcher.v do_while_fuel *)
  end.

Definition is_terminal (st : bstate) : bool :=
  match st with OVERDUE => false | _ => true end.

(* _block_request_activity(share, shnum = share._shnum, state) *)
Definition activity (s : fstate) (sh : share) (st : bstate) : fstate :=
  if negb (f_running s) then s else
  let n := sh_num sh in
  let s1 :=
    if is_terminal st then
      mk_f (f_k s) (f_segnum s) (f_shares s) (remove_id sh (f_from_server s)) (f_max_per_server s)
           (remove_id sh (f_active s)) (remove_id sh (f_overdue s)) (f_blocks s) (f_no_more s) (f_running s) (f_loops s)
    else s in
  let s2 :=
    match st with
    | COMPLETE => mk_f (f_k s1) (f_segnum s1) (f_shares s1) (f_from_server s1) (f_max_per_server s1)
                       (f_active s1) (f_overdue s1) (blk_set n (sh_id sh) (f_blocks s1)) (f_no_more s1) (f_running s1) (f_loops s1)
    | OVERDUE =>  (* del _active_share_map[shnum]; _overdue_share_map.add(shnum, share) *)
                  mk_f (f_k s1) (f_segnum s1) (f_shares s1) (f_from_server s1) (f_max_per_server s1)
                       (remove_num n (f_active s1)) (set_add sh (f_overdue s1))
                       (f_blocks s1) (f_no_more s1) (f_running s1) (f_loops s1)
    | _ => s1
    end in
  set_loops s2 (S (f_loops s2)).

(* OVERDUE for a share number that is not active raises KeyError in the real code
   (del of a missing key) before anything else happens *)
Definition activity_raises (s : fstate) (sh : share) (st : bstate) : bool :=
  f_running s && match st with OVERDUE => negb (has_num (sh_num sh) (f_active s)) | _ => false end.

Definition fstep (s : fstate) (e : fev) : fstate * list fout :=
  match e with
  | EAddShares l =>
      (* a stopped fetcher has deleted _shares: add_shares raises AttributeError, nothing is queued *)
      if f_running s
      then (set_loops (set_shares s (sort_shares (f_shares s ++ l))) (S (f_loops s)), [])
      else (s, [])
  | ENoMoreShares => (set_loops (set_no_more s) (S (f_loops s)), [])
  | EActivity sh st =>
      if activity_raises s sh st then (s, []) else (activity s sh st, [])
  | ELoop ns =>
      match f_loops s with
      | O => (s, [])                         (* nothing queued: the event cannot happen *)
      | S n => do_loop (set_loops s n) ns
      end
  end.

(* ---- observation helpers for the correspondence ------------------------------- *)
Definition ids (l : list share) : list N := map sh_id l.

Fixpoint frun (s : fstate) (evs : list fev) : fstate * list fout :=
  match evs with
  | [] => (s, [])
  | e :: r => let (s1, o1) := fstep s e in let (s2, o2) := frun s1 r in (s2, o1 ++ o2)
  end.

(* ---- ShareFinder.loop ---------------------------------------------------------

   State: the servers not yet asked (an iterator), the pending DYHB requests (by
   server), those among them that are overdue, _hungry, running, and the number of
   queued self.loop() calls.  Events: hungry(), one queued loop() runs, a DYHB
   answer for a pending server with its share numbers (or an error), an overdue
   timer fires.  Outputs: a DYHB request, got_shares, no_more_shares. *)
Inductive dev :=
| DHungry
| DLoop
| DResponse (srv : N) (shnums : list N)    (* _got_response after _request_retired *)
| DError (srv : N)                          (* _got_error after _request_retired *)
| DOverdue (srv : N)                        (* overdue(req) *)
| DStop.

Inductive dout :=
| DSend (srv : N)
| DGotShares (srv : N) (shnums : list N)
| DNoMoreShares.

Record dstate := mk_d {
  d_servers : list N;         (* remaining servers of the iterator (in permuted order) *)
  d_pending : list N;         (* pending_requests (server of each RequestToken) *)
  d_overdue : list N;         (* overdue_requests, a subset of pending *)
  d_timers : list N;          (* overdue_timers still armed *)
  d_hungry : bool;
  d_running : bool;
  d_loops : nat;
  d_max : nat                 (* max_outstanding_requests *)
}.

Definition dinit (servers : list N) (maxreq : nat) : dstate := mk_d servers [] [] [] false true 0 maxreq.

Definition mem (x : N) (l : list N) : bool := existsb (N.eqb x) l.
Definition del (x : N) (l : list N) : list N := filter (fun y => negb (N.eqb y x)) l.

Definition d_retire (s : dstate) (srv : N) : dstate :=
  mk_d (d_servers s) (del srv (d_pending s)) (del srv (d_overdue s)) (del srv (d_timers s)) (d_hungry s) (d_running s) (d_loops s) (d_max s).

Definition dstep (s : dstate) (e : dev) : dstate * list dout :=
  match e with
  | DHungry => (mk_d (d_servers s) (d_pending s) (d_overdue s) (d_timers s) true (d_running s) (S (d_loops s)) (d_max s), [])
  | DStop => (mk_d (d_servers s) (d_pending s) (d_overdue s) [] (d_hungry s) false (d_loops s) (d_max s), [])
  | DLoop =>
      match d_loops s with
      | O => (s, [])
      | S n =>
        let s := mk_d (d_servers s) (d_pending s) (d_overdue s) (d_timers s) (d_hungry s) (d_running s) n (d_max s) in
        if negb (d_running s) then (s, []) else
        if negb (d_hungry s) then (s, []) else
        let non_overdue := filter (fun x => negb (mem x (d_overdue s))) (d_pending s) in
        if d_max s <=? length non_overdue then (s, []) else
        match d_servers s with
        | srv :: rest =>
            (mk_d rest (d_pending s ++ [srv]) (d_overdue s) (d_timers s ++ [srv]) (d_hungry s) (d_running s) (S (d_loops s)) (d_max s),
             [DSend srv])
        | [] =>
            match d_pending s with
            | [] => (s, [DNoMoreShares])
            | _ => (s, [])
            end
        end
      end
  | DResponse srv shnums =>
      if negb (mem srv (d_pending s)) then (s, []) else
      let s1 := d_retire s srv in
      match shnums with
      | [] => (mk_d (d_servers s1) (d_pending s1) (d_overdue s1) (d_timers s1) (d_hungry s1) (d_running s1) (S (d_loops s1)) (d_max s1), [])
      | _ => (mk_d (d_servers s1) (d_pending s1) (d_overdue s1) (d_timers s1) false (d_running s1) (S (d_loops s1)) (d_max s1),
              [DGotShares srv shnums])
      end
  | DError srv =>
      if negb (mem srv (d_pending s)) then (s, []) else
      let s1 := d_retire s srv in
      (mk_d (d_servers s1) (d_pending s1) (d_overdue s1) (d_timers s1) (d_hungry s1) (d_running s1) (S (d_loops s1)) (d_max s1), [])
  | DOverdue srv =>
      if negb (mem srv (d_timers s)) then (s, []) else
      (mk_d (d_servers s) (d_pending s) (if mem srv (d_overdue s) then d_overdue s else d_overdue s ++ [srv]) (del srv (d_timers s))
            (d_hungry s) (d_running s) (S (d_loops s)) (d_max s), [])
  end.

Fixpoint drun (s : dstate) (evs : list dev) : dstate * list dout :=
  match evs with
  | [] => (s, [])
  | e :: r => let (s1, o1) := dstep s e in let (s2, o2) := drun s1 r in (s2, o1 ++ o2)
  end.

(* ---- canonical observations compared with the implementation ------------------ *)
Fixpoint ninsert (x : N) (l : list N) : list N :=
  match l with
  | [] => [x]
  | y :: r => if N.leb x y then x :: y :: r else y :: ninsert x r
  end.
Definition nsort (l : list N) : list N := fold_right ninsert [] l.

Fixpoint ln_eqb (a b : list N) : bool :=
  match a, b with
  | [], [] => true
  | x :: r, y :: q => N.eqb x y && ln_eqb r q
  | _, _ => false
  end.
Fixpoint lln_eqb (a b : list (list N)) : bool :=
  match a, b with
  | [], [] => true
  | x :: r, y :: q => ln_eqb x y && lln_eqb r q
  | _, _ => false
  end.

Definition ferr_code (e : ferr) : N :=
  match e with NoSharesError => 0 | NotEnoughSharesError => 1 | BadSegmentNumberError => 2 end%N.
Definition fout_code (o : fout) : list N :=
  match o with
  | OStart sh => [0; sh_id sh]
  | OWantMore => [1]
  | OProcessBlocks bl => 2 :: flat_map (fun p => [fst p; snd p]) bl
  | OFetchFailed e => [3; ferr_code e]
  end%N.
Definition b2n (b : bool) : N := if b then 1%N else 0%N.

(* [unused ids in order; outstanding ids (sorted); max per server; active (num,id) in
   dict order; overdue ids (sorted); blocks (num,id) in dict order; flags] ++ outputs *)
Definition fobs (r : fstate * list fout) : list (list N) :=
  let (s, o) := r in
  [ ids (f_shares s);
    nsort (ids (f_from_server s));
    [N.of_nat (f_max_per_server s)];
    flat_map (fun x => [sh_num x; sh_id x]) (f_active s);
    nsort (ids (f_overdue s));
    flat_map (fun p => [fst p; snd p]) (f_blocks s);
    [b2n (f_no_more s); b2n (f_running s); N.of_nat (f_loops s)] ] ++ map fout_code o.

Definition dout_code (o : dout) : list N :=
  match o with
  | DSend srv => [0; srv]
  | DGotShares srv l => 1 :: srv :: l
  | DNoMoreShares => [2]
  end%N.
Definition dobs (r : dstate * list dout) : list (list N) :=
  let (s, o) := r in
  [ d_servers s; nsort (d_pending s); nsort (d_overdue s); nsort (d_timers s);
    [b2n (d_hungry s); b2n (d_running s); N.of_nat (d_loops s)] ] ++ map dout_code o.
