(* Model of src/allmydata/util/happinessutil.py (servers_of_happiness, shares_by_server,
   _flow_network_for, _reindex) and of the graph helpers it imports from
   src/allmydata/immutable/happiness_upload.py (bfs, augmenting_path_for,
   residual_network).  Executable definitions only; proofs are in Proofs/Matching*.v.

   Conventions.
   * Server ids and share ids are N.  Vertices of the flow network are nat
     (Python list indices); adjacency lists are [list (list nat)], the flow and the
     residual-capacity matrices are [list (list Z)].
   * A Python dict / set is an association list / list in ITERATION order.  The
     model never sorts: every theorem is quantified over the order in which the
     input is presented, so nothing depends on CPython's set ordering.
   * Python raises IndexError for an index outside a list.  The graphs built by
     [flow_network_for] never do that; the model is total ([nth] default /
     [upd] no-op) and the correspondence only feeds in-range graphs.
   * Loops that Python writes as `while` recurse on explicit fuel and return
     [None] when it runs out.  BFS: fuel = number of vertices + 1 (each vertex is
     enqueued at most once).  Augmentation loop: fuel = number of servers + 1. *)
From Coq Require Import List NArith ZArith Bool Arith.
Import ListNotations.

(* ---------- lists as Python lists ---------------------------------------- *)

Fixpoint upd {A : Type} (i : nat) (x : A) (l : list A) : list A :=
  match l, i with
  | [], _ => []
  | _ :: r, O => x :: r
  | a :: r, S j => a :: upd j x r
  end.

Definition graph := list (list nat).
Definition matrix := list (list Z).

Definition adj (g : graph) (u : nat) : list nat := nth u g [].
Definition mget (m : matrix) (u v : nat) : Z := nth v (nth u m []) 0%Z.
Definition mset (m : matrix) (u v : nat) (x : Z) : matrix := upd u (upd v x (nth u m [])) m.
Definition zero_matrix (dim : nat) : matrix := repeat (repeat 0%Z dim) dim.

(* ---------- bfs(graph, s) -------------------------------------------------- *)
(* colours: 0 WHITE, 1 GRAY, 2 BLACK.  The `distance` list of the Python code is
   written but never read for the result; it is not modelled. *)

Fixpoint bfs_visit (nbrs : list nat) (n : nat) (color : list nat) (pred : list (option nat))
         (queue : list nat) : list nat * list (option nat) * list nat :=
  match nbrs with
  | [] => (color, pred, queue)
  | v :: r =>
      if Nat.eqb (nth v color 0) 0
      then bfs_visit r n (upd v 1 color) (upd v (Some n) pred) (queue ++ [v])
      else bfs_visit r n color pred queue
  end.

Fixpoint bfs_loop (fuel : nat) (g : graph) (color : list nat) (pred : list (option nat))
         (queue : list nat) : option (list (option nat)) :=
  match queue with
  | [] => Some pred
  | n :: q =>
      match fuel with
      | O => None
      | S fuel' =>
          let '(c, p, q') := bfs_visit (adj g n) n color pred q in
          bfs_loop fuel' g (upd n 2 c) p q'
      end
  end.

Definition bfs (g : graph) (s : nat) : option (list (option nat)) :=
  let dim := length g in
  bfs_loop (S dim) g (upd s 1 (repeat 0 dim)) (repeat None dim) [s].

(* ---------- augmenting_path_for(graph) ------------------------------------- *)
(* `if bfs_tree[len(graph) - 1]:` is a truthiness test: predecessor None and
   predecessor 0 are both false.  Result: None = fuel exhausted / Python would
   raise; Some None = `False`; Some (Some path). *)

Fixpoint walk_back (fuel : nat) (tree : list (option nat)) (n : nat) (acc : list (nat * nat))
  : option (list (nat * nat)) :=
  match n with
  | O => Some acc
  | S _ =>
      match fuel with
      | O => None
      | S fuel' =>
          match nth n tree None with
          | None => None   (* Python: (None, n) inserted, then bfs_tree[None] raises TypeError *)
          | Some p => walk_back fuel' tree p ((p, n) :: acc)
          end
      end
  end.

Definition augmenting_path_for (g : graph) : option (option (list (nat * nat))) :=
  match bfs g 0 with
  | None => None
  | Some tree =>
      let last := length g - 1 in
      match nth last tree None with
      | Some (S _) =>
          match walk_back (length g) tree last [] with
          | Some path => Some (Some path)
          | None => None
          end
      | _ => Some None
      end
  end.

(* ---------- residual_network(graph, f) ------------------------------------- *)

Definition push_adj (g : graph) (u v : nat) : graph := upd u (adj g u ++ [v]) g.

Fixpoint residual_row (i : nat) (nbrs : list nat) (f : matrix) (ng : graph) (cf : matrix)
  : graph * matrix :=
  match nbrs with
  | [] => (ng, cf)
  | v :: r =>
      if Z.eqb (mget f i v) 1
      then residual_row i r f (push_adj ng v i) (mset (mset cf v i 1%Z) i v (-1)%Z)
      else residual_row i r f (push_adj ng i v) (mset (mset cf i v 1%Z) v i (-1)%Z)
  end.

Fixpoint residual_rows (i : nat) (rows : list (list nat)) (f : matrix) (ng : graph) (cf : matrix)
  : graph * matrix :=
  match rows with
  | [] => (ng, cf)
  | nbrs :: r =>
      let '(ng', cf') := residual_row i nbrs f ng cf in
      residual_rows (S i) r f ng' cf'
  end.

Definition residual_network (g : graph) (f : matrix) : graph * matrix :=
  let dim := length g in
  residual_rows 0 g f (repeat [] dim) (zero_matrix dim).

(* ---------- the Edmonds-Karp loop (servers_of_happiness / _compute_maximum_graph) *)

Definition path_delta (cf : matrix) (path : list (nat * nat)) : option Z :=
  match path with
  | [] => None                     (* min() of an empty sequence raises ValueError *)
  | (u, v) :: r => Some (fold_left (fun m e => Z.min m (mget cf (fst e) (snd e))) r (mget cf u v))
  end.

Fixpoint augment (f : matrix) (delta : Z) (path : list (nat * nat)) : matrix :=
  match path with
  | [] => f
  | (u, v) :: r =>
      let f1 := mset f u v (mget f u v + delta)%Z in
      let f2 := mset f1 v u (mget f1 v u - delta)%Z in
      augment f2 delta r
  end.

(* Returns the final flow function and the final residual graph.  Python calls
   augmenting_path_for twice per iteration (loop test, then body) with the same
   argument; it is a pure function, modelled once.  _compute_maximum_graph
   recomputes the residual network after every edge of the path; only the last
   recomputation (with the fully updated flow) is observable. *)
Fixpoint flow_loop (fuel : nat) (g : graph) (f : matrix) (rg : graph) (cf : matrix)
  : option (matrix * graph) :=
  match fuel with
  | O => None
  | S fuel' =>
      match augmenting_path_for rg with
      | None => None
      | Some None => Some (f, rg)
      | Some (Some path) =>
          match path_delta cf path with
          | None => None
          | Some delta =>
              let f' := augment f delta path in
              let '(rg', cf') := residual_network g f' in
              flow_loop fuel' g f' rg' cf'
          end
      end
  end.

Definition max_flow (fuel : nat) (g : graph) : option (matrix * graph) :=
  let f0 := zero_matrix (length g) in
  let '(rg, cf) := residual_network g f0 in
  flow_loop fuel g f0 rg cf.

(* ---------- happinessutil._reindex / _flow_network_for ---------------------- *)

Definition servermap := list (N * list N).   (* peerid -> shareids, iteration order *)

Fixpoint lookup_idx (k : N) (tbl : list (N * nat)) : option nat :=
  match tbl with
  | [] => None
  | (k', i) :: r => if N.eqb k k' then Some i else lookup_idx k r
  end.

Definition idx_of (tbl : list (N * nat)) (k : N) : nat :=
  match lookup_idx k tbl with Some i => i | None => 0 end.

(* `for shnum in ret[k]: if shnum not in shares: shares[shnum] = num; num += 1` *)
Fixpoint assign (shs : list N) (tbl : list (N * nat)) (num : nat) : list (N * nat) * nat :=
  match shs with
  | [] => (tbl, num)
  | s :: r =>
      match lookup_idx s tbl with
      | Some _ => assign r tbl num
      | None => assign r ((s, num) :: tbl) (S num)
      end
  end.

Fixpoint reindex_rows (rows : list (list N)) (tbl : list (N * nat)) (num : nat)
  : list (list nat) * list (N * nat) :=
  match rows with
  | [] => ([], tbl)
  | shs :: r =>
      let '(tbl', num') := assign shs tbl num in
      let '(rs, t) := reindex_rows r tbl' num' in
      (map (idx_of tbl') shs :: rs, t)
  end.

(* Returns the graph, and the share table (shareid -> vertex) for reading results back. *)
Definition flow_network_for (svm : servermap) : graph * list (N * nat) :=
  let ns := length svm in
  let '(rows, tbl) := reindex_rows (map snd svm) [] (S ns) in
  let nsh := length tbl in
  let sink := ns + nsh + 1 in
  ((seq 1 ns :: rows) ++ repeat [sink] nsh ++ [[]], tbl).

Fixpoint sum_out (f : matrix) (u : nat) (vs : list nat) : Z :=
  match vs with
  | [] => 0%Z
  | v :: r => (mget f u v + sum_out f u r)%Z
  end.

(* servers_of_happiness after `servermap = shares_by_server(sharemap)`, the dict
   and its sets presented in iteration order. *)
Definition soh_state (svm : servermap) : option (matrix * graph) :=
  max_flow (S (length svm)) (fst (flow_network_for svm)).

Definition soh_servermap (svm : servermap) : option Z :=
  match soh_state svm with
  | None => None
  | Some (f, _) => Some (sum_out f 0 (seq 1 (length svm)))
  end.

(* shares_by_server: sharemap (shareid -> peers, iteration order) to
   peerid -> shareids.  dict.setdefault keeps first-insertion order of the peers;
   the share sets are presented here in insertion order (the theorems hold for
   every presentation, see Props/C08.v). *)
Fixpoint add_share (p s : N) (svm : servermap) : servermap :=
  match svm with
  | [] => [(p, [s])]
  | (q, l) :: r =>
      if N.eqb p q
      then (q, if existsb (N.eqb s) l then l else l ++ [s]) :: r
      else (q, l) :: add_share p s r
  end.

Definition shares_by_server (sharemap : list (N * list N)) : servermap :=
  fold_left (fun acc e => fold_left (fun a p => add_share p (fst e) a) (snd e) acc) sharemap [].

Definition servers_of_happiness (sharemap : list (N * list N)) : option Z :=
  match sharemap with
  | [] => Some 0%Z                                   (* `if sharemap == {}: return 0` *)
  | _ => soh_servermap (shares_by_server sharemap)
  end.

(* ---------- certificate read off the final state --------------------------- *)
(* R = vertices the last (failing) BFS coloured: the source and every vertex with a
   predecessor.  M = server/share pairs carrying one unit of flow.  Cover =
   servers outside R and shares inside R. *)

Definition reached (tree : list (option nat)) (v : nat) : bool :=
  match v with
  | O => true
  | _ => match nth v tree None with Some _ => true | None => false end
  end.

Fixpoint enum_from {A : Type} (i : nat) (l : list A) : list (nat * A) :=
  match l with
  | [] => []
  | a :: r => (i, a) :: enum_from (S i) r
  end.

Definition matching_of (svm : servermap) (tbl : list (N * nat)) (f : matrix) : list (N * N) :=
  flat_map (fun e : nat * (N * list N) =>
              let '(i, (p, shs)) := e in
              flat_map (fun s => if Z.eqb (mget f i (idx_of tbl s)) 1 then [(p, s)] else []) shs)
           (enum_from 1 svm).

Definition cover_servers (svm : servermap) (tree : list (option nat)) : list N :=
  flat_map (fun e : nat * (N * list N) => if reached tree (fst e) then [] else [fst (snd e)])
           (enum_from 1 svm).

Definition cover_shares (tbl : list (N * nat)) (tree : list (option nat)) : list N :=
  flat_map (fun e : N * nat => if reached tree (snd e) then [fst e] else []) tbl.

(* ---------- boolean validator ------------------------------------------------ *)

Definition memN (x : N) (l : list N) : bool := existsb (N.eqb x) l.

Fixpoint nodupN (l : list N) : bool :=
  match l with
  | [] => true
  | x :: r => negb (memN x r) && nodupN r
  end.

Definition has_edge (svm : servermap) (p s : N) : bool :=
  existsb (fun e : N * list N => N.eqb (fst e) p && memN s (snd e)) svm.

Definition valid_matching (svm : servermap) (M : list (N * N)) : bool :=
  forallb (fun e : N * N => has_edge svm (fst e) (snd e)) M
  && nodupN (map fst M) && nodupN (map snd M).

Definition covers (svm : servermap) (CL CR : list N) : bool :=
  forallb (fun e : N * list N => memN (fst e) CL || forallb (fun s => memN s CR) (snd e)) svm.

Definition valid_certificate (svm : servermap) (n : Z) (M : list (N * N)) (CL CR : list N) : bool :=
  valid_matching svm M && covers svm CL CR
  && Z.eqb n (Z.of_nat (length M))
  && Nat.eqb (length CL + length CR) (length M).

Definition soh_certificate (svm : servermap) : option (list (N * N) * list N * list N) :=
  match soh_state svm with
  | None => None
  | Some (f, rg) =>
      match bfs rg 0 with
      | None => None
      | Some tree =>
          let tbl := snd (flow_network_for svm) in
          Some (matching_of svm tbl f, cover_servers svm tree, cover_shares tbl tree)
      end
  end.

Definition soh_certified (svm : servermap) : bool :=
  match soh_servermap svm, soh_certificate svm with
  | Some n, Some (M, CL, CR) => valid_certificate svm n M CL CR
  | _, _ => false
  end.
