(* C46 / C04: DownloadNode's segment request queue composed with its readers.

   immutable/downloader/node.py: _segment_requests (a list of (segnum, deferred,
   cancel handle)), _active_segment (at most one SegmentFetcher), get_segment /
   _start_new_segment / _extract_requests / _cancel_request / fetch_failed /
   process_blocks (success and failure branch) / _deliver.
   immutable/downloader/segmentation.py: one Segmentation per read(): _fetch_next,
   _got_segment, _retry_bad_segment, _error, pause/resume/stopProducing.

   Every method runs to completion; the events are the entry points reached from
   outside (a read() call, the consumer's producer calls, the active fetcher's
   process_blocks / fetch_failed, one queued eventual-send).  A stopped fetcher is
   silent (Proofs/FetcherBase.v fstep_stopped), so fetcher events always concern
   the active one.  Decoding is synchronous (cputhreadpool disabled, as in the
   harness), so process_blocks is one step.

   `clear_on_failure` is the repair of the C46 defect: process_blocks' failure
   branch (decode failure / BadCiphertextHashError) clears _active_segment like
   the success branch.  The code in /repo is `true`; `false` is the code before
   the repair, kept to state what was wrong. *)
From Coq Require Import List NArith Bool Arith.
Import ListNotations.
Local Open Scope N_scope.

(* ---- file geometry --------------------------------------------------------------- *)
Definition slice {A} (off len : nat) (l : list A) : list A := firstn len (skipn off l).

Definition div_ceil (n d : N) : N := n / d + (if n mod d =? 0 then 0 else 1).

(* spans.overlap *)
Definition overlap (s0 l0 s1 l1 : N) : option (N * N) :=
  let left := N.max s0 s1 in
  let right := N.min (s0 + l0) (s1 + l1) in
  if left <? right then Some (left, right - left) else None.

(* DownloadNode.read: size = max(0, min(size, filesize - offset)); None = file size *)
Definition read_clip (file_size offset : N) (size : option N) : N :=
  match size with
  | None => N.min file_size (file_size - offset)
  | Some s => N.min s (file_size - offset)
  end.

Inductive errcode := EBadSegNum | ENotEnough | ENoShares | EBadCiphertext | EDecode | EOther.

(* what a queued _deliver carries: the segment (start, data) or a Failure *)
Inductive segres := SegData (segnum : N) | SegErr (e : errcode).

Inductive rresult := RDone | RFailed (e : errcode) | RWrongSegment | RStopped.

Record req := mk_req { r_seg : N; r_id : N }.

Record reader := mk_reader {
  rd_offset : N;                          (* _offset *)
  rd_size : N;                            (* _size *)
  rd_hungry : bool;
  rd_alive : bool;
  rd_active : option (N * N * bool);      (* _active_segnum, its cancel handle, segment size known when asked *)
  rd_written : list (list N);             (* consumer.write calls, oldest first *)
  rd_result : option rresult;             (* the read()'s Deferred has fired *)
  rd_mfn : nat;                           (* eventually(self._maybe_fetch_next) queued *)
  rd_off0 : N;                            (* ghost: the (offset, clipped size) the read started with *)
  rd_size0 : N
}.

Record sys := mk_sys {
  s_reqs : list req;                      (* _segment_requests *)
  s_active : option (N * N);              (* _active_segment: (fetcher serial, segnum) *)
  s_next_fid : N;
  s_next_rid : N;
  s_inactive : list N;                    (* cancel handles with .active = False *)
  s_deliveries : list (N * segres);       (* queued eventually(self._deliver, d, c, result) *)
  s_known : bool;                         (* node.segment_size is not None (UEB validated) *)
  s_readers : list reader
}.

Inductive sout :=
| OStartFetcher (fid seg : N)
| OStopFetcher (fid : N)
| OFire (rid : N) (res : segres)          (* d.callback(result) of a get_segment Deferred *)
| OWrite (i : nat) (data : list N)
| OFinish (i : nat) (res : rresult).

(* what the consumer does inside write() *)
Inductive reaction := Quiet | PauseInWrite | StopInWrite.

Inductive sev :=
| SRead (offset : N) (size : option N)    (* node.read(consumer, offset, size) *)
| SPause (i : nat)
| SResume (i : nat)
| SStop (i : nat)                         (* stopProducing *)
| SMaybeFetch (i : nat)                   (* one queued _maybe_fetch_next of reader i runs *)
| SLearn                                  (* a Share validated the UEB: segment size known *)
| SFetchFailed (e : errcode)              (* active fetcher: node.fetch_failed(self, f) *)
| SBlocks (ok : bool) (e : errcode)       (* active fetcher: node.process_blocks; decode and hash check pass or fail with e *)
| SDeliver (react : reaction).            (* the oldest queued _deliver runs *)

Section Node.
  Variable clear_on_failure : bool.
  Variable ct : list N.                   (* the file (ciphertext; the position-wise decryption is C01) *)
  Variable segsize : N.                   (* real segment size (UEB) *)
  Variable guess : N.                     (* guessed_segment_size *)

  Definition fsize : N := N.of_nat (length ct).
  Definition numsegs : N := div_ceil fsize segsize.
  Definition seg_data (i : N) : list N := slice (N.to_nat (i * segsize)) (N.to_nat segsize) ct.

  (* ---- node ------------------------------------------------------------------------ *)
  Definition upd_node (s : sys) reqs active fid rid inact dels : sys :=
    mk_sys reqs active fid rid inact dels (s_known s) (s_readers s).

  (* _start_new_segment *)
  Definition start_new (s : sys) : sys * list sout :=
    match s_active s, s_reqs s with
    | None, r :: _ =>
        (upd_node s (s_reqs s) (Some (s_next_fid s, r_seg r)) (s_next_fid s + 1) (s_next_rid s) (s_inactive s) (s_deliveries s),
         [OStartFetcher (s_next_fid s) (r_seg r)])
    | _, _ => (s, [])
    end.

  (* get_segment: returns the handle *)
  Definition get_segment (s : sys) (seg : N) : sys * N * list sout :=
    let rid := s_next_rid s in
    let s1 := upd_node s (s_reqs s ++ [mk_req seg rid]) (s_active s) (s_next_fid s) (rid + 1) (s_inactive s) (s_deliveries s) in
    let (s2, o) := start_new s1 in (s2, rid, o).

  Definition nmem (x : N) (l : list N) : bool := existsb (N.eqb x) l.

  (* _extract_requests + eventually(self._deliver, d, c, result) for each *)
  Definition extract (s : sys) (seg : N) (res : segres) : sys :=
    let hit := filter (fun r => r_seg r =? seg) (s_reqs s) in
    let rest := filter (fun r => negb (r_seg r =? seg)) (s_reqs s) in
    upd_node s rest (s_active s) (s_next_fid s) (s_next_rid s) (s_inactive s)
             (s_deliveries s ++ map (fun r => (r_id r, res)) hit).

  Definition clear_active (s : sys) : sys :=
    upd_node s (s_reqs s) None (s_next_fid s) (s_next_rid s) (s_inactive s) (s_deliveries s).

  (* Cancel.cancel -> _cancel_request *)
  Definition cancel (s : sys) (rid : N) : sys * list sout :=
    if nmem rid (s_inactive s) then (s, []) else
    let reqs := filter (fun r => negb (r_id r =? rid)) (s_reqs s) in
    let s1 := upd_node s reqs (s_active s) (s_next_fid s) (s_next_rid s) (rid :: s_inactive s) (s_deliveries s) in
    match s_active s1 with
    | Some (fid, seg) =>
        if nmem seg (map r_seg reqs) then (s1, [])
        else let (s2, o) := start_new (clear_active s1) in (s2, OStopFetcher fid :: o)
    | None => (s1, [])
    end.

  (* ---- readers ---------------------------------------------------------------------- *)
  Fixpoint set_nth {A} (n : nat) (x : A) (l : list A) : list A :=
    match l, n with
    | [], _ => []
    | _ :: r, O => x :: r
    | y :: r, S n' => y :: set_nth n' x r
    end.

  Definition set_reader (s : sys) (i : nat) (r : reader) : sys :=
    mk_sys (s_reqs s) (s_active s) (s_next_fid s) (s_next_rid s) (s_inactive s) (s_deliveries s) (s_known s)
           (set_nth i r (s_readers s)).

  Definition rd_set_flags (r : reader) hungry alive :=
    mk_reader (rd_offset r) (rd_size r) hungry alive (rd_active r) (rd_written r) (rd_result r) (rd_mfn r) (rd_off0 r) (rd_size0 r).
  Definition rd_finish (r : reader) (res : rresult) :=
    mk_reader (rd_offset r) (rd_size r) false false (rd_active r) (rd_written r) (Some res) (rd_mfn r) (rd_off0 r) (rd_size0 r).
  Definition rd_set_active (r : reader) a :=
    mk_reader (rd_offset r) (rd_size r) (rd_hungry r) (rd_alive r) a (rd_written r) (rd_result r) (rd_mfn r) (rd_off0 r) (rd_size0 r).
  Definition rd_set_mfn (r : reader) n :=
    mk_reader (rd_offset r) (rd_size r) (rd_hungry r) (rd_alive r) (rd_active r) (rd_written r) (rd_result r) n (rd_off0 r) (rd_size0 r).

  (* _maybe_fetch_next / _fetch_next for reader i (current record r) *)
  Definition maybe_fetch_next (s : sys) (i : nat) (r : reader) : sys * list sout :=
    if negb (rd_alive r) || negb (rd_hungry r) then (set_reader s i r, []) else
    match rd_active r with
    | Some _ => (set_reader s i r, [])
    | None =>
      if rd_size r =? 0 then (set_reader s i (rd_finish r RDone), [OFinish i RDone]) else
      let ss := if s_known s then segsize else guess in
      let wanted := if rd_offset r =? 0 then 0 else rd_offset r / ss in
      let '(s1, rid, o) := get_segment s wanted in
      (set_reader s1 i (rd_set_active r (Some (wanted, rid, s_known s))), o)
    end.

  (* Segmentation._error *)
  Definition rd_error (s : sys) (i : nat) (r : reader) (res : rresult) : sys * list sout :=
    (set_reader s i (rd_finish r res), [OFinish i res]).

  (* the get_segment Deferred of reader i fires with res: _request_retired, then
     _got_segment or the errback chain *)
  Definition reader_fired (s : sys) (i : nat) (r : reader) (known_at_issue : bool) (res : segres) (react : reaction)
    : sys * list sout :=
    let r := rd_set_active r None in
    match res with
    | SegData segnum =>
      let seg := seg_data segnum in
      match overlap (segnum * segsize) (N.of_nat (length seg)) (rd_offset r) (rd_size r) with
      | Some (o0, o1) =>
        if o0 =? rd_offset r then
          let off_in := rd_offset r - segnum * segsize in
          let data := slice (N.to_nat off_in) (N.to_nat o1) seg in
          let dl := N.of_nat (length data) in
          let r1 := mk_reader (rd_offset r + dl) (rd_size r - dl) (rd_hungry r) (rd_alive r) None
                              (rd_written r ++ [data]) (rd_result r) (rd_mfn r) (rd_off0 r) (rd_size0 r) in
          match react with
          | Quiet => let (s2, o) := maybe_fetch_next s i r1 in (s2, OWrite i data :: o)
          | PauseInWrite => (set_reader s i (rd_set_flags r1 false (rd_alive r1)), [OWrite i data])
          | StopInWrite => (set_reader s i (rd_finish r1 RStopped), [OWrite i data; OFinish i RStopped])
          end
        else if known_at_issue then rd_error s i r RWrongSegment else maybe_fetch_next s i r
      | None => if known_at_issue then rd_error s i r RWrongSegment else maybe_fetch_next s i r
      end
    | SegErr e =>
      match e, known_at_issue with
      | EBadSegNum, false => maybe_fetch_next s i r     (* _retry_bad_segment traps it *)
      | _, _ => rd_error s i r (RFailed e)
      end
    end.

  Fixpoint find_reader (rid : N) (l : list reader) (i : nat) : option (nat * reader * bool) :=
    match l with
    | [] => None
    | r :: rest =>
      match rd_active r with
      | Some (_, rid', k) => if rid' =? rid then Some (i, r, k) else find_reader rid rest (S i)
      | None => find_reader rid rest (S i)
      end
    end.

  (* ---- the system ------------------------------------------------------------------- *)
  Definition sstep (s : sys) (e : sev) : sys * list sout :=
    match e with
    | SRead offset size =>
        let sz := read_clip fsize offset size in
        let i := length (s_readers s) in
        if sz =? 0 then
          (mk_sys (s_reqs s) (s_active s) (s_next_fid s) (s_next_rid s) (s_inactive s) (s_deliveries s) (s_known s)
                  (s_readers s ++ [mk_reader offset 0 false false None [] (Some RDone) 0 offset 0]), [OFinish i RDone])
        else
          let r := mk_reader offset sz true true None [] None 0 offset sz in
          let s1 := mk_sys (s_reqs s) (s_active s) (s_next_fid s) (s_next_rid s) (s_inactive s) (s_deliveries s) (s_known s)
                           (s_readers s ++ [r]) in
          maybe_fetch_next s1 i r
    | SPause i =>
        match nth_error (s_readers s) i with
        | Some r => match rd_result r with
                    | None => (set_reader s i (rd_set_flags r false (rd_alive r)), [])
                    | Some _ => (s, [])
                    end
        | None => (s, [])
        end
    | SResume i =>
        match nth_error (s_readers s) i with
        | Some r => match rd_result r with
                    | None => (set_reader s i (rd_set_mfn (rd_set_flags r true (rd_alive r)) (S (rd_mfn r))), [])
                    | Some _ => (s, [])
                    end
        | None => (s, [])
        end
    | SStop i =>
        match nth_error (s_readers s) i with
        | Some r =>
          match rd_result r with
          | None =>
            let (s1, o) := match rd_active r with
                           | Some (_, rid, _) => cancel s rid
                           | None => (s, [])
                           end in
            (set_reader s1 i (rd_finish (rd_set_active r None) RStopped), o ++ [OFinish i RStopped])
          | Some _ => (s, [])
          end
        | None => (s, [])
        end
    | SMaybeFetch i =>
        match nth_error (s_readers s) i with
        | Some r => match rd_mfn r with
                    | O => (s, [])
                    | S n => maybe_fetch_next s i (rd_set_mfn r n)
                    end
        | None => (s, [])
        end
    | SLearn =>
        (mk_sys (s_reqs s) (s_active s) (s_next_fid s) (s_next_rid s) (s_inactive s) (s_deliveries s) true (s_readers s), [])
    | SFetchFailed e =>
        match s_active s with
        | Some (fid, seg) =>
            let s1 := extract (clear_active s) seg (SegErr e) in
            start_new s1
        | None => (s, [])
        end
    | SBlocks ok e =>
        match s_active s with
        | Some (fid, seg) =>
            if ok then start_new (extract (clear_active s) seg (SegData seg))
            else start_new (extract (if clear_on_failure then clear_active s else s) seg (SegErr e))
        | None => (s, [])
        end
    | SDeliver react =>
        match s_deliveries s with
        | [] => (s, [])
        | (rid, res) :: rest =>
          let s1 := upd_node s (s_reqs s) (s_active s) (s_next_fid s) (s_next_rid s) (s_inactive s) rest in
          if nmem rid (s_inactive s1) then (s1, [])      (* cancelled meanwhile: _deliver does nothing *)
          else
            let s2 := upd_node s1 (s_reqs s1) (s_active s1) (s_next_fid s1) (s_next_rid s1) (rid :: s_inactive s1) rest in
            match find_reader rid (s_readers s2) 0 with
            | Some (i, r, k) => let (s3, o) := reader_fired s2 i r k res react in (s3, OFire rid res :: o)
            | None => (s2, [OFire rid res])              (* a get_segment caller that is not a Segmentation *)
            end
        end
    end.

  Definition sinit : sys := mk_sys [] None 0 0 [] [] false [].

  Fixpoint srun (s : sys) (evs : list sev) : sys * list sout :=
    match evs with
    | [] => (s, [])
    | e :: r => let (s1, o1) := sstep s e in let (s2, o2) := srun s1 r in (s2, o1 ++ o2)
    end.
End Node.

(* LiteralFileNode.read: data[offset:] / data[offset:offset+size] *)
Definition literal_read (data : list N) (offset : N) (size : option N) : list N :=
  match size with
  | None => skipn (N.to_nat offset) data
  | Some s => slice (N.to_nat offset) (N.to_nat s) data
  end.

(* ---- canonical observations compared with the implementation -------------------- *)
Definition err_code (e : errcode) : N :=
  match e with EBadSegNum => 0 | ENotEnough => 1 | ENoShares => 2 | EBadCiphertext => 3 | EDecode => 4 | EOther => 5 end.
Definition res_code (r : option rresult) : N :=
  match r with
  | None => 0 | Some RDone => 1 | Some RStopped => 2 | Some RWrongSegment => 3
  | Some (RFailed e) => 10 + err_code e
  end.
Definition segres_code (r : segres) : list N :=
  match r with SegData n => [0; n] | SegErr e => [1; err_code e] end.
Definition bn (b : bool) : N := if b then 1 else 0.

Definition sout_code (o : sout) : list N :=
  match o with
  | OStartFetcher fid seg => [0; fid; seg]
  | OStopFetcher fid => [1; fid]
  | OFire rid res => 2 :: rid :: segres_code res
  | OWrite i data => 3 :: N.of_nat i :: data
  | OFinish i res => [4; N.of_nat i; res_code (Some res)]
  end.

Definition reader_rows (r : reader) : list (list N) :=
  [ rd_offset r; rd_size r; bn (rd_hungry r); bn (rd_alive r);
    match rd_result r, rd_active r with
    | None, Some (seg, _, _) => seg + 1
    | _, _ => 0
    end;
    res_code (rd_result r); N.of_nat (length (rd_written r)); N.of_nat (rd_mfn r) ] :: rd_written r.

Definition sobs (r : sys * list sout) : list (list N) :=
  let (s, o) := r in
  [ flat_map (fun q => [r_seg q; r_id q]) (s_reqs s);
    match s_active s with Some (fid, seg) => [fid; seg] | None => [] end;
    flat_map (fun d => fst d :: segres_code (snd d)) (s_deliveries s);
    [bn (s_known s)] ]
  ++ flat_map reader_rows (s_readers s) ++ map sout_code o.

Fixpoint ln_eqb (a b : list N) : bool :=
  match a, b with
  | [], [] => true
  | x :: r, y :: q => N.eqb x y && ln_eqb r q
  | _, _ => false
  end.
Fixpoint lln_eqb (a b : list (list N)) : bool :=
  match a, b with
  | [], [] => true
  | x :: r, y :: q => ln_eqb x y && lln_eqb r q
  | _, _ => false
  end.
