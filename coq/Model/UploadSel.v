(* Model of the success decision of an immutable upload:
     src/allmydata/immutable/upload.py   Tahoe2ServerSelector.get_shareholders (existing-share queries,
                                         the allocation loop, the final happiness test), _handle_existing_response,
                                         _handle_existing_write_response, _allocation_for, _buckets_allocated, _failed,
                                         ServerTracker._buckets_allocated / abort, PeerSelector (peers / readonly_peers /
                                         bad_peers / existing_shares / get_sharemap_of_preexisting_shares),
                                         CHKUploader.set_shareholders / _encrypted_done
     src/allmydata/immutable/encode.py   Encoder.set_shareholders, _remove_shareholder, _gather_responses, err, done
     src/allmydata/immutable/layout.py   WriteBucketProxy.close (flush write, then remote close), abort
     src/allmydata/util/happinessutil.py merge_servers; servers_of_happiness is Model/Matching.v (C08)

   No proofs here (Proofs/UploadSel*.v).

   The machine consumes a SCRIPT of server responses and produces a verdict, the final bookkeeping, the map
   the upload reports and the LOG of requests it sent to bucket writers.
   * Servers and share numbers are N.  A Python set is a duplicate-free list in insertion order, a dict of sets an
     association list; nothing is ever sorted and no result depends on the order (C08: the happiness value depends on
     the relation only), the driver compares as sets.
   * Phase 1: one answer to get_buckets per tracker ([ExOk shares] / [ExErr]: error or the 15 s timeout), in arrival
     order.  An answer for a tracker that has none pending is ignored; a tracker without an answer leaves the
     DeferredList unfired: verdict VPending.
   * Phase 2: one [round] per iteration of the `while` loop: the plan computed by share_placement (an INPUT: the
     theorems hold for every plan; C07 is about the plan itself) and the answers to the allocate_buckets queries of
     that round in arrival order.  All queries of a round are sent before any answer is handled (answers are
     asynchronous).  The list of rounds is the fuel of the loop: if the loop wants another round and the script has
     none, VPending.
   * set_shareholders: `assert len(buckets) == sum(len(tracker.buckets))` fails when two trackers hold a writer for
     the same share number: verdict VAssert (AssertionError, not an unhappiness error; nothing is aborted).  Since
     /repo 111e37b _allocation_for does not ask for a share another tracker holds, so this needs a server that
     allocates a share it was not asked for (Props/C06.v: honest_upload_never_asserts).
   * Encoder: a list of write rounds (put_header, each segment, the four hash/extension stages), each a list of answers
     in arrival order ([WOk]: buffered locally or written remotely and acknowledged; [WErr]), then the close round
     ([COk]; [CFlushErr]: the last buffered write failed, close was not sent; [CErr executed]: close was sent and the
     client saw an error, [executed] says whether the server had run it).  DeferredList(fireOnOneErrback): the first
     UploadUnhappinessError raised by _remove_shareholder runs err() at once (abort of every remaining landlord, which
     stay in the dict); the other answers of that round are still handled; no further round starts.
   * The log records, per bucket (server, share number), the requests in the order they are put on the connection:
     the requests of a round when the round starts, an abort when it is issued. *)
From Coq Require Import List NArith ZArith Bool.
From Verif Require Import Model.Matching.
Import ListNotations.
Local Open Scope N_scope.

(* ---------------------------------------------------------------- sets and dicts of sets *)
Definition set_add (x : N) (l : list N) : list N := if memN x l then l else l ++ [x].
Definition set_remove (x : N) (l : list N) : list N := filter (fun y => negb (N.eqb x y)) l.
Definition set_union (a b : list N) : list N := fold_left (fun acc x => set_add x acc) b a.
Definition set_diff (a b : list N) : list N := filter (fun x => negb (memN x b)) a.
Definition subsetb (a b : list N) : bool := forallb (fun x => memN x b) a.
Definition set_eqb (a b : list N) : bool := subsetb a b && subsetb b a.
Definition is_nil {A : Type} (l : list A) : bool := match l with [] => true | _ => false end.

Definition dmap := list (N * list N).

Fixpoint dm_get (k : N) (m : dmap) : list N :=
  match m with
  | [] => []
  | (k', l) :: r => if N.eqb k k' then l else dm_get k r
  end.

(* m.setdefault(k, set()).add(v) *)
Fixpoint dm_add (k v : N) (m : dmap) : dmap :=
  match m with
  | [] => [(k, [v])]
  | (k', l) :: r => if N.eqb k k' then (k', set_add v l) :: r else (k', l) :: dm_add k v r
  end.

(* m[k].remove(v); if not m[k]: del m[k]      (no-op where Python would raise KeyError) *)
Fixpoint dm_remove (k v : N) (m : dmap) : dmap :=
  match m with
  | [] => []
  | (k', l) :: r =>
      if N.eqb k k'
      then (let l' := set_remove v l in if is_nil l' then r else (k', l') :: r)
      else (k', l) :: dm_remove k v r
  end.

Definition dm_add_all (k : N) (vs : list N) (m : dmap) : dmap := fold_left (fun a v => dm_add k v a) vs m.

(* {server: shares} -> {share: servers}   (PeerSelector.get_sharemap_of_preexisting_shares) *)
Definition transpose (m : dmap) : dmap :=
  fold_left (fun acc e => fold_left (fun a s => dm_add s (fst e) a) (snd e) acc) m [].

Definition pairs_of (m : dmap) : list (N * N) := flat_map (fun e => map (fun v => (fst e, v)) (snd e)) m.

(* ---------------------------------------------------------------- configuration and script *)
Record config := {
  c_happy : Z;                (* min_happiness *)
  c_total : N;                (* total_shares *)
  c_ro : list N;              (* readonly_trackers as created by _create_trackers *)
  c_rw : list N               (* write_trackers *)
}.

Inductive ex_resp := ExOk (shares : list N) | ExErr.
Inductive al_resp := AlOk (alreadygot allocated : list N) | AlErr.
Inductive wresp := WOk | WErr.
Inductive cresp := COk | CFlushErr | CErr (executed : bool).

Record round := {
  r_plan : list (N * option N);        (* share number -> server or None *)
  r_resps : list (N * al_resp)
}.

Record script := {
  x_existing : list (N * ex_resp);
  x_rounds : list round;
  x_writes : list (list (N * wresp));
  x_close : list (N * cresp)
}.

(* ---------------------------------------------------------------- selector state *)
Record sel := {
  s_peers : list N;
  s_ro_peers : list N;
  s_bad_peers : list N;
  s_existing : dmap;          (* peer_selector.existing_shares     server -> shares *)
  s_preexisting : dmap;       (* self.preexisting_shares           share -> servers *)
  s_homeless : list N;
  s_with_shares : list N;     (* serverids_with_shares *)
  s_wtrackers : list N;
  s_rtrackers : list N;
  s_buckets : dmap;           (* tracker.buckets                   server -> share numbers *)
  s_use : list N;             (* use_trackers *)
  s_total : N; s_good : N; s_bad : N; s_full : N; s_error : N; s_contacted : N
}.

Definition trackers (c : config) : list N := c_rw c ++ c_ro c.

Definition sel_init (c : config) : sel :=
  {| s_peers := c_rw c; s_ro_peers := c_ro c; s_bad_peers := [];
     s_existing := []; s_preexisting := []; s_homeless := map N.of_nat (seq 0 (N.to_nat (c_total c)));
     s_with_shares := []; s_wtrackers := c_rw c; s_rtrackers := c_ro c; s_buckets := []; s_use := [];
     s_total := 0; s_good := 0; s_bad := 0; s_full := 0; s_error := 0; s_contacted := 0 |}.

(* PeerSelector.mark_bad_peer *)
Definition mark_bad_peer (p : N) (st : sel) : sel :=
  if memN p (s_peers st) then
    {| s_peers := set_remove p (s_peers st); s_ro_peers := s_ro_peers st; s_bad_peers := set_add p (s_bad_peers st);
       s_existing := s_existing st; s_preexisting := s_preexisting st; s_homeless := s_homeless st;
       s_with_shares := s_with_shares st; s_wtrackers := s_wtrackers st; s_rtrackers := s_rtrackers st;
       s_buckets := s_buckets st; s_use := s_use st;
       s_total := s_total st; s_good := s_good st; s_bad := s_bad st; s_full := s_full st; s_error := s_error st;
       s_contacted := s_contacted st |}
  else if memN p (s_ro_peers st) then
    {| s_peers := s_peers st; s_ro_peers := set_remove p (s_ro_peers st); s_bad_peers := set_add p (s_bad_peers st);
       s_existing := s_existing st; s_preexisting := s_preexisting st; s_homeless := s_homeless st;
       s_with_shares := s_with_shares st; s_wtrackers := s_wtrackers st; s_rtrackers := s_rtrackers st;
       s_buckets := s_buckets st; s_use := s_use st;
       s_total := s_total st; s_good := s_good st; s_bad := s_bad st; s_full := s_full st; s_error := s_error st;
       s_contacted := s_contacted st |}
  else st.

(* PeerSelector.mark_readonly_peer inside `try: ... except KeyError: pass`:
   readonly_peers.add happens before peers.remove can raise *)
Definition mark_readonly_peer (p : N) (st : sel) : sel :=
  {| s_peers := set_remove p (s_peers st); s_ro_peers := set_add p (s_ro_peers st); s_bad_peers := s_bad_peers st;
     s_existing := s_existing st; s_preexisting := s_preexisting st; s_homeless := s_homeless st;
     s_with_shares := s_with_shares st; s_wtrackers := s_wtrackers st; s_rtrackers := s_rtrackers st;
     s_buckets := s_buckets st; s_use := s_use st;
     s_total := s_total st; s_good := s_good st; s_bad := s_bad st; s_full := s_full st; s_error := s_error st;
     s_contacted := s_contacted st |}.

(* get_shareholders._make_readonly (also the effect of timed_out in phase 1) *)
Definition make_readonly (p : N) (st : sel) : sel :=
  {| s_peers := s_peers st; s_ro_peers := s_ro_peers st; s_bad_peers := s_bad_peers st;
     s_existing := s_existing st; s_preexisting := s_preexisting st; s_homeless := s_homeless st;
     s_with_shares := s_with_shares st;
     s_wtrackers := set_remove p (s_wtrackers st); s_rtrackers := set_add p (s_rtrackers st);
     s_buckets := s_buckets st; s_use := s_use st;
     s_total := s_total st; s_good := s_good st; s_bad := s_bad st; s_full := s_full st; s_error := s_error st;
     s_contacted := s_contacted st |}.

(* ---- phase 1 *)
(* _handle_existing_response (read-only trackers) *)
Definition existing_ro (p : N) (r : ex_resp) (st : sel) : sel :=
  match r with
  | ExErr => mark_bad_peer p st
  | ExOk shares =>
      {| s_peers := s_peers st; s_ro_peers := s_ro_peers st; s_bad_peers := s_bad_peers st;
         s_existing := dm_add_all p shares (s_existing st);
         s_preexisting := fold_left (fun a b => dm_add b p a) shares (s_preexisting st);
         s_homeless := set_diff (s_homeless st) shares;
         s_with_shares := if is_nil shares then s_with_shares st else set_add p (s_with_shares st);
         s_wtrackers := s_wtrackers st; s_rtrackers := s_rtrackers st; s_buckets := s_buckets st; s_use := s_use st;
         s_total := s_total st; s_good := s_good st; s_bad := s_bad st; s_full := s_full st; s_error := s_error st;
         s_contacted := s_contacted st |}
  end.

(* timed_out + _handle_existing_write_response (write trackers; shares_to_ask = set()) *)
Definition existing_rw (p : N) (r : ex_resp) (st : sel) : sel :=
  match r with
  | ExErr => mark_bad_peer p (make_readonly p st)
  | ExOk shares =>
      {| s_peers := s_peers st; s_ro_peers := s_ro_peers st; s_bad_peers := s_bad_peers st;
         s_existing := dm_add_all p shares (s_existing st);
         s_preexisting := s_preexisting st; s_homeless := s_homeless st; s_with_shares := s_with_shares st;
         s_wtrackers := s_wtrackers st; s_rtrackers := s_rtrackers st; s_buckets := s_buckets st; s_use := s_use st;
         s_total := s_total st; s_good := s_good st; s_bad := s_bad st; s_full := s_full st; s_error := s_error st;
         s_contacted := s_contacted st |}
  end.

(* answers in arrival order; [pending] = trackers still waiting *)
Fixpoint phase1 (c : config) (resps : list (N * ex_resp)) (pending : list N) (st : sel) : sel * list N :=
  match resps with
  | [] => (st, pending)
  | (p, r) :: rest =>
      if memN p pending
      then phase1 c rest (set_remove p pending)
                  (if memN p (c_ro c) then existing_ro p r st else existing_rw p r st)
      else phase1 c rest pending st
  end.

(* ---- phase 2 *)
(* _allocation_for: the share numbers the plan gives to tracker p, except those for which another tracker in
   use_trackers already holds a bucket from an earlier round (each share is written to one server only) *)
Definition held_elsewhere (st : sel) (p sh : N) : bool :=
  existsb (fun q => negb (N.eqb q p) && memN sh (dm_get q (s_buckets st))) (s_use st).

Definition allocation_for (st : sel) (plan : list (N * option N)) (p : N) : list N :=
  fold_left (fun acc e => match snd e with
                          | Some q => if N.eqb p q && negb (held_elsewhere st p (fst e)) then set_add (fst e) acc else acc
                          | None => acc
                          end) plan [].

Definition with_homeless (h : list N) (st : sel) : sel :=
  {| s_peers := s_peers st; s_ro_peers := s_ro_peers st; s_bad_peers := s_bad_peers st;
     s_existing := s_existing st; s_preexisting := s_preexisting st; s_homeless := h;
     s_with_shares := s_with_shares st; s_wtrackers := s_wtrackers st; s_rtrackers := s_rtrackers st;
     s_buckets := s_buckets st; s_use := s_use st;
     s_total := s_total st; s_good := s_good st; s_bad := s_bad st; s_full := s_full st; s_error := s_error st;
     s_contacted := s_contacted st |}.

Definition count_query (st : sel) : sel :=
  {| s_peers := s_peers st; s_ro_peers := s_ro_peers st; s_bad_peers := s_bad_peers st;
     s_existing := s_existing st; s_preexisting := s_preexisting st; s_homeless := s_homeless st;
     s_with_shares := s_with_shares st; s_wtrackers := s_wtrackers st; s_rtrackers := s_rtrackers st;
     s_buckets := s_buckets st; s_use := s_use st;
     s_total := s_total st + 1; s_good := s_good st; s_bad := s_bad st; s_full := s_full st; s_error := s_error st;
     s_contacted := s_contacted st + 1 |}.

(* the `for tracker in trackers` loop: which queries are sent (tracker, shares_to_ask) *)
Fixpoint send_queries (plan : list (N * option N)) (ts : list N) (st : sel) (sent : list (N * list N))
  : sel * list (N * list N) :=
  match ts with
  | [] => (st, sent)
  | p :: rest =>
      let ask := allocation_for st plan p in
      let st1 := with_homeless (set_diff (s_homeless st) ask) st in
      if negb (set_eqb ask (dm_get p (s_buckets st1))) || memN p (s_rtrackers st1)
      then send_queries plan rest (count_query st1) (sent ++ [(p, ask)])
      else send_queries plan rest st1 sent
  end.

(* Tahoe2ServerSelector._buckets_allocated, failure branch, then _bad_server and _make_readonly *)
Definition alloc_error (p : N) (ask : list N) (st : sel) : sel :=
  let st1 :=
    {| s_peers := s_peers st; s_ro_peers := s_ro_peers st; s_bad_peers := s_bad_peers st;
       s_existing := s_existing st; s_preexisting := s_preexisting st; s_homeless := set_union (s_homeless st) ask;
       s_with_shares := s_with_shares st; s_wtrackers := s_wtrackers st; s_rtrackers := s_rtrackers st;
       s_buckets := s_buckets st; s_use := s_use st;
       s_total := s_total st; s_good := s_good st; s_bad := s_bad st + 1; s_full := s_full st; s_error := s_error st + 1;
       s_contacted := s_contacted st |} in
  make_readonly p (mark_readonly_peer p st1).

(* the `for s in alreadygot` loop: (preexisting, homeless, progress) *)
Definition got_step (p : N) (ask : list N) (acc : dmap * list N * bool) (s : N) : dmap * list N * bool :=
  let '(pre, hl, prog) := acc in
  let pre' := dm_add s p pre in
  if memN s hl then (pre', set_remove s hl, true)
  else if memN s ask then (pre', hl, true)
  else (pre', hl, prog).

Definition alloc_ok (p : N) (ask got alloc : list N) (st : sel) : sel :=
  let '(pre, hl, prog0) := fold_left (got_step p ask) got (s_preexisting st, s_homeless st, false) in
  let prog := prog0 || negb (is_nil alloc) in
  let still_homeless := set_diff (set_diff ask got) alloc in
  let st1 :=
    {| s_peers := s_peers st; s_ro_peers := s_ro_peers st; s_bad_peers := s_bad_peers st;
       s_existing := s_existing st; s_preexisting := pre; s_homeless := set_union hl still_homeless;
       s_with_shares := if is_nil alloc && is_nil got then s_with_shares st else set_add p (s_with_shares st);
       s_wtrackers := s_wtrackers st; s_rtrackers := s_rtrackers st;
       s_buckets := dm_add_all p alloc (s_buckets st);                     (* ServerTracker._buckets_allocated *)
       s_use := if is_nil alloc then s_use st else set_add p (s_use st);
       s_total := s_total st;
       s_good := if prog then s_good st + 1 else s_good st;
       s_bad := if prog then s_bad st else s_bad st + 1;
       s_full := if prog then s_full st else s_full st + 1;
       s_error := s_error st; s_contacted := s_contacted st |} in
  if prog then st1 else make_readonly p st1.

Fixpoint lookup_ask (p : N) (sent : list (N * list N)) : option (list N) :=
  match sent with
  | [] => None
  | (q, a) :: r => if N.eqb p q then Some a else lookup_ask p r
  end.

Definition drop_ask (p : N) (sent : list (N * list N)) : list (N * list N) :=
  filter (fun e => negb (N.eqb p (fst e))) sent.

Fixpoint handle_allocs (resps : list (N * al_resp)) (pending : list (N * list N)) (st : sel) : sel * list (N * list N) :=
  match resps with
  | [] => (st, pending)
  | (p, r) :: rest =>
      match lookup_ask p pending with
      | None => handle_allocs rest pending st
      | Some ask =>
          handle_allocs rest (drop_ask p pending)
                        (match r with
                         | AlErr => alloc_error p ask st
                         | AlOk got alloc => alloc_ok p ask got alloc st
                         end)
      end
  end.

(* merge_servers(peer_selector.get_sharemap_of_preexisting_shares(), use_trackers); the same loop builds the
   servermap in CHKUploader.set_shareholders *)
Definition merged (st : sel) : dmap :=
  fold_left (fun acc p => fold_left (fun a sh => dm_add sh p a) (dm_get p (s_buckets st)) acc)
            (s_use st) (transpose (s_existing st)).

Definition happiness (st : sel) : option Z := servers_of_happiness (merged st).

Definition do_round (c : config) (r : round) (st : sel) : option (sel * list (N * list N)) :=
  let '(st1, sent) := send_queries (r_plan r) (trackers c) st [] in
  let '(st2, pending) := handle_allocs (r_resps r) sent st1 in
  if is_nil pending then Some (st2, sent) else None.

(* the while loop; returns the state and the queries sent, round by round *)
Fixpoint sel_loop (c : config) (rounds : list round) (last : option Z) (st : sel) (qs : list (list (N * list N)))
  : option (sel * list (list (N * list N))) :=
  match rounds with
  | [] => None
  | r :: rest =>
      match do_round c r st with
      | None => None
      | Some (st', sent) =>
          match happiness st' with
          | None => None
          | Some eff =>
              let qs' := qs ++ [sent] in
              if match last with Some l => Z.eqb eff l | None => false end then Some (st', qs')
              else if N.eqb (s_bad st) (s_bad st') then Some (st', qs')
              else if Z.ltb eff (c_happy c) && negb (is_nil (s_wtrackers st')) then sel_loop c rest (Some eff) st' qs'
              else Some (st', qs')
          end
      end
  end.

Inductive verdict := VSuccess | VUnhappySel | VUnhappyEnc | VAssert | VPending.

(* ---------------------------------------------------------------- bucket writers on the wire *)
Inductive bop := OpWrite | OpClose (executed : bool) | OpAbort.
Definition bucket := (N * N)%type.                 (* (server, share number) *)
Definition log := list (bucket * bop).

Definition bucket_eqb (a b : bucket) : bool := N.eqb (fst a) (fst b) && N.eqb (snd a) (snd b).

(* the storage server's bucket life cycle (C22: visible iff closed; abort of an open writer removes the file,
   abort after close does nothing; close or write after abort is refused) *)
Inductive bstate := BOpen | BClosed | BAborted.
Definition bstep (s : bstate) (op : bop) : bstate :=
  match s, op with
  | BOpen, OpClose true => BClosed
  | BOpen, OpAbort => BAborted
  | _, _ => s
  end.
Definition ops_of (b : bucket) (l : log) : list bop := map snd (filter (fun e => bucket_eqb b (fst e)) l).
Definition final_state (l : log) (b : bucket) : bstate := fold_left bstep (ops_of b l) BOpen.

Definition sel_buckets (st : sel) : list bucket :=
  flat_map (fun p => map (fun sh => (p, sh)) (dm_get p (s_buckets st))) (s_use st).

(* _failed: tracker.abort() for every tracker in use_trackers *)
Definition sel_aborts (st : sel) : log := map (fun b => (b, OpAbort)) (sel_buckets st).

(* ---------------------------------------------------------------- set_shareholders and the encoder *)
Definition landlords := list (N * N).              (* share number -> server *)

Fixpoint ll_get (sh : N) (l : landlords) : option N :=
  match l with
  | [] => None
  | (s, p) :: r => if N.eqb sh s then Some p else ll_get sh r
  end.
Definition ll_remove (sh : N) (l : landlords) : landlords := filter (fun e => negb (N.eqb sh (fst e))) l.

(* CHKUploader.set_shareholders: `buckets.update(tracker.buckets)` for every tracker, then
   `assert len(buckets) == sum(len(tracker.buckets))`: the dict has one entry per distinct share number, each tracker's
   keys are distinct, so the assertion holds exactly when no share number occurs under two trackers; then the dict is
   the list of all buckets. *)
Definition build_landlords (st : sel) : landlords := map (fun b => (snd b, fst b)) (sel_buckets st).
Definition has_dup_share (st : sel) : bool := negb (nodupN (map snd (sel_buckets st))).

Record enc := {
  e_landlords : landlords;
  e_servermap : dmap;
  e_log : log;
  e_raised : bool
}.

(* Encoder.err: abort every landlord still in the dict *)
Definition err_aborts (l : landlords) : log := map (fun e => ((snd e, fst e), OpAbort)) l.

(* Encoder._remove_shareholder; None when the happiness computation does not return *)
Definition remove_shareholder (happy : Z) (sh : N) (e : enc) : option enc :=
  let e1 :=
    match ll_get sh (e_landlords e) with
    | Some p => {| e_landlords := ll_remove sh (e_landlords e); e_servermap := dm_remove sh p (e_servermap e);
                   e_log := e_log e ++ [((p, sh), OpAbort)]; e_raised := e_raised e |}
    | None => e
    end in
  match servers_of_happiness (e_servermap e1) with
  | None => None
  | Some h =>
      if Z.ltb h happy
      then Some {| e_landlords := e_landlords e1; e_servermap := e_servermap e1;
                   e_log := if e_raised e1 then e_log e1 else e_log e1 ++ err_aborts (e_landlords e1);
                   e_raised := true |}
      else Some e1
  end.

Definition mem_key {A : Type} (k : N) (l : list (N * A)) : bool := existsb (fun e => N.eqb k (fst e)) l.

(* answers of one write round; [pending] = share numbers whose request is unanswered *)
Fixpoint write_answers (happy : Z) (resps : list (N * wresp)) (pending : list N) (e : enc) : option (enc * list N) :=
  match resps with
  | [] => Some (e, pending)
  | (sh, r) :: rest =>
      if memN sh pending then
        match r with
        | WOk => write_answers happy rest (set_remove sh pending) e
        | WErr => match remove_shareholder happy sh e with
                  | None => None
                  | Some e' => write_answers happy rest (set_remove sh pending) e'
                  end
        end
      else write_answers happy rest pending e
  end.

Definition log_sends (l : landlords) (op : N -> option bop) : log :=
  flat_map (fun e => match op (fst e) with Some o => [((snd e, fst e), o)] | None => [] end) l.

Definition with_log (lg : log) (e : enc) : enc :=
  {| e_landlords := e_landlords e; e_servermap := e_servermap e; e_log := lg; e_raised := e_raised e |}.

Inductive step_result := Continue (e : enc) | Stop (e : enc) | Hang.

Definition write_round (happy : Z) (resps : list (N * wresp)) (e : enc) : step_result :=
  let e0 := with_log (e_log e ++ log_sends (e_landlords e) (fun _ => Some OpWrite)) e in
  match write_answers happy resps (map fst (e_landlords e)) e0 with
  | None => Hang
  | Some (e', pending) => if negb (is_nil pending) then Hang else if e_raised e' then Stop e' else Continue e'
  end.

Fixpoint lookup_c (sh : N) (resps : list (N * cresp)) : option cresp :=
  match resps with
  | [] => None
  | (s, r) :: rest => if N.eqb sh s then Some r else lookup_c sh rest
  end.

Definition close_op (resps : list (N * cresp)) (sh : N) : option bop :=
  match lookup_c sh resps with
  | Some COk => Some (OpClose true)
  | Some (CErr x) => Some (OpClose x)
  | Some CFlushErr => None
  | None => None
  end.

Fixpoint close_answers (happy : Z) (resps : list (N * cresp)) (pending : list N) (e : enc) : option (enc * list N) :=
  match resps with
  | [] => Some (e, pending)
  | (sh, r) :: rest =>
      if memN sh pending then
        match r with
        | COk => close_answers happy rest (set_remove sh pending) e
        | _ => match remove_shareholder happy sh e with
               | None => None
               | Some e' => close_answers happy rest (set_remove sh pending) e'
               end
        end
      else close_answers happy rest pending e
  end.

Definition close_round (happy : Z) (resps : list (N * cresp)) (e : enc) : step_result :=
  let e0 := with_log (e_log e ++ log_sends (e_landlords e) (close_op resps)) e in
  match close_answers happy resps (map fst (e_landlords e)) e0 with
  | None => Hang
  | Some (e', pending) => if negb (is_nil pending) then Hang else if e_raised e' then Stop e' else Continue e'
  end.

Fixpoint write_rounds (happy : Z) (rounds : list (list (N * wresp))) (e : enc) : step_result :=
  match rounds with
  | [] => Continue e
  | r :: rest =>
      match write_round happy r e with
      | Continue e' => write_rounds happy rest e'
      | other => other
      end
  end.

(* ---------------------------------------------------------------- the whole upload *)
Record result := {
  r_verdict : verdict;
  r_sel : sel;                                   (* final selector bookkeeping *)
  r_queries : list (list (N * list N));          (* allocate_buckets queries, per round *)
  r_found : dmap;                                (* already_serverids: share -> servers *)
  r_servermap : dmap;                            (* Encoder.servermap at the end *)
  r_placed : landlords;                          (* UploadResults sharemap: share -> server *)
  r_log : log
}.

Definition mk_result (v : verdict) (st : sel) (qs : list (list (N * list N))) (sm : dmap) (pl : landlords) (lg : log) : result :=
  {| r_verdict := v; r_sel := st; r_queries := qs; r_found := transpose (s_existing st); r_servermap := sm;
     r_placed := pl; r_log := lg |}.

Definition upload_run (c : config) (x : script) : result :=
  let '(st1, pending) := phase1 c (x_existing x) (trackers c) (sel_init c) in
  if negb (is_nil pending) then mk_result VPending st1 [] [] [] []
  else
    match sel_loop c (x_rounds x) None st1 [] with
    | None => mk_result VPending st1 [] [] [] []
    | Some (st, qs) =>
        match happiness st with
        | None => mk_result VPending st qs [] [] []
        | Some eff =>
            if Z.ltb eff (c_happy c) then mk_result VUnhappySel st qs (merged st) [] (sel_aborts st)
            else if has_dup_share st then mk_result VAssert st qs (merged st) [] []
            else
              let e0 := {| e_landlords := build_landlords st; e_servermap := merged st; e_log := []; e_raised := false |} in
              match write_rounds (c_happy c) (x_writes x) e0 with
              | Hang => mk_result VPending st qs [] [] []
              | Stop e => mk_result VUnhappyEnc st qs (e_servermap e) [] (e_log e)
              | Continue e1 =>
                  match close_round (c_happy c) (x_close x) e1 with
                  | Hang => mk_result VPending st qs [] [] []
                  | Stop e => mk_result VUnhappyEnc st qs (e_servermap e) [] (e_log e)
                  | Continue e => mk_result VSuccess st qs (e_servermap e) (e_landlords e) (e_log e)
                  end
              end
        end
    end.

(* ---------------------------------------------------------------- honest servers *)
(* every processed allocate_buckets answer allocates only share numbers its query asked for *)
Fixpoint allocs_honest (resps : list (N * al_resp)) (pending : list (N * list N)) : bool :=
  match resps with
  | [] => true
  | (p, r) :: rest =>
      match lookup_ask p pending with
      | None => allocs_honest rest pending
      | Some ask => (match r with AlOk _ alloc => subsetb alloc ask | AlErr => true end) && allocs_honest rest (drop_ask p pending)
      end
  end.

Definition round_honest (c : config) (r : round) (st : sel) : bool :=
  let '(_, sent) := send_queries (r_plan r) (trackers c) st [] in allocs_honest (r_resps r) sent.

(* follows sel_loop: the rounds that are actually run are honest *)
Fixpoint loop_honest (c : config) (rounds : list round) (last : option Z) (st : sel) : bool :=
  match rounds with
  | [] => true
  | r :: rest =>
      round_honest c r st &&
      match do_round c r st with
      | None => true
      | Some (st', _) =>
          match happiness st' with
          | None => true
          | Some eff =>
              if match last with Some l => Z.eqb eff l | None => false end then true
              else if N.eqb (s_bad st) (s_bad st') then true
              else if Z.ltb eff (c_happy c) && negb (is_nil (s_wtrackers st')) then loop_honest c rest (Some eff) st'
              else true
          end
      end
  end.

Definition honest_run (c : config) (x : script) : Prop :=
  loop_honest c (x_rounds x) None (fst (phase1 c (x_existing x) (trackers c) (sel_init c))) = true.

Definition plans_functional (x : script) : Prop := forall r, In r (x_rounds x) -> NoDup (map fst (r_plan r)).

Definition honest_runb (c : config) (x : script) : bool :=
  forallb (fun r => nodupN (map fst (r_plan r))) (x_rounds x) &&
  loop_honest c (x_rounds x) None (fst (phase1 c (x_existing x) (trackers c) (sel_init c))).

(* ---------------------------------------------------------------- comparison helpers for the driver *)
Definition pair_eqb (a b : N * N) : bool := N.eqb (fst a) (fst b) && N.eqb (snd a) (snd b).
Definition pairs_subset (a b : list (N * N)) : bool := forallb (fun x => existsb (pair_eqb x) b) a.
Definition pairs_eqb (a b : list (N * N)) : bool := pairs_subset a b && pairs_subset b a.
Definition dm_eqb (a b : dmap) : bool := pairs_eqb (pairs_of a) (pairs_of b).

Definition verdict_eqb (a b : verdict) : bool :=
  match a, b with
  | VSuccess, VSuccess | VUnhappySel, VUnhappySel | VUnhappyEnc, VUnhappyEnc | VAssert, VAssert | VPending, VPending => true
  | _, _ => false
  end.

Definition queries_eqb (a b : list (N * list N)) : bool :=
  Nat.eqb (length a) (length b) &&
  forallb (fun q => existsb (fun q' => N.eqb (fst q) (fst q') && set_eqb (snd q) (snd q')) b) a.

Fixpoint all_queries_eqb (a b : list (list (N * list N))) : bool :=
  match a, b with
  | [], [] => true
  | x :: a', y :: b' => queries_eqb x y && all_queries_eqb a' b'
  | _, _ => false
  end.

Definition aborted_buckets (l : log) : list (N * N) :=
  flat_map (fun e => match snd e with OpAbort => [fst e] | _ => [] end) l.
Definition closed_buckets (l : log) : list (N * N) :=
  flat_map (fun e => match snd e with OpClose _ => [fst e] | _ => [] end) l.

(* what the driver reads back from the real selector *)
Record sel_obs := {
  o_preexisting : dmap; o_homeless : list N; o_use : dmap; o_with_shares : list N;
  o_peers : list N; o_ro_peers : list N; o_bad_peers : list N; o_existing : dmap;
  o_wtrackers : list N; o_rtrackers : list N; o_stats : list N
}.

Definition use_map (st : sel) : dmap := map (fun p => (p, dm_get p (s_buckets st))) (s_use st).

Definition sel_matches (st : sel) (o : sel_obs) : bool :=
  dm_eqb (s_preexisting st) (o_preexisting o) && set_eqb (s_homeless st) (o_homeless o) &&
  dm_eqb (use_map st) (o_use o) && set_eqb (s_use st) (map fst (o_use o)) &&
  set_eqb (s_with_shares st) (o_with_shares o) &&
  set_eqb (s_peers st) (o_peers o) && set_eqb (s_ro_peers st) (o_ro_peers o) && set_eqb (s_bad_peers st) (o_bad_peers o) &&
  dm_eqb (s_existing st) (o_existing o) &&
  set_eqb (s_wtrackers st) (o_wtrackers o) && set_eqb (s_rtrackers st) (o_rtrackers o) &&
  (match o_stats o with
   | [t; g; b; f; e; c] => N.eqb (s_total st) t && N.eqb (s_good st) g && N.eqb (s_bad st) b && N.eqb (s_full st) f &&
                           N.eqb (s_error st) e && N.eqb (s_contacted st) c
   | _ => false
   end).
