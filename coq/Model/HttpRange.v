(* Model of the parts of the HTTP storage protocol where the HTTP path and the direct
   StorageServer path could disagree (C31):
     A. ranged reads: http_client.read_share_chunk -> Range header -> http_server.read_range
        / _ReadRangeProducer -> Content-Range -> client checks,  against
        ShareFile.read_share_data / MutableShareFile.readv (clip at the end of the data);
     B. chunked immutable upload: HTTPServer.write_share_data (Content-Range, 64 KiB
        pieces, completion, `required` ranges) over BucketWriter.write / _is_finished /
        required_ranges;
     C. read-test-write marshalling: the message http_client._read_test_write_chunks builds
        (TestWriteVectors.asdict ...) and the structure HTTPServer.mutable_read_test_write
        hands to StorageServer.slot_testv_and_readv_and_writev, and the answer's way back.
   The pinned definitions are listed in Props/C31.v.  Bytes are list N; offsets and
   lengths are N.  No proofs in this file. *)
From Coq Require Import List NArith Bool String.
From Verif Require Import Lib.Hex.
Import ListNotations.
Local Open Scope N_scope.
Local Open Scope bool_scope.

Definition blen (b : list N) : N := N.of_nat (List.length b).

(* =========================================================================
   A. ranged reads *)

(* ShareFile.read_share_data(offset, length), MutableShareFile._read_share_data:
   the read is clipped at the end of the share data; past the end it is empty. *)
Definition direct_read (data : list N) (offset length : N) : list N :=
  firstn (N.to_nat length) (skipn (N.to_nat offset) data).

(* http_client.read_share_chunk builds werkzeug Range("bytes", [(offset, offset+length)]):
   the constructor refuses start >= end (ValueError in the client, nothing is sent);
   to_header gives "bytes=<first>-<last>" with last = offset+length-1 (inclusive). *)
Definition range_header (offset length : N) : option (N * N) :=
  if length =? 0 then None else Some (offset, offset + length - 1).

(* werkzeug.parse_range_header gives back the half-open pair (first, last+1) *)
Definition parse_range (first last : N) : N * N := (first, last + 1).

(* _ReadRangeProducer.resumeProducing, called until `remaining` is 0.  `read` is the
   share's read function, `chunk` the 65536 of the code.  None = the producer errbacks
   (an empty read with bytes left, or more than asked for) -> the request fails. *)
Fixpoint produce (read : N -> N -> list N) (chunk start remaining : N) (fuel : nat) : option (list N) :=
  match fuel with
  | O => None
  | S f =>
      let data := read start (N.min remaining chunk) in
      match data with
      | [] => None
      | _ =>
          if remaining <? blen data then None
          else if remaining - blen data =? 0 then Some data
          else match produce read chunk (start + blen data) (remaining - blen data) f with
               | Some rest => Some (data ++ rest)
               | None => None
               end
      end
  end.

Inductive server_read : Set :=
| SR204                                   (* nothing to send: empty body *)
| SR206 (first stop : N) (body : list N)  (* Content-Range: bytes first-(stop-1)/*  *)
| SRError.

(* http_server.read_range with a parsed single closed range *)
Definition read_range (read : N -> N -> list N) (share_length chunk first last : N) : server_read :=
  let '(offset, e) := parse_range first last in
  let e := N.min e share_length in
  if e <=? offset then SR204
  else match produce read chunk offset (e - offset) (S (N.to_nat (e - offset))) with
       | Some body => SR206 offset e body
       | None => SRError
       end.

Inductive read_result : Set :=
| RData (d : list N)
| RClientValueError       (* the client refuses to build / accept it *)
| RServerError.

(* the whole round trip of http_client.read_share_chunk(offset, length) *)
Definition http_read (data : list N) (chunk offset length : N) : read_result :=
  match range_header offset length with
  | None => RClientValueError
  | Some (first, last) =>
      match read_range (direct_read data) (blen data) chunk first last with
      | SR204 => RData []
      | SR206 a b body =>
          if length <? b - a then RClientValueError            (* "Server sent more than we asked for?!" *)
          else if negb (blen body =? b - a) then RClientValueError
          else RData body
      | SRError => RServerError
      end
  end.

Definition read_result_eqb (a b : read_result) : bool :=
  match a, b with
  | RData x, RData y => list_N_eqb x y
  | RClientValueError, RClientValueError => true
  | RServerError, RServerError => true
  | _, _ => false
  end.

(* =========================================================================
   B. chunked immutable upload *)

(* BucketWriter: allocated size, the share data written so far (holes read as zero) and
   which positions `_already_written` covers. *)
Record bw : Set := mk_bw { bw_data : list N; bw_mask : list bool }.

Definition bw_size (w : bw) : nat := List.length (bw_mask w).

Definition bw_new (size : N) : bw :=
  mk_bw (repeat 0 (N.to_nat size)) (repeat false (N.to_nat size)).

Definition splice {A} (l : list A) (off : nat) (d : list A) : list A :=
  firstn off l ++ d ++ skipn (off + List.length d) l.

(* is some already written position of the target range different from the new data? *)
Fixpoint conflicts (mask : list bool) (old new : list N) : bool :=
  match mask, old, new with
  | m :: ms, x :: xs, y :: ys => (m && negb (x =? y)) || conflicts ms xs ys
  | _, _, _ => false
  end.

(* _is_finished: the written ranges add up to the allocated size *)
Definition bw_finished (w : bw) : bool := forallb (fun b => b) (bw_mask w).

Inductive write_result : Set :=
| WConflict                       (* ConflictingWriteError, nothing written *)
| WTooLarge                       (* DataTooLargeError from ShareFile.write_share_data, nothing written *)
| WOk (w : bw) (finished : bool).

(* BucketWriter.write(offset, data) *)
Definition bw_write_at (w : bw) (off : nat) (d : list N) : write_result :=
  if conflicts (skipn off (bw_mask w)) (skipn off (bw_data w)) d then WConflict
  else if Nat.ltb (bw_size w) (off + List.length d)%nat then WTooLarge
  else let w' := mk_bw (splice (bw_data w) off d) (splice (bw_mask w) off (repeat true (List.length d))) in
       WOk w' (bw_finished w').

Definition bw_write (w : bw) (offset : N) (d : list N) : write_result := bw_write_at w (N.to_nat offset) d.

(* BucketWriter.required_ranges(): maximal runs of unwritten positions, [begin, end) *)
Fixpoint runs (mask : list bool) (pos : N) (open : option N) : list (N * N) :=
  match mask with
  | [] => match open with Some b => [(b, pos)] | None => [] end
  | false :: r => runs r (pos + 1) (match open with Some b => Some b | None => Some pos end)
  | true :: r => match open with
                 | Some b => (b, pos) :: runs r (pos + 1) None
                 | None => runs r (pos + 1) None
                 end
  end.

Definition required_ranges (w : bw) : list (N * N) := runs (bw_mask w) 0 None.

(* HTTPServer.write_share_data after the secret check: the body is written in pieces of
   at most `chunk` (65536) bytes; the first conflicting piece ends the request with 409
   (earlier pieces stay written). *)
Inductive patch_result : Set :=
| PStatus (code : N) (w : bw)                                   (* 409 / 416 / 500: state after *)
| PDone (code : N) (w : bw) (required : list (N * N)).        (* 200 / 201 *)

Fixpoint patch_loop (w : bw) (chunk off : nat) (body : list N) (finished : bool) (fuel : nat)
  : patch_result :=
  match fuel with
  | O => PStatus 500 w
  | S f =>
      match body with
      | [] => PDone (if finished then 201 else 200) w (required_ranges w)
      | _ =>
          let piece := firstn chunk body in
          match bw_write_at w off piece with
          | WConflict => PStatus 409 w
          | WTooLarge => PStatus 500 w
          | WOk w' fin => patch_loop w' chunk (off + List.length piece)%nat (skipn chunk body) fin f
          end
      end
  end.

(* werkzeug: "bytes a-b/*" with b+1 <= a does not parse -> 416 *)
Definition patch (w : bw) (chunk : N) (offset : N) (body : list N) : patch_result :=
  match body with
  | [] => PStatus 416 w
  | _ => patch_loop w (N.to_nat chunk) (N.to_nat offset) body false (S (List.length body))
  end.

(* a history of chunk uploads, each chunk a slice of the same data *)
Definition slice (data : list N) (c : N * N) : list N := direct_read data (fst c) (snd c).

Fixpoint direct_upload (data : list N) (chunks : list (N * N)) (w : bw) : option bw :=
  match chunks with
  | [] => Some w
  | c :: r => match bw_write w (fst c) (slice data c) with
              | WOk w' _ => direct_upload data r w'
              | _ => None
              end
  end.

(* through HTTP: final writer and the status of the last PATCH (0 if there was none) *)
Fixpoint http_upload (data : list N) (chunk : N) (chunks : list (N * N)) (w : bw) (last : N) : option (bw * N) :=
  match chunks with
  | [] => Some (w, last)
  | c :: r => match patch w chunk (fst c) (slice data c) with
              | PDone code w' _ => http_upload data chunk r w' code
              | PStatus _ _ => None
              end
  end.

(* position p is inside one of the chunks *)
Definition covered (chunks : list (N * N)) (p : N) : Prop :=
  exists c, In c chunks /\ fst c <= p /\ p < fst c + snd c.

Definition chunk_ok (size : N) (c : N * N) : Prop := 0 < snd c /\ fst c + snd c <= size.

(* driver-side comparison helpers *)
Fixpoint ranges_eqb (a b : list (N * N)) : bool :=
  match a, b with
  | [], [] => true
  | (x, y) :: a', (x', y') :: b' => (x =? x') && (y =? y') && ranges_eqb a' b'
  | _, _ => false
  end.

(* replay a list of (offset, data) PATCHes and compare the last answer *)
Fixpoint patch_history (w : bw) (chunk : N) (ops : list (N * list N)) : bw :=
  match ops with
  | [] => w
  | (off, d) :: r =>
      match patch w chunk off d with
      | PStatus _ w' => patch_history w' chunk r
      | PDone _ w' _ => patch_history w' chunk r
      end
  end.

Definition patch_answer_eqb (p : patch_result) (code : N) (required : list (N * N)) : bool :=
  match p with
  | PStatus c _ => c =? code
  | PDone c _ req => (c =? code) && ranges_eqb req required
  end.

(* =========================================================================
   C. read-test-write marshalling *)

Inductive cbor : Set :=
| CUInt (n : N)
| CBytes (b : list N)
| CText (s : string)
| CNull
| CBool (b : bool)
| CArray (l : list cbor)
| CMap (l : list (cbor * cbor)).

(* the request as IStorageServer.slot_testv_and_readv_and_writev receives it *)
Record twv : Set := mk_twv {
  tv_tests : list (N * N * list N);        (* (offset, size, specimen) *)
  tv_writes : list (N * list N);            (* (offset, data) *)
  tv_newlen : option N }.

Record rtw_request : Set := mk_rtw {
  rq_tw : list (N * twv);                   (* share number -> vectors, dict order *)
  rq_read : list (N * N) }.                 (* (offset, size) *)

(* what StorageServer.slot_testv_and_readv_and_writev is called with: test vectors carry
   the operator b"eq" (the Foolscap adapter inserts the same) *)
Definition op_eq : list N := bytes_of_string "eq".

Record wire_twv : Set := mk_wtwv {
  wt_tests : list (N * N * list N * list N);
  wt_writes : list (N * list N);
  wt_newlen : option N }.

Record wire_request : Set := mk_wire {
  wr_tw : list (N * wire_twv);
  wr_read : list (N * N) }.

Definition wire_of_twv (t : twv) : wire_twv :=
  mk_wtwv (map (fun x => (fst (fst x), snd (fst x), op_eq, snd x)) (tv_tests t)) (tv_writes t) (tv_newlen t).

Definition wire_form (r : rtw_request) : wire_request :=
  mk_wire (map (fun e => (fst e, wire_of_twv (snd e))) (rq_tw r)) (rq_read r).

(* --- client: TestVector/WriteVector/ReadVector asdict, TestWriteVectors.asdict, message --- *)
Definition enc_test (x : N * N * list N) : cbor :=
  CMap [(CText "offset", CUInt (fst (fst x))); (CText "size", CUInt (snd (fst x))); (CText "specimen", CBytes (snd x))].

Definition enc_write (x : N * list N) : cbor :=
  CMap [(CText "offset", CUInt (fst x)); (CText "data", CBytes (snd x))].

Definition enc_read (x : N * N) : cbor :=
  CMap [(CText "offset", CUInt (fst x)); (CText "size", CUInt (snd x))].

Definition enc_newlen (n : option N) : cbor := match n with Some v => CUInt v | None => CNull end.

Definition enc_twv (t : twv) : cbor :=
  CMap [(CText "test", CArray (map enc_test (tv_tests t)));
        (CText "write", CArray (map enc_write (tv_writes t)));
        (CText "new-length", enc_newlen (tv_newlen t))].

Definition encode_rtw (r : rtw_request) : cbor :=
  CMap [(CText "test-write-vectors", CMap (map (fun e => (CUInt (fst e), enc_twv (snd e))) (rq_tw r)));
        (CText "read-vector", CArray (map enc_read (rq_read r)))].

(* --- server: HTTPServer.mutable_read_test_write's comprehension over the decoded message --- *)
Fixpoint map_get (m : list (cbor * cbor)) (key : string) : option cbor :=
  match m with
  | [] => None
  | (CText k, v) :: r => if String.eqb k key then Some v else map_get r key
  | _ :: r => map_get r key
  end.

Fixpoint mapM {A B} (f : A -> option B) (l : list A) : option (list B) :=
  match l with
  | [] => Some []
  | x :: r => match f x, mapM f r with
              | Some y, Some ys => Some (y :: ys)
              | _, _ => None
              end
  end.

Definition get_uint (m : list (cbor * cbor)) (key : string) : option N :=
  match map_get m key with Some (CUInt n) => Some n | _ => None end.

Definition get_bytes (m : list (cbor * cbor)) (key : string) : option (list N) :=
  match map_get m key with Some (CBytes b) => Some b | _ => None end.

Definition get_array (m : list (cbor * cbor)) (key : string) : option (list cbor) :=
  match map_get m key with Some (CArray l) => Some l | _ => None end.

Definition dec_test (c : cbor) : option (N * N * list N * list N) :=
  match c with
  | CMap m => match get_uint m "offset", get_uint m "size", get_bytes m "specimen" with
              | Some o, Some s, Some sp => Some (o, s, op_eq, sp)
              | _, _, _ => None
              end
  | _ => None
  end.

Definition dec_write (c : cbor) : option (N * list N) :=
  match c with
  | CMap m => match get_uint m "offset", get_bytes m "data" with
              | Some o, Some d => Some (o, d)
              | _, _ => None
              end
  | _ => None
  end.

Definition dec_read (c : cbor) : option (N * N) :=
  match c with
  | CMap m => match get_uint m "offset", get_uint m "size" with
              | Some o, Some s => Some (o, s)
              | _, _ => None
              end
  | _ => None
  end.

Definition dec_newlen (c : option cbor) : option (option N) :=
  match c with
  | Some (CUInt n) => Some (Some n)
  | Some CNull => Some None
  | _ => None
  end.

Definition dec_twv (e : cbor * cbor) : option (N * wire_twv) :=
  match e with
  | (CUInt sh, CMap m) =>
      match get_array m "test", get_array m "write", dec_newlen (map_get m "new-length") with
      | Some ts, Some ws, Some nl =>
          match mapM dec_test ts, mapM dec_write ws with
          | Some ts', Some ws' => Some (sh, mk_wtwv ts' ws' nl)
          | _, _ => None
          end
      | _, _, _ => None
      end
  | _ => None
  end.

Definition decode_rtw (c : cbor) : option wire_request :=
  match c with
  | CMap m =>
      match map_get m "test-write-vectors", get_array m "read-vector" with
      | Some (CMap tw), Some rv =>
          match mapM dec_twv tw, mapM dec_read rv with
          | Some tw', Some rv' => Some (mk_wire tw' rv')
          | _, _ => None
          end
      | _, _ => None
      end
  | _ => None
  end.

(* --- the answer: {"success": bool, "data": {share: [bytes]}} -> (success, reads) --- *)
Definition rtw_answer := (bool * list (N * list (list N)))%type.

Definition encode_answer (a : rtw_answer) : cbor :=
  CMap [(CText "success", CBool (fst a));
        (CText "data", CMap (map (fun e => (CUInt (fst e), CArray (map CBytes (snd e)))) (snd a)))].

Definition dec_bytes (c : cbor) : option (list N) := match c with CBytes b => Some b | _ => None end.

Definition dec_reads (e : cbor * cbor) : option (N * list (list N)) :=
  match e with
  | (CUInt sh, CArray l) => match mapM dec_bytes l with Some bs => Some (sh, bs) | None => None end
  | _ => None
  end.

Definition decode_answer (c : cbor) : option rtw_answer :=
  match c with
  | CMap m =>
      match map_get m "success", map_get m "data" with
      | Some (CBool s), Some (CMap d) => match mapM dec_reads d with Some r => Some (s, r) | None => None end
      | _, _ => None
      end
  | _ => None
  end.

(* --- equality tests for the driver --- *)
Fixpoint list_eqb {A} (e : A -> A -> bool) (a b : list A) : bool :=
  match a, b with
  | [], [] => true
  | x :: a', y :: b' => e x y && list_eqb e a' b'
  | _, _ => false
  end.

Definition optN_eqb (a b : option N) : bool :=
  match a, b with Some x, Some y => x =? y | None, None => true | _, _ => false end.

Definition wtest_eqb (a b : N * N * list N * list N) : bool :=
  let '(o, s, op, sp) := a in let '(o', s', op', sp') := b in
  (o =? o') && (s =? s') && list_N_eqb op op' && list_N_eqb sp sp'.

Definition write_eqb (a b : N * list N) : bool := (fst a =? fst b) && list_N_eqb (snd a) (snd b).
Definition pairN_eqb (a b : N * N) : bool := (fst a =? fst b) && (snd a =? snd b).

Definition wire_twv_eqb (a b : wire_twv) : bool :=
  list_eqb wtest_eqb (wt_tests a) (wt_tests b) && list_eqb write_eqb (wt_writes a) (wt_writes b)
  && optN_eqb (wt_newlen a) (wt_newlen b).

Definition wire_eqb (a b : wire_request) : bool :=
  list_eqb (fun x y => (fst x =? fst y) && wire_twv_eqb (snd x) (snd y)) (wr_tw a) (wr_tw b)
  && list_eqb pairN_eqb (wr_read a) (wr_read b).

Definition decoded_is (c : cbor) (w : wire_request) : bool :=
  match decode_rtw c with Some w' => wire_eqb w' w | None => false end.

Definition answer_eqb (a b : rtw_answer) : bool :=
  Bool.eqb (fst a) (fst b)
  && list_eqb (fun x y => (fst x =? fst y) && list_eqb list_N_eqb (snd x) (snd y)) (snd a) (snd b).

Definition answer_decoded_is (c : cbor) (a : rtw_answer) : bool :=
  match decode_answer c with Some a' => answer_eqb a' a | None => false end.

(* a writer of 4 bytes that holds "x" at position 3 (example in Props/C31.v) *)
Definition ex_partial_writer : bw := mk_bw [0; 0; 0; 120] [false; false; false; true].
