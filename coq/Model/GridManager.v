(* Model of src/allmydata/grid_manager.py:
     validate_grid_manager_certificate, create_grid_manager_verifier (and the
     `validate` closure it returns), and of *.upload_permitted in
     storage_client.py (NativeStorageServer / HTTPNativeStorageServer).

   Abstract (Section variables): the signature scheme (Lib/Sig.v), and JSON /
   ISO-8601 decoding of the certificate bytes.  Times are instants (microseconds
   since the epoch, Z); `now` is what `now_fn()` returns when the predicate is
   called (default grid_manager.current_datetime_with_zone = datetime.now(utc)).

   Statement-by-statement reading of the code:

     create_grid_manager_verifier(keys, certs, public_key, now_fn):
       if not keys: return lambda: True            (certificates are not even looked at)
       for alleged_cert in certs:                  (outer loop: certificates)
         for key in keys:                          (inner loop: keys)
           cert = validate_grid_manager_certificate(key, alleged_cert)
                    = None            if verify_signature raises BadSignature
                    = json.loads(..)  otherwise   (may RAISE: not JSON; propagates)
           if cert is not None: valid_certs.append(cert)     (once per verifying key;
                                                              a signed JSON `null` is dropped here too)
       def validate():
         now = now_fn()
         for cert in valid_certs:
           expires = datetime.fromisoformat(cert["expires"])   (may RAISE)
           pc = cert['public_key'].encode('ascii')             (may RAISE)
           if pc == public_key:
             if expires > now: return True       (RAISES TypeError if `expires` has no zone)
         return False

   The "version" member of the certificate is never examined by this code. *)
From Coq Require Import List NArith ZArith Bool.
From Verif Require Import Lib.Sig.
Import ListNotations.
Local Open Scope Z_scope.

(* expiry as decoded by datetime.fromisoformat *)
Inductive expiry : Type :=
| ExpAware (t : Z)        (* timezone-aware: the instant *)
| ExpNaive.               (* no UTC offset: comparison with the aware `now` raises *)

Inductive outcome : Type := Permit | Deny | Raise.

Definition outcome_eqb (a b : outcome) : bool :=
  match a, b with
  | Permit, Permit | Deny, Deny | Raise, Raise => true
  | _, _ => false
  end.

Section GridManager.
  Variables pubkey msg sig : Type.
  Variable verify : pubkey -> msg -> sig -> bool.
  (* the server's public-key string ("pub-v0-...") *)
  Variable spk : Type.
  Variable spk_eqb : spk -> spk -> bool.

  (* members of the decoded certificate that `validate` reads *)
  Record cert_fields : Type := { cf_pk : spk; cf_exp : expiry }.

  (* json.loads(certificate bytes):
       None                 json.loads raises
       Some JNull           the JSON value `null` (Python None: indistinguishable from "bad signature")
       Some JUnreadable     decodes, but reading expires/public_key in `validate` raises
                            (not an object, member missing or of the wrong type, bad date, non-ASCII key)
       Some (JFields f)     the two members *)
  Inductive cert_json : Type := JNull | JUnreadable | JFields (f : cert_fields).
  Variable decode : msg -> option cert_json.

  (* entry of valid_certs: None = reading it raises *)
  Definition entry_of (j : cert_json) : option (option cert_fields) :=
    match j with
    | JNull => None
    | JUnreadable => Some None
    | JFields f => Some (Some f)
    end.

  Record signed_cert : Type := { sc_cert : msg; sc_sig : sig }.

  Inductive vresult : Type :=
  | VBadSig                                (* returns None *)
  | VRaise                                 (* json.loads raised *)
  | VCert (j : cert_json).                 (* returns the decoded value *)

  Definition validate_grid_manager_certificate (k : pubkey) (c : signed_cert) : vresult :=
    if verify k (sc_cert c) (sc_sig c) then
      match decode (sc_cert c) with
      | None => VRaise
      | Some j => VCert j
      end
    else VBadSig.

  (* inner loop over keys for one certificate; None = an exception propagated *)
  Fixpoint collect_keys (keys : list pubkey) (c : signed_cert) : option (list (option cert_fields)) :=
    match keys with
    | [] => Some []
    | k :: ks =>
        match validate_grid_manager_certificate k c with
        | VRaise => None
        | VBadSig => collect_keys ks c
        | VCert j =>
            match collect_keys ks c with
            | None => None
            | Some r => Some (match entry_of j with None => r | Some e => e :: r end)
            end
        end
    end.

  Fixpoint collect (keys : list pubkey) (certs : list signed_cert) : option (list (option cert_fields)) :=
    match certs with
    | [] => Some []
    | c :: cs =>
        match collect_keys keys c with
        | None => None
        | Some a =>
            match collect keys cs with
            | None => None
            | Some b => Some (a ++ b)
            end
        end
    end.

  Inductive verifier : Type :=
  | VerAlways                                          (* lambda: True *)
  | VerCerts (valid : list (option cert_fields)).      (* closure over valid_certs *)

  Definition create_grid_manager_verifier (keys : list pubkey) (certs : list signed_cert) : option verifier :=
    match keys with
    | [] => Some VerAlways
    | _ :: _ =>
        match collect keys certs with
        | None => None
        | Some v => Some (VerCerts v)
        end
    end.

  Fixpoint validate (valid : list (option cert_fields)) (public_key : spk) (now : Z) : outcome :=
    match valid with
    | [] => Deny
    | None :: _ => Raise
    | Some f :: r =>
        if spk_eqb (cf_pk f) public_key then
          match cf_exp f with
          | ExpNaive => Raise
          | ExpAware e => if now <? e then Permit else validate r public_key now
          end
        else validate r public_key now
    end.

  Definition run_verifier (v : verifier) (public_key : spk) (now : Z) : outcome :=
    match v with
    | VerAlways => Permit
    | VerCerts valid => validate valid public_key now
    end.

  (* NativeStorageServer.upload_permitted: no verifier object => True *)
  Definition upload_permitted (v : option verifier) (public_key : spk) (now : Z) : outcome :=
    match v with
    | None => Permit
    | Some v => run_verifier v public_key now
    end.

  (* create the verifier and call it once at `now` *)
  Definition permitted (keys : list pubkey) (certs : list signed_cert) (public_key : spk) (now : Z) : outcome :=
    match create_grid_manager_verifier keys certs with
    | None => Raise
    | Some v => run_verifier v public_key now
    end.

  (* ---- vocabulary of the property ---- *)
  (* certificate c is signed by key k, names this server and has not expired *)
  Definition cert_grants (k : pubkey) (c : signed_cert) (public_key : spk) (now : Z) : Prop :=
    verify k (sc_cert c) (sc_sig c) = true /\
    exists f e, decode (sc_cert c) = Some (JFields f) /\ spk_eqb (cf_pk f) public_key = true /\
                cf_exp f = ExpAware e /\ now < e.

  (* certificates that verify under a configured key decode to the two members
     with a timezone-aware expiry (what _GridManager.sign produces) *)
  Definition certs_wellformed (keys : list pubkey) (certs : list signed_cert) : Prop :=
    forall c k, In c certs -> In k keys -> verify k (sc_cert c) (sc_sig c) = true ->
      exists f e, decode (sc_cert c) = Some (JFields f) /\ cf_exp f = ExpAware e.
End GridManager.

Arguments cf_pk {spk} _.
Arguments cf_exp {spk} _.
Arguments Build_cert_fields {spk} _ _.
Arguments sc_cert {msg sig} _.
Arguments sc_sig {msg sig} _.
Arguments Build_signed_cert {msg sig} _ _.
Arguments JNull {spk}.
Arguments JUnreadable {spk}.
Arguments JFields {spk} f.
Arguments VerAlways {spk}.
Arguments VerCerts {spk} _.
Arguments create_grid_manager_verifier {pubkey msg sig} verify {spk} decode keys certs.
Arguments run_verifier {spk} spk_eqb v public_key now.
Arguments upload_permitted {spk} spk_eqb v public_key now.
Arguments validate {spk} spk_eqb valid public_key now.
Arguments permitted {pubkey msg sig} verify {spk} spk_eqb decode keys certs public_key now.
Arguments cert_grants {pubkey msg sig} verify {spk} spk_eqb decode k c public_key now.
Arguments certs_wellformed {pubkey msg sig} verify {spk} decode keys certs.

(* ---- the client side around the verifier (storage_client.py) ----

   StorageClientConfig.from_node_config: every entry of the [grid_managers] section of tahoe.cfg is
   parsed with ed25519.verifying_key_from_string; an entry that does not parse raises (the node does
   not start).  A configured but unusable entry is an error -- never a shorter, let alone empty, key
   list (an empty list means "no grid manager: every server is permitted").

   StorageFarmBroker._got_announcement: a (new) announcement for a server replaces the server object,
   and _make_storage_server builds its verifier from the "grid-manager-certificates" of THAT
   announcement: the verifier follows the latest announcement of the server. *)
Section Client.
  Variables pubkey msg sig : Type.
  Variable verify : pubkey -> msg -> sig -> bool.
  Variable spk : Type.
  Variable spk_eqb : spk -> spk -> bool.
  Variable decode : msg -> option (cert_json spk).

  (* entries of [grid_managers]: Some k = parses to key k, None = verifying_key_from_string raises *)
  Fixpoint grid_manager_keys_from_config (entries : list (option pubkey)) : option (list pubkey) :=
    match entries with
    | [] => Some []
    | None :: _ => None
    | Some k :: r =>
        match grid_manager_keys_from_config r with
        | None => None
        | Some ks => Some (k :: ks)
        end
    end.

  (* announcements received so far, oldest first: (server id, its certificate list) *)
  Definition ann_history : Type := list (N * list (signed_cert msg sig)).

  Fixpoint latest (h : ann_history) (id : N) : option (list (signed_cert msg sig)) :=
    match h with
    | [] => None
    | (i, cs) :: r =>
        match latest r id with
        | Some x => Some x
        | None => if (i =? id)%N then Some cs else None
        end
    end.

  (* broker.servers[id].upload_permitted() at `now`; None = no such server *)
  Definition broker_permitted (keys : list pubkey) (h : ann_history) (id : N) (public_key : spk) (now : Z) : option outcome :=
    match latest h id with
    | None => None
    | Some cs => Some (permitted verify spk_eqb decode keys cs public_key now)
    end.
End Client.

Arguments grid_manager_keys_from_config {pubkey} entries.
Arguments latest {msg sig} h id.
Arguments broker_permitted {pubkey msg sig} verify {spk} spk_eqb decode keys h id public_key now.

(* ---- executable symbolic instance (Lib/Sig.v): keys, certificate byte strings
   and server key strings are numbered by the driver; the decode table carries
   what an independent JSON/ISO-8601 reading of each byte string gives. *)
Local Open Scope N_scope.

Definition sym_fields := cert_fields N.
Definition sym_table := list (N * option (cert_json N)).

Fixpoint sym_decode (tbl : sym_table) (m : N) : option (cert_json N) :=
  match tbl with
  | [] => None
  | (m', d) :: r => if m =? m' then d else sym_decode r m
  end.

Definition sym_cert (m : N) (s : sym_sig) : signed_cert N sym_sig := Build_signed_cert m s.
Definition sym_f (pk : N) (e : expiry) : option (cert_json N) := Some (JFields (Build_cert_fields pk e)).

Definition sym_permitted (tbl : sym_table) (keys : list N) (certs : list (signed_cert N sym_sig))
           (public_key : N) (now : Z) : outcome :=
  permitted sym_verify N.eqb (sym_decode tbl) keys certs public_key now.

(* one verifier, called at several instants (the closure is reused) *)
Definition sym_permitted_at (tbl : sym_table) (keys : list N) (certs : list (signed_cert N sym_sig))
           (public_key : N) (times : list Z) : list outcome :=
  match create_grid_manager_verifier sym_verify (sym_decode tbl) keys certs with
  | None => map (fun _ => Raise) times
  | Some v => map (fun now => run_verifier N.eqb v public_key now) times
  end.

Fixpoint outcomes_eqb (a b : list outcome) : bool :=
  match a, b with
  | [], [] => true
  | x :: a', y :: b' => outcome_eqb x y && outcomes_eqb a' b'
  | _, _ => false
  end.

(* validate_grid_manager_certificate seen from outside: 0 = returns None (bad signature, or the signed
   JSON value is null), 1 = returns the decoded value, 2 = raises (signed bytes are not JSON) *)
Definition sym_validate_class (tbl : sym_table) (k : N) (c : signed_cert N sym_sig) : N :=
  match validate_grid_manager_certificate N N sym_sig sym_verify N (sym_decode tbl) k c with
  | VBadSig _ => 0
  | VRaise _ => 2
  | VCert _ j => match j with JNull => 0 | _ => 1 end
  end.

Definition sym_broker_permitted (tbl : sym_table) (keys : list N) (h : ann_history N sym_sig) (id : N)
           (public_key : N) (times : list Z) : list (option outcome) :=
  map (fun now => broker_permitted sym_verify N.eqb (sym_decode tbl) keys h id public_key now) times.

Fixpoint opt_outcomes_eqb (a b : list (option outcome)) : bool :=
  match a, b with
  | [], [] => true
  | None :: a', None :: b' => opt_outcomes_eqb a' b'
  | Some x :: a', Some y :: b' => outcome_eqb x y && opt_outcomes_eqb a' b'
  | _, _ => false
  end.

Definition opt_keys_eqb (a b : option (list N)) : bool :=
  match a, b with
  | None, None => true
  | Some x, Some y => (length x =? length y)%nat && forallb (fun p => (fst p =? snd p)%N) (combine x y)
  | _, _ => false
  end.
