(* C12: concurrent mutable writers over test-and-set cells.

   A cell is one (server, share number) slot on a common placement; it holds the id
   of the version whose share is stored there (0 = the version every writer found
   in place before any of them started, "old").  A writer first surveys the cells
   (servermap update: remembers what each cell holds), later sends one guarded
   write per cell: the storage server applies it iff the cell still holds what the
   writer saw (slot_testv_and_readv_and_writev: test vector = the surveyed
   checkstring), atomically per cell.  A refused write makes the writer surprised
   (Publish._got_write_answer: "our testv failed" -> UncoordinatedWriteError).
   Events may interleave arbitrarily. *)
From Coq Require Import List NArith Bool.
Import ListNotations.
Local Open Scope N_scope.

Definition vid := N.                 (* version id; 0 = old *)

Record wstate := {
  snapshot : option (list vid);      (* None: has not surveyed yet *)
  w_surprised : bool;
  acked : list nat                   (* cells this writer's write was applied to *)
}.

Record sys := {
  cells : list vid;
  ws : list wstate                   (* writer j (0-based) publishes version id j+1 *)
}.

Definition new_version (j : nat) : vid := N.of_nat (S j).

Definition init (ncells nwriters : nat) : sys :=
  {| cells := repeat 0 ncells;
     ws := repeat {| snapshot := None; w_surprised := false; acked := [] |} nwriters |}.

Inductive ev :=
| Survey (j : nat)                   (* writer j reads all cells *)
| Write (j : nat) (i : nat).         (* writer j's guarded write to cell i arrives at the server *)

Fixpoint set_nth {A} (n : nat) (x : A) (l : list A) : list A :=
  match l, n with
  | [], _ => []
  | _ :: r, O => x :: r
  | y :: r, S n' => y :: set_nth n' x r
  end.

Definition step (s : sys) (e : ev) : sys :=
  match e with
  | Survey j =>
      match nth_error (ws s) j with
      | Some w => {| cells := cells s;
                     ws := set_nth j {| snapshot := Some (cells s); w_surprised := w_surprised w; acked := acked w |} (ws s) |}
      | None => s
      end
  | Write j i =>
      match nth_error (ws s) j with
      | Some w =>
          match snapshot w, nth_error (cells s) i with
          | Some snap, Some cur =>
              match nth_error snap i with
              | Some seen =>
                  if cur =? seen
                  then (* test vector holds: the write is applied *)
                       {| cells := set_nth i (new_version j) (cells s);
                          ws := set_nth j {| snapshot := snapshot w; w_surprised := w_surprised w; acked := i :: acked w |} (ws s) |}
                  else (* refused: nothing changes on the server, the writer is surprised *)
                       {| cells := cells s;
                          ws := set_nth j {| snapshot := snapshot w; w_surprised := true; acked := acked w |} (ws s) |}
              | None => s
              end
          | _, _ => s                (* a write before the survey, or to a cell that does not exist: not issued *)
          end
      | None => s
      end
  end.

Definition run (ncells nwriters : nat) (evs : list ev) : sys := fold_left step evs (init ncells nwriters).

Fixpoint count_v (v : vid) (l : list vid) : nat :=
  match l with [] => O | x :: r => if x =? v then S (count_v v r) else count_v v r end.

(* the versions that can ever sit in a cell: old and one per writer *)
Definition all_versions (nwriters : nat) : list vid := 0 :: map new_version (seq 0 nwriters).

Fixpoint list_eqb (a b : list vid) : bool :=
  match a, b with
  | [], [] => true
  | x :: a', y :: b' => (x =? y) && list_eqb a' b'
  | _, _ => false
  end.
