(* Compact byte-string literals for the generated case files of the directory
   properties: (pb [0x55524 9...%uint63; ...] k) = the bytes of the 7-byte
   big-endian chunks, the last chunk holding k bytes.  A primitive integer is a
   single node for the parser and the type checker, so a case file with
   kilobytes of caps loads in milliseconds (a string literal costs ten nodes
   per character).  Used only in case files, never in a theorem. *)
From Coq Require Import List NArith ZArith.
From Coq Require Export Uint63.
Import ListNotations.
Local Open Scope N_scope.

Fixpoint nb_aux (k : nat) (n : N) (acc : list N) : list N :=
  match k with
  | O => acc
  | S k' => nb_aux k' (N.shiftr n 8) (N.land n 255 :: acc)
  end.

(* the k low-order bytes of n, big-endian *)
Definition nb (k : nat) (n : N) : list N := nb_aux k n [].

Definition chunk_bytes (k : nat) (x : int) : list N := nb k (Z.to_N (Uint63.to_Z x)).

Fixpoint pb (l : list int) (last : nat) : list N :=
  match l with
  | [] => []
  | [x] => chunk_bytes last x
  | x :: r => chunk_bytes 7 x ++ pb r last
  end.
